"""Generated/Fns.lean: the function bodies of /repo/src/injector_core translated by rs2lean.py,
one namespace per (target_os, target_arch) configuration.  A function that is outside the
translator's subset is emitted from translate/pinned_fns.json (the text produced from the clean
tree) and listed in `fallback`; for it the tie to the source is the correspondence run alone."""
import json
import os
import rsparse
import rs2lean
from rs2lean import Translator, FnCompiler, Ctx, Unsupported, compile_fn

CONFIGS = [
    # namespace, cfg, pointer bits, files, root functions
    ("GenX86", {"target_os": "linux", "target_arch": "x86_64", "unix": True}, 64,
     ["injector_core/common.rs", "injector_core/patch_amd64.rs"],
     ["generate_branch_to_target_function", "generate_will_return_boolean_jit_code", "protected_region_size",
      "allocate_jit_memory_unix", "inject_asm_code", "patch_function", "patch_and_guard",
      "replace_function_with_other_function", "replace_function_return_boolean", "drop"]),
    ("GenA64L", {"target_os": "linux", "target_arch": "aarch64", "unix": True}, 64,
     ["injector_core/common.rs", "injector_core/utils.rs", "injector_core/arm64_codegenerator.rs", "injector_core/patch_arm64.rs"],
     ["u64_to_bits", "bool_array_to_u32", "emit_ret_x30", "emit_ret", "emit_br", "emit_movz", "emit_movk",
      "emit_movz_from_address", "emit_movk_from_address", "generate_will_execute_jit_code_abs",
      "generate_will_return_boolean_jit_code", "apply_branch_patch", "replace_function_with_other_function",
      "replace_function_return_boolean"]),
    ("GenA64M", {"target_os": "macos", "target_arch": "aarch64", "unix": True}, 64,
     ["injector_core/common.rs", "injector_core/utils.rs", "injector_core/arm64_codegenerator.rs", "injector_core/patch_arm64.rs"],
     ["maybe_emit_long_jump", "apply_branch_patch", "allocate_jit_memory_unix", "replace_function_with_other_function", "replace_function_return_boolean"]),
    ("GenA32", {"target_os": "linux", "target_arch": "arm", "unix": True}, 32,
     ["injector_core/common.rs", "injector_core/patch_arm.rs"],
     ["replace_function_with_other_function"]),
    # the macOS memory path of common.rs (mach_vm_remap / mach_vm_protect / sys_icache_invalidate): translated on
    # its own, `patch_function` being an external of GenA64M's `apply_branch_patch`
    ("GenMac", {"target_os": "macos", "target_arch": "aarch64", "unix": True}, 64,
     ["injector_core/common.rs"],
     ["inject_asm_code", "patch_function", "drop"]),
    # the Windows / AArch64 allocator (VirtualAlloc loop): translated on its own, judged on the translated code
    ("GenWinA64", {"target_os": "windows", "target_arch": "aarch64", "windows": True}, 64,
     ["injector_core/winapi.rs", "injector_core/common.rs"],
     ["allocate_jit_memory_windows"]),
    ("GenWinX64", {"target_os": "windows", "target_arch": "x86_64", "windows": True}, 64,
     ["injector_core/winapi.rs", "injector_core/common.rs"],
     ["allocate_jit_memory_windows"]),
    # the interface layer (architecture-independent; read in the x86-64 / Linux configuration)
    ("GenIf", {"target_os": "linux", "target_arch": "x86_64", "unix": True}, 64,
     ["interface/injector.rs", "interface/verifier.rs", "interface/func_ptr.rs", "injector_core/internal.rs"],
     ["signature_returns_bool", "WhenCalledBuilder::will_execute_raw", "WhenCalledBuilder::will_execute_raw_unchecked",
      "WhenCalledBuilder::will_execute", "WhenCalledBuilder::will_return_boolean",
      "WhenCalledBuilderAsync::will_return_async", "WhenCalledBuilderAsync::will_return_async_unchecked",
      "InjectorPP::new", "InjectorPP::prevent", "InjectorPP::when_called", "InjectorPP::when_called_unchecked",
      "InjectorPP::Drop::drop", "CallCountVerifier::Drop::drop", "NoPoisonMutex::lock", "FuncPtr::new"]),
]


def load(tr, path):
    for it in rsparse.parse_file(open(path).read()):
        attrs = it[5] if it[0] == "fn" else it[-1]
        if not rsparse.attrs_enabled(attrs, tr.cfg):
            continue
        if it[0] in ("fn", "fn_unsupported"):
            tr.fns.setdefault(it[1].split("::")[-1], it)
            if tr.iface and "::" in it[1]:
                # methods are also known by `Type::method` (trait impls: `Type::Trait::method` and `Type::method`)
                parts = it[1].split("::")
                tr.fns.setdefault(it[1], it)
                tr.fns.setdefault(parts[0] + "::" + parts[-1], it)
        elif it[0] == "enum":
            tr.enums[it[1]] = it[2]
        elif it[0] == "struct":
            tr.structs[it[1]] = it[2]
        elif it[0] == "const":
            try:
                t = tr.ty(it[2])
                if t.kind in ("struct", "opaque"):
                    # a static object (the lock): known by its type only
                    tr.consts[it[1]] = (t, "()", None)
                    continue
                fc = FnCompiler(tr, "<const>", None)
                cx = Ctx(tr, {}, "<const>", {}, False)
                if t.kind == "int":
                    c, _ = fc.typed(it[3], cx, t)
                else:
                    c, _ = fc.expr(it[3], cx, t)
                if cx.lines:
                    continue
                tr.consts[it[1]] = (t, c, it[3][1] if it[3][0] == "int" else None)
            except Unsupported:
                pass


def translate_config(repo, ns, cfg, bits, files, roots):
    tr = Translator(cfg, bits)
    tr.prefix = ns
    tr.iface = ns == "GenIf"
    # macOS `patch_function` is a sequence of mach calls: an external for the translator
    if ns == "GenA64M":
        rs2lean.EXTERNALS["patch_function"] = (None,)
    else:
        rs2lean.EXTERNALS.pop("patch_function", None)
    for k, kind in (("VirtualAlloc", "ptr"), ("VirtualFree", "i32"), ("get_page_size", "ptr")):
        if cfg.get("target_os") == "windows":
            rs2lean.EXTERNALS[k] = (kind,)
        else:
            rs2lean.EXTERNALS.pop(k, None)
    for k in ("pthread_jit_write_protect_np", "sys_dcache_flush", "sys_icache_invalidate", "mach_vm_protect", "mach_vm_remap"):
        if cfg.get("target_os") == "macos":
            rs2lean.EXTERNALS[k] = (None,)
        else:
            rs2lean.EXTERNALS.pop(k, None)
    for f in files:
        # a file whose first line is an inner cfg attribute for another architecture is still read:
        # the attribute is about the file, not about its items
        load(tr, os.path.join(repo, "src", f))
    status = {}
    for r in roots:
        try:
            compile_fn(tr, r)
            status[r] = "translated"
        except Unsupported as ex:
            status[r] = "unsupported: " + str(ex)
        except Exception as ex:  # a bug in the translator must not take the check down
            status[r] = "unsupported: translator error " + repr(ex)[:200]
    defs = {}
    order = []
    for (name, gv, text) in tr.out:
        key = rs2lean.mangle(name, gv)
        defs[key] = text
        order.append(key)
    return defs, order, status


def generate(repo, pinned, report, all_pinned=False):
    out = ["/- GENERATED by translate/fns.py (rs2lean.py) from /repo/src — do not edit. -/",
           "import InjModel.Model.Rt", "set_option linter.unusedVariables false", "namespace Inj", "open Inj"]
    fallback = []
    recognised = []
    new_pinned = {}
    for ns, cfg, bits, files, roots in CONFIGS:
        if all_pinned:
            defs, order, status = {}, [], {r: "not used: the generated file did not compile, pinned text emitted" for r in roots}
        else:
            defs, order, status = translate_config(repo, ns, cfg, bits, files, roots)
        pin = pinned.get(ns, {"defs": {}, "order": []})
        # every definition the pinned file has but this run lacks comes from the pinned text
        final_order = list(order)
        for k in pin["order"]:
            if k not in defs:
                defs[k] = pin["defs"][k]
                fallback.append(f"{ns}.{k}")
                final_order.append(k)
        # keep pinned relative order where possible: pinned-only defs may depend on fresh ones and vice versa;
        # emit fresh definitions first in their own (dependency) order, then the pinned-only ones in pinned order
        for r, st in status.items():
            (recognised if st == "translated" else []).append(f"{ns}.{r}")
        out.append(f"\n/-! ## {ns}: {cfg['target_os']} / {cfg['target_arch']} -/")
        for k in final_order:
            out.append(defs[k])
        new_pinned[ns] = {"defs": {k: defs[k] for k in final_order}, "order": final_order}
        report.setdefault("Fns", {}).setdefault("status", {})[ns] = status
    out.append("/-- functions the translator could not translate from the source as written (pinned text) -/")
    out.append("def Fns.fallback : List String := [" + ", ".join(f'"{x}"' for x in fallback) + "]")
    out.append("end Inj")
    report["Fns"]["fallback"] = fallback
    report["Fns"]["recognised"] = recognised
    return "\n".join(out) + "\n", new_pinned


if __name__ == "__main__":
    import sys
    rep = {}
    pinned_path = os.path.join(os.path.dirname(os.path.abspath(__file__)), "pinned_fns.json")
    pinned = json.load(open(pinned_path)) if os.path.exists(pinned_path) else {}
    text, newp = generate(sys.argv[1], {} if "--fresh" in sys.argv else pinned, rep, all_pinned="--all-pinned" in sys.argv)
    if "--all-pinned" in sys.argv:
        # keep the report of the normal run, only mark the fallback
        try:
            rp = os.path.join(os.path.dirname(os.path.dirname(os.path.abspath(__file__))), "build", "translator_report.json")
            full = json.load(open(rp))
            full["Fns"]["fallback"] = rep["Fns"]["fallback"]
            full["Fns"]["generated_file_did_not_compile"] = True
            json.dump(full, open(rp, "w"), indent=1)
        except Exception:
            pass
    if "--pin" in sys.argv:
        json.dump(newp, open(pinned_path, "w"), indent=0)
    if len(sys.argv) > 2 and not sys.argv[2].startswith("--"):
        open(sys.argv[2], "w").write(text)
    print(json.dumps(rep["Fns"]["status"], indent=1))
