#!/usr/bin/env python3
"""Translator: Rust source of /repo -> lean/InjModel/Generated/*.lean (regenerated on every run).

It never guesses: a construct it does not recognise becomes an explicit `unknown` value, which
makes a proof obligation fail instead of silently passing (DESIGN.md section 2.2)."""
import os
import re
import sys


def write_if_changed(path, text):
    old = open(path).read() if os.path.exists(path) else None
    if old != text:
        os.makedirs(os.path.dirname(path), exist_ok=True)
        open(path, "w").write(text)


def main():
    repo, out = sys.argv[1], sys.argv[2]
    # extended below as the model grows
    import consts
    import layout
    import arms
    write_if_changed(os.path.join(out, "Consts.lean"), consts.generate(repo))
    write_if_changed(os.path.join(out, "Layout.lean"), layout.generate(repo))
    write_if_changed(os.path.join(out, "FakeArms.lean"), arms.generate(repo))


if __name__ == "__main__":
    sys.path.insert(0, os.path.dirname(os.path.abspath(__file__)))
    main()
