#!/usr/bin/env python3
"""Translator: Rust source of /repo -> lean/InjModel/Generated/*.lean (regenerated on every run).

A constant or structural fact it recognises is emitted as read (so a changed value breaks the
proofs that depend on it).  One it does not recognise in the source as written carries the
pinned value of translate/pinned.json and is listed in the file's `fallback` and in
build/translator_report.json: for those items the tie to the code is the correspondence run
alone, and the runner enlarges that run and says so in the evidence (DESIGN.md section 2.2)."""
import json
import os
import re
import sys


def write_if_changed(path, text):
    old = open(path).read() if os.path.exists(path) else None
    if old != text:
        os.makedirs(os.path.dirname(path), exist_ok=True)
        open(path, "w").write(text)


def main():
    repo, out = sys.argv[1], sys.argv[2]
    # extended below as the model grows
    import consts
    import layout
    import arms
    here = os.path.dirname(os.path.abspath(__file__))
    pinned = json.load(open(os.path.join(here, "pinned.json")))
    report = {}
    write_if_changed(os.path.join(out, "Consts.lean"), consts.generate(repo, pinned["Consts"], report))
    write_if_changed(os.path.join(out, "Layout.lean"), layout.generate(repo, pinned["Layout"], report))
    write_if_changed(os.path.join(out, "FakeArms.lean"), arms.generate(repo))
    # function bodies of injector_core translated to Lean (rs2lean.py)
    import fns
    pf = os.path.join(here, "pinned_fns.json")
    pinned_fns = json.load(open(pf)) if os.path.exists(pf) else {}
    text, _ = fns.generate(repo, pinned_fns, report)
    write_if_changed(os.path.join(out, "Fns.lean"), text)
    # literal pool: every integer literal written in the translated source files
    import rustlex
    lits = set()
    for f in ["injector_core/common.rs", "injector_core/patch_amd64.rs", "injector_core/patch_arm64.rs", "injector_core/patch_arm.rs",
              "injector_core/arm64_codegenerator.rs", "injector_core/utils.rs"]:
        try:
            text = rustlex.strip_comments(open(os.path.join(repo, "src", f)).read())
        except OSError:
            continue
        for m in re.finditer(r"(?<![A-Za-z0-9_.])(0x[0-9A-Fa-f_]+|0b[01_]+|[0-9][0-9_]*)(?:[iu](?:8|16|32|64|128|size))?\b", text):
            v = rustlex.parse_int(m.group(1))
            if v is not None and 16 < v < 2 ** 64:
                lits.add(v)
    os.makedirs(os.path.join(os.path.dirname(here), "build"), exist_ok=True)
    write_if_changed(os.path.join(os.path.dirname(here), "build", "literal_pool.txt"), "".join("%x\n" % v for v in sorted(lits)))
    report.setdefault("Fns", {})["literal_pool"] = len(lits)
    rp = os.path.join(os.path.dirname(here), "build", "translator_report.json")
    os.makedirs(os.path.dirname(rp), exist_ok=True)
    json.dump(report, open(rp, "w"), indent=1)


if __name__ == "__main__":
    sys.path.insert(0, os.path.dirname(os.path.abspath(__file__)))
    main()
