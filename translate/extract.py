#!/usr/bin/env python3
"""Translator: Rust source of /repo -> lean/InjModel/Generated/*.lean (regenerated on every run).

A constant or structural fact it recognises is emitted as read (so a changed value breaks the
proofs that depend on it).  One it does not recognise in the source as written carries the
pinned value of translate/pinned.json and is listed in the file's `fallback` and in
build/translator_report.json: for those items the tie to the code is the correspondence run
alone, and the runner enlarges that run and says so in the evidence (DESIGN.md section 2.2)."""
import json
import os
import re
import sys


def write_if_changed(path, text):
    old = open(path).read() if os.path.exists(path) else None
    if old != text:
        os.makedirs(os.path.dirname(path), exist_ok=True)
        open(path, "w").write(text)


def main():
    repo, out = sys.argv[1], sys.argv[2]
    # extended below as the model grows
    import consts
    import layout
    import arms
    here = os.path.dirname(os.path.abspath(__file__))
    pinned = json.load(open(os.path.join(here, "pinned.json")))
    report = {}
    write_if_changed(os.path.join(out, "Consts.lean"), consts.generate(repo, pinned["Consts"], report))
    write_if_changed(os.path.join(out, "Layout.lean"), layout.generate(repo, pinned["Layout"], report))
    write_if_changed(os.path.join(out, "FakeArms.lean"), arms.generate(repo))
    # function bodies of injector_core translated to Lean (rs2lean.py)
    import fns
    pf = os.path.join(here, "pinned_fns.json")
    pinned_fns = json.load(open(pf)) if os.path.exists(pf) else {}
    text, _ = fns.generate(repo, pinned_fns, report)
    write_if_changed(os.path.join(out, "Fns.lean"), text)
    rp = os.path.join(os.path.dirname(here), "build", "translator_report.json")
    os.makedirs(os.path.dirname(rp), exist_ok=True)
    json.dump(report, open(rp, "w"), indent=1)


if __name__ == "__main__":
    sys.path.insert(0, os.path.dirname(os.path.abspath(__file__)))
    main()
