"""Function-level translator: Rust function bodies (the subset of rsparse.py) -> Lean definitions
over the vocabulary of lean/InjModel/Model/Rt.lean.

Representation: unsigned integers and pointers are `Nat`, signed integers `Int`, `bool` is
`Bool`, arrays / slices / `Vec` are `List`.  Every arithmetic operation that can overflow is a
`Res` action whose behaviour depends on the build profile (`mode`).  The emitted code is in
A-normal form inside `do` blocks (only `let x ← e`, `let x := e`, `if`, `pure`), so that the
bridge proofs can unfold it with `simp`.  Mutation is compiled away by shadowing; `if`
statements return the tuple of variables they assign; `for` loops become `Rt.forM'` over the
tuple of variables they assign; `while` loops become fuel-bounded recursive helper definitions.
Calls of functions listed in `EXTERNALS` are OS / memory effects: they are logged (and consume
an oracle answer when their result is used) in the `Rt.M` monad.

Anything outside the subset raises Unsupported: the function is then reported as not translated.
"""
import rsparse
from rsparse import Unsupported

INT_TYPES = {"u8": (False, 8), "u16": (False, 16), "u32": (False, 32), "u64": (False, 64), "u128": (False, 128),
             "i8": (True, 8), "i16": (True, 16), "i32": (True, 32), "i64": (True, 64), "i128": (True, 128)}

# name -> (argument kinds, result type or None, consumes an oracle answer)
EXTERNALS = {
    "mmap": ("ptr",), "munmap": ("i32",), "mprotect": ("i32",), "sysconf": ("i64",),
    "__clear_cache": (None,), "copy_nonoverlapping": (None,),
}


MACH_TYPES = {"mach_vm_address_t": "u64", "mach_vm_size_t": "u64", "vm_prot_t": "i32", "mach_port_t": "u32", "kern_return_t": "i32"}
LIBC_CONSTS = {"VM_PROT_READ": 1, "VM_PROT_WRITE": 2, "VM_PROT_EXECUTE": 4, "VM_PROT_COPY": 0x10, "VM_FLAGS_ANYWHERE": 1,
               "VM_FLAGS_OVERWRITE": 0x4000, "VM_FLAGS_RETURN_DATA_ADDR": 0x100000, "VM_INHERIT_NONE": 2,
               "MAP_ANONYMOUS": 0x20, "MAP_ANON": 0x20, "MAP_PRIVATE": 2, "MAP_JIT": 0x800, "PROT_READ": 1, "PROT_WRITE": 2,
               "PROT_EXEC": 4, "_SC_PAGESIZE": 30}


# interface layer: methods whose receiver lives in the object graph (the injector, its vectors, the lock,
# the per-site counter, the back end) are logged effects named by the receiver's source path; result types:
OPAQUE = None   # set below
EFFECT_METHODS = {"push": "unit", "clear": "unit", "store": "unit", "pop": "option", "load": "usize", "lock": "opaque",
                  "into_inner": "opaque", "will_execute_guard": "opaque", "will_return_boolean_guard": "opaque",
                  "insert": "unit", "truncate": "unit", "swap": "usize", "fetch_add": "usize"}

import re
IDENT_RE = re.compile(r"^[A-Za-z_][A-Za-z0-9_']*$")


class Ty:
    """types of the subset"""

    def __init__(self, kind, a=None, b=None):
        self.kind, self.a, self.b = kind, a, b       # int(name) | bool | list(elem, len|None) | unit | tuple([..]) | range(elem) | lit

    def __eq__(self, o):
        return isinstance(o, Ty) and (self.kind, self.a, self.b) == (o.kind, o.a, o.b)

    def __repr__(self):
        return f"Ty({self.kind},{self.a},{self.b})"


BOOL = Ty("bool")
UNIT = Ty("unit")
LIT = Ty("lit")          # an unsuffixed integer literal whose type is still open
STR = Ty("str")          # `&str` / `String`: the list of its chars (byte offsets are computed from UTF-8 lengths)
CHAR = Ty("char")
OPAQUE = Ty("opaque", "?")


class Translator:
    def __init__(self, cfg, ptr_bits=64):
        self.cfg = cfg
        self.ptr_bits = ptr_bits
        self.consts = {}       # name -> (Ty, lean term)
        self.fns = {}          # name -> item
        self.sigs = {}         # name -> ([param Ty], ret Ty, effectful)
        self.out = []          # emitted Lean definitions (text)
        self.done = {}         # name -> lean name
        self.failed = {}       # name -> reason
        self.tmp = 0
        self.aux = []
        self.prefix = "Gen"
        self.structs = {}      # name -> [(field, type ast)]
        self.mut_params = {}   # fn name -> indices of `&mut` parameters (returned as extra results)
        self.iface = False     # interface layer: unknown types are opaque, calls on the object graph are logged effects
        self.enums = {}        # name -> [(variant, kind, [(field, type ast)])]

    # ------------------------------------------------------------------ types
    def int_info(self, name):
        if name == "usize":
            return (False, self.ptr_bits)
        if name == "isize":
            return (True, self.ptr_bits)
        return INT_TYPES[name]

    def ty(self, t, generics=None):
        k = t[0]
        if k == "tpath":
            n = t[1].split("::")[-1]
            if generics and n in generics:
                return generics[n]
            if n in INT_TYPES or n in ("usize", "isize"):
                return Ty("int", n)
            if n == "bool":
                return BOOL
            if n in ("str", "String"):
                return STR
            if n == "char":
                return CHAR
            if n == "Option" and t[2]:
                return Ty("option", self.ty(t[2][0][1], generics))
            if n == "Vec" and t[2]:
                return Ty("list", self.ty(t[2][0][1], generics), None)
            if n in ("FuncPtrInternal", "c_void"):
                return Ty("int", "usize")
            if n in MACH_TYPES:
                return Ty("int", MACH_TYPES[n])
            if n == "PatchGuard":
                return UNIT
            if n == "RangeInclusive" and t[2]:
                return Ty("range", self.ty(t[2][0][1], generics), True)
            if self.iface:
                if n == "Self" and getattr(self, "current_owner", None):
                    n = self.current_owner
                if n in self.structs:
                    return self.struct_ty(n, generics)
                return Ty("opaque", n)
            raise Unsupported("type " + t[1])
        if k == "tarray":
            return Ty("list", self.ty(t[1], generics), self.const_int(t[2], generics))
        if k == "tslice":
            return Ty("list", self.ty(t[1], generics), None)
        if k == "tref":
            return self.ty(t[2], generics)
        if k == "tptr":
            return Ty("int", "usize")
        if k == "tunit":
            return UNIT
        if k == "ttuple":
            return Ty("tuple", tuple(self.ty(x, generics) for x in t[1]))
        raise Unsupported("type kind " + k)

    def struct_ty(self, n, generics=None):
        fields = []
        for fname, fty in self.structs[n]:
            try:
                ft = self.ty(fty, generics)
            except Unsupported:
                ft = Ty("opaque", "?")
            fields.append((fname, ft))
        return Ty("struct", n, tuple(fields))

    def lean_ty(self, t):
        if t.kind == "opaque":
            return "Unit"
        if t.kind == "struct":
            if not t.b:
                return "Unit"
            if len(t.b) == 1:
                return self.lean_ty(t.b[0][1])
            return "(" + " × ".join(self.lean_ty(ft) for _, ft in t.b) + ")"
        if t.kind == "int":
            return "Int" if self.int_info(t.a)[0] else "Nat"
        if t.kind == "bool":
            return "Bool"
        if t.kind == "list":
            return "(List %s)" % self.lean_ty(t.a)
        if t.kind == "unit":
            return "Unit"
        if t.kind == "str":
            return "(List Char)"
        if t.kind == "char":
            return "Char"
        if t.kind == "option":
            return "(Option %s)" % self.lean_ty(t.a)
        if t.kind == "tuple":
            return "(" + " × ".join(self.lean_ty(x) for x in t.a) + ")"
        raise Unsupported("lean type of " + repr(t))

    def const_int(self, e, generics=None):
        """evaluate a constant integer expression (array lengths, const generics)"""
        if e[0] == "int":
            return e[1]
        if e[0] == "path" and len(e[1]) == 1:
            n = e[1][0]
            if generics and n in generics and isinstance(generics[n], int):
                return generics[n]
            if n in self.consts and self.consts[n][2] is not None:
                return self.consts[n][2]
        if e[0] == "paren":
            return self.const_int(e[1], generics)
        if e[0] == "block" and not e[1] and e[2] is not None:
            return self.const_int(e[2], generics)
        raise Unsupported("constant integer expression")

    def fresh(self, base="t"):
        self.tmp += 1
        return f"{base}_{self.tmp}"


class Ctx:
    """compilation context of one do-block"""

    def __init__(self, tr, env, fn, generics, effectful, parent=None):
        self.tr = tr
        self.env = dict(env)          # rust name -> (lean name, Ty)
        self.fn = fn
        self.generics = generics
        self.effectful = effectful
        self.lines = []
        self.mutated = set()

    def child(self):
        c = Ctx(self.tr, self.env, self.fn, self.generics, self.effectful)
        return c

    def emit(self, s):
        self.lines.append(s)

    def bind(self, action, base="t"):
        v = self.tr.fresh(base)
        self.emit(f"let {v} ← {action}")
        return v

    def let(self, name, term):
        self.emit(f"let {name} := {term}")


def char_lit(cp):
    if 32 <= cp < 127 and chr(cp) not in "'\\":
        return f"'{chr(cp)}'"
    return f"(Char.ofNat {cp})"


def str_lit(body):
    """a Rust string literal body (escapes as written) as a Lean list of chars"""
    out = []
    i = 0
    esc = {"n": 10, "r": 13, "t": 9, "\\": 92, "0": 0, "'": 39, '"': 34}
    while i < len(body):
        c = body[i]
        if c == "\\":
            if i + 1 < len(body) and body[i + 1] in esc:
                out.append(esc[body[i + 1]])
                i += 2
                continue
            raise Unsupported("string escape")
        out.append(ord(c))
        i += 1
    return "([" + ", ".join(char_lit(x) for x in out) + "] : List Char)"


def proj(code, i, n):
    """i-th component of an n-ary Lean product (right-nested pairs)"""
    if n == 1:
        return code
    if i < n - 1:
        return f"({code})" + ".2" * i + ".1"
    return f"({code})" + ".2" * i


def path_text(e):
    """source text of a place expression (`self.lib.guards`, `counter`, `LOCK_FUNCTION`)"""
    if e[0] == "path":
        return "::".join(e[1])
    if e[0] == "field":
        return path_text(e[1]) + "." + e[2]
    if e[0] == "paren":
        return path_text(e[1])
    if e[0] == "unary" and e[1] in ("&", "&mut", "*"):
        return path_text(e[2])
    if e[0] == "method":
        return path_text(e[1]) + "." + e[2] + "()"
    if e[0] == "index":
        return path_text(e[1]) + "[]"
    return "<expr>"


def lit_str(v, signed):
    if signed:
        return f"({v} : Int)" if v >= 0 else f"(-{-v} : Int)"
    return f"({v} : Nat)"


class FnCompiler:
    def __init__(self, tr, name, item, generic_vals=None):
        self.tr = tr
        self.name = name
        self.item = item
        self.generic_vals = generic_vals or {}
        self.ret_ty = None
        self.effectful = False
        self.ret = lambda c: f"pure {c}"          # how `return c` ends the current do-block
        self.fall = lambda: "pure ()"              # how falling off the end of the statement list ends it
        self.needs_fuel = False
        self.nloops = 0

    # ------------------------------------------------------------------ expression helpers
    def is_signed(self, t):
        return self.tr.int_info(t.a)[0]

    def bits(self, t):
        return self.tr.int_info(t.a)[1]

    def coerce_lit(self, code, t, want):
        """code of an open literal `(v)` specialised to type want"""
        return code

    def expr(self, e, cx, want=None):
        """returns (lean term, Ty).  Effects are hoisted into cx.lines."""
        k = e[0]
        tr = self.tr
        if k == "paren":
            return self.expr(e[1], cx, want)
        if k == "int":
            if e[2]:
                t = Ty("int", e[2])
            elif want is not None and want.kind == "int":
                t = want
            else:
                return (str(e[1]), LIT)
            return (lit_str(e[1], self.is_signed(t)), t)
        if k == "bool":
            return ("true" if e[1] else "false", BOOL)
        if k == "char":
            return (char_lit(e[1]), CHAR)
        if k == "str":
            return (str_lit(e[1]), STR)
        if k == "match":
            return self.expr(self.desugar_match(e, cx), cx, want)
        if k == "structlit":
            return self.structlit(e, cx)
        if k == "iflet":
            return self.iflet_expr(e, cx, want)
        if k == "path":
            return self.path(e, cx, want)
        if k == "unary":
            return self.unary(e, cx, want)
        if k == "binary":
            return self.binary(e, cx, want)
        if k == "cast":
            return self.cast(e, cx)
        if k == "array":
            elems = []
            et = want.a if (want is not None and want.kind == "list") else None
            for x in e[1]:
                c, t = self.expr(x, cx, et)
                if t == LIT:
                    raise Unsupported("array of untyped literals")
                et = t
                elems.append(c)
            if et is None:
                raise Unsupported("empty array literal")
            return ("[" + ", ".join(elems) + "]", Ty("list", et, len(elems)))
        if k == "repeat":
            et = want.a if (want is not None and want.kind == "list") else None
            c, t = self.expr(e[1], cx, et)
            if t == LIT:
                raise Unsupported("repeat of untyped literal")
            n = tr.const_int(e[2], self.generic_vals)
            return (f"(List.replicate {n} {c})", Ty("list", t, n))
        if k == "index":
            return self.index(e, cx)
        if k == "if":
            return self.if_expr(e, cx, want)
        if k == "block" or k == "unsafe":
            b = e if k == "block" else e[1]
            return self.block_value(b, cx, want)
        if k == "call":
            return self.call(e, cx, want)
        if k == "method":
            return self.method(e, cx, want)
        if k == "tuple":
            if not e[1]:
                return ("()", UNIT)
            parts = [self.expr(x, cx) for x in e[1]]
            return ("(" + ", ".join(p[0] for p in parts) + ")", Ty("tuple", tuple(p[1] for p in parts)))
        if k == "macro":
            return self.macro(e, cx, want)
        if k == "field":
            b = e[1]
            if b[0] == "path" and b[1] == ["self"] and ("self." + e[2]) in cx.env:
                return cx.env["self." + e[2]]
            if b[0] == "field" or b[0] == "path":
                bc, bt = self.expr(b, cx)
                if bt.kind == "tuple" and e[2].isdigit():
                    i = int(e[2])
                    return (f"{bc}.{i + 1}", bt.a[i])
                if bt.kind == "struct":
                    names = [f for f, _ in bt.b]
                    if e[2] in names:
                        i = names.index(e[2])
                        return (proj(bc, i, len(names)), bt.b[i][1])
                if bt.kind == "opaque":
                    return ("()", OPAQUE)
            raise Unsupported("field access " + e[2])
        if k == "range":
            lo, lt = self.expr(e[1], cx, want.a if want is not None and want.kind == "range" else None) if e[1] else (None, None)
            hi, ht = self.expr(e[2], cx, lt if lt not in (None, LIT) else None) if e[2] else (None, None)
            t = lt if lt not in (None, LIT) else ht
            if t in (None, LIT):
                t = Ty("int", "usize")
                if lo is not None and lt == LIT:
                    lo = f"({lo} : Nat)"
                if hi is not None and ht == LIT:
                    hi = f"({hi} : Nat)"
            else:
                if lt == LIT:
                    lo = lit_str(int(lo), self.is_signed(t))
                if ht == LIT:
                    hi = lit_str(int(hi), self.is_signed(t))
            return ((lo, hi, e[3]), Ty("range", t, e[3]))
        raise Unsupported("expression " + k)

    def structlit(self, e, cx):
        segs, fields, base = e[1], e[2], e[3]
        name = segs[-1]
        if name == "Self":
            name = self.item[1].split("::")[0]
        if base is not None:
            raise Unsupported("struct update syntax")
        if name in self.tr.structs:
            st = self.tr.struct_ty(name, self.generic_vals)
            given = dict(fields)
            parts = []
            for fname, ft in st.b:
                if fname not in given:
                    raise Unsupported("struct literal without field " + fname)
                c, t = self.expr(given[fname], cx, ft)
                if t == LIT:
                    c, t = self.typed(given[fname], cx, ft)
                if isinstance(c, tuple):
                    raise Unsupported("range in struct literal")
                if ft.kind in ("opaque",) or t.kind in ("opaque",):
                    c = "()"
                elif t.kind == "list" and t.a is None:
                    c = f"([] : {self.tr.lean_ty(ft)})"
                parts.append(c)
            if not parts:
                return ("()", st)
            return (("(" + ", ".join(parts) + ")") if len(parts) != 1 else parts[0], st)
        if not self.tr.iface:
            raise Unsupported("struct literal of unknown struct " + name)
        for _, fe in fields:
            self.expr(fe, cx)
        return ("()", Ty("opaque", name))

    def typed(self, e, cx, want):
        """expression forced to an integer type `want` when it is an open literal"""
        c, t = self.expr(e, cx, want)
        if t == LIT:
            if want is None or want.kind != "int":
                raise Unsupported("cannot type literal")
            return (lit_str(int(c), self.is_signed(want)), want)
        return (c, t)

    def path(self, e, cx, want):
        segs = e[1]
        tr = self.tr
        if len(segs) == 1:
            n = segs[0]
            if n in cx.env:
                return cx.env[n]
            if n in self.generic_vals and isinstance(self.generic_vals[n], int):
                return (f"({self.generic_vals[n]} : Nat)", Ty("int", "usize"))
            if n in tr.consts:
                t, code, _ = tr.consts[n]
                if tr.iface and t.kind in ("struct", "opaque") and cx.effectful:
                    cx.emit(f'Rt.extU "static {n}" []')      # which static object is used (the lock)
                return (code, t)
            if n in LIBC_CONSTS:
                return (lit_str(LIBC_CONSTS[n], True), Ty("int", "i32"))
            if n == "MAP_FAILED":
                return (f"({2 ** tr.ptr_bits - 1} : Nat)", Ty("int", "usize"))
            if tr.iface and n == "self" and getattr(self, "self_ty", None) is not None:
                st = self.self_ty
                if st.kind == "struct":
                    parts = [cx.env["self." + f][0] for f, _ in st.b]
                    return (("(" + ", ".join(parts) + ")") if len(parts) != 1 else parts[0], st) if parts else ("()", st)
                return ("()", st)
            if tr.iface and (n.isupper() or n == "__opaque"):
                return ("()", Ty("opaque", n))
            raise Unsupported("unknown name " + n)
        if len(segs) == 2 and segs[0] in INT_TYPES or segs[0] in ("usize", "isize"):
            t = Ty("int", segs[0])
            signed, bits = tr.int_info(segs[0])
            if segs[1] == "MAX":
                v = 2 ** (bits - 1) - 1 if signed else 2 ** bits - 1
            elif segs[1] == "MIN":
                v = -2 ** (bits - 1) if signed else 0
            else:
                raise Unsupported("assoc const " + segs[1])
            return (lit_str(v, signed), t)
        last = segs[-1]
        if last in LIBC_CONSTS:
            return (lit_str(LIBC_CONSTS[last], True), Ty("int", "i32"))
        if last == "MAP_FAILED":
            return (f"({2 ** tr.ptr_bits - 1} : Nat)", Ty("int", "usize"))
        if last in tr.consts:
            t, code, _ = tr.consts[last]
            return (code, t)
        raise Unsupported("path " + "::".join(segs))

    def unary(self, e, cx, want):
        op = e[1]
        if op in ("&", "&mut", "*"):
            return self.expr(e[2], cx, want)
        if op == "-":
            if e[2][0] == "int" and not e[2][2]:
                if want is not None and want.kind == "int":
                    return (lit_str(-e[2][1], True), want)
                return (str(-e[2][1]), LIT)
            c, t = self.typed(e[2], cx, want)
            if t.kind != "int" or not self.is_signed(t):
                raise Unsupported("negation of unsigned")
            return (cx.bind(f"Rt.sneg {self.bits(t)} mode {c}"), t)
        if op == "!":
            c, t = self.typed(e[2], cx, want)
            if t == BOOL:
                return (f"(!{c})", BOOL)
            if t.kind == "int":
                if self.is_signed(t):
                    return (f"(Rt.snot {c})", t)
                return (f"(Rt.unot {self.bits(t)} {c})", t)
        raise Unsupported("unary " + op)

    def binary(self, e, cx, want):
        op, a, b = e[1], e[2], e[3]
        if op in ("&&", "||"):
            ca, ta = self.expr(a, cx, BOOL)
            sub = cx.child()
            cb, tb = self.expr(b, sub, BOOL)
            if ta != BOOL or tb != BOOL:
                raise Unsupported("non-bool operand of " + op)
            if sub.lines:
                body = self.render(sub.lines + [f"pure {cb}"], 2)
                if op == "&&":
                    v = cx.bind(f"(if {ca} then (do\n{body}) else pure false)")
                else:
                    v = cx.bind(f"(if {ca} then pure true else (do\n{body}))")
                return (v, BOOL)
            return (f"({ca} {op} {cb})", BOOL)
        if op in ("==", "!=", "<", ">", "<=", ">="):
            ca, ta = self.expr(a, cx)
            cb, tb = self.expr(b, cx, ta if ta != LIT else None)
            if ta == LIT and tb != LIT:
                ca, ta = self.typed(a, cx, tb)
            if tb == LIT and ta != LIT:
                cb, tb = self.typed(b, cx, ta)
            if ta == LIT:
                raise Unsupported("comparison of two literals")
            lop = {"==": "==", "!=": "!=", "<": "<", ">": ">", "<=": "≤", ">=": "≥"}[op]
            if lop in ("==", "!="):
                return (f"({ca} {lop} {cb})", BOOL)
            return (f"(decide ({ca} {lop} {cb}))", BOOL)
        # arithmetic / bit operations
        if op in ("<<", ">>"):
            ca, ta = self.expr(a, cx, want)
            if ta == LIT:
                # `1 << i`: the literal takes the expected type, or i32 by default
                ta = want if (want is not None and want.kind == "int") else Ty("int", "i32")
                ca = lit_str(int(ca), self.is_signed(ta))
            cb, tb = self.expr(b, cx)
            if tb == LIT:
                cb = f"({cb} : Nat)"
            elif tb.kind == "int" and self.is_signed(tb):
                cb = f"(Int.toNat {cb})"
            f = ("s" if self.is_signed(ta) else "u") + ("shl" if op == "<<" else "shr")
            return (cx.bind(f"Rt.{f} {self.bits(ta)} mode {ca} {cb}"), ta)
        if want is None and literal_only(a) and not literal_only(b):
            probe = cx.child()
            _, tb0 = self.expr(b, probe)
            if tb0 != LIT and tb0.kind == "int":
                want = tb0
        ca, ta = self.expr(a, cx, want)
        cb, tb = self.expr(b, cx, ta if ta != LIT else want)
        if ta == LIT and tb != LIT:
            ca, ta = self.typed(a, cx, tb)
        if tb == LIT and ta != LIT:
            cb, tb = self.typed(b, cx, ta)
        if ta == LIT and tb == LIT:
            if want is not None and want.kind == "int":
                ca, ta = self.typed(a, cx, want)
                cb, tb = self.typed(b, cx, want)
            else:
                raise Unsupported("arithmetic on untyped literals")
        if ta == BOOL and tb == BOOL and op in ("&", "|", "^"):
            return (f"({ca} {'&&' if op == '&' else '||' if op == '|' else '^^'} {cb})", BOOL)
        if ta.kind != "int" or ta != tb:
            raise Unsupported(f"operands of {op}: {ta} vs {tb}")
        s, bits = self.is_signed(ta), self.bits(ta)
        if op in ("+", "-", "*"):
            f = ("s" if s else "u") + {"+": "add", "-": "sub", "*": "mul"}[op]
            return (cx.bind(f"Rt.{f} {bits} mode {ca} {cb}"), ta)
        if op in ("/", "%"):
            f = ("s" if s else "u") + ("div" if op == "/" else "rem")
            return (cx.bind(f"Rt.{f} {bits} {ca} {cb}" if s else f"Rt.{f} {ca} {cb}"), ta)
        if op in ("&", "|", "^"):
            if s:
                if op == "^":
                    raise Unsupported("signed xor")
                return (f"(Rt.s{'band' if op == '&' else 'bor'} {bits} {ca} {cb})", ta)
            return (f"(Rt.{ {'&': 'band', '|': 'bor', '^': 'bxor'}[op]} {ca} {cb})", ta)
        raise Unsupported("binary " + op)

    def cast(self, e, cx):
        tgt = self.tr.ty(e[2], self.generic_vals)
        # `x as usize as u64` etc.; a literal takes the target type directly
        c, t = self.expr(e[1], cx, tgt if e[1][0] in ("int",) or (e[1][0] == "unary" and e[1][1] == "-") else None)
        if t == LIT:
            if tgt.kind != "int":
                raise Unsupported("literal cast")
            v = int(c)
            s, bits = self.tr.int_info(tgt.a)
            v %= 2 ** bits
            if s and v >= 2 ** (bits - 1):
                v -= 2 ** bits
            return (lit_str(v, s), tgt)
        if tgt.kind != "int":
            if tgt == t:
                return (c, t)
            raise Unsupported("cast to " + repr(tgt))
        ts, tb = self.tr.int_info(tgt.a)
        if t == BOOL:
            return (f"(Int.ofNat (Rt.ofBool {c}))" if ts else f"(Rt.ofBool {c})", tgt)
        if t.kind != "int":
            raise Unsupported("cast from " + repr(t))
        ss, sb = self.tr.int_info(t.a)
        if t == tgt:
            return (c, t)
        if not ss and not ts:
            return (c if sb <= tb else f"(Rt.castUU {tb} {c})", tgt)
        if not ss and ts:
            return (f"(Int.ofNat {c})" if sb < tb else f"(Rt.castUS {tb} {c})", tgt)
        if ss and not ts:
            return (f"(Rt.castSU {tb} {c})", tgt)
        return (c if sb <= tb else f"(Rt.castSS {tb} {c})", tgt)

    def index(self, e, cx):
        c, t = self.expr(e[1], cx)
        if t.kind == "str" and e[2][0] == "range":
            r = e[2]
            lo = self.typed(r[1], cx, Ty("int", "usize"))[0] if r[1] is not None else "0"
            if r[2] is None:
                return (cx.bind(f"Rt.strFrom {c} {lo}"), STR)
            hi = self.typed(r[2], cx, Ty("int", "usize"))[0]
            if r[3]:
                hi = f"({hi} + 1)"
            return (cx.bind(f"Rt.strSlice {c} {lo} {hi}"), STR)
        if t.kind != "list":
            raise Unsupported("index into " + repr(t))
        if e[2][0] == "range":
            lo, hi = self.range_bounds(e[2], cx, c)
            return (cx.bind(f"Rt.slice {c} {lo} {hi}"), Ty("list", t.a, None))
        i, it = self.typed(e[2], cx, Ty("int", "usize"))
        return (cx.bind(f"Rt.idx {c} {i}"), t.a)

    def range_bounds(self, r, cx, lst):
        lo = "0"
        hi = f"(List.length {lst})"
        if r[1] is not None:
            lo = self.typed(r[1], cx, Ty("int", "usize"))[0]
        if r[2] is not None:
            hi = self.typed(r[2], cx, Ty("int", "usize"))[0]
            if r[3]:
                hi = f"({hi} + 1)"
        return lo, hi

    def render(self, lines, indent):
        pad = "  " * indent
        out = []
        for l in lines:
            out.append("\n".join(pad + x for x in l.split("\n")))
        return "\n".join(out)

    def if_expr(self, e, cx, want):
        cc, ct = self.expr(e[1], cx, BOOL)
        if ct != BOOL:
            raise Unsupported("if condition")
        if e[3] is None:
            raise Unsupported("if expression without else")
        tcx = cx.child()
        tv, tt = self.block_value(e[2], tcx, want)
        ecx = cx.child()
        eb = e[3] if e[3][0] == "block" else ("block", [], e[3], [])
        ev, et = self.block_value(eb, ecx, want if tt == LIT else tt)
        if tt == LIT and et != LIT:
            tcx = cx.child()
            tv, tt = self.block_value(e[2], tcx, et)
        if tt != et:
            # lists of different known length are still lists
            if tt.kind == "list" and et.kind == "list" and tt.a == et.a:
                tt = Ty("list", tt.a, None)
            else:
                raise Unsupported(f"if branches differ: {tt} vs {et}")
        if tt == LIT:
            raise Unsupported("if of untyped literals")
        if not tcx.lines and not ecx.lines:
            return (f"(if {cc} then {tv} else {ev})", tt)
        tb = self.render(tcx.lines + [f"pure {tv}"], 2)
        eb_ = self.render(ecx.lines + [f"pure {ev}"], 2)
        return (cx.bind(f"(if {cc} then (do\n{tb}) else (do\n{eb_}))"), tt)

    def block_value(self, b, cx, want):
        """a block used as an expression: statements then tail; compiled into cx itself (scoping by shadowing)"""
        if b[0] == "unsafe":
            b = b[1]
        stmts = [s for s in b[1] if rsparse.attrs_enabled(s[-1], self.tr.cfg)]
        tail = b[2]
        if tail is None and stmts and stmts[-1][0] == "expr" and not stmts[-1][2]:
            tail = stmts[-1][1]
            stmts = stmts[:-1]
        saved = dict(cx.env)
        res = self.stmts(stmts, tail, cx, want, as_value=True)
        cx.env = saved
        return res

    # ------------------------------------------------------------------ calls
    def call(self, e, cx, want):
        callee = e[1]
        if callee[0] != "path":
            raise Unsupported("call of non-path")
        segs, gargs = callee[1], callee[2]
        name = segs[-1]
        if segs[:-1] and segs[0] == "Vec" and name in ("new", "with_capacity"):
            if want is None or want.kind != "list":
                return ("[]", Ty("list", None, None))
            return (f"([] : {self.tr.lean_ty(want)})", want)
        if len(segs) >= 2 and segs[-2] == "PatchGuard" and name == "new":
            saved = EXTERNALS.get("PatchGuard::new")
            EXTERNALS["PatchGuard::new"] = (None,)
            try:
                return self.external("PatchGuard::new", e[2], cx)
            finally:
                if saved is None:
                    del EXTERNALS["PatchGuard::new"]
        if name in ("null_mut", "null") and not e[2]:
            return ("(0 : Nat)", Ty("int", "usize"))
        if name == "zeroed" and not e[2] and want is not None and want.kind == "int":
            return (lit_str(0, self.is_signed(want)), want)
        if name == "mach_task_self" and not e[2]:
            return ("(0 : Nat)", Ty("int", "u32"))
        if self.tr.iface:
            q = "::".join(segs[-2:])
            if len(segs) >= 2 and segs[-2] == "Self":
                q = self.item[1].split("::")[0] + "::" + name
            if len(segs) >= 2 and q in self.tr.fns:
                return self.internal_call(q, gargs, e[2], cx)
            if name in ("replace_function_with_other_function", "replace_function_return_boolean"):
                # the back end (translated in its own configurations): an effect of the interface layer
                return self.effect(name, e[2], cx, "opaque")
            if name == "drop" and len(e[2]) == 1:
                return self.effect("drop", e[2], cx, "unit")
            if name == "panicking":
                return self.effect("panicking", [], cx, "bool")
            if len(segs) >= 2 and segs[-2] == "NonNull" and name == "new" and len(e[2]) == 1:
                c, t = self.typed(e[2][0], cx, Ty("int", "usize"))
                return (f"(if {c} == 0 then none else some {c})", Ty("option", Ty("int", "usize")))
            if len(segs) >= 2 and segs[-2] == "FuncPtrInternal" and name == "new" and len(e[2]) == 1:
                return self.typed(e[2][0], cx, Ty("int", "usize"))
        if name in EXTERNALS:
            return self.external(name, e[2], cx)
        if len(segs) >= 2 and segs[-2] == "Self" and ("Self::" + name) in self.tr.fns:
            return self.internal_call("Self::" + name, gargs, e[2], cx)
        if name in self.tr.fns and (not self.tr.iface or len(segs) == 1):
            return self.internal_call(name, gargs, e[2], cx)
        raise Unsupported("call of " + "::".join(segs))

    def internal_call(self, name, gargs, args, cx, self_vals=None):
        gv = []
        for g in gargs:
            if g[0] == "gexpr":
                gv.append(self.tr.const_int(g[1], self.generic_vals))
            else:
                raise Unsupported("type generic argument")
        lean_name, ptys, rty, eff, fuel = compile_fn(self.tr, name, tuple(gv))
        if fuel:
            self.needs_fuel = True
            lean_name = lean_name + " mode fuel"
        else:
            lean_name = lean_name + " mode"
        if eff and not cx.effectful:
            raise Unsupported("effectful call from pure function")
        cargs = list(self_vals or [])
        outs = []
        muts = self.tr.mut_params.get(name, [])
        nself = len(cargs)
        for i, (a, pt) in enumerate(zip(args, ptys[nself:])):
            c, t = self.typed(a, cx, pt)
            if not compatible(t, pt):
                raise Unsupported(f"argument type {t} for {pt}")
            cargs.append(c)
            if i in muts:
                root = a
                while root[0] in ("unary", "paren"):
                    root = root[2] if root[0] == "unary" else root[1]
                if root[0] != "path" or len(root[1]) != 1 or root[1][0] not in cx.env:
                    raise Unsupported("&mut argument is not a variable")
                outs.append(cx.env[root[1][0]][0])
        if not outs:
            v = cx.bind(f"{lean_name} " + " ".join(cargs), name.split("::")[-1][:12])
            return (v, rty)
        v = self.tr.fresh(name.split("::")[-1][:12])
        pat = "(" + ", ".join(([v] if rty != UNIT else []) + outs) + ")" if (len(outs) + (rty != UNIT)) > 1 else outs[0]
        cx.emit(f"let {pat} ← {lean_name} " + " ".join(cargs))
        return (v if rty != UNIT else "()", rty)

    def logged_args(self, args, cx):
        vals = []
        for a in args:
            try:
                c, t = self.expr(a, cx)
            except Unsupported:
                vals.append('Rt.Val.n 0')
                continue
            if t == LIT:
                vals.append(f"Rt.Val.n ({c})")
            elif t.kind == "int":
                vals.append(f"Rt.Val.n {c}" if self.is_signed(t) else f"Rt.Val.n (Int.ofNat {c})")
            elif t.kind == "list" and t.a is not None and t.a.kind == "int":
                vals.append(f"Rt.Val.bs {c}")
            elif t == BOOL:
                vals.append(f"Rt.Val.n (Int.ofNat (Rt.ofBool {c}))")
            else:
                vals.append("Rt.Val.n 0")
        return "[" + ", ".join(vals) + "]"

    def effect(self, name, args, cx, kind, discard=False):
        """a logged call on the object graph (interface layer); `kind` says what comes back"""
        if not cx.effectful:
            raise Unsupported("effect in pure function")
        al = self.logged_args(args, cx)
        if discard or kind in ("unit", "opaque"):
            cx.emit(f'Rt.extU "{name}" {al}')
            return ("()", UNIT if kind == "unit" else OPAQUE)
        if kind == "usize":
            return (cx.bind(f'Rt.extN "{name}" {al}', "eff"), Ty("int", "usize"))
        if kind == "bool":
            v = cx.bind(f'Rt.extN "{name}" {al}', "eff")
            return (f"({v} != 0)", BOOL)
        if kind == "option":
            return (cx.bind(f'Rt.extO "{name}" {al}', "eff"), Ty("option", OPAQUE))
        raise Unsupported("effect kind " + kind)

    def owner_of(self, recv, cx):
        """name of the struct / enum a receiver expression has (for `recv.method()` on an internal method)"""
        if recv[0] == "path" and recv[1] == ["self"]:
            return self.item[1].split("::")[0], None
        try:
            probe = cx.child()
            c, t = self.expr(recv, probe)
        except Unsupported:
            return None, None
        if probe.lines and all(l.startswith('Rt.extU "static ') for l in probe.lines):
            for l in probe.lines:
                cx.emit(l)
        elif probe.lines:
            return None, None
        if t.kind == "struct":
            return t.a, (c, t)
        if t.kind == "opaque":
            return t.a, (c, t)
        return None, None

    def self_args(self, owner, val, cx):
        """the arguments that stand for `self` at a call of an internal method of `owner`"""
        if owner not in self.tr.structs:
            return []
        st = self.tr.struct_ty(owner, self.generic_vals)
        if val is None:
            return [cx.env["self." + f][0] for f, _ in st.b]
        c, t = val
        if t.kind != "struct":
            return ["()" for _ in st.b]
        return [proj(c, i, len(st.b)) for i in range(len(st.b))]

    def external(self, name, args, cx, discard=False):
        if not cx.effectful:
            raise Unsupported("external call in pure function")
        if name == "copy_nonoverlapping" and len(args) == 3 and args[1][0] == "method" and args[1][2] == "as_mut_ptr":
            # ptr::copy_nonoverlapping(src, buf.as_mut_ptr(), n): the local buffer receives n bytes of memory
            tgt = args[1][1]
            if tgt[0] != "path" or len(tgt[1]) != 1 or tgt[1][0] not in cx.env:
                raise Unsupported("copy into a non-local buffer")
            ln, t = cx.env[tgt[1][0]]
            src, st = self.typed(args[0], cx, Ty("int", "usize"))
            n, nt = self.typed(args[2], cx, Ty("int", "usize"))
            v = cx.bind(f'Rt.extB "read_bytes" [Rt.Val.n (Int.ofNat {src}), Rt.Val.n (Int.ofNat {n})]', "read")
            cx.let(ln, v)
            return ("()", UNIT)
        if name == "mach_vm_remap" and len(args) >= 2 and args[1][0] == "unary" and args[1][1] == "&mut":
            # the second argument is an out-parameter: the address the kernel chose (oracle)
            tgt = args[1][2]
            if tgt[0] != "path" or len(tgt[1]) != 1 or tgt[1][0] not in cx.env:
                raise Unsupported("mach_vm_remap into a non-local")
            ln, t = cx.env[tgt[1][0]]
            al = self.logged_args(args, cx)
            v = cx.bind(f'Rt.extN "mach_vm_remap" {al}', "remap")
            cx.let(ln, v)
            return ("()", UNIT)
        al = self.logged_args(args, cx)
        ret = EXTERNALS[name][0]
        if ret is None or discard:
            cx.emit(f'Rt.extU "{name}" {al}')
            return ("()", UNIT)
        if ret == "ptr":
            return (cx.bind(f'Rt.extN "{name}" {al}', name), Ty("int", "usize"))
        if ret == "i32":
            return (cx.bind(f'Rt.extI "{name}" {al}', name), Ty("int", "i32"))
        if ret == "i64":
            return (cx.bind(f'Rt.extI "{name}" {al}', name), Ty("int", "i64"))
        if ret == "bytes":
            return (cx.bind(f'Rt.extB "{name}" {al}', name), Ty("list", Ty("int", "u8"), None))
        if ret == "bool":
            v = cx.bind(f'Rt.extN "{name}" {al}', name)
            return (f"({v} != 0)", BOOL)
        raise Unsupported("external " + name)

    def method(self, e, cx, want):
        recv, name, gargs, args = e[1], e[2], e[3], e[4]
        # iterator chains are handled where they are consumed
        if name == "fold":
            return self.fold(e, cx, want)
        if self.tr.iface:
            owner, val = self.owner_of(recv, cx)
            if owner is not None and f"{owner}::{name}" in self.tr.fns:
                return self.internal_call(f"{owner}::{name}", gargs, args, cx, self_vals=self.self_args(owner, val, cx))
            if name in EFFECT_METHODS:
                return self.effect(path_text(recv) + "." + name, args, cx, EFFECT_METHODS[name])
            if name == "expect" and len(args) == 1:
                c, t = self.expr(recv, cx)
                if t.kind == "option":
                    msg = args[0][1][:40].replace('"', "") if args[0][0] == "str" else "expect"
                    pn = f'Rt.panicNow "{msg}"' if cx.effectful else f'Res.panic "{msg}"'
                    v = self.tr.fresh("v")
                    return (cx.bind(f"(match {c} with\n| some {v} => pure {v}\n| none => {pn})"), t.a)
        if name in ("as_ptr", "as_mut_ptr", "iter", "to_vec", "clone", "cast", "as_slice"):
            c, t = self.expr(recv, cx, want)
            if name == "to_vec" and t.kind == "list":
                t = Ty("list", t.a, None)
            return (c, t)
        if name == "contains" and len(args) == 1:
            rc, rt = self.expr(recv, cx)
            if rt.kind != "range":
                raise Unsupported("contains on non-range")
            lo, hi, inc = rc
            x, xt = self.typed(args[0], cx, rt.a)
            hi_cmp = "≤" if inc else "<"
            conds = []
            if lo is not None:
                conds.append(f"decide ({lo} ≤ {x})")
            if hi is not None:
                conds.append(f"decide ({x} {hi_cmp} {hi})")
            return ("(" + " && ".join(conds) + ")", BOOL)
        c, t = self.expr(recv, cx)
        if t == LIT:
            raise Unsupported("method on untyped literal")
        if t.kind == "int":
            s, bits = self.is_signed(t), self.bits(t)
            if name == "to_le_bytes":
                pat = c if not s else f"(Rt.castSU {bits} {c})"
                return (f"(Rt.leBytes {bits // 8} {pat})", Ty("list", Ty("int", "u8"), bits // 8))
            one = lambda: self.typed(args[0], cx, t)[0]
            if name == "saturating_sub" and not s:
                return (f"(Rt.satSub {c} {one()})", t)
            if name == "saturating_add" and not s:
                return (f"(Rt.satAddU {bits} {c} {one()})", t)
            if name == "abs_diff" and not s:
                return (f"(Rt.absDiff {c} {one()})", t)
            if name == "wrapping_sub":
                return ((f"(Rt.wrapSubS {bits} {c} {one()})" if s else f"(Rt.wrapSubU {bits} {c} {one()})"), t)
            if name == "wrapping_add":
                return ((f"(Rt.wrapAddS {bits} {c} {one()})" if s else f"(Rt.wrapAddU {bits} {c} {one()})"), t)
            if name == "max":
                return (f"(max {c} {one()})", t)
            if name == "min":
                return (f"(min {c} {one()})", t)
            if name == "is_null":
                return (f"({c} == 0)", BOOL)
            if name in ("add", "offset") and not s:
                o, ot = self.typed(args[0], cx, Ty("int", "usize"))
                return (cx.bind(f"Rt.uadd {bits} mode {c} {o}"), t)
            if name == "abs" and s:
                return (cx.bind(f"Rt.sabs {bits} mode {c}"), t)
            raise Unsupported("integer method " + name)
        if t.kind == "str":
            if name in ("trim", "trim_start", "trim_end"):
                f = {"trim": "strTrim", "trim_start": "strTrimStart", "trim_end": "strTrimEnd"}[name]
                return (f"(Rt.{f} {c})", STR)
            if name in ("find", "rfind") and len(args) == 1:
                a, at = self.expr(args[0], cx)
                if at == CHAR:
                    return (f"(Rt.{'strFind' if name == 'find' else 'strRfind'} {c} {a})", Ty("option", Ty("int", "usize")))
                raise Unsupported("str::find with a non-char pattern")
            if name in ("starts_with", "ends_with", "contains") and len(args) == 1:
                a, at = self.expr(args[0], cx)
                f = {"starts_with": "strStartsWith", "ends_with": "strEndsWith", "contains": "strContains"}[name]
                if at == STR:
                    return (f"(Rt.{f} {c} {a})", BOOL)
                if at == CHAR:
                    return (f"(Rt.{f} {c} [{a}])", BOOL)
                raise Unsupported("str pattern")
            if name == "len":
                return (f"(Rt.strLen {c})", Ty("int", "usize"))
            if name == "is_empty":
                return (f"(List.isEmpty {c})", BOOL)
            if name in ("as_str", "to_string", "to_owned", "as_ref"):
                return (c, STR)
            raise Unsupported("str method " + name)
        if t.kind == "option":
            if name == "is_some":
                return (f"(Option.isSome {c})", BOOL)
            if name == "is_none":
                return (f"(Option.isNone {c})", BOOL)
            raise Unsupported("option method " + name)
        if t.kind == "list":
            if name == "len":
                return (f"(List.length {c})", Ty("int", "usize"))
            if name == "is_empty":
                return (f"(List.isEmpty {c})", BOOL)
            raise Unsupported("list method (as expression) " + name)
        raise Unsupported("method " + name)

    def fold(self, e, cx, want):
        """x.iter().enumerate().fold(init, |acc, (i, &bit)| body)"""
        recv, args = e[1], e[4]
        enum = False
        r = recv
        if r[0] == "method" and r[2] == "enumerate":
            enum = True
            r = r[1]
        if r[0] == "method" and r[2] in ("iter", "into_iter"):
            r = r[1]
        lc, lt = self.expr(r, cx)
        if lt.kind != "list":
            raise Unsupported("fold over non-list")
        clo = args[1]
        if clo[0] != "closure" or len(clo[1]) != 2:
            raise Unsupported("fold closure")
        acc_t = want if (want is not None and want.kind == "int") else None
        if acc_t is None:
            raise Unsupported("fold accumulator type unknown")
        init, _ = self.typed(args[0], cx, acc_t)
        sub = cx.child()
        accp, itemp = clo[1]
        accn = self.pat_name(accp)
        st = self.tr.fresh("st")
        it = self.tr.fresh("it")
        sub.env[accn] = (st, acc_t)
        if enum:
            if itemp[0] != "ptuple" or len(itemp[1]) != 2:
                raise Unsupported("enumerate pattern")
            sub.env[self.pat_name(itemp[1][0])] = (f"{it}.1", Ty("int", "usize"))
            sub.env[self.pat_name(itemp[1][1])] = (f"{it}.2", lt.a)
            lst = f"(List.zipIdx {lc}).map (fun p => (p.2, p.1))"
            lst = f"(({lst}))"
        else:
            sub.env[self.pat_name(itemp)] = (it, lt.a)
            lst = lc
        bv, bt = self.typed(clo[2], sub, acc_t)
        body = self.render(sub.lines + [f"pure {bv}"], 2)
        v = cx.bind(f"Rt.forM' {lst} {init} (fun {it} {st} => do\n{body})", "fold")
        return (v, acc_t)

    def pat_name(self, p):
        if p[0] == "pderef":
            return self.pat_name(p[1])
        if p[0] == "pid":
            return p[1]
        if p[0] == "pwild":
            return "_"
        raise Unsupported("pattern")

    def macro(self, e, cx, want):
        name = e[1].split("::")[-1]
        if name == "vec" and e[2] and e[2][0][0] == "repeat":
            el, n = e[2][0][1], e[2][0][2]
            ec, et = self.typed(el, cx, want.a if (want is not None and want.kind == "list") else None)
            nc, nt = self.typed(n, cx, Ty("int", "usize"))
            return (f"(List.replicate {nc} {ec})", Ty("list", et, None))
        if name in ("panic", "unreachable", "unimplemented", "todo"):
            raise Unsupported("panic in expression position")
        raise Unsupported("macro " + name)

    # ------------------------------------------------------------------ statements
    def diverges(self, stmts, tail):
        """does the statement list always end in return/panic?"""
        if tail is not None:
            return self.expr_diverges(tail)
        if not stmts:
            return False
        s = stmts[-1]
        return s[0] == "expr" and self.expr_diverges(s[1])

    def expr_diverges(self, e):
        if e[0] == "return":
            return True
        if e[0] == "macro" and e[1].split("::")[-1] in ("panic", "unreachable"):
            return True
        if e[0] in ("block", "unsafe"):
            b = e if e[0] == "block" else e[1]
            st = [s for s in b[1] if rsparse.attrs_enabled(s[-1], self.tr.cfg)]
            return self.diverges(st, b[2])
        if e[0] == "if" and e[3] is not None:
            return self.expr_diverges(e[2]) and self.expr_diverges(e[3])
        return False

    def assigned_vars(self, stmts, tail, declared=None):
        """outer variables assigned by a statement list"""
        declared = set(declared or ())
        out = []

        def add(n):
            if n not in declared and n not in out:
                out.append(n)

        def lhs_root(l):
            while l[0] in ("index", "field", "paren") or (l[0] == "unary" and l[1] in ("*", "&mut", "&")):
                l = l[1] if l[0] != "unary" else l[2]
            if l[0] == "path" and len(l[1]) == 1:
                return l[1][0]
            return None

        def walk_e(e, decl):
            if e is None or not isinstance(e, tuple):
                return
            k = e[0]
            if k == "assign":
                r = lhs_root(e[2])
                if r and r not in decl:
                    add(r)
                walk_e(e[3], decl)
            elif k == "method":
                if e[2] in ("push", "extend_from_slice", "copy_from_slice", "rotate_right", "rotate_left", "fill", "extend", "clear"):
                    r = lhs_root(e[1])
                    if r and r not in decl:
                        add(r)
                for a in e[4]:
                    walk_e(a, decl)
                walk_e(e[1], decl)
            elif k == "call":
                # &mut arguments of internal calls
                for a in e[2]:
                    if a[0] == "unary" and a[1] == "&mut":
                        r = lhs_root(a[2])
                        if r and r not in decl:
                            add(r)
                    walk_e(a, decl)
            elif k in ("block", "unsafe"):
                b = e if k == "block" else e[1]
                walk_s(b[1], b[2], set(decl))
            elif k == "if":
                walk_e(e[1], decl)
                walk_e(e[2], decl)
                walk_e(e[3], decl)
            elif k == "match":
                walk_e(e[1], decl)
                for _, g, body in e[2]:
                    walk_e(body, decl)
            elif k == "iflet":
                walk_e(e[2], decl)
                walk_e(e[3], decl)
                walk_e(e[4], decl)
            elif k in ("while",):
                walk_e(e[1], decl)
                walk_e(e[2], decl)
            elif k == "for":
                d2 = set(decl)
                for n in pat_names(e[1]):
                    d2.add(n)
                # `*bit = ..` inside iter_mut loops assigns the iterated collection
                walk_e(e[3], d2)
                if iter_is_mut(e[2]):
                    r = lhs_root(iter_base(e[2]))
                    if r and r not in decl:
                        add(r)
            elif k in ("binary",):
                walk_e(e[2], decl)
                walk_e(e[3], decl)
            elif k in ("unary", "cast", "paren", "return"):
                walk_e(e[1] if k != "unary" else e[2], decl)

        def walk_s(sts, tl, decl):
            for s in sts:
                if not rsparse.attrs_enabled(s[-1], self.tr.cfg):
                    continue
                if s[0] == "let":
                    walk_e(s[3], decl)
                    for n in pat_names(s[1]):
                        decl.add(n)
                elif s[0] == "expr":
                    walk_e(s[1], decl)
            walk_e(tl, decl)

        walk_s(stmts, tail, declared)
        return out

    def stmts(self, sts, tail, cx, want, as_value):
        """compile statements into cx; returns (term, Ty) of the block's value.
        A diverging `if` (no else) turns the rest of the list into its else branch."""
        for idx, s in enumerate(sts):
            if not rsparse.attrs_enabled(s[-1], self.tr.cfg):
                continue
            if s[0] == "const":
                t = self.tr.ty(s[2], self.generic_vals)
                if t.kind == "range":
                    c, _ = self.expr(s[3], cx, t)
                    cx.env[s[1]] = (c, t)
                else:
                    c, t2 = self.typed(s[3], cx, t)
                    cx.env[s[1]] = (c, t)
                continue
            if s[0] == "let":
                self.let_stmt(s, cx)
                continue
            e = s[1]
            if e[0] == "if" and e[3] is None and self.expr_diverges(e[2]):
                # if c { ...diverges } ; rest   ==>   if c then ... else rest
                cc, ct = self.expr(e[1], cx, BOOL)
                tcx = cx.child()
                tv = self.diverging_block(e[2], tcx)
                ecx = cx.child()
                rv, rt = self.stmts(sts[idx + 1:], tail, ecx, want, as_value)
                tb = self.render(tcx.lines + [tv], 2)
                if rv is None:
                    eb = self.render(ecx.lines, 2)
                else:
                    eb = self.render(ecx.lines + [f"pure {rv}"], 2)
                    v = cx.bind(f"(if {cc} then (do\n{tb}) else (do\n{eb}))")
                    return (v, rt)
                cx.emit(f"if {cc} then (do\n{tb}) else (do\n{eb})")
                return (None, None)
            self.stmt_expr(e, cx)
            if self.expr_diverges(e):
                return (None, None)
        if tail is not None:
            if self.expr_diverges(tail):
                self.stmt_expr(tail, cx)
                return (None, None)
            c, t = self.expr(tail, cx, want)
            if t == LIT:
                c, t = self.typed(tail, cx, want)
            return (c, t)
        return ("()", UNIT)

    def contains_return(self, node):
        if isinstance(node, tuple):
            if node and node[0] == "return":
                return True
            if node and node[0] == "closure":
                return False
            return any(self.contains_return(x) for x in node)
        if isinstance(node, list):
            return any(self.contains_return(x) for x in node)
        return False

    def contains_panic(self, node):
        if isinstance(node, tuple):
            if node and node[0] == "macro" and isinstance(node[1], str) and node[1].split("::")[-1] in ("panic", "unreachable"):
                return True
            if node and node[0] == "closure":
                return False
            return any(self.contains_panic(x) for x in node)
        if isinstance(node, list):
            return any(self.contains_panic(x) for x in node)
        return False

    def enabled(self, b):
        if b[0] == "unsafe":
            b = b[1]
        sts = [s for s in b[1] if rsparse.attrs_enabled(s[-1], self.tr.cfg)]
        if b[2] is not None:
            sts = sts + [("expr", b[2], False, [])]
        return sts

    def final(self, sts, cx):
        """compile a statement list that ends the current do-block: the last emitted line is the
        block's result (`self.ret(..)` for a return, `self.fall()` when the list just ends, the value
        of a trailing expression otherwise).  An `if`/block that contains a `return` gets the rest of
        the list appended to each of its branches."""
        for idx, s in enumerate(sts):
            if not rsparse.attrs_enabled(s[-1], self.tr.cfg):
                continue
            if s[0] == "const":
                t = self.tr.ty(s[2], self.generic_vals)
                if t.kind == "range":
                    c, _ = self.expr(s[3], cx, t)
                else:
                    c, _ = self.typed(s[3], cx, t)
                    if s[3][0] == "int":
                        self.generic_vals = dict(self.generic_vals)
                        self.generic_vals[s[1]] = s[3][1]
                cx.env[s[1]] = (c, t)
                continue
            if s[0] == "let":
                self.let_stmt(s, cx)
                continue
            if s[0] == "letelse":
                # let Some(x) = e else { diverges };  rest
                if not self.expr_diverges(s[4]):
                    raise Unsupported("let-else whose else block does not diverge")
                return self.iflet_final(s[1], s[3], [], self.enabled(s[4]), sts[idx + 1:], cx)
            e = s[1]
            if e[0] == "match":
                e = self.desugar_match(e, cx)
                s = ("expr", e, s[2], s[3])
            rest = sts[idx + 1:]
            last = not any(rsparse.attrs_enabled(r[-1], self.tr.cfg) for r in rest)
            if e[0] == "iflet" and (self.contains_return(e) or self.contains_panic(e)):
                els = [] if e[4] is None else ([("expr", e[4], False, [])] if e[4][0] in ("if", "iflet") else self.enabled(e[4]))
                return self.iflet_final(e[1], e[2], self.enabled(e[3]), els, rest, cx)
            if e[0] == "for" and self.contains_return(e):
                return self.for_final(e, rest, cx)
            if e[0] == "return":
                if e[1] is None:
                    cx.emit(self.ret("()"))
                else:
                    c, t = self.typed(e[1], cx, self.ret_ty)
                    cx.emit(self.ret(c))
                return
            if e[0] == "macro" and e[1].split("::")[-1] in ("panic", "unreachable"):
                self.stmt_expr(e, cx)
                return
            if e[0] in ("block", "unsafe") and (self.contains_return(e) or self.contains_panic(e) or (last and not s[2])):
                return self.final(self.enabled(e) + rest, cx)
            if e[0] == "if" and (self.contains_return(e) or self.expr_diverges(e[2]) or (e[3] is not None and self.expr_diverges(e[3]))):
                cc, ct = self.expr(e[1], cx, BOOL)
                if ct != BOOL:
                    raise Unsupported("if condition type")
                tcx = cx.child()
                self.final(self.enabled(e[2]) + rest, tcx)
                ecx = cx.child()
                if e[3] is None:
                    els = []
                elif e[3][0] == "if":
                    els = [("expr", e[3], False, [])]
                else:
                    els = self.enabled(e[3])
                self.final(els + rest, ecx)
                cx.emit(f"if {cc} then (do\n{self.render(tcx.lines, 2)}) else (do\n{self.render(ecx.lines, 2)})")
                return
            if e[0] == "while":
                return self.while_final(e, rest, cx)
            if e[0] == "whilelet":
                return self.whilelet_final(e, rest, cx)
            if last and not s[2] and e[0] not in ("for", "while", "assign"):
                # trailing expression: the value of the block
                if self.ret_ty == UNIT or e[0] in ("if",) and e[3] is None:
                    self.stmt_expr(e, cx)
                    cx.emit(self.fall())
                    return
                c, t = self.expr(e, cx, self.ret_ty)
                if t == LIT:
                    c, t = self.typed(e, cx, self.ret_ty)
                cx.emit(self.ret(c) if t != UNIT else self.fall())
                return
            self.stmt_expr(e, cx)
        cx.emit(self.fall())

    def while_final(self, e, rest, cx):
        cond, body = e[1], e[2]
        bst = self.enabled(body)
        mv = [n for n in self.assigned_vars(bst, None) if n in cx.env]
        if not mv:
            raise Unsupported("while loop without state")
        used = names_used(e)
        caps = [n for n in cx.env if n in used and n not in mv and not isinstance(cx.env[n][0], tuple) and cx.env[n][1].kind != "range"
                and IDENT_RE.match(cx.env[n][0])]      # local consts are inlined literals, not variables
        self.nloops += 1
        self.needs_fuel = True
        lname = f"{self.lean_name}_loop{self.nloops}"
        tup = "(" + ", ".join(cx.env[n][0] for n in mv) + ")" if len(mv) != 1 else cx.env[mv[0]][0]
        sty = "(" + " × ".join(self.tr.lean_ty(cx.env[n][1]) for n in mv) + ")" if len(mv) != 1 else self.tr.lean_ty(cx.env[mv[0]][1])
        capsig = " ".join(f"({cx.env[n][0]} : {self.tr.lean_ty(cx.env[n][1])})" for n in caps)
        capargs = " ".join(cx.env[n][0] for n in caps)
        mon = "Rt.M" if self.effectful else "Res"
        rty = self.tr.lean_ty(self.ret_ty)
        # the loop body as its own do-block
        sub = cx.child()
        old_ret, old_fall = self.ret, self.fall
        self.ret = lambda c: f"pure (some {c}, {tup})"
        self.fall = lambda: f"{lname} mode {capargs} fuel {tup}"
        cc, ct = self.expr(cond, sub, BOOL)
        bcx = sub.child()
        self.final(bst, bcx)
        self.ret, self.fall = old_ret, old_fall
        fuel_panic = 'Rt.panicNow "fuel"' if self.effectful else 'Res.panic "fuel"'
        lines = [f"let {tup} := st"] + sub.lines + [f"if {cc} then (do\n{self.render(bcx.lines, 2)}) else pure (none, {tup})"]
        text = (f"def {lname} (mode : Mode) {capsig} : Nat → {sty} → {mon} (Option {rty} × {sty})\n"
                f"  | 0, _ => {fuel_panic}\n"
                f"  | fuel + 1, st => do\n" + self.render(lines, 2) + "\n")
        self.tr.aux.append(text)
        ro = self.tr.fresh("ret")
        cx.emit(f"let ({ro}, {tup}) ← {lname} mode {capargs} fuel {tup}")
        rcx = cx.child()
        self.final(rest, rcx)
        v = self.tr.fresh("v")
        cx.emit(f"match {ro} with\n| some {v} => {self.ret(v)}\n| none => (do\n{self.render(rcx.lines, 2)})")

    # ------------------------------------------------------------------ match / if let / let else
    def desugar_match(self, e, cx):
        """`match x { lit => a, lit | lit => b, _ => c }` as an if-chain; `match o { Some(v) => a, None => b }`
        as an `if let`.  Patterns that bind (other than through Some) are outside the subset."""
        scrut, arms = e[1], e[2]
        if any(g is not None for _, g, _ in arms):
            raise Unsupported("match guard")
        blk = lambda b: b if b[0] == "block" else ("block", [], b, [])
        pats = [p for p, _, _ in arms]
        if any(p[0] in ("pctor", "pstruct") for p in pats):
            some = [a for a in arms if a[0][0] == "pctor" and a[0][1][-1] == "Some"]
            none = [a for a in arms if (a[0][0] == "pctor" and a[0][1][-1] == "None") or a[0][0] == "pwild"]
            if len(arms) == 2 and len(some) == 1 and len(none) == 1:
                return ("iflet", some[0][0], scrut, blk(some[0][2]), blk(none[0][2]))
            if self.tr.iface and len(arms) == 2 and arms[0][0][0] in ("pctor", "pstruct"):
                # two constructors of an opaque value (Ok / Err, two enum variants): the first arm or the other
                second = arms[1]
                if second[0][0] in ("pctor", "pstruct") and pat_names(second[0]):
                    # names bound by the second arm are opaque there
                    body2 = ("block", [("let", ("pid", n, False, False), None, ("path", ["__opaque"], []), []) for n in pat_names(second[0])], second[2], [])
                    if second[2][0] == "block":
                        body2 = ("block", body2[1] + second[2][1], second[2][2], [])
                    return ("iflet", arms[0][0], scrut, blk(arms[0][2]), body2)
                return ("iflet", arms[0][0], scrut, blk(arms[0][2]), blk(second[2]))
            raise Unsupported("match on constructors")

        def cond(p):
            if p[0] == "plit":
                return ("binary", "==", scrut, p[1])
            if p[0] == "por":
                c = cond(p[1][0])
                for q in p[1][1:]:
                    c = ("binary", "||", c, cond(q))
                return c
            raise Unsupported("match pattern " + p[0])
        if scrut[0] != "path":
            raise Unsupported("match on a non-variable")
        if not arms or arms[-1][0][0] != "pwild":
            raise Unsupported("match without a final wildcard arm")
        out = blk(arms[-1][2])
        for p, _, body in reversed(arms[:-1]):
            out = ("if", cond(p), blk(body), out)
        return out

    def option_pattern(self, pat, t):
        """`Some(x)` against an option type: the bound name (or None for `Some(_)`)"""
        if t.kind != "option" or pat[0] != "pctor" or pat[1][-1] != "Some" or len(pat[2]) != 1:
            raise Unsupported("pattern (only Some(x) on an Option is in the subset)")
        q = pat[2][0]
        if q[0] == "pwild":
            return None
        if q[0] == "pid":
            return q[1]
        raise Unsupported("nested pattern")

    def opaque_pattern(self, pat, scrut, t, cx, tcx):
        """`if let Ctor { a, b } = <opaque value>`: the oracle says whether the pattern matches; fields of a
        known enum variant with an integer type come from the oracle too, the others are opaque.
        Returns the Lean condition; binds the names in tcx."""
        if pat[0] not in ("pctor", "pstruct"):
            raise Unsupported("pattern on an opaque value")
        ctor = "::".join(pat[1])
        k = cx.bind(f'Rt.extN "matches {ctor}" []', "is")
        ftys = {}
        en = self.tr.enums.get(pat[1][0] if len(pat[1]) > 1 else (t.a if t.kind == "opaque" else None))
        if en:
            for vname, kind, vfields in en:
                if vname == pat[1][-1]:
                    ftys = dict(vfields)
        subs = [(str(i), q) for i, q in enumerate(pat[2])] if pat[0] == "pctor" else pat[2]
        for fname, q in subs:
            if q[0] == "pwild":
                continue
            if q[0] != "pid":
                raise Unsupported("nested pattern")
            ft = None
            if fname in ftys:
                try:
                    ft = self.tr.ty(ftys[fname], self.generic_vals)
                except Unsupported:
                    ft = None
            if ft is not None and ft.kind == "int" and not self.is_signed(ft):
                v = tcx.bind(f'Rt.extN "field {fname}" []', lean_ident(q[1]))
                tcx.env[q[1]] = (v, ft)
            elif ft is not None and ft == BOOL:
                v = tcx.bind(f'Rt.extN "field {fname}" []', lean_ident(q[1]))
                tcx.env[q[1]] = (f"({v} != 0)", BOOL)
            else:
                tcx.env[q[1]] = ("()", OPAQUE)
        return f"({k} != 0)"

    def iflet_final(self, pat, scrut, then_sts, else_sts, rest, cx):
        c, t = self.expr(scrut, cx)
        if t.kind in ("opaque", "unit") and self.tr.iface:
            tcx = cx.child()
            cond = self.opaque_pattern(pat, scrut, t, cx, tcx)
            self.final(then_sts + rest, tcx)
            ecx = cx.child()
            self.final(else_sts + rest, ecx)
            cx.emit(f"if {cond} then (do\n{self.render(tcx.lines, 2)}) else (do\n{self.render(ecx.lines, 2)})")
            return
        name = self.option_pattern(pat, t)
        tcx = cx.child()
        ln = lean_ident(name) if name else "_"
        if name:
            tcx.env[name] = (ln, t.a)
        self.final(then_sts + rest, tcx)
        ecx = cx.child()
        self.final(else_sts + rest, ecx)
        cx.emit(f"match {c} with\n| some {ln} => (do\n{self.render(tcx.lines, 2)})\n| none => (do\n{self.render(ecx.lines, 2)})")

    def iflet_expr(self, e, cx, want):
        """`if let P = x { a } else { b }` as a value (both branches are expressions)"""
        pat, scrut, tb, eb = e[1], e[2], e[3], e[4]
        if eb is None:
            raise Unsupported("if-let expression without else")
        c, t = self.expr(scrut, cx)
        tcx = cx.child()
        if t.kind in ("opaque", "unit") and self.tr.iface:
            cond = self.opaque_pattern(pat, scrut, t, cx, tcx)
            head, mid = f"(if {cond} then (do", ") else (do"
        else:
            name = self.option_pattern(pat, t)
            ln = lean_ident(name) if name else "_"
            if name:
                tcx.env[name] = (ln, t.a)
            head, mid = f"(match {c} with\n| some {ln} => (do", ")\n| none => (do"
        tv, tt = self.block_value(tb, tcx, want)
        ecx = cx.child()
        ebb = eb if eb[0] == "block" else ("block", [], eb, [])
        ev, et = self.block_value(ebb, ecx, want if tt == LIT else tt)
        if tt != et and not (tt.kind == et.kind == "opaque"):
            raise Unsupported(f"if-let branches differ: {tt} vs {et}")
        tb_ = self.render(tcx.lines + [f"pure {tv}"], 2)
        eb_ = self.render(ecx.lines + [f"pure {ev}"], 2)
        return (cx.bind(f"{head}\n{tb_}{mid}\n{eb_}))"), tt)

    def iter_list(self, it, cx):
        """the list a `for` loop runs over: (lean term, element type)"""
        if it[0] == "range" or (it[0] == "paren" and it[1][0] == "range"):
            r = it if it[0] == "range" else it[1]
            (lo, hi, inc), rt = self.expr(r, cx)
            if self.is_signed(rt.a):
                raise Unsupported("signed range loop")
            hi2 = f"({hi} + 1)" if inc else hi
            return (f"(List.range' {lo} ({hi2} - {lo}))", rt.a)
        enum = False
        base = it
        if base[0] == "method" and base[2] == "enumerate":
            enum = True
            base = base[1]
        if base[0] == "method" and base[2] in ("char_indices", "chars", "bytes"):
            c, t = self.expr(base[1], cx)
            if t != STR:
                raise Unsupported(base[2] + " on non-str")
            if base[2] == "char_indices":
                lst, et = f"(Rt.charIndices {c})", Ty("tuple", (Ty("int", "usize"), CHAR))
            elif base[2] == "chars":
                lst, et = c, CHAR
            else:
                raise Unsupported("bytes()")
        else:
            while base[0] == "method" and base[2] in ("iter", "into_iter", "copied", "cloned"):
                base = base[1]
            lst, lt = self.expr(base, cx)
            if lt.kind != "list":
                raise Unsupported("for over " + repr(lt))
            et = lt.a
        if enum:
            lst = f"((List.zipIdx {lst}).map (fun p => (p.2, p.1)))"
            et = Ty("tuple", (Ty("int", "usize"), et))
        return (lst, et)

    def bind_for_pattern(self, pat, et, env):
        """pattern of a `for`: returns the Lean pattern text and adds the names to env"""
        if pat[0] in ("pid", "pderef"):
            n = pat_names(pat)[0]
            ln = lean_ident(n) + "_it"
            env[n] = (ln, et)
            return ln
        if pat[0] == "pwild":
            return "_"
        if pat[0] == "ptuple" and et.kind == "tuple" and len(pat[1]) == len(et.a):
            return "(" + ", ".join(self.bind_for_pattern(q, t, env) for q, t in zip(pat[1], et.a)) + ")"
        raise Unsupported("for pattern")

    def for_final(self, e, rest, cx):
        """a `for` loop whose body may `return`: a structurally recursive helper over the list"""
        pat, it, body = e[1], e[2], e[3]
        if iter_is_mut(it):
            raise Unsupported("iter_mut loop with return")
        bst = self.enabled(body)
        declared = set(pat_names(pat))
        mv = [n for n in self.assigned_vars(bst, None, declared) if n in cx.env]
        lst, et = self.iter_list(it, cx)
        used = names_used(e)
        caps = [n for n in cx.env if n in used and n not in mv and n not in declared and not isinstance(cx.env[n][0], tuple)
                and cx.env[n][1].kind != "range" and IDENT_RE.match(cx.env[n][0])]
        self.nloops += 1
        lname = f"{self.lean_name}_for{self.nloops}"
        if mv:
            tup = "(" + ", ".join(cx.env[n][0] for n in mv) + ")" if len(mv) != 1 else cx.env[mv[0]][0]
            sty = "(" + " × ".join(self.tr.lean_ty(cx.env[n][1]) for n in mv) + ")" if len(mv) != 1 else self.tr.lean_ty(cx.env[mv[0]][1])
        else:
            tup, sty = "()", "Unit"
        capsig = " ".join(f"({cx.env[n][0]} : {self.tr.lean_ty(cx.env[n][1])})" for n in caps)
        capargs = " ".join(cx.env[n][0] for n in caps)
        mon = "Rt.M" if self.effectful else "Res"
        rty = self.tr.lean_ty(self.ret_ty)
        sub = cx.child()
        lpat = self.bind_for_pattern(pat, et, sub.env)
        xs = self.tr.fresh("xs")
        old_ret, old_fall = self.ret, self.fall
        self.ret = lambda c: f"pure (some {c}, {tup})"
        self.fall = lambda: f"{lname} mode {capargs} {xs} {tup}"
        try:
            self.final(bst, sub)
        finally:
            self.ret, self.fall = old_ret, old_fall
        hdr = [f"let {tup} := st"] if mv else []
        text = (f"def {lname} (mode : Mode) {capsig} : List {self.tr.lean_ty(et)} → {sty} → {mon} (Option {rty} × {sty})\n"
                f"  | [], st => pure (none, st)\n"
                f"  | {lpat} :: {xs}, st => do\n" + self.render(hdr + sub.lines, 2) + "\n")
        self.tr.aux.append(text)
        ro = self.tr.fresh("ret")
        cx.emit(f"let ({ro}, {tup if mv else '_'}) ← {lname} mode {capargs} {lst} {tup}")
        rcx = cx.child()
        self.final(rest, rcx)
        v = self.tr.fresh("v")
        cx.emit(f"match {ro} with\n| some {v} => {self.ret(v)}\n| none => (do\n{self.render(rcx.lines, 2)})")

    def whilelet_final(self, e, rest, cx):
        """`while let Some(x) = <expr> { body }`: a fuel-bounded recursive helper; the scrutinee is evaluated
        (an effect, typically `pop()`) at the head of every round"""
        pat, scrut, body = e[1], e[2], e[3]
        bst = self.enabled(body)
        mv = [n for n in self.assigned_vars(bst, None, set(pat_names(pat))) if n in cx.env]
        used = names_used(e)
        caps = [n for n in cx.env if n in used and n not in mv and not isinstance(cx.env[n][0], tuple) and cx.env[n][1].kind != "range"
                and IDENT_RE.match(cx.env[n][0])]
        self.nloops += 1
        self.needs_fuel = True
        lname = f"{self.lean_name}_loop{self.nloops}"
        if mv:
            tup = "(" + ", ".join(cx.env[n][0] for n in mv) + ")" if len(mv) != 1 else cx.env[mv[0]][0]
            sty = "(" + " × ".join(self.tr.lean_ty(cx.env[n][1]) for n in mv) + ")" if len(mv) != 1 else self.tr.lean_ty(cx.env[mv[0]][1])
        else:
            tup, sty = "()", "Unit"
        capsig = " ".join(f"({cx.env[n][0]} : {self.tr.lean_ty(cx.env[n][1])})" for n in caps)
        capargs = " ".join(cx.env[n][0] for n in caps)
        mon = "Rt.M" if self.effectful else "Res"
        rty = self.tr.lean_ty(self.ret_ty)
        sub = cx.child()
        c, t = self.expr(scrut, sub)
        name = self.option_pattern(pat, t)
        bcx = sub.child()
        ln = lean_ident(name) if name else "_"
        if name:
            bcx.env[name] = (ln if t.a.kind != "opaque" else "()", t.a)
        old_ret, old_fall = self.ret, self.fall
        self.ret = lambda cc: f"pure (some {cc}, {tup})"
        self.fall = lambda: f"{lname} mode {capargs} fuel {tup}"
        try:
            self.final(bst, bcx)
        finally:
            self.ret, self.fall = old_ret, old_fall
        fuel_panic = 'Rt.panicNow "fuel"' if self.effectful else 'Res.panic "fuel"'
        hdr = [f"let {tup} := st"] if mv else []
        lines = hdr + sub.lines + [f"match {c} with\n| some {ln} => (do\n{self.render(bcx.lines, 2)})\n| none => pure (none, {tup})"]
        text = (f"def {lname} (mode : Mode) {capsig} : Nat → {sty} → {mon} (Option {rty} × {sty})\n"
                f"  | 0, _ => {fuel_panic}\n"
                f"  | fuel + 1, st => do\n" + self.render(lines, 2) + "\n")
        self.tr.aux.append(text)
        ro = self.tr.fresh("ret")
        cx.emit(f"let ({ro}, {tup if mv else '_'}) ← {lname} mode {capargs} fuel {tup}")
        rcx = cx.child()
        self.final(rest, rcx)
        v = self.tr.fresh("v")
        cx.emit(f"match {ro} with\n| some {v} => {self.ret(v)}\n| none => (do\n{self.render(rcx.lines, 2)})")

    def diverging_block(self, b, cx):
        """compile a block that ends in return/panic; returns its final line"""
        if b[0] == "unsafe":
            b = b[1]
        sts = [s for s in b[1] if rsparse.attrs_enabled(s[-1], self.tr.cfg)]
        v, t = self.stmts(sts, b[2], cx, self.ret_ty, False)
        last = cx.lines.pop()
        return last

    def let_stmt(self, s, cx):
        pat, ty, init = s[1], s[2], s[3]
        want = self.tr.ty(ty, self.generic_vals) if ty is not None else None
        if init is None:
            raise Unsupported("let without initialiser")
        if init[0] == "unsafe" or init[0] == "block":
            c, t = self.block_value(init, cx, want)
        else:
            c, t = self.expr(init, cx, want)
        if t == LIT:
            if want is None:
                # `let mut cur = 0;` indexes arrays: usize
                want = Ty("int", "usize")
            c, t = self.typed(init, cx, want)
        if t.kind == "list" and t.a is None:
            if want is None:
                # element type fixed by first use: bytes in this code base
                t = Ty("list", Ty("int", "u8"), None)
                c = "([] : List Nat)"
            else:
                t = want
        if want is not None and want.kind == "list" and t.kind == "list":
            t = Ty("list", t.a, want.b if want.b is not None else t.b)
        if pat[0] == "pid":
            ln = lean_ident(pat[1])
            cx.let(ln, c)
            cx.env[pat[1]] = (ln, t)
        elif pat[0] == "pwild":
            pass
        elif pat[0] == "ptuple" and t.kind == "tuple" and len(pat[1]) == len(t.a) and not isinstance(c, tuple):
            tmp = self.tr.fresh("tup")
            cx.let(tmp, c)
            for i, (q, qt) in enumerate(zip(pat[1], t.a)):
                if q[0] == "pwild":
                    continue
                if q[0] != "pid":
                    raise Unsupported("nested let pattern")
                ln = lean_ident(q[1])
                if qt.kind in ("opaque",):
                    cx.env[q[1]] = ("()", qt)
                else:
                    cx.let(ln, proj(tmp, i, len(t.a)))
                    cx.env[q[1]] = (ln, qt)
        else:
            raise Unsupported("let pattern")

    def assign_var(self, name, term, cx):
        ln, t = cx.env[name]
        cx.let(ln, term)

    def stmt_expr(self, e, cx):
        k = e[0]
        if k == "assign":
            return self.assign(e, cx)
        if k == "method":
            return self.method_stmt(e, cx)
        if k in ("block", "unsafe"):
            b = e if k == "block" else e[1]
            sts = self.enabled(b)       # the tail expression of a block in statement position is a statement
            saved = dict(cx.env)
            names = set(saved)
            v, t = self.stmts(sts, None, cx, None, False)
            # keep assignments to outer variables (shadowing already did), drop inner names
            cx.env = {n: (cx.env[n] if n in cx.env else saved[n]) for n in names}
            for n in names:
                cx.env[n] = (saved[n][0], cx.env[n][1])
            return
        if k == "if":
            return self.if_stmt(e, cx)
        if k == "match":
            return self.stmt_expr(self.desugar_match(e, cx), cx)
        if k == "iflet":
            return self.iflet_stmt(e, cx)
        if k == "for":
            return self.for_stmt(e, cx)
        if k == "while":
            return self.while_stmt(e, cx)
        if k == "return":
            if e[1] is None:
                cx.emit("pure ()")
            else:
                c, t = self.typed(e[1], cx, self.ret_ty)
                cx.emit(f"pure {c}")
            return
        if k == "macro":
            name = e[1].split("::")[-1]
            if name in ("panic", "unreachable"):
                msg = "panic"
                for tok in e[3]:
                    if tok.startswith('"'):
                        msg = tok.strip('"')[:40].replace("\\", "").replace("{", "").replace("}", "")
                        break
                cx.emit(f'Rt.panicNow "{msg}"' if cx.effectful else f'Res.panic "{msg}"')
                return
            if name == "asm" and cx.effectful:
                cx.emit('Rt.extU "asm" []')
                return
            if name in ("assert", "debug_assert", "assert_eq", "println", "eprintln"):
                raise Unsupported("macro " + name)
            raise Unsupported("macro statement " + name)
        if k == "call":
            if e[1][0] == "path" and e[1][1][-1] in EXTERNALS:
                self.external(e[1][1][-1], e[2], cx, discard=True)
                return
            c, t = self.call(e, cx, None)
            return
        if k == "path" or k == "int":
            return
        raise Unsupported("statement " + k)

    def assign(self, e, cx):
        op, lhs, rhs = e[1], e[2], e[3]
        while lhs[0] == "paren" or (lhs[0] == "unary" and lhs[1] == "*"):
            lhs = lhs[1] if lhs[0] == "paren" else lhs[2]
        if lhs[0] == "path" and len(lhs[1]) == 1:
            n = lhs[1][0]
            if n not in cx.env:
                raise Unsupported("assignment to unknown " + n)
            ln, t = cx.env[n]
            if op == "=":
                c, rt = self.typed(rhs, cx, t)
            else:
                c, rt = self.binary(("binary", op[:-1], lhs, rhs), cx, t)
            cx.let(ln, c)
            return
        if lhs[0] == "index":
            base = lhs[1]
            while base[0] == "paren" or (base[0] == "unary" and base[1] == "*"):
                base = base[1] if base[0] == "paren" else base[2]
            if base[0] != "path" or len(base[1]) != 1:
                raise Unsupported("indexed assignment target")
            n = base[1][0]
            ln, t = cx.env[n]
            if t.kind != "list":
                raise Unsupported("indexed assignment into non-list")
            i, _ = self.typed(lhs[2], cx, Ty("int", "usize"))
            if op == "=":
                c, rt = self.typed(rhs, cx, t.a)
            else:
                c, rt = self.binary(("binary", op[:-1], lhs, rhs), cx, t.a)
            v = cx.bind(f"Rt.setIdx {ln} {i} {c}", "upd")
            cx.let(ln, v)
            return
        raise Unsupported("assignment target")

    def method_stmt(self, e, cx):
        recv, name, args = e[1], e[2], e[4]
        if self.tr.iface:
            owner, val = self.owner_of(recv, cx)
            if owner is not None and f"{owner}::{name}" in self.tr.fns:
                self.internal_call(f"{owner}::{name}", e[3], args, cx, self_vals=self.self_args(owner, val, cx))
                return
            if name in EFFECT_METHODS:
                self.effect(path_text(recv) + "." + name, args, cx, EFFECT_METHODS[name], discard=True)
                return
        # slice.copy_from_slice
        if name == "copy_from_slice" and recv[0] == "index" and recv[2][0] == "range":
            base = recv[1]
            while base[0] == "paren" or (base[0] == "unary" and base[1] == "*"):
                base = base[1] if base[0] == "paren" else base[2]
            n = base[1][0]
            ln, t = cx.env[n]
            lo, hi = self.range_bounds(recv[2], cx, ln)
            c, st = self.expr(args[0], cx, Ty("list", t.a, None))
            v = cx.bind(f"Rt.copyInto {ln} {lo} {hi} {c}", "upd")
            cx.let(ln, v)
            return
        base = recv
        while base[0] == "paren" or (base[0] == "unary" and base[1] in ("*", "&mut")):
            base = base[1] if base[0] == "paren" else base[2]
        if base[0] == "path" and len(base[1]) == 1 and base[1][0] in cx.env:
            n = base[1][0]
            ln, t = cx.env[n]
            if t.kind == "list":
                if name == "copy_from_slice":
                    c, st = self.expr(args[0], cx, Ty("list", t.a, None))
                    v = cx.bind(f"Rt.copyInto {ln} 0 (List.length {ln}) {c}", "upd")
                    cx.let(ln, v)
                    return
                if name == "push":
                    c, et = self.typed(args[0], cx, t.a)
                    cx.let(ln, f"{ln} ++ [{c}]")
                    return
                if name == "extend_from_slice":
                    c, st = self.expr(args[0], cx, Ty("list", t.a, None))
                    cx.let(ln, f"{ln} ++ {c}")
                    return
                if name == "rotate_right":
                    c, _ = self.typed(args[0], cx, Ty("int", "usize"))
                    v = cx.bind(f"Rt.rotateRight {ln} {c}", "upd")
                    cx.let(ln, v)
                    return
        raise Unsupported("method statement " + name)

    def if_stmt(self, e, cx):
        cc, ct = self.expr(e[1], cx, BOOL)
        if ct != BOOL:
            raise Unsupported("if condition type")
        tb = e[2]
        eb = e[3]
        tst = [s for s in tb[1] if rsparse.attrs_enabled(s[-1], self.tr.cfg)]
        mv = self.assigned_vars(tst, tb[2])
        if eb is not None:
            ebb = eb if eb[0] == "block" else ("block", [("expr", eb, False, [])], None, [])
            est = [s for s in ebb[1] if rsparse.attrs_enabled(s[-1], self.tr.cfg)]
            for n in self.assigned_vars(est, ebb[2]):
                if n not in mv:
                    mv.append(n)
        mv = [n for n in mv if n in cx.env]
        tdiv = self.expr_diverges(tb)
        ediv = eb is not None and self.expr_diverges(eb)
        tup = "(" + ", ".join(cx.env[n][0] for n in mv) + ")" if len(mv) != 1 else cx.env[mv[0]][0] if mv else "()"

        def branch(block, diverging):
            sub = cx.child()
            if block is None:
                return self.render([f"pure {tup}"], 2)
            b = block if block[0] == "block" else ("block", [("expr", block, False, [])], None, [])
            sts = [s for s in b[1] if rsparse.attrs_enabled(s[-1], self.tr.cfg)]
            self.stmts(sts, b[2], sub, None, False)
            if diverging:
                return self.render(sub.lines, 2)
            return self.render(sub.lines + [f"pure {tup}"], 2)

        if tdiv and ediv:
            raise Unsupported("if with two diverging branches in statement position")
        t_txt = branch(tb, tdiv)
        e_txt = branch(eb, ediv)
        if tdiv or ediv:
            raise Unsupported("diverging branch with else in statement position")
        if not mv:
            cx.emit(f"if {cc} then (do\n{t_txt}) else (do\n{e_txt})")
            return
        pat = tup
        cx.emit(f"let {pat} ← (if {cc} then (do\n{t_txt}) else (do\n{e_txt}))")

    def iflet_stmt(self, e, cx):
        """`if let Some(x) = o { .. } else { .. }` in statement position, no return inside"""
        pat, scrut, tb, eb = e[1], e[2], e[3], e[4]
        c, t = self.expr(scrut, cx)
        opaque = t.kind in ("opaque", "unit") and self.tr.iface
        name = None if opaque else self.option_pattern(pat, t)
        tst = self.enabled(tb)
        mv = self.assigned_vars(tst, None)
        est = []
        if eb is not None:
            est = [("expr", eb, False, [])] if eb[0] in ("if", "iflet") else self.enabled(eb)
            for n in self.assigned_vars(est, None):
                if n not in mv:
                    mv.append(n)
        mv = [n for n in mv if n in cx.env]
        if self.diverges(tst, None) or (est and self.diverges(est, None)):
            raise Unsupported("diverging if-let branch in statement position")
        tup = "(" + ", ".join(cx.env[n][0] for n in mv) + ")" if len(mv) != 1 else cx.env[mv[0]][0] if mv else "()"
        tcx = cx.child()
        ln = lean_ident(name) if name else "_"
        if name:
            tcx.env[name] = (ln, t.a)
        cond = self.opaque_pattern(pat, scrut, t, cx, tcx) if opaque else None
        self.stmts(tst, None, tcx, None, False)
        ecx = cx.child()
        self.stmts(est, None, ecx, None, False)
        t_txt = self.render(tcx.lines + [f"pure {tup}"], 2)
        e_txt = self.render(ecx.lines + [f"pure {tup}"], 2)
        if opaque:
            m = f"(if {cond} then (do\n{t_txt}) else (do\n{e_txt}))"
        else:
            m = f"(match {c} with\n| some {ln} => (do\n{t_txt})\n| none => (do\n{e_txt}))"
        if not mv:
            cx.emit(m)
        else:
            cx.emit(f"let {tup} ← {m}")

    def for_stmt(self, e, cx):
        pat, it, body = e[1], e[2], e[3]
        bst = [s for s in body[1] if rsparse.attrs_enabled(s[-1], self.tr.cfg)]
        declared = set(pat_names(pat))
        # iter_mut().enumerate() with `*bit = expr`: rewrite as indexed assignment
        if iter_is_mut(it):
            base = iter_base(it)
            bc, bt = self.expr(base, cx)
            if bt.kind != "list" or bt.b is None:
                raise Unsupported("iter_mut over list of unknown length")
            names = pat_names(pat)
            if pat[0] != "ptuple" or len(names) != 2:
                raise Unsupported("iter_mut pattern")
            iname, bname = names
            # body: *bit = expr;
            if len(bst) != 1 or bst[0][0] != "expr" or bst[0][1][0] != "assign":
                raise Unsupported("iter_mut body")
            asg = bst[0][1]
            sub = cx.child()
            st = self.tr.fresh("st")
            iv = self.tr.fresh("i")
            sub.env[iname] = (iv, Ty("int", "usize"))
            sub.env[base[1][0]] = (st, bt)
            c, t = self.typed(asg[3], sub, bt.a)
            sub.lines.append(f"Rt.setIdx {st} {iv} {c}")
            txt = self.render(sub.lines, 2)
            ln = cx.env[base[1][0]][0]
            v = cx.bind(f"Rt.forM' (List.range {bt.b}) {ln} (fun {iv} {st} => do\n{txt})", "loop")
            cx.let(ln, v)
            return
        mv = [n for n in self.assigned_vars(bst, body[2], declared) if n in cx.env]
        # the iterated list
        if it[0] == "range" or (it[0] == "paren" and it[1][0] == "range"):
            r = it if it[0] == "range" else it[1]
            (lo, hi, inc), rt = self.expr(r, cx)
            if self.is_signed(rt.a):
                raise Unsupported("signed range loop")
            hi2 = f"({hi} + 1)" if inc else hi
            lst = f"(List.range' {lo} ({hi2} - {lo}))"
            et = rt.a
        elif uses_iter_adaptor(it):
            lst, et = self.iter_list(it, cx)
        else:
            base = it
            while base[0] == "method" and base[2] in ("iter", "into_iter", "copied", "cloned"):
                base = base[1]
            lst, lt = self.expr(base, cx)
            if lt.kind != "list":
                raise Unsupported("for over " + repr(lt))
            et = lt.a
        sub = cx.child()
        st = self.tr.fresh("st")
        iv = self.tr.fresh("x")
        names = pat_names(pat)
        if pat[0] in ("pid", "pderef") and names:
            sub.env[names[0]] = (iv, et)
        elif pat[0] == "pwild":
            pass
        elif pat[0] == "ptuple":
            iv = self.bind_for_pattern(pat, et, sub.env)
        else:
            raise Unsupported("for pattern")
        tup = "(" + ", ".join(cx.env[n][0] for n in mv) + ")" if len(mv) != 1 else cx.env[mv[0]][0]
        if not mv:
            raise Unsupported("for loop without effect")
        self.stmts(bst, body[2], sub, None, False)
        hdr = f"let {tup} := {st}"
        txt = self.render([hdr] + sub.lines + [f"pure {tup}"], 2)
        cx.emit(f"let {tup} ← Rt.forM' {lst} {tup} (fun {iv} {st} => do\n{txt})")

    def while_stmt(self, e, cx):
        raise Unsupported("while loop in nested position")


def literal_only(e):
    if e[0] == "int":
        return e[2] is None
    if e[0] == "paren":
        return literal_only(e[1])
    if e[0] == "unary" and e[1] == "-":
        return literal_only(e[2])
    if e[0] == "binary":
        return literal_only(e[2]) and literal_only(e[3])
    return False


def names_used(node, acc=None):
    acc = set() if acc is None else acc
    if isinstance(node, tuple):
        if node and node[0] == "path":
            acc.add(node[1][0])
        for x in node:
            names_used(x, acc)
    elif isinstance(node, list):
        for x in node:
            names_used(x, acc)
    return acc


def lean_ident(n):
    if n in ("at", "from", "end", "open", "in", "show", "have", "this", "instance", "structure", "where", "then", "fun", "do", "match", "with", "if", "else", "let", "def", "theorem", "mut", "for"):
        return n + "_"
    return n


def pat_names(p):
    if p[0] == "pid":
        return [p[1]]
    if p[0] == "pderef":
        return pat_names(p[1])
    if p[0] == "ptuple":
        return [n for q in p[1] for n in pat_names(q)]
    if p[0] == "pctor":
        return [n for q in p[2] for n in pat_names(q)]
    if p[0] == "pstruct":
        return [n for _, q in p[2] for n in pat_names(q)]
    return []


def iter_is_mut(it):
    while it[0] == "method":
        if it[2] == "iter_mut":
            return True
        it = it[1]
    return False


def uses_iter_adaptor(it):
    while it[0] == "method":
        if it[2] in ("char_indices", "chars", "enumerate"):
            return True
        it = it[1]
    return False


def iter_base(it):
    while it[0] == "method" and it[2] in ("iter_mut", "enumerate", "iter"):
        it = it[1]
    return it


def compatible(t, pt):
    if t == pt:
        return True
    if t.kind == "list" and pt.kind == "list" and t.a == pt.a:
        return pt.b is None or t.b is None or pt.b == t.b
    return False


def mangle(name, gv):
    base = name.split("::")[-1]
    if "::" in name:
        base = name.replace("::", "_")
    return lean_ident(base) + "".join(f"_{g}" for g in gv)


def compile_fn(tr, name, gv=()):
    """compile function `name` (with const-generic values gv); returns (lean name, param types, ret type, effectful)"""
    key = (name, gv)
    if key in tr.done:
        return tr.done[key]
    if key in tr.failed:
        raise Unsupported(f"callee {name}: {tr.failed[key]}")
    item = tr.fns.get(name)
    if item is None:
        raise Unsupported("no such function " + name)
    if item[0] == "fn_unsupported":
        tr.failed[key] = item[2]
        raise Unsupported(f"{name}: {item[2]}")
    try:
        res = _compile_fn(tr, name, item, gv)
    except Unsupported as ex:
        tr.failed[key] = str(ex)
        raise
    tr.done[key] = res
    return res


def _compile_fn(tr, name, item, gv):
    _, _, params, ret, body, attrs, generics = item
    # const generics: `const N : usize`
    gnames = []
    i = 0
    while i < len(generics):
        if generics[i] == "const":
            gnames.append(generics[i + 1])
        i += 1
    if len(gnames) != len(gv):
        raise Unsupported("generic arity")
    gvals = dict(zip(gnames, gv))
    fc = FnCompiler(tr, name, item, gvals)
    saved_owner = getattr(tr, "current_owner", None)
    tr.current_owner = item[1].split("::")[0] if "::" in item[1] else None
    try:
        return _compile_fn2(tr, name, item, gv, fc, gvals, params, ret, body)
    finally:
        tr.current_owner = saved_owner


def _compile_fn2(tr, name, item, gv, fc, gvals, params, ret, body):
    eff = uses_external(tr, body, set())
    fc.effectful = eff
    cx = Ctx(tr, {}, name, gvals, eff)
    ptys = []
    pnames = []
    muts = []
    for i, (p, t) in enumerate(params):
        n = fc.pat_name(p)
        if n == "self":
            owner = item[1].split("::")[0]
            if owner not in tr.structs and tr.iface:
                fc.self_ty = Ty("opaque", owner)
                cx.env["self"] = ("()", fc.self_ty)
                continue
            if owner not in tr.structs:
                raise Unsupported("self of unknown struct " + owner)
            if tr.iface:
                fc.self_ty = tr.struct_ty(owner, gvals)
            for fname, fty in tr.structs[owner]:
                ft = tr.ty(fty, gvals)
                ln = "self_" + fname
                cx.env["self." + fname] = (ln, ft)
                ptys.append(ft)
                pnames.append(ln)
            continue
        pt = tr.ty(t, gvals)
        ln = lean_ident(n)
        cx.env[n] = (ln, pt)
        ptys.append(pt)
        pnames.append(ln)
        if t[0] == "tref" and t[1]:
            muts.append(i)
    tr.mut_params[name] = muts
    fc.ret_ty = tr.ty(ret, gvals)
    if muts:
        user_ret = fc.ret_ty
        outs = [pnames[i] for i in muts]
        def wrap(c, outs=outs, user_ret=user_ret):
            parts = ([c] if user_ret != UNIT else []) + outs
            return "pure (" + ", ".join(parts) + ")" if len(parts) > 1 else f"pure {parts[0]}"
        fc.ret = wrap
        fc.fall = lambda: wrap("()")
    lean_name = tr.prefix + "." + mangle(name, gv)
    fc.lean_name = lean_name
    saved_tmp, tr.tmp = tr.tmp, 0
    saved_aux, tr.aux = tr.aux, []
    try:
        fc.final(fc.enabled(body), cx)
    finally:
        tr.tmp = saved_tmp
        aux, tr.aux = tr.aux, saved_aux
    lines = list(cx.lines)
    mon = "Rt.M" if eff else "Res"
    sig = " ".join(f"({n} : {tr.lean_ty(t)})" for n, t in zip(pnames, ptys))
    fuel = " (fuel : Nat)" if fc.needs_fuel else ""
    text = "".join(a + "\n" for a in aux)
    lret = tr.lean_ty(fc.ret_ty)
    if muts:
        parts = ([lret] if fc.ret_ty != UNIT else []) + [tr.lean_ty(ptys[i]) for i in muts]
        lret = "(" + " × ".join(parts) + ")" if len(parts) > 1 else parts[0]
    text += f"def {lean_name} (mode : Mode){fuel} {sig} : {mon} {lret} := do\n" + fc.render(lines, 1) + "\n"
    tr.out.append((name, gv, text))
    return (lean_name, ptys, fc.ret_ty, eff, fc.needs_fuel)


def uses_external(tr, node, seen):
    """does the body (transitively) call an external?"""
    if isinstance(node, tuple):
        if tr.iface and node and node[0] == "method":
            if node[2] in EFFECT_METHODS:
                return True
            for k, it in list(tr.fns.items()):
                if "::" in k and k.endswith("::" + node[2]) and id(it) not in seen and it[0] == "fn":
                    seen.add(id(it))
                    if uses_external(tr, it[4], seen):
                        return True
        if tr.iface and node and node[0] == "call" and node[1][0] == "path" and node[1][1][-1] in ("drop", "panicking", "replace_function_with_other_function", "replace_function_return_boolean"):
            return True
        if tr.iface and node and node[0] == "call" and node[1][0] == "path" and len(node[1][1]) >= 2:
            q = "::".join(node[1][1][-2:])
            if q in tr.fns and id(tr.fns[q]) not in seen and tr.fns[q][0] == "fn":
                seen.add(id(tr.fns[q]))
                if uses_external(tr, tr.fns[q][4], seen):
                    return True
        if node and node[0] == "macro" and node[1].split("::")[-1] == "asm":
            return True
        if node and node[0] == "call" and node[1][0] == "path":
            n = node[1][1][-1]
            if n in EXTERNALS or (n == "new" and len(node[1][1]) >= 2 and node[1][1][-2] == "PatchGuard"):
                return True
            if n in tr.fns and n not in seen and tr.fns[n][0] == "fn":
                seen.add(n)
                if uses_external(tr, tr.fns[n][4], seen):
                    return True
        return any(uses_external(tr, x, seen) for x in node)
    if isinstance(node, list):
        return any(uses_external(tr, x, seen) for x in node)
    return False
