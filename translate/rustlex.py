"""Small helpers shared by the translator modules: comment stripping, balanced-delimiter
scanning, function-body extraction, integer-literal parsing.  Deliberately simple: anything
that does not fit is reported as not found by the callers."""
import re


def strip_comments(src):
    """remove // and /* */ comments, keep string literals intact, keep line structure"""
    out = []
    i, n = 0, len(src)
    while i < n:
        c = src[i]
        if c == '"':
            j = i + 1
            while j < n and src[j] != '"':
                if src[j] == "\\":
                    j += 1
                j += 1
            out.append(src[i:j + 1])
            i = j + 1
        elif src.startswith("//", i):
            j = src.find("\n", i)
            if j < 0:
                j = n
            i = j
        elif src.startswith("/*", i):
            j = src.find("*/", i + 2)
            j = n if j < 0 else j + 2
            out.append("\n" * src[i:j].count("\n"))
            i = j
        elif c == "'" and i + 2 < n and (src[i + 2] == "'" or (src[i + 1] == "\\" and i + 3 < n and src[i + 3] == "'")):
            # char literal
            j = src.find("'", i + 2 if src[i + 1] != "\\" else i + 3)
            out.append(src[i:j + 1])
            i = j + 1
        else:
            out.append(c)
            i += 1
    return "".join(out)


OPEN = {"(": ")", "[": "]", "{": "}"}


def match_delim(s, i):
    """s[i] is an opening delimiter; return index of its partner (string-literal aware)"""
    stack = []
    n = len(s)
    while i < n:
        c = s[i]
        if c == '"':
            i += 1
            while i < n and s[i] != '"':
                if s[i] == "\\":
                    i += 1
                i += 1
        elif c == "'" and i + 2 < n and s[i + 2] == "'":
            i += 2          # simple char literal such as '(' or ')'
        elif c == "'" and i + 3 < n and s[i + 1] == "\\" and s[i + 3] == "'":
            i += 3          # escaped char literal
        elif c in OPEN:
            stack.append(OPEN[c])
        elif c in ")]}":
            if not stack or stack[-1] != c:
                return -1
            stack.pop()
            if not stack:
                return i
        i += 1
    return -1


def fn_body(src, name):
    """body text (without braces) of `fn name` — first definition; None if absent"""
    m = re.search(r"\bfn\s+" + re.escape(name) + r"\b", src)
    if not m:
        return None
    i = src.find("{", m.end())
    # skip a `where`/return type that cannot contain '{' in this code base
    if i < 0:
        return None
    j = match_delim(src, i)
    if j < 0:
        return None
    return src[i + 1:j]


def fn_bodies(src, name):
    res = []
    for m in re.finditer(r"\bfn\s+" + re.escape(name) + r"\b", src):
        i = src.find("{", m.end())
        if i < 0:
            continue
        j = match_delim(src, i)
        if j > 0:
            res.append(src[i + 1:j])
    return res


def parse_int(tok):
    t = tok.strip().replace("_", "")
    t = re.sub(r"(u8|u16|u32|u64|usize|i8|i16|i32|i64|isize|i128|u128)$", "", t)
    neg = t.startswith("-")
    if neg:
        t = t[1:].strip()
    try:
        if t.startswith("0x") or t.startswith("0X"):
            v = int(t[2:], 16)
        elif t.startswith("0b"):
            v = int(t[2:], 2)
        elif t.startswith("0o"):
            v = int(t[2:], 8)
        else:
            v = int(t)
    except ValueError:
        return None
    return -v if neg else v


def const_value(src, name):
    """`const NAME: T = <int>;` or `let NAME: T = <int>;` -> int or None"""
    m = re.search(r"\b(?:const|let)\s+" + re.escape(name) + r"\s*:\s*[^=;]+=\s*([^;]+);", src)
    if not m:
        return None
    return parse_int(m.group(1))


def const_array(src, name):
    m = re.search(r"\b(?:const|let)\s+(?:mut\s+)?" + re.escape(name) + r"\s*:\s*\[[^\]]*\]\s*=\s*\[([^\]]*)\]\s*;", src, re.S)
    if not m:
        return None
    vals = [parse_int(x) for x in m.group(1).split(",") if x.strip()]
    if any(v is None for v in vals):
        return None
    return vals


def split_top(s, sep=","):
    """split at top-level separators"""
    parts, depth, cur = [], 0, []
    i = 0
    while i < len(s):
        c = s[i]
        if c == '"':
            j = i + 1
            while j < len(s) and s[j] != '"':
                if s[j] == "\\":
                    j += 1
                j += 1
            cur.append(s[i:j + 1])
            i = j + 1
            continue
        if c in "([{<" and not (c == "<" and False):
            if c != "<":
                depth += 1
        elif c in ")]}":
            depth -= 1
        if c == sep and depth == 0:
            parts.append("".join(cur))
            cur = []
        else:
            cur.append(c)
        i += 1
    parts.append("".join(cur))
    return parts
