"""Small helpers shared by the translator modules: comment stripping, balanced-delimiter
scanning, function-body extraction, integer-literal parsing.  Deliberately simple: anything
that does not fit is reported as not found by the callers."""
import re


def strip_comments(src):
    """remove // and /* */ comments, keep string literals intact, keep line structure"""
    out = []
    i, n = 0, len(src)
    while i < n:
        c = src[i]
        if c == '"':
            j = i + 1
            while j < n and src[j] != '"':
                if src[j] == "\\":
                    j += 1
                j += 1
            out.append(src[i:j + 1])
            i = j + 1
        elif src.startswith("//", i):
            j = src.find("\n", i)
            if j < 0:
                j = n
            i = j
        elif src.startswith("/*", i):
            j = src.find("*/", i + 2)
            j = n if j < 0 else j + 2
            out.append("\n" * src[i:j].count("\n"))
            i = j
        elif c == "'" and i + 2 < n and (src[i + 2] == "'" or (src[i + 1] == "\\" and i + 3 < n and src[i + 3] == "'")):
            # char literal
            j = src.find("'", i + 2 if src[i + 1] != "\\" else i + 3)
            out.append(src[i:j + 1])
            i = j + 1
        else:
            out.append(c)
            i += 1
    return "".join(out)


OPEN = {"(": ")", "[": "]", "{": "}"}


def match_delim(s, i):
    """s[i] is an opening delimiter; return index of its partner (string-literal aware)"""
    stack = []
    n = len(s)
    while i < n:
        c = s[i]
        if c == '"':
            i += 1
            while i < n and s[i] != '"':
                if s[i] == "\\":
                    i += 1
                i += 1
        elif c == "'" and i + 2 < n and s[i + 2] == "'":
            i += 2          # simple char literal such as '(' or ')'
        elif c == "'" and i + 3 < n and s[i + 1] == "\\" and s[i + 3] == "'":
            i += 3          # escaped char literal
        elif c in OPEN:
            stack.append(OPEN[c])
        elif c in ")]}":
            if not stack or stack[-1] != c:
                return -1
            stack.pop()
            if not stack:
                return i
        i += 1
    return -1


def fn_body(src, name):
    """body text (without braces) of `fn name` — first definition; None if absent"""
    m = re.search(r"\bfn\s+" + re.escape(name) + r"\b", src)
    if not m:
        return None
    i = src.find("{", m.end())
    # skip a `where`/return type that cannot contain '{' in this code base
    if i < 0:
        return None
    j = match_delim(src, i)
    if j < 0:
        return None
    return src[i + 1:j]


def fn_bodies(src, name):
    res = []
    for m in re.finditer(r"\bfn\s+" + re.escape(name) + r"\b", src):
        i = src.find("{", m.end())
        if i < 0:
            continue
        j = match_delim(src, i)
        if j > 0:
            res.append(src[i + 1:j])
    return res


def parse_int(tok):
    t = tok.strip().replace("_", "")
    t = re.sub(r"(u8|u16|u32|u64|usize|i8|i16|i32|i64|isize|i128|u128)$", "", t)
    neg = t.startswith("-")
    if neg:
        t = t[1:].strip()
    try:
        if t.startswith("0x") or t.startswith("0X"):
            v = int(t[2:], 16)
        elif t.startswith("0b"):
            v = int(t[2:], 2)
        elif t.startswith("0o"):
            v = int(t[2:], 8)
        else:
            v = int(t)
    except ValueError:
        return None
    return -v if neg else v


def const_value(src, name):
    """`const NAME: T = <int>;` or `let NAME: T = <int>;` -> int or None"""
    m = re.search(r"\b(?:const|let)\s+" + re.escape(name) + r"\s*:\s*[^=;]+=\s*([^;]+);", src)
    if not m:
        return None
    return parse_int(m.group(1))


def const_array(src, name):
    m = re.search(r"\b(?:const|let)\s+(?:mut\s+)?" + re.escape(name) + r"\s*:\s*\[[^\]]*\]\s*=\s*\[([^\]]*)\]\s*;", src, re.S)
    if not m:
        return None
    vals = [parse_int(x) for x in m.group(1).split(",") if x.strip()]
    if any(v is None for v in vals):
        return None
    return vals


def split_top(s, sep=","):
    """split at top-level separators"""
    parts, depth, cur = [], 0, []
    i = 0
    while i < len(s):
        c = s[i]
        if c == '"':
            j = i + 1
            while j < len(s) and s[j] != '"':
                if s[j] == "\\":
                    j += 1
                j += 1
            cur.append(s[i:j + 1])
            i = j + 1
            continue
        if c in "([{<" and not (c == "<" and False):
            if c != "<":
                depth += 1
        elif c in ")]}":
            depth -= 1
        if c == sep and depth == 0:
            parts.append("".join(cur))
            cur = []
        else:
            cur.append(c)
        i += 1
    parts.append("".join(cur))
    return parts


# ---------------------------------------------------------------- helper inlining / constant resolution
def fn_defs(src):
    """name -> (params, has_self, body) for every non-generic `fn name(..) {..}` in `src` whose
    parameters are plain `name: Type` patterns (first definition wins)."""
    defs = {}
    for m in re.finditer(r"(\bpub(?:\([^)]*\))?\s+)?(?:const\s+)?(?:unsafe\s+)?\bfn\s+(\w+)\s*(<[^>(]*>)?\s*\(", src):
        name = m.group(2)
        if m.group(3) or name in defs:
            continue
        i = m.end() - 1
        j = match_delim(src, i)
        if j < 0:
            continue
        k = src.find("{", j)
        semi = src.find(";", j)
        if k < 0 or (0 <= semi < k):
            continue
        e = match_delim(src, k)
        if e < 0:
            continue
        params, has_self, ok = [], False, True
        for p in split_top(src[i + 1:j]):
            p = p.strip()
            if not p:
                continue
            if re.fullmatch(r"(&\s*(mut\s+)?|mut\s+)?self", p):
                has_self = True
                continue
            pm = re.match(r"(?:mut\s+)?(\w+)\s*:", p)
            if not pm:
                ok = False
                break
            params.append(pm.group(1))
        if ok:
            defs[name] = (params, has_self, src[k + 1:e], bool(m.group(1)))
    return defs


def _subst(body, name, arg):
    simple = re.fullmatch(r"[\w\.]+|\*?[\w\.]+", arg.strip()) is not None
    rep = arg.strip() if simple else "(" + arg.strip() + ")"
    return re.sub(r"(?<![\.\w])" + re.escape(name) + r"\b", lambda _m: rep, body)


def inline_calls(body, defs, keep=(), rounds=3):
    """Replace calls of private helper functions defined in `defs` by their bodies (parameters
    substituted textually).  Purely syntactic: good enough to see through `fn keep_guard(..)`,
    `fn assert_same_signature(..)`-style extractions; anything else is left as it is."""
    for _ in range(rounds):
        changed = False
        out, i = [], 0
        pat = re.compile(r"(?<![\w])(?:((?:self|[A-Za-z_]\w*)(?:\.\w+)*)\.)?(\w+)\s*\(")
        while True:
            m = pat.search(body, i)
            if not m:
                out.append(body[i:])
                break
            recv, name = m.group(1), m.group(2)
            d = defs.get(name)
            prev = body[max(0, m.start() - 4):m.start()]
            if d is None or name in keep or d[3] or prev.rstrip().endswith("fn") or (d[1] and recv is None) or (not d[1] and recv not in (None, "Self")):
                out.append(body[i:m.end()])
                i = m.end()
                continue
            op = m.end() - 1
            cl = match_delim(body, op)
            if cl < 0:
                out.append(body[i:m.end()])
                i = m.end()
                continue
            args = [a for a in split_top(body[op + 1:cl]) if a.strip()]
            params, has_self, fb, _ = d
            if len(args) != len(params):
                out.append(body[i:m.end()])
                i = m.end()
                continue
            new = fb
            for p, a in zip(params, args):
                new = _subst(new, p, a)
            if has_self:
                new = re.sub(r"(?<![\.\w])self\b", lambda _m: recv, new)
            out.append(body[i:m.start()])
            if ";" not in new and "\n" not in new.strip():
                # a one-expression helper reads as that expression
                e = new.strip()
                out.append(e if re.fullmatch(r"[\w\.:]+(\(\))?(\.\w+\(\))*", e) else "(" + e + ")")
            else:
                out.append("{" + new + "}")
            i = cl + 1
            changed = True
        body = "".join(out)
        if not changed:
            break
    return body


def module_consts(src):
    """`const NAME: T = <integer expression of literals and other constants>;` -> {NAME: int}"""
    raw, dup = {}, set()
    for m in re.finditer(r"\bconst\s+([A-Z_][A-Z0-9_]*)\s*:\s*[^=;\[\]]+=\s*([^;]+);", src):
        if m.group(1) in raw:
            dup.add(m.group(1))      # cfg-dependent variants (or shadowing): not resolved
        raw[m.group(1)] = m.group(2).strip()
    for k in dup:
        del raw[k]
    vals = {}

    def ev(expr, depth=0):
        if depth > 6:
            return None
        v = parse_int(expr)
        if v is not None:
            return v
        toks = re.findall(r"[A-Za-z_]\w*|0x[0-9A-Fa-f_]+|\d[\d_]*|[\*\+\-\(\)]|<<|\S", expr)
        py = []
        for t in toks:
            if re.fullmatch(r"0x[0-9A-Fa-f_]+|\d[\d_]*", t):
                py.append(str(parse_int(t)))
            elif t in ("*", "+", "-", "(", ")", "<<"):
                py.append(t)
            elif t in raw:
                r = ev(raw[t], depth + 1)
                if r is None:
                    return None
                py.append(str(r))
            elif re.fullmatch(r"u8|u16|u32|u64|usize|i32|i64|isize|as", t):
                continue
            else:
                return None
        try:
            return int(eval(" ".join(py), {"__builtins__": {}}))
        except Exception:
            return None
    for k, e in raw.items():
        v = ev(e)
        if v is not None:
            vals[k] = v
    return vals


def resolve_consts(src):
    """textually replace uses (not definitions) of integer module constants by their values"""
    vals = module_consts(src)
    if not vals:
        return src

    def rep(m):
        pre = src[max(0, m.start() - 8):m.start()]
        if re.search(r"(const|static|let)\s+$", pre):
            return m.group(0)
        return str(vals[m.group(0)])
    return re.sub(r"(?<![\w:])(" + "|".join(re.escape(k) for k in sorted(vals, key=len, reverse=True)) + r")\b(?!\s*:)", rep, src)


def resolve_aliases(body):
    """`let x = a.b.c;` (a plain path) and `let Self { f, g, .. } = self;` are read through:
    later uses of `x` become `a.b.c`, of `f` become `self.f`.  Textual, for the recognisers."""
    for _ in range(4):
        m = None
        for mm in re.finditer(r"\blet\s+(\w+)\s*(?::\s*[^=;]+)?=\s*((?:self|[A-Za-z_]\w*)(?:\.\w+)+)\s*;", body):
            m = mm
            break
        if not m:
            break
        var, path = m.group(1), m.group(2)
        head, tail = body[:m.start()], body[m.end():]
        tail = re.sub(r"(?<![\.\w])" + re.escape(var) + r"\b(?!\s*:)", lambda _m: path, tail)
        body = head + tail
    m = re.search(r"\blet\s+Self\s*\{([^}]*)\}\s*=\s*self\s*;", body)
    if m:
        names = [x.strip() for x in m.group(1).split(",") if x.strip() and x.strip() != ".."]
        head, tail = body[:m.start()], body[m.end():]
        for nme in names:
            if re.fullmatch(r"\w+", nme):
                tail = re.sub(r"(?<![\.\w])" + re.escape(nme) + r"\b(?!\s*:)", lambda _m, n=nme: "self." + n, tail)
        body = head + tail
    return body
