"""Generated/FakeArms.lean: every arm of `macro_rules! fake` as an IR record
(matcher + transcriber skeleton).  Unrecognised pieces become explicit `unknown` nodes."""
import os
import re

from rustlex import match_delim, strip_comments


def norm(s):
    return " ".join(s.split())


KIND = {
    "": "FnKind.safe",
    "unsafe": "FnKind.unsafeFn",
    'unsafe extern "C"': "FnKind.externC",
    'unsafe extern "system"': "FnKind.externSystem",
}


def kind_of(q):
    return KIND.get(norm(q), "FnKind.unknown")


def ret_of(t):
    t = norm(t)
    if t == "()":
        return "RetTy.unit"
    if t == "$ret":
        return "RetTy.retVar"
    return "RetTy.unknown"


def parse_arms(src):
    m = re.search(r"macro_rules!\s*fake\s*\{", src)
    if not m:
        return None
    i = src.find("{", m.start())
    j = match_delim(src, i)
    body = src[i + 1:j]
    base_line = src[:i + 1].count("\n") + 1
    arms = []
    k = 0
    n = len(body)
    while k < n:
        while k < n and body[k].isspace():
            k += 1
        if k >= n:
            break
        if body[k] != "(":
            # unexpected text: stop, report as one unknown arm
            arms.append({"line": base_line + body[:k].count("\n"), "matcher": None, "trans": None})
            break
        e = match_delim(body, k)
        matcher = body[k + 1:e]
        line = base_line + body[:k].count("\n")
        t = e + 1
        mm = re.match(r"\s*=>\s*", body[t:])
        if not mm:
            arms.append({"line": line, "matcher": None, "trans": None})
            break
        t += mm.end()
        if body[t] not in "{([":
            arms.append({"line": line, "matcher": None, "trans": None})
            break
        te = match_delim(body, t)
        trans = body[t + 1:te]
        arms.append({"line": line, "matcher": matcher, "trans": trans})
        k = te + 1
        mm = re.match(r"\s*;?", body[k:])
        k += mm.end()
    return arms


MATCHER_RE = re.compile(
    r'^func_type: (?P<q>(?:unsafe )?(?:extern "(?:C|system)" )?)fn\(\$\(\$arg_name:ident: \$arg_ty:ty\),\*\) -> (?P<ret>\$ret:ty|\(\))'
    r'(?P<opts>(?:, (?:when: \$cond:expr|assign: \{ \$\(\$assign:tt\)\* \}|returns: \$ret_val:expr|times: \$expected:expr))*)$')


def parse_matcher(mt):
    m = MATCHER_RE.match(norm(mt).replace("( ", "(").replace(" )", ")"))
    if not m:
        return None
    opts = re.findall(r", (when|assign|returns|times):", m.group("opts"))
    order = [o for o in ["when", "assign", "returns", "times"] if o in opts]
    return {
        "kind": kind_of(m.group("q")),
        "ret": "RetTy.unit" if m.group("ret") == "()" else "RetTy.retVar",
        "opts": opts,
        "order_ok": opts == order and len(set(opts)) == len(opts),
    }


OVER_MSG = r'panic!\("Fake function defined at \{\}:\{\}:\{\} called more times than expected", file!\(\), line!\(\), column!\(\)\);?'
UNEXP_MSG = r'panic!\("Fake function defined at \{\}:\{\}:\{\} called with unexpected arguments", file!\(\), line!\(\), column!\(\)\);?'
ORDERING = r"(?:std::sync::atomic::|atomic::)?Ordering::SeqCst"


def parse_block(text, counter):
    """text: body of the then-branch; `counter`: name of the call-site static (or None).
    Returns list of Stmt.  Local names are free; the operations and their order are not."""
    t = norm(text)
    out = []
    prev = None
    while t:
        m = re.match(r"^let (\w+) = (\w+)\.fetch_add\(1, " + ORDERING + r"\);", t)
        if m and counter is not None and m.group(2) == counter:
            prev = m.group(1)
            out.append("Stmt.fetchAddPrev")
            t = t[m.end():].strip()
            continue
        if counter is not None:
            # the same two operations with the temporary folded into the test
            m = re.match(r"^if (?:" + re.escape(counter) + r"\.fetch_add\(1, " + ORDERING + r"\) >= \$expected|\$expected <= " +
                         re.escape(counter) + r"\.fetch_add\(1, " + ORDERING + r"\)) \{ " + OVER_MSG + r" \}", t)
            if m:
                out.append("Stmt.fetchAddPrev")
                out.append("Stmt.ifPrevGeExpectedPanicOver")
                t = t[m.end():].strip()
                continue
        if prev is not None:
            m = re.match(r"^if (?:" + re.escape(prev) + r" >= \$expected|\$expected <= " + re.escape(prev) + r") \{ " + OVER_MSG + r" \}", t)
            if m:
                out.append("Stmt.ifPrevGeExpectedPanicOver")
                t = t[m.end():].strip()
                continue
        m = re.match(r"^\{ \$\(\$assign\)\* \}", t)
        if m:
            out.append("Stmt.assign")
            t = t[m.end():].strip()
            continue
        m = re.match(r"^\$ret_val(?= |$)", t)
        if m:
            out.append("Stmt.retVal")
            t = t[m.end():].strip()
            continue
        m = re.match(r"^\(\)(?= |$)", t)
        if m:
            out.append("Stmt.retUnit")
            t = t[m.end():].strip()
            continue
        out.append("Stmt.unknown")
        break
    return out


HELPERS = {}     # helper macros of the same file: name -> ([param names], body text); filled by parse()


def find_helper_macros(src):
    """single-arm `macro_rules! name { ($a:frag, $b:frag) => {{ body }}; }` whose matcher is a plain
    comma-separated list of fragments: these can be expanded textually at their call sites"""
    out = {}
    for m in re.finditer(r"macro_rules!\s*(\w+)\s*\{", src):
        name = m.group(1)
        if name == "fake":
            continue
        i = src.find("{", m.start())
        j = match_delim(src, i)
        if j is None or j < 0:
            continue
        body = src[i + 1:j].strip()
        if not body.startswith("("):
            continue
        pe = match_delim(body, 0)
        matcher = body[1:pe]
        rest = body[pe + 1:].lstrip()
        if not rest.startswith("=>"):
            continue
        rest = rest[2:].lstrip()
        if not rest or rest[0] not in "{(":
            continue
        be = match_delim(rest, 0)
        if rest[be + 1:].strip().strip(";").strip():
            continue                     # more than one arm
        params = []
        ok = True
        for part in matcher.split(","):
            mp = re.fullmatch(r"\s*\$(\w+)\s*:\s*(expr|ty|ident|path|tt|literal)\s*", part)
            if not mp:
                ok = False
                break
            params.append(mp.group(1))
        if ok and params:
            out[name] = (params, rest[1:be])
    return out


def split_top_commas(text):
    parts, depth, cur = [], 0, ""
    for ch in text:
        if ch in "([{<" and not (ch == "<" and cur.endswith("-")):
            depth += 1 if ch != "<" else 0
        if ch in ")]}":
            depth -= 1
        if ch == "," and depth == 0:
            parts.append(cur)
            cur = ""
        else:
            cur += ch
    parts.append(cur)
    return [x.strip() for x in parts]


def inline_helpers(text, depth=0):
    """expand `$crate::name!(args)` / `name!(args)` for the helper macros found in the file"""
    if depth > 3 or not HELPERS:
        return text
    for name, (params, body) in HELPERS.items():
        while True:
            m = re.search(r"(?:\$crate\s*::\s*)?\b" + re.escape(name) + r"\s*!\s*\(", text)
            if not m:
                break
            oi = text.find("(", m.end() - 1)
            ce = match_delim(text, oi)
            args = split_top_commas(text[oi + 1:ce])
            if len(args) != len(params):
                return text
            b = body
            for pn, a in zip(params, args):
                b = re.sub(r"\$" + pn + r"\b", lambda _m, a=a: a, b)
            text = text[:m.start()] + b + text[ce + 1:]
    return text


def hoist_block_in_tuple(na):
    """`({ let ..; let ..; expr }, v)` -> `let ..; let ..; (expr, v)` (a helper macro's block as the first
    component of the result pair)"""
    m = re.match(r"^\(\s*\{", na)
    if not m:
        return na
    oi = na.find("{")
    ce = match_delim(na, oi)
    if ce is None or ce < 0:
        return na
    rest = na[ce + 1:].strip()
    mv = re.fullmatch(r",\s*(\w+)\s*\)", rest)
    if not mv:
        return na
    blk = na[oi + 1:ce].strip()
    # split the block into its `let` statements and the final expression
    stmts, depth, cur = [], 0, ""
    for ch in blk:
        if ch in "({[":
            depth += 1
        elif ch in ")}]":
            depth -= 1
        if ch == ";" and depth == 0:
            stmts.append(cur.strip())
            cur = ""
        else:
            cur += ch
    final = cur.strip()
    if not final or not all(x.startswith("let ") for x in stmts):
        return na
    return "; ".join(stmts) + "; (" + final + ", " + mv.group(1) + ")"


def resolve(expr, lets, depth=0):
    """replace let-bound names by their (resolved) right-hand sides"""
    if depth > 6:
        return expr
    def rep(m):
        n = m.group(0)
        return "(" + resolve(lets[n], lets, depth + 1) + ")" if n in lets else n
    return re.sub(r"(?<![\w\.\$:])[A-Za-z_]\w*\b(?!\s*[:(!])", rep, expr)


def canon_guards(fbody):
    """early-exit spellings of the same body, brought to the nested form the IR describes:
       `let x[: bool] = $cond; if !x { panic-unexpected } rest`  /  `if !$cond { panic-unexpected } rest`
                                      ==  `if $cond { rest } else { panic-unexpected }`   (the panic diverges)
       a body without any condition   ==  `if true { body } else { unreachable!() }`       (the else is dead)"""
    nb = norm(fbody)
    if re.match(r"^if (\$cond|true) \{", nb):
        return fbody
    m = re.match(r"^let (\w+)(?: ?: ?bool)? = \$cond; if !\1 \{ (" + UNEXP_MSG + r") \} (.*)$", nb)
    if m:
        return "if $cond { %s } else { %s }" % (m.group(3), m.group(2))
    m = re.match(r"^if !(?:\$cond|\(\$cond\)) \{ (" + UNEXP_MSG + r") \} (.*)$", nb)
    if m:
        return "if $cond { %s } else { %s }" % (m.group(2), m.group(1))
    if "$cond" not in nb and not nb.startswith("if true"):
        return "if true { %s } else { unreachable!() }" % nb
    return fbody


def parse_trans(tr):
    """tr is the inside of the outer braces `{ { ... } }` -> strip the inner brace pair"""
    t = tr.strip()
    if not (t.startswith("{") and match_delim(t, 0) == len(t) - 1):
        return None
    t = t[1:-1]
    res = {}
    nt = norm(t)
    ms = re.search(r"\bstatic (\w+): AtomicUsize = AtomicUsize::new\(0\);", nt)
    counter = ms.group(1) if ms else None
    imports = ("use std::sync::atomic::{AtomicUsize, Ordering};" in nt) or \
              ("use std::sync::atomic::AtomicUsize;" in nt and "use std::sync::atomic::Ordering;" in nt) or \
              ("use std::sync::atomic::{Ordering, AtomicUsize};" in nt)
    res["counter_static"] = counter is not None and imports
    verifier_var = None
    mv = re.search(r"\blet (\w+) = CallCountVerifier::WithCount \{ counter: &(\w+), expected: \$expected,? \};", nt)
    md = re.search(r"\blet (\w+) = CallCountVerifier::Dummy;", nt)
    if mv and counter is not None and mv.group(2) == counter:
        res["verifier"] = "VerifierK.withCount"
        verifier_var = mv.group(1)
    elif md and not mv:
        res["verifier"] = "VerifierK.dummy"
        verifier_var = md.group(1)
    else:
        res["verifier"] = "VerifierK.unknown"
    # the generated function
    m = re.search(r'(?P<q>(?:unsafe\s+)?(?:extern\s+"(?:C|system)"\s+)?)fn\s+(?P<name>\w+)\s*\(\s*\$\(\s*\$arg_name\s*:\s*\$arg_ty\s*\)\s*,\s*\*\s*\)\s*->\s*(?P<ret>\$ret|\(\))\s*\{', t)
    if not m:
        return None
    fname = m.group("name")
    res["fake_kind"] = kind_of(m.group("q"))
    res["fake_ret"] = ret_of(m.group("ret"))
    bi = t.find("{", m.end() - 1)
    be = match_delim(t, bi)
    fbody = t[bi + 1:be].strip()
    after = t[be + 1:]
    fbody = canon_guards(fbody)
    m2 = re.match(r"if\s+(\$cond|true)\s*\{", fbody)
    if not m2:
        res["cond"] = "Cond.unknown"
        res["then"] = ["Stmt.unknown"]
        res["else"] = "ElseBr.unknown"
    else:
        res["cond"] = "Cond.whenCond" if m2.group(1) == "$cond" else "Cond.constTrue"
        ti = fbody.find("{", m2.end() - 1)
        te = match_delim(fbody, ti)
        res["then"] = parse_block(fbody[ti + 1:te], counter)
        rest = fbody[te + 1:].strip()
        m3 = re.match(r"else\s*\{", rest)
        if not m3:
            res["else"] = "ElseBr.unknown"
        else:
            ei = rest.find("{")
            ee = match_delim(rest, ei)
            eb = norm(rest[ei + 1:ee])
            if rest[ee + 1:].strip():
                res["else"] = "ElseBr.unknown"
            elif eb in ("unreachable!()", "unreachable!();"):
                res["else"] = "ElseBr.unreachable"
            elif re.fullmatch(UNEXP_MSG, eb):
                res["else"] = "ElseBr.panicUnexpected"
            else:
                res["else"] = "ElseBr.unknown"
    # tail: a typed coercion of the generated function, then (FuncPtr::new(ptr, type_name), verifier)
    na = norm(hoist_block_in_tuple(norm(inline_helpers(after))))
    res["coerce_kind"] = "FnKind.unknown"
    res["coerce_ret"] = "RetTy.unknown"
    res["tail_ok"] = False
    m4 = re.match(r'^let (?P<f>\w+): (?P<q>(?:unsafe )?(?:extern "(?:C|system)" )?)fn\(\$\(\$arg_ty\),\*\) -> (?P<ret>\$ret|\(\)) = ' + re.escape(fname) + r'; (?P<rest>.*)$', na)
    if m4:
        fvar = m4.group("f")
        rest = m4.group("rest")
        lets = {}
        while True:
            ml = re.match(r"^let (\w+) = ", rest)
            if not ml:
                break
            # right-hand side up to the `;` that is not inside braces/parens
            depth, k = 0, ml.end()
            while k < len(rest) and not (rest[k] == ";" and depth == 0):
                if rest[k] in "({[":
                    depth += 1
                elif rest[k] in ")}]":
                    depth -= 1
                k += 1
            lets[ml.group(1)] = rest[ml.end():k].strip()
            rest = rest[k + 1:].strip()
        # compare modulo parentheses (alias resolution wraps substituted expressions in them)
        final = "".join(resolve(rest, lets).split()).replace("(", "").replace(")", "")
        want = "unsafe{FuncPtr::new%sas*const,std::any::type_name_of_val&%s},%s" % (fvar, fvar, verifier_var)
        if final == want:
            res["coerce_kind"] = kind_of(m4.group("q"))
            res["coerce_ret"] = ret_of(m4.group("ret"))
            res["tail_ok"] = True
    return res


def metavars(text):
    return set(re.findall(r"\$([A-Za-z_]\w*)", text)) - {"crate"}


def parse(repo):
    """list of dicts {line, matcher(dict|None), trans(dict|None)} or None if the macro is absent"""
    p = os.path.join(repo, "src", "interface", "macros.rs")
    src = strip_comments(open(p).read()) if os.path.exists(p) else ""
    HELPERS.clear()
    HELPERS.update(find_helper_macros(src))
    arms = parse_arms(src)
    if arms is None:
        return None
    res = []
    for a in arms:
        mt = parse_matcher(a["matcher"]) if a["matcher"] is not None else None
        tr = parse_trans(a["trans"]) if a["trans"] is not None else None
        res.append({"line": a["line"], "matcher": mt, "trans": tr})
    return res


def generate(repo):
    p = os.path.join(repo, "src", "interface", "macros.rs")
    src = strip_comments(open(p).read()) if os.path.exists(p) else ""
    HELPERS.clear()
    HELPERS.update(find_helper_macros(src))
    arms = parse_arms(src)
    L = ["/- GENERATED by translate/arms.py from /repo/src/interface/macros.rs — do not edit. -/",
         "namespace Inj.Generated.FakeArms", "",
         "inductive FnKind where | safe | unsafeFn | externC | externSystem | unknown deriving Repr, DecidableEq",
         "inductive RetTy where | unit | retVar | unknown deriving Repr, DecidableEq",
         "inductive Cond where | whenCond | constTrue | unknown deriving Repr, DecidableEq",
         "inductive Stmt where | fetchAddPrev | ifPrevGeExpectedPanicOver | assign | retVal | retUnit | unknown deriving Repr, DecidableEq",
         "inductive ElseBr where | panicUnexpected | unreachable | unknown deriving Repr, DecidableEq",
         "inductive VerifierK where | dummy | withCount | unknown deriving Repr, DecidableEq",
         "",
         "structure Arm where",
         "  line : Nat",
         "  parsed : Bool",
         "  kind : FnKind",
         "  matcherRet : RetTy",
         "  optWhen : Bool",
         "  optAssign : Bool",
         "  optReturns : Bool",
         "  optTimes : Bool",
         "  optOrderOk : Bool",
         "  fakeKind : FnKind",
         "  fakeRet : RetTy",
         "  coerceKind : FnKind",
         "  coerceRet : RetTy",
         "  cond : Cond",
         "  thenStmts : List Stmt",
         "  elseBr : ElseBr",
         "  verifier : VerifierK",
         "  counterStatic : Bool",
         "  tailOk : Bool",
         "  unboundVars : Nat",
         "  deriving Repr, DecidableEq", ""]

    def b(x):
        return "true" if x else "false"
    recs = []
    for a in arms or []:
        mt = parse_matcher(a["matcher"]) if a["matcher"] is not None else None
        tr = parse_trans(a["trans"]) if a["trans"] is not None else None
        if mt is None or tr is None:
            recs.append(f"  {{ line := {a['line']}, parsed := false, kind := FnKind.unknown, matcherRet := RetTy.unknown, optWhen := false, optAssign := false, "
                        "optReturns := false, optTimes := false, optOrderOk := false, fakeKind := FnKind.unknown, fakeRet := RetTy.unknown, "
                        "coerceKind := FnKind.unknown, coerceRet := RetTy.unknown, cond := Cond.unknown, thenStmts := [Stmt.unknown], elseBr := ElseBr.unknown, "
                        "verifier := VerifierK.unknown, counterStatic := false, tailOk := false, unboundVars := 0 }")
            continue
        bound = metavars(a["matcher"])
        used = metavars(a["trans"])
        unbound = len(used - bound)
        recs.append(
            f"  {{ line := {a['line']}, parsed := true, kind := {mt['kind']}, matcherRet := {mt['ret']}, "
            f"optWhen := {b('when' in mt['opts'])}, optAssign := {b('assign' in mt['opts'])}, optReturns := {b('returns' in mt['opts'])}, "
            f"optTimes := {b('times' in mt['opts'])}, optOrderOk := {b(mt['order_ok'])}, fakeKind := {tr['fake_kind']}, fakeRet := {tr['fake_ret']}, "
            f"coerceKind := {tr['coerce_kind']}, coerceRet := {tr['coerce_ret']}, cond := {tr['cond']}, thenStmts := [{', '.join(tr['then'])}], "
            f"elseBr := {tr['else']}, verifier := {tr['verifier']}, counterStatic := {b(tr['counter_static'])}, tailOk := {b(tr['tail_ok'])}, "
            f"unboundVars := {unbound} }}")
    L.append("def arms : List Arm := [")
    L.append(",\n".join(recs))
    L.append("]")
    L.append("")
    L.append(f"def macroFound : Bool := {b(arms is not None)}")
    L += ["", "end Inj.Generated.FakeArms", ""]
    return "\n".join(L)
