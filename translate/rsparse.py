"""A parser for the subset of Rust that the function-level translator (rs2lean.py) understands.

It is deliberately partial: anything outside the subset raises `Unsupported`, and the caller
then treats the whole function as *not translated* (pinned text, tie by correspondence only).
AST nodes are tuples whose first element is the node kind.

  expressions
    ('int', value, suffix|None)   ('bool', b)   ('str', s)   ('path', [segments], [generic args])
    ('unary', op, e)   ('binary', op, a, b)   ('cast', e, type)   ('assign', op, lhs, rhs)
    ('call', callee_expr, [args])   ('method', recv, name, [generic args], [args])
    ('index', e, idx)   ('field', e, name)   ('range', lo|None, hi|None, inclusive)
    ('array', [elems])   ('repeat', elem, count)   ('tuple', [elems])   ('paren', e)
    ('block', [stmts], tail|None, attrs)   ('unsafe', block)
    ('if', cond, then_block, else|None)   ('while', cond, block)   ('for', pat, iter, block)
    ('return', e|None)   ('macro', name, [args], raw_text)   ('closure', [pats], body)
  statements
    ('let', pat, type|None, init|None, attrs)   ('expr', e, has_semicolon, attrs)
    ('const', name, type, e, attrs)
  patterns
    ('pid', name, mutable, by_ref)   ('pwild',)   ('ptuple', [pats])   ('pderef', pat)
  types
    ('tpath', name, [args])   ('tarray', type, len_expr)   ('tslice', type)   ('tref', mutable, type)
    ('tptr', mutable, type)   ('tunit',)   ('ttuple', [types])
"""
import re


class Unsupported(Exception):
    pass


TOKEN_RE = re.compile(r"""
    (?P<ws>\s+)
  | (?P<lifetime>'[A-Za-z_][A-Za-z0-9_]*(?!'))
  | (?P<char>'(?:\\.|[^\\'])')
  | (?P<str>"(?:\\.|[^"\\])*")
  | (?P<num>0x[0-9A-Fa-f_]+(?:[iu](?:8|16|32|64|128|size))?|0b[01_]+(?:[iu](?:8|16|32|64|128|size))?|0o[0-7_]+(?:[iu](?:8|16|32|64|128|size))?|[0-9][0-9_]*(?:[iu](?:8|16|32|64|128|size))?)
  | (?P<ident>[A-Za-z_][A-Za-z0-9_]*)
  | (?P<op><<=|>>=|\.\.=|\.\.\.|::|->|=>|==|!=|<=|>=|&&|\|\||\+=|-=|\*=|/=|%=|\^=|&=|\|=|<<|>>|\.\.|[-+*/%^!&|=<>@.,;:#$?~(){}\[\]])
""", re.X)


def tokenize(src):
    toks = []
    i, n = 0, len(src)
    while i < n:
        m = TOKEN_RE.match(src, i)
        if not m:
            raise Unsupported("cannot tokenize at %r" % src[i:i + 20])
        i = m.end()
        k = m.lastgroup
        if k == "ws":
            continue
        toks.append((k, m.group(k)))
    toks.append(("eof", ""))
    return toks


def char_value(tok):
    """code point of a char literal token (with its quotes)"""
    body = tok[1:-1]
    if len(body) == 1:
        return ord(body)
    esc = {"\\n": 10, "\\r": 13, "\\t": 9, "\\\\": 92, "\\0": 0, "\\'": 39, '\\"': 34}
    if body in esc:
        return esc[body]
    raise Unsupported("char literal " + tok)


INT_SUFFIX = re.compile(r"([iu](?:8|16|32|64|128|size))$")


def parse_int_token(t):
    t = t.replace("_", "")
    suf = None
    if not t.startswith("0x") and not t.startswith("0X"):
        m = INT_SUFFIX.search(t)
    else:
        # in a hex literal a trailing `u8` etc. is only a suffix when preceded by hex digits; i/u are not hex digits
        m = INT_SUFFIX.search(t)
    if m:
        suf = m.group(1)
        t = t[:m.start()]
    if t.startswith("0x"):
        v = int(t[2:], 16)
    elif t.startswith("0b"):
        v = int(t[2:], 2)
    elif t.startswith("0o"):
        v = int(t[2:], 8)
    else:
        v = int(t)
    return v, suf


BINOPS = {
    "||": 1, "&&": 2,
    "==": 3, "!=": 3, "<": 3, ">": 3, "<=": 3, ">=": 3,
    "|": 4, "^": 5, "&": 6, "<<": 7, ">>": 7, "+": 8, "-": 8, "*": 9, "/": 9, "%": 9,
}
ASSIGN_OPS = {"=", "+=", "-=", "*=", "/=", "%=", "^=", "&=", "|=", "<<=", ">>="}


class Parser:
    def __init__(self, src):
        self.toks = tokenize(src)
        self.i = 0

    # ---------------------------------------------------------------- token helpers
    def peek(self, k=0):
        return self.toks[min(self.i + k, len(self.toks) - 1)]

    def at(self, val):
        return self.peek()[1] == val and self.peek()[0] in ("op", "ident")

    def at_ident(self, val=None):
        t = self.peek()
        return t[0] == "ident" and (val is None or t[1] == val)

    def next(self):
        t = self.toks[self.i]
        self.i += 1
        return t

    def expect(self, val):
        t = self.next()
        if t[1] != val:
            raise Unsupported("expected %r, got %r" % (val, t[1]))
        return t

    def ident(self):
        t = self.next()
        if t[0] != "ident":
            raise Unsupported("expected identifier, got %r" % (t[1],))
        return t[1]

    # ---------------------------------------------------------------- attributes
    def attrs(self):
        """outer attributes #[...]; returns list of raw token-text lists"""
        res = []
        while self.at("#") and self.peek(1)[1] in ("[", "!"):
            self.next()
            if self.at("!"):
                self.next()
            self.expect("[")
            depth = 1
            body = []
            while depth:
                t = self.next()
                if t[0] == "eof":
                    raise Unsupported("unterminated attribute")
                if t[1] == "[":
                    depth += 1
                elif t[1] == "]":
                    depth -= 1
                    if depth == 0:
                        break
                body.append(t[1])
            res.append(body)
        return res

    # ---------------------------------------------------------------- types
    def type(self):
        if self.at("&"):
            self.next()
            if self.peek()[0] == "lifetime":
                self.next()
            mut = False
            if self.at_ident("mut"):
                self.next()
                mut = True
            return ("tref", mut, self.type())
        if self.at("&&"):
            self.next()
            return ("tref", False, ("tref", False, self.type()))
        if self.at("*"):
            self.next()
            k = self.ident()
            if k not in ("mut", "const"):
                raise Unsupported("raw pointer type")
            return ("tptr", k == "mut", self.type())
        if self.at("["):
            self.next()
            t = self.type()
            if self.at(";"):
                self.next()
                n = self.expr()
                self.expect("]")
                return ("tarray", t, n)
            self.expect("]")
            return ("tslice", t)
        if self.at("("):
            self.next()
            ts = []
            while not self.at(")"):
                ts.append(self.type())
                if self.at(","):
                    self.next()
            self.expect(")")
            return ("tunit",) if not ts else ("ttuple", ts)
        if self.at_ident("impl") or self.at_ident("dyn") or self.at_ident("fn"):
            raise Unsupported("impl/dyn/fn type")
        segs = [self.ident()]
        args = []
        while True:
            if self.at("::"):
                self.next()
                if self.at("<"):
                    args = self.generic_args()
                else:
                    segs.append(self.ident())
            elif self.at("<"):
                args = self.generic_args()
            else:
                break
        return ("tpath", "::".join(segs), args)

    def generic_args(self):
        self.expect("<")
        args = []
        while not self.at(">"):
            if self.peek()[0] == "lifetime":
                self.next()
            elif self.peek()[0] == "num" or self.at("{") or self.at("-"):
                args.append(("gexpr", self.unary()))
            else:
                args.append(("gtype", self.type()))
            if self.at(","):
                self.next()
        self.expect(">")
        return args

    # ---------------------------------------------------------------- patterns
    def pattern(self):
        if self.at("&"):
            self.next()
            if self.at_ident("mut"):
                self.next()
            return ("pderef", self.pattern())
        if self.at("("):
            self.next()
            ps = []
            while not self.at(")"):
                ps.append(self.pattern())
                if self.at(","):
                    self.next()
            self.expect(")")
            return ("ptuple", ps)
        if self.at_ident("_"):
            self.next()
            return ("pwild",)
        by_ref = False
        mut = False
        if self.at_ident("ref"):
            self.next()
            by_ref = True
        if self.at_ident("mut"):
            self.next()
            mut = True
        t = self.peek()
        if t[0] == "char":
            self.next()
            return ("plit", ("char", char_value(t[1])))
        if t[0] == "num":
            self.next()
            v, suf = parse_int_token(t[1])
            return ("plit", ("int", v, suf))
        if t[0] == "str":
            self.next()
            return ("plit", ("str", t[1][1:-1]))
        name = self.ident()
        segs = [name]
        while self.at("::"):
            self.next()
            segs.append(self.ident())
        if self.at("("):
            self.next()
            ps = []
            while not self.at(")"):
                ps.append(self.pattern())
                if self.at(","):
                    self.next()
            self.expect(")")
            return ("pctor", segs, ps)
        if self.at("{"):
            self.next()
            fields = []
            rest = False
            while not self.at("}"):
                if self.at(".."):
                    self.next()
                    rest = True
                else:
                    fn_ = self.ident()
                    if self.at(":"):
                        self.next()
                        fields.append((fn_, self.pattern()))
                    else:
                        fields.append((fn_, ("pid", fn_, False, False)))
                if self.at(","):
                    self.next()
            self.expect("}")
            return ("pstruct", segs, fields, rest)
        if len(segs) > 1 or name in ("None",):
            return ("pctor", segs, [])
        return ("pid", name, mut, by_ref)

    # ---------------------------------------------------------------- expressions
    def expr(self, no_struct=False):
        return self.assignment(no_struct)

    def assignment(self, no_struct):
        lhs = self.range_expr(no_struct)
        if self.peek()[0] == "op" and self.peek()[1] in ASSIGN_OPS:
            op = self.next()[1]
            rhs = self.assignment(no_struct)
            return ("assign", op, lhs, rhs)
        return lhs

    def range_expr(self, no_struct):
        if self.at("..") or self.at("..="):
            inc = self.next()[1] == "..="
            hi = None
            if not self._range_end():
                hi = self.binary(1, no_struct)
            return ("range", None, hi, inc)
        lo = self.binary(1, no_struct)
        if self.at("..") or self.at("..="):
            inc = self.next()[1] == "..="
            hi = None
            if not self._range_end():
                hi = self.binary(1, no_struct)
            return ("range", lo, hi, inc)
        return lo

    def _range_end(self):
        return self.peek()[1] in ("]", ")", "}", ",", ";", "{") or self.peek()[0] == "eof"

    def binary(self, minprec, no_struct):
        lhs = self.cast(no_struct)
        while True:
            t = self.peek()
            if t[0] != "op" or t[1] not in BINOPS:
                break
            prec = BINOPS[t[1]]
            if prec < minprec:
                break
            op = self.next()[1]
            rhs = self.binary(prec + 1, no_struct)
            lhs = ("binary", op, lhs, rhs)
        return lhs

    def cast(self, no_struct):
        e = self.unary(no_struct)
        while self.at_ident("as"):
            self.next()
            e = ("cast", e, self.type())
        return e

    def unary(self, no_struct=False):
        if self.at("-") or self.at("!") or self.at("*"):
            op = self.next()[1]
            return ("unary", op, self.unary(no_struct))
        if self.at("&") or self.at("&&"):
            n = 2 if self.next()[1] == "&&" else 1
            mut = False
            if self.at_ident("mut"):
                self.next()
                mut = True
            e = self.unary(no_struct)
            for _ in range(n):
                e = ("unary", "&mut" if mut else "&", e)
            return e
        return self.postfix(no_struct)

    def postfix(self, no_struct):
        e = self.primary(no_struct)
        while True:
            if self.at("("):
                e = ("call", e, self.call_args())
            elif self.at("["):
                self.next()
                idx = self.expr()
                self.expect("]")
                e = ("index", e, idx)
            elif self.at("."):
                self.next()
                if self.peek()[0] == "num":
                    e = ("field", e, self.next()[1])
                    continue
                name = self.ident()
                gargs = []
                if self.at("::"):
                    self.next()
                    gargs = self.generic_args()
                if self.at("("):
                    e = ("method", e, name, gargs, self.call_args())
                else:
                    e = ("field", e, name)
            elif self.at("?"):
                raise Unsupported("? operator")
            else:
                break
        return e

    def call_args(self):
        self.expect("(")
        args = []
        while not self.at(")"):
            args.append(self.expr())
            if self.at(","):
                self.next()
        self.expect(")")
        return args

    def block(self):
        self.expect("{")
        stmts = []
        tail = None
        while not self.at("}"):
            at = self.attrs()
            if self.at_ident("let"):
                self.next()
                pat = self.pattern()
                ty = None
                if self.at(":"):
                    self.next()
                    ty = self.type()
                init = None
                if self.at("="):
                    self.next()
                    init = self.expr()
                if self.at_ident("else"):
                    self.next()
                    eb = self.block()
                    self.expect(";")
                    stmts.append(("letelse", pat, ty, init, eb, at))
                    continue
                self.expect(";")
                stmts.append(("let", pat, ty, init, at))
                continue
            if self.at_ident("const") and self.peek(1)[0] == "ident" and self.peek(2)[1] == ":":
                self.next()
                name = self.ident()
                self.expect(":")
                ty = self.type()
                self.expect("=")
                e = self.expr()
                self.expect(";")
                stmts.append(("const", name, ty, e, at))
                continue
            if self.at_ident("use"):
                while not self.at(";"):
                    self.next()
                self.next()
                continue
            if self.at_ident("fn") or self.at_ident("struct") or self.at_ident("static") or self.at_ident("impl"):
                raise Unsupported("nested item")
            if self.at(";"):
                self.next()
                continue
            e = self.expr()
            blocklike = e[0] in ("if", "while", "for", "block", "unsafe", "loop", "match", "iflet", "whilelet")
            if self.at(";"):
                self.next()
                stmts.append(("expr", e, True, at))
            elif self.at("}"):
                if at and e[0] in ("block", "unsafe"):
                    # a cfg-attributed trailing block: keep it as a statement-with-value
                    stmts.append(("expr", e, False, at))
                else:
                    tail = e
                    if at:
                        stmts.append(("expr", e, False, at))
                        tail = None
            elif blocklike:
                stmts.append(("expr", e, False, at))
            else:
                raise Unsupported("expected ; after expression, got %r" % (self.peek()[1],))
        self.expect("}")
        return ("block", stmts, tail, [])

    def primary(self, no_struct):
        t = self.peek()
        if t[0] == "num":
            self.next()
            v, suf = parse_int_token(t[1])
            return ("int", v, suf)
        if t[0] == "str":
            self.next()
            return ("str", t[1][1:-1])
        if t[0] == "char":
            self.next()
            return ("char", char_value(t[1]))
        if t[1] == "(":
            self.next()
            if self.at(")"):
                self.next()
                return ("tuple", [])
            e = self.expr()
            if self.at(","):
                es = [e]
                while self.at(","):
                    self.next()
                    if self.at(")"):
                        break
                    es.append(self.expr())
                self.expect(")")
                return ("tuple", es)
            self.expect(")")
            return ("paren", e)
        if t[1] == "[":
            self.next()
            if self.at("]"):
                self.next()
                return ("array", [])
            e = self.expr()
            if self.at(";"):
                self.next()
                n = self.expr()
                self.expect("]")
                return ("repeat", e, n)
            es = [e]
            while self.at(","):
                self.next()
                if self.at("]"):
                    break
                es.append(self.expr())
            self.expect("]")
            return ("array", es)
        if t[1] == "{":
            return self.block()
        if t[1] == "|" or t[1] == "||":
            pats = []
            if self.next()[1] == "|":
                while not self.at("|"):
                    pats.append(self.pattern())
                    if self.at(":"):
                        self.next()
                        self.type()
                    if self.at(","):
                        self.next()
                self.expect("|")
            body = self.expr()
            return ("closure", pats, body)
        if t[0] == "ident":
            kw = t[1]
            if kw == "unsafe":
                self.next()
                return ("unsafe", self.block())
            if kw == "if":
                self.next()
                if self.at_ident("let"):
                    self.next()
                    pat = self.pattern()
                    self.expect("=")
                    scrut = self.expr(no_struct=True)
                    th = self.block()
                    el = None
                    if self.at_ident("else"):
                        self.next()
                        if self.at_ident("if"):
                            el = self.primary(no_struct)
                        else:
                            el = self.block()
                    return ("iflet", pat, scrut, th, el)
                c = self.expr(no_struct=True)
                th = self.block()
                el = None
                if self.at_ident("else"):
                    self.next()
                    if self.at_ident("if"):
                        el = self.primary(no_struct)
                    else:
                        el = self.block()
                return ("if", c, th, el)
            if kw == "while":
                self.next()
                if self.at_ident("let"):
                    self.next()
                    pat = self.pattern()
                    self.expect("=")
                    scrut = self.expr(no_struct=True)
                    return ("whilelet", pat, scrut, self.block())
                c = self.expr(no_struct=True)
                return ("while", c, self.block())
            if kw == "for":
                self.next()
                p = self.pattern()
                self.expect("in")
                it = self.expr(no_struct=True)
                return ("for", p, it, self.block())
            if kw == "match":
                self.next()
                scrut = self.expr(no_struct=True)
                self.expect("{")
                arms = []
                while not self.at("}"):
                    self.attrs()
                    if self.at("|"):
                        self.next()
                    pats = [self.pattern()]
                    while self.at("|"):
                        self.next()
                        pats.append(self.pattern())
                    guard = None
                    if self.at_ident("if"):
                        self.next()
                        guard = self.expr()
                    self.expect("=>")
                    body = self.expr()
                    if self.at(","):
                        self.next()
                    arms.append((pats[0] if len(pats) == 1 else ("por", pats), guard, body))
                self.expect("}")
                return ("match", scrut, arms)
            if kw in ("loop", "move", "async", "await"):
                raise Unsupported(kw)
            if kw == "return":
                self.next()
                if self.peek()[1] in (";", "}", ")", ","):
                    return ("return", None)
                return ("return", self.expr())
            if kw in ("break", "continue"):
                raise Unsupported(kw)
            if kw in ("true", "false"):
                self.next()
                return ("bool", kw == "true")
            # path, possibly a macro call
            segs = [self.ident()]
            gargs = []
            while self.at("::"):
                self.next()
                if self.at("<"):
                    gargs = self.generic_args()
                else:
                    segs.append(self.ident())
            if self.at("!") and self.peek(1)[1] in ("(", "[", "{"):
                self.next()
                open_ = self.next()[1]
                close = {"(": ")", "[": "]", "{": "}"}[open_]
                start = self.i
                # try to parse the arguments as expressions; fall back to raw tokens
                depth = 1
                j = self.i
                while depth:
                    tt = self.toks[j]
                    if tt[0] == "eof":
                        raise Unsupported("unterminated macro")
                    if tt[1] in "([{" and tt[0] == "op":
                        depth += 1
                    elif tt[1] in ")]}" and tt[0] == "op":
                        depth -= 1
                    j += 1
                raw = self.toks[start:j - 1]
                args = None
                try:
                    save = self.i
                    a = []
                    while not self.at(close):
                        e = self.expr()
                        if self.at(";"):
                            self.next()
                            n = self.expr()
                            e = ("repeat", e, n)
                        a.append(e)
                        if self.at(","):
                            self.next()
                    if self.i == j - 1:
                        args = a
                except Unsupported:
                    args = None
                self.i = j
                return ("macro", "::".join(segs), args, [x[1] for x in raw])
            if self.at("{") and not no_struct and segs[-1][:1].isupper():
                self.next()
                fields = []
                base = None
                while not self.at("}"):
                    if self.at(".."):
                        self.next()
                        base = self.expr()
                    else:
                        fname = self.ident()
                        if self.at(":"):
                            self.next()
                            fields.append((fname, self.expr()))
                        else:
                            fields.append((fname, ("path", [fname], [])))
                    if self.at(","):
                        self.next()
                self.expect("}")
                return ("structlit", segs, fields, base)
            return ("path", segs, gargs)
        raise Unsupported("unexpected token %r" % (t[1],))

    def _struct_has_body(self):
        """at `struct Name` possibly followed by `<...>`: is the next thing a `{`?"""
        j = self.i + 2
        if self.toks[j][1] == "<":
            depth = 0
            while self.toks[j][0] != "eof":
                if self.toks[j][1] == "<":
                    depth += 1
                elif self.toks[j][1] == ">":
                    depth -= 1
                    if depth == 0:
                        j += 1
                        break
                j += 1
        return self.toks[j][1] == "{"

    # ---------------------------------------------------------------- items
    def items(self, prefix=""):
        """yield ('fn', qualified name, params, ret type, body block, attrs) and ('const', name, type, expr, attrs)"""
        out = []
        while self.peek()[0] != "eof" and not self.at("}"):
            at = self.attrs()
            # visibility / qualifiers
            while True:
                if self.at_ident("pub"):
                    self.next()
                    if self.at("("):
                        while not self.at(")"):
                            self.next()
                        self.next()
                elif self.at_ident("unsafe") and self.peek(1)[1] in ("fn", "impl", "extern"):
                    self.next()
                elif self.at_ident("extern") and self.peek(1)[0] == "str":
                    self.next()
                    self.next()
                elif self.at_ident("const") and self.peek(1)[1] in ("fn", "unsafe"):
                    self.next()
                else:
                    break
            if self.at("{"):
                self._skip_braces()      # extern "C" { ... }
                continue
            if self.at_ident("fn"):
                self.next()
                name = self.ident()
                generics = []
                if self.at("<"):
                    self.next()
                    depth = 1
                    cur = []
                    while depth:
                        t = self.next()
                        if t[1] == "<":
                            depth += 1
                        elif t[1] == ">":
                            depth -= 1
                            if depth == 0:
                                break
                        cur.append(t[1])
                    generics = cur
                self.expect("(")
                params = []
                while not self.at(")"):
                    self.attrs()
                    if self.at("&") and (self.peek(1)[1] == "self" or (self.peek(1)[1] == "mut" and self.peek(2)[1] == "self")):
                        self.next()
                        if self.at_ident("mut"):
                            self.next()
                        self.next()
                        params.append((("pid", "self", False, False), ("tpath", "Self", [])))
                    elif self.at_ident("self"):
                        self.next()
                        params.append((("pid", "self", False, False), ("tpath", "Self", [])))
                    elif self.at_ident("mut") and self.peek(1)[1] == "self":
                        self.next()
                        self.next()
                        params.append((("pid", "self", True, False), ("tpath", "Self", [])))
                    else:
                        p = self.pattern()
                        self.expect(":")
                        params.append((p, self.type()))
                    if self.at(","):
                        self.next()
                self.expect(")")
                ret = ("tunit",)
                if self.at("->"):
                    self.next()
                    ret = self.type()
                if self.at_ident("where"):
                    while not self.at("{") and not self.at(";"):
                        self.next()
                    if self.at("{"):
                        self._skip_braces()
                    else:
                        self.next()
                    out.append(("fn_unsupported", prefix + name, "where clause", at))
                    continue
                if self.at(";"):
                    self.next()
                    continue
                start = self.i
                try:
                    body = self.block()
                    out.append(("fn", prefix + name, params, ret, body, at, generics))
                except Unsupported as ex:
                    # skip the body by brace matching and record the function as unparsable
                    self.i = start
                    self._skip_braces()
                    out.append(("fn_unsupported", prefix + name, str(ex), at))
            elif self.at_ident("const") or self.at_ident("static"):
                self.next()
                if self.at_ident("mut"):
                    self.next()
                name = self.ident()
                self.expect(":")
                try:
                    ty = self.type()
                    self.expect("=")
                    e = self.expr()
                    self.expect(";")
                    out.append(("const", prefix + name, ty, e, at))
                except Unsupported:
                    while not self.at(";"):
                        self.next()
                    self.next()
            elif self.at_ident("impl"):
                self.next()
                hdr = []
                while not self.at("{"):
                    hdr.append(self.next()[1])
                self.next()
                # `impl Trait for Type` / `impl Type`; generic parameter lists are dropped
                flat = []
                depth = 0
                for tok in hdr:
                    if tok == "<":
                        depth += 1
                    elif tok == ">":
                        depth -= 1
                    elif depth == 0:
                        flat.append(tok)
                hdr = flat
                tname = hdr[-1] if hdr else "?"
                if "for" in hdr:
                    tname = hdr[hdr.index("for") + 1]
                    trait = hdr[0]
                    sub = self.items(prefix=f"{tname}::{trait}::")
                else:
                    sub = self.items(prefix=f"{tname}::")
                self.expect("}")
                out += sub
            elif self.at_ident("use") or self.at_ident("mod") or self.at_ident("type"):
                while not self.at(";") and not self.at("{"):
                    self.next()
                if self.at("{"):
                    self._skip_braces()
                    if self.at(";"):
                        self.next()
                else:
                    self.next()
            elif self.at_ident("struct") and self.peek(1)[0] == "ident" and self.peek(2)[1] in ("{", "<") and self._struct_has_body():
                self.next()
                sname = self.ident()
                if self.at("<"):
                    depth = 0
                    while True:
                        t = self.next()
                        if t[1] == "<":
                            depth += 1
                        elif t[1] == ">":
                            depth -= 1
                            if depth == 0:
                                break
                self.expect("{")
                fields = []
                try:
                    while not self.at("}"):
                        self.attrs()
                        if self.at_ident("pub"):
                            self.next()
                            if self.at("("):
                                while not self.at(")"):
                                    self.next()
                                self.next()
                        fname = self.ident()
                        self.expect(":")
                        fields.append((fname, self.type()))
                        if self.at(","):
                            self.next()
                    self.expect("}")
                    out.append(("struct", sname, fields, at))
                except Unsupported:
                    depth = 1
                    while depth:
                        t = self.next()
                        if t[1] == "{":
                            depth += 1
                        elif t[1] == "}":
                            depth -= 1
            elif self.at_ident("enum") and self.peek(1)[0] == "ident" and self.peek(2)[1] == "{":
                self.next()
                ename = self.ident()
                self.expect("{")
                start = self.i
                try:
                    variants = []
                    while not self.at("}"):
                        self.attrs()
                        vname = self.ident()
                        vfields = []
                        kind = "unit"
                        if self.at("{"):
                            kind = "struct"
                            self.next()
                            while not self.at("}"):
                                self.attrs()
                                fname = self.ident()
                                self.expect(":")
                                vfields.append((fname, self.type()))
                                if self.at(","):
                                    self.next()
                            self.expect("}")
                        elif self.at("("):
                            kind = "tuple"
                            self.next()
                            while not self.at(")"):
                                vfields.append((str(len(vfields)), self.type()))
                                if self.at(","):
                                    self.next()
                            self.expect(")")
                        if self.at(","):
                            self.next()
                        variants.append((vname, kind, vfields))
                    self.expect("}")
                    out.append(("enum", ename, variants, at))
                except Unsupported:
                    self.i = start - 1
                    self._skip_braces()
            elif self.at_ident("struct") or self.at_ident("enum") or self.at_ident("trait") or self.at_ident("macro_rules"):
                while not self.at(";") and not self.at("{") and not self.at("("):
                    self.next()
                if self.at("("):
                    depth = 0
                    while True:
                        t = self.next()
                        if t[1] == "(":
                            depth += 1
                        elif t[1] == ")":
                            depth -= 1
                            if depth == 0:
                                break
                    if self.at(";"):
                        self.next()
                elif self.at("{"):
                    self._skip_braces()
                else:
                    self.next()
            else:
                # an item outside the subset (thread_local!, macro invocations, unions, ...): skip it
                depth = 0
                progressed = False
                while self.peek()[0] != "eof":
                    t = self.next()
                    progressed = True
                    if t[0] == "op" and t[1] in "([{":
                        depth += 1
                    elif t[0] == "op" and t[1] in ")]}":
                        depth -= 1
                        if depth == 0 and t[1] == "}":
                            if self.at(";"):
                                self.next()
                            break
                        if depth < 0:
                            self.i -= 1
                            break
                    elif t[1] == ";" and depth == 0:
                        break
                if not progressed:
                    raise Unsupported("item starting with %r" % (self.peek()[1],))
        return out

    def _skip_braces(self):
        self.expect("{")
        depth = 1
        while depth:
            t = self.next()
            if t[0] == "eof":
                raise Unsupported("unbalanced braces")
            if t[0] == "op" and t[1] == "{":
                depth += 1
            elif t[0] == "op" and t[1] == "}":
                depth -= 1


def eval_cfg(tokens, cfg):
    """evaluate the predicate of a #[cfg(...)] attribute given as a token list"""
    pos = [0]

    def pred():
        t = tokens[pos[0]]
        pos[0] += 1
        if t in ("any", "all", "not"):
            assert tokens[pos[0]] == "("
            pos[0] += 1
            vals = []
            while tokens[pos[0]] != ")":
                vals.append(pred())
                if tokens[pos[0]] == ",":
                    pos[0] += 1
            pos[0] += 1
            if t == "any":
                return any(vals)
            if t == "all":
                return all(vals)
            return not vals[0]
        if pos[0] < len(tokens) and tokens[pos[0]] == "=":
            pos[0] += 1
            v = tokens[pos[0]].strip('"')
            pos[0] += 1
            return cfg.get(t) == v
        return bool(cfg.get(t))

    return pred()


def attrs_enabled(attrs, cfg):
    for a in attrs:
        if a and a[0] == "cfg" and len(a) > 2:
            if not eval_cfg(a[2:-1], cfg):
                return False
    return True


def parse_file(src):
    from rustlex import strip_comments
    return Parser(strip_comments(src)).items()
