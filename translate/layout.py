"""Generated/Layout.lean: structural facts of injector.rs / verifier.rs the model is parametric in.

Every fact is three-valued here: recognised as holding, recognised as NOT holding, or not
recognised (None).  A fact that is not recognised falls back to the pinned value of
translate/pinned.json and is reported in `fallback`: for that fact the tie to the source is
then the correspondence run alone (the runner enlarges its budget and says so in the evidence).
A fact recognised with a different value is emitted as found, so the proofs that need it break."""
import os
import re

from rustlex import fn_body, fn_defs, inline_calls, match_delim, resolve_aliases, strip_comments

KEEP = ("lock", "signature_returns_bool", "drop", "default", "new", "prevent")


def read(repo, rel):
    p = os.path.join(repo, "src", rel)
    if not os.path.exists(p):
        return ""
    return strip_comments(open(p).read())


def struct_fields(src, name):
    m = re.search(r"\bstruct\s+" + name + r"\s*(<[^>{]*>)?\s*\{", src)
    if not m:
        return None
    i = src.find("{", m.start())
    j = match_delim(src, i)
    body = src[i + 1:j]
    fields = []
    depth = 0
    cur = ""
    for c in body:
        if c in "<([{":
            depth += 1
        elif c in ">)]}":
            depth -= 1
        if c == "," and depth == 0:
            fields.append(cur)
            cur = ""
        else:
            cur += c
    if cur.strip():
        fields.append(cur)
    res = []
    for f in fields:
        f = re.sub(r"#\[[^\]]*\]", "", f).strip()
        m2 = re.match(r"(?:pub(?:\([^)]*\))?\s+)?(\w+)\s*:\s*(.*)", f, re.S)
        if m2:
            res.append((m2.group(1), " ".join(m2.group(2).split())))
    return res


def impl_body(src, header_re):
    m = re.search(header_re, src)
    if not m:
        return None
    i = src.find("{", m.end() - 1)
    j = match_delim(src, i)
    return src[i + 1:j]


def order(body, pat_a, pat_b):
    """True: both occur and a's first occurrence precedes b's; False: both occur, other order;
    None: one of them was not found"""
    ma = re.search(pat_a, body or "")
    mb = re.search(pat_b, body or "")
    if not ma or not mb:
        return None
    return ma.start() < mb.start()


def sig_gate_pos(body):
    """position of a signature gate (`if A != B { .. panic!`, assert_eq!/assert!) or None"""
    a = r"\(?\s*(?:target\.signature|self\.expected_signature)\s*\)?"
    pats = [r"if\s*\(?\s*" + a + r"\s*!=\s*" + a + r"\s*\)?\s*\{[^{}]*panic!",
            r"if\s*!\s*\(\s*" + a + r"\s*==\s*" + a + r"\s*\)\s*\{[^{}]*panic!",
            r"assert_eq!\s*\(\s*" + a + r"\s*,\s*" + a,
            r"assert!\s*\(\s*" + a + r"\s*==\s*" + a]
    best = None
    for p in pats:
        for m in re.finditer(p, body):
            if "target.signature" in m.group(0) and "self.expected_signature" in m.group(0):
                best = m.start() if best is None else min(best, m.start())
                break
    return best


def gate_before(body, call_pat):
    """signature gate precedes the patching call?  (tri-state)"""
    mc = re.search(call_pat, body or "")
    if not mc:
        return None
    g = sig_gate_pos(body)
    if g is not None:
        return g < mc.start()
    if "expected_signature" not in body:
        return False          # the patching call is there and nothing looks at the signature
    return None


DROP_STEPS = [
    # (pattern on whitespace-free text, field, kind)
    (r"whileletSome\((\w+)\)=self\.guards\.pop\(\)\{(drop\(\1\);?|let_=\1;)?\}", "guards", "newest"),
    (r"for(\w+)in(self\.guards\.drain\(\.\.\)\.rev\(\)|std::mem::take\(&mutself\.guards\)\.into_iter\(\)\.rev\(\))\{(drop\(\1\);?)?\}", "guards", "newest"),
    (r"self\.guards\.drain\(\.\.\)\.rev\(\)\.for_each\(drop\);", "guards", "newest"),
    (r"self\.guards\.clear\(\);", "guards", "oldest"),
    (r"drop\(std::mem::take\(&mutself\.guards\)\);", "guards", "oldest"),
    (r"for(\w+)inself\.guards\.drain\(\.\.\)\{(drop\(\1\);?)?\}", "guards", "oldest"),
    (r"self\.guards\.drain\(\.\.\)\.for_each\(drop\);", "guards", "oldest"),
    (r"self\.verifiers\.clear\(\);", "verifiers", None),
    (r"drop\(std::mem::take\(&mutself\.verifiers\)\);", "verifiers", None),
    (r"self\.verifiers\.drain\(\.\.\)\.for_each\(drop\);", "verifiers", None),
    (r"for(\w+)inself\.verifiers\.drain\(\.\.\)\{(drop\(\1\);?)?\}", "verifiers", None),
]

HELPER_EXPECTED = ("letSome(open)=signature.find('(')else{returnfalse;};letmutdepth=0usize;"
                   "for(i,c)insignature[open..].char_indices(){matchc{'('=>depth+=1,')'=>{depth-=1;"
                   "ifdepth==0{returnsignature[open+i+1..].trim()==\"->bool\";}}_=>{}}}false")


def facts(repo):
    """name -> (lean type, lean value or None)"""
    inj = read(repo, "interface/injector.rs")
    ver = read(repo, "interface/verifier.rs")
    fp = read(repo, "interface/func_ptr.rs")
    defs = fn_defs(inj)
    F = {}

    def tb(v):
        return None if v is None else ("true" if v else "false")

    fields = struct_fields(inj, "InjectorPP")
    fmap = []
    for name, ty in fields or []:
        if "PatchGuard" in ty:
            fmap.append("Field.guards")
        elif "CallCountVerifier" in ty:
            fmap.append("Field.verifiers")
        elif "MutexGuard" in ty:
            fmap.append("Field.lock")
        else:
            fmap.append("Field.other")
    F["injectorFields"] = ("List Field", "[" + ", ".join(fmap) + "]" if fields else None)
    lock_field = next((n for n, t in fields or [] if "MutexGuard" in t), None)
    pfields = struct_fields(inj, "Preventer") or []
    plock_field = next((n for n, t in pfields if "MutexGuard" in t), None)

    # ---- Drop for InjectorPP
    dbody = impl_body(inj, r"impl\s+Drop\s+for\s+InjectorPP\s*\{")
    steps, kinds, unknown = [], [], False
    if dbody is None:
        F["guardDropOrder"] = ("DropOrderSrc", "DropOrderSrc.vecFieldDrop")
        F["injectorHasDropImpl"] = ("Bool", "false")
        F["injectorDropBody"] = ("List Field", "[]")
    else:
        fb = inline_calls(fn_body(dbody, "drop") or "", defs, keep=KEEP)
        rest = "".join(fb.split())
        rest = re.sub(r"^\{|\}$", "", rest) if rest.startswith("{{") else rest
        while rest:
            if rest[0] in "{};":            # block braces left by inlining
                rest = rest[1:]
                continue
            for (pat, fld, kind) in DROP_STEPS:
                m = re.match(pat, rest)
                if m:
                    steps.append("Field." + fld)
                    if fld == "guards":
                        kinds.append(kind)
                    rest = rest[m.end():]
                    break
            else:
                unknown = True
                break
        if unknown:
            F["guardDropOrder"] = ("DropOrderSrc", None)
            F["injectorDropBody"] = ("List Field", None)
        else:
            if not kinds:
                o = "DropOrderSrc.vecFieldDrop"
            elif kinds[0] == "newest":
                o = "DropOrderSrc.explicitNewestFirst"
            else:
                o = "DropOrderSrc.vecFieldDrop"
            F["guardDropOrder"] = ("DropOrderSrc", o)
            F["injectorDropBody"] = ("List Field", "[" + ", ".join(steps) + "]")
        F["injectorHasDropImpl"] = ("Bool", "true")

    # ---- the process-wide lock
    statics = re.findall(r"\bstatic\s+(\w+)\s*:\s*NoPoisonMutex", inj)
    ib = impl_body(inj, r"impl\s+InjectorPP\s*\{") or ""
    newb = inline_calls(fn_body(ib, "new") or "", defs, keep=KEEP)
    prevb = inline_calls(fn_body(ib, "prevent") or "", defs, keep=KEEP)

    def takes_lock(body, field, ctors):
        if field is None or not body:
            return None, None
        for m in re.finditer(r"let\s+(\w+)\s*=\s*(\w+)\.lock\(\)\s*;", body):
            var, st = m.group(1), m.group(2)
            if re.search(r"\b(?:" + ctors + r")\s*\{[^}]*\b" + re.escape(field) + r"\s*:\s*" + re.escape(var) + r"\b", body, re.S) or \
               (var == field and re.search(r"\b(?:" + ctors + r")\s*\{[^}]*\b" + re.escape(field) + r"\s*[,}]", body, re.S)):
                return True, st
        m = re.search(r"\b(?:" + ctors + r")\s*\{[^}]*\b" + re.escape(field) + r"\s*:\s*(\w+)\.lock\(\)", body, re.S)
        if m:
            return True, m.group(1)
        return None, None
    n_ok, n_st = takes_lock(newb, lock_field, "Self|InjectorPP")
    p_ok, p_st = takes_lock(prevb, plock_field, "Self|Preventer")
    F["newTakesLock"] = ("Bool", tb(n_ok))
    F["preventTakesLock"] = ("Bool", tb(p_ok))
    same = None
    if n_ok and p_ok:
        same = (n_st == p_st and statics.count(n_st) == 1)
    F["sameLockStatic"] = ("Bool", tb(same))
    F["preventerHoldsGuard"] = ("Bool", tb(True if plock_field is not None else (False if pfields else None)))
    lb = impl_body(inj, r"impl\s*<\s*T\s*>\s*NoPoisonMutex\s*<\s*T\s*>\s*\{") or ""
    lockb = "".join((fn_body(lb, "lock") or "").split())
    pr = None
    if (re.search(r"Err\((\w+)\)=>\{?\1\.into_inner\(\)", lockb) and re.search(r"Ok\((\w+)\)=>\1", lockb)) or \
       re.search(r"\.lock\(\)\.unwrap_or_else\((std::sync::)?PoisonError::into_inner\)", lockb) or \
       re.search(r"\.lock\(\)\.unwrap_or_else\(\|(\w+)\|\1\.into_inner\(\)\)", lockb):
        pr = True
    elif re.search(r"\.lock\(\)\.(unwrap\(\)|expect\()", lockb):
        pr = False
    F["poisonRecovered"] = ("Bool", tb(pr))

    # ---- CallCountVerifier::drop
    vb = fn_body(impl_body(ver, r"impl\s+Drop\s+for\s+CallCountVerifier\s*\{") or "", "drop") or ""
    vnorm = "".join(vb.split())
    cp = order(vnorm, r"if(std::)?(thread::)?panicking\(\)\{return;?\}", r"panic!\(")
    if cp is None and "panic!(" in vnorm and "panicking()" not in vnorm:
        cp = False
    F["verifierChecksPanicking"] = ("Bool", tb(cp))
    ne = None
    if re.search(r"if\*?\w+!=\*?expected\{", vnorm) or re.search(r"if\*?expected!=\*?\w+\{", vnorm) or \
       re.search(r"if\*?\w+==\*?expected\{return;?\}", vnorm) or re.search(r"if\*?expected==\*?\w+\{return;?\}", vnorm):
        ne = True
    elif re.search(r"if\*?\w+[<>]=?\*?expected\{", vnorm):
        ne = False
    F["verifierComparesNe"] = ("Bool", tb(ne))
    F["verifierLoadsCounter"] = ("Bool", tb(True if re.search(r"counter\.load\(", vnorm) else None))

    # ---- gates of the builders
    wb = impl_body(inj, r"impl\s*(?:<\s*'\w+\s*>)?\s+WhenCalledBuilder\s*<\s*'\w+\s*>\s*\{") or ""
    wab = impl_body(inj, r"impl\s*(?:<\s*'\w+\s*>)?\s+WhenCalledBuilderAsync\s*<\s*'\w+\s*>\s*\{") or ""
    raw = resolve_aliases(inline_calls(fn_body(wb, "will_execute_raw") or "", defs, keep=KEEP))
    we = resolve_aliases(inline_calls(fn_body(wb, "will_execute") or "", defs, keep=KEEP + ("will_execute_raw",)))
    wrb = resolve_aliases(inline_calls(fn_body(wb, "will_return_boolean") or "", defs, keep=KEEP))
    wra = resolve_aliases(inline_calls(fn_body(wab, "will_return_async") or "", defs, keep=KEEP))
    F["rawGateBeforeGuard"] = ("Bool", tb(gate_before(raw, r"will_execute_guard\(")))
    F["asyncGateBeforeGuard"] = ("Bool", tb(gate_before(wra, r"will_execute_guard\(")))
    if re.search(r"if\s*!\s*self\.expected_signature\.trim\(\)\.ends_with\(\s*\"-> bool\"\s*\)\s*\{\s*panic!", wrb):
        bg = "BoolGateSrc.endsWithArrowBool"
    elif re.search(r"if\s*!\s*signature_returns_bool\(\s*self\.expected_signature\s*\)\s*\{\s*panic!", wrb):
        hb = "".join((fn_body(inj, "signature_returns_bool") or "").split())
        bg = "BoolGateSrc.topLevelReturnType" if hb == HELPER_EXPECTED else None
    else:
        bg = None
    F["boolGate"] = ("BoolGateSrc", bg)
    F["boolGateBeforeGuard"] = ("Bool", tb(order(wrb, r"panic!", r"will_return_boolean_guard\(")))
    F["verifierPushedBeforeGate"] = ("Bool", tb(order(we, r"self\.lib\.verifiers\.push\(", r"self\.will_execute_raw\(")))
    thr = None
    if re.search(r"self\.will_execute_raw\(\s*\w+\s*\)", we):
        thr = True
    elif re.search(r"will_execute_guard\(", we):
        thr = False
    F["willExecuteGoesThroughRaw"] = ("Bool", tb(thr))
    reset = order(we, r"\.store\(\s*0\s*,", r"self\.will_execute_raw\(")
    if reset is None and re.search(r"self\.will_execute_raw\(", we) and ".store(" not in we and "swap(" not in we:
        reset = False
    F["counterResetOnInstall"] = ("Bool", tb(reset))
    F["uncheckedCarriesEmptySig"] = ("Bool", tb(True if len(re.findall(r'expected_signature\s*:\s*\"\"', inj)) >= 2 else None))
    nb = fn_body(fp, "new") or ""
    rn = None
    if re.search(r"NonNull::new\(\s*\w+\s*\)\s*\.expect\(", nb) or re.search(r"NonNull::new\(\s*\w+\s*\)\s*\.unwrap\(\)", nb):
        rn = True
    elif "new_unchecked" in nb:
        rn = False
    F["funcPtrRejectsNull"] = ("Bool", tb(rn))
    return F


ORDER = ["injectorFields", "guardDropOrder", "injectorHasDropImpl", "injectorDropBody", "newTakesLock",
         "preventTakesLock", "sameLockStatic", "preventerHoldsGuard", "poisonRecovered", "verifierChecksPanicking",
         "verifierComparesNe", "verifierLoadsCounter", "rawGateBeforeGuard", "asyncGateBeforeGuard", "boolGate",
         "boolGateBeforeGuard", "verifierPushedBeforeGate", "willExecuteGoesThroughRaw", "counterResetOnInstall",
         "uncheckedCarriesEmptySig", "funcPtrRejectsNull"]

DOC = {"injectorFields": "fields of `InjectorPP` in declaration order (= drop order)",
       "injectorDropBody": "statements of `Drop::drop` for `InjectorPP`, in order, as recognised"}


def generate(repo, pinned, report):
    F = facts(repo)
    L = ["/- GENERATED by translate/layout.py from /repo/src — do not edit. -/",
         "namespace Inj.Generated.Layout", "",
         "inductive Field where | guards | verifiers | lock | other | unknown deriving Repr, DecidableEq",
         "inductive DropOrderSrc where | vecFieldDrop | explicitNewestFirst | unknown deriving Repr, DecidableEq",
         "inductive BoolGateSrc where | endsWithArrowBool | topLevelReturnType | unknown deriving Repr, DecidableEq", ""]
    fallback = []
    for name in ORDER:
        ty, val = F[name]
        if val is None:
            fallback.append(name)
            val = pinned[name]["value"]
        if name in DOC:
            L.append("/-- " + DOC[name] + " -/")
        L.append(f"def {name} : {ty} := {val}")
    # process-wide or thread-local mutable state declared in injector_core: the machine / allocator /
    # encoder models have none (their only state is memory and the OS), so a new `static`,
    # `thread_local!` or once-cell there is state the model does not have
    import glob as _glob
    import rustlex as _rl
    statics = []
    for f in sorted(_glob.glob(os.path.join(repo, "src", "injector_core", "*.rs")) + [os.path.join(repo, "src", "injector_core.rs")]):
        try:
            text = _rl.strip_comments(open(f).read())
        except OSError:
            continue
        for m in re.finditer(r"\bstatic\s+(?:mut\s+)?([A-Za-z_][A-Za-z0-9_]*)\s*:", text):
            statics.append(os.path.basename(f) + ":" + m.group(1))
        for m in re.finditer(r"\b(thread_local|lazy_static)\s*!", text):
            statics.append(os.path.basename(f) + ":" + m.group(1) + "!")
    L.append("/-- `static` / `thread_local!` items of src/injector_core (state the models do not have) -/")
    L.append("def coreStatics : List String := [" + ", ".join('"%s"' % x for x in statics) + "]")
    L += ["", "/-- facts the translator did not recognise in the source as written: they carry the pinned",
          "    value and are tied to the code by the correspondence runs only -/",
          "def fallback : List String := [" + ", ".join('"%s"' % n for n in fallback) + "]",
          "", "end Inj.Generated.Layout", ""]
    report["Layout"] = {"recognised": [n for n in ORDER if n not in fallback], "fallback": fallback}
    return "\n".join(L)
