//! Shim `libc` for the shadow crate: re-exports the real crate and wraps the four calls the
//! library makes to the OS (`mmap`, `munmap`, `mprotect`, `__clear_cache`), logging each and,
//! for `mmap`, optionally answering from a script (fail / honour hint / place at an address).
//! All real effects go through the real libc, so memory returned is always really mapped.
#![allow(clippy::missing_safety_doc)]
pub use real_libc::*;

use std::collections::VecDeque;
use std::sync::Mutex;

#[derive(Clone, Debug, PartialEq)]
pub enum Event {
    Mmap { hint: usize, len: usize, prot: i32, ret: usize },
    Munmap { addr: usize, len: usize, owned: bool },
    Mprotect { addr: usize, len: usize, prot: i32, ret: i32 },
    Flush { lo: usize, hi: usize, snap: Vec<u8> },
}

#[derive(Clone, Debug, PartialEq)]
pub enum Answer {
    /// mmap returns MAP_FAILED
    Fail,
    /// map exactly at the (page-rounded) hint; MAP_FAILED if that is occupied
    Honour,
    /// map at this address regardless of the hint; MAP_FAILED if occupied
    At(usize),
    /// let the kernel decide (same as an empty script)
    Kernel,
}

pub struct State {
    pub log: Vec<Event>,
    pub logging: bool,
    pub script: VecDeque<Answer>,
    /// mappings created through the shim and still mapped: (addr, len)
    pub owned: Vec<(usize, usize)>,
    /// when set, `munmap` of a range the shim did not create is not forwarded to the kernel
    /// (it is still logged with owned = false)
    pub protect_foreign: bool,
    /// when set, `mprotect` failures are simulated for this many upcoming calls
    pub mprotect_fail: usize,
    /// snapshot flushed bytes (only sensible when the range is readable)
    pub snap_flush: bool,
    /// a W^X policy: requests for memory that is writable and executable at once are refused with
    /// EACCES; everything else is served
    pub deny_wx: bool,
    /// when set: this many further `mprotect` calls are served, every later one is refused
    pub mprotect_budget: Option<usize>,
}

pub static STATE: Mutex<State> = Mutex::new(State {
    log: Vec::new(),
    logging: false,
    script: VecDeque::new(),
    owned: Vec::new(),
    protect_foreign: true,
    mprotect_fail: 0,
    snap_flush: true,
    deny_wx: false,
    mprotect_budget: None,
});

fn st() -> std::sync::MutexGuard<'static, State> {
    match STATE.lock() {
        Ok(g) => g,
        Err(p) => p.into_inner(),
    }
}

pub fn start_log() {
    let mut s = st();
    s.log.clear();
    s.logging = true;
}
pub fn take_log() -> Vec<Event> {
    let mut s = st();
    std::mem::take(&mut s.log)
}
pub fn stop_log() -> Vec<Event> {
    let mut s = st();
    s.logging = false;
    std::mem::take(&mut s.log)
}
pub fn set_script(a: Vec<Answer>) {
    st().script = a.into();
}
pub fn script_left() -> usize {
    st().script.len()
}
pub fn owned() -> Vec<(usize, usize)> {
    st().owned.clone()
}
pub fn mprotect_budget(n: Option<usize>) {
    st().mprotect_budget = n;
}

pub fn deny_wx(on: bool) {
    st().deny_wx = on;
}

pub fn fail_next_mprotects(n: usize) {
    st().mprotect_fail = n;
}

pub unsafe fn mmap(addr: *mut c_void, len: size_t, prot: c_int, flags: c_int, fd: c_int, off: off_t) -> *mut c_void {
    let ans = { st().script.pop_front().unwrap_or(Answer::Kernel) };
    let page = real_libc::sysconf(real_libc::_SC_PAGESIZE) as usize;
    let ret = match ans {
        Answer::Fail => real_libc::MAP_FAILED,
        Answer::Kernel => real_libc::mmap(addr, len, prot, flags, fd, off),
        Answer::Honour => {
            let a = (addr as usize) & !(page - 1);
            if a == 0 {
                real_libc::MAP_FAILED
            } else {
                real_libc::mmap(a as *mut c_void, len, prot, flags | real_libc::MAP_FIXED_NOREPLACE, fd, off)
            }
        }
        Answer::At(a) => real_libc::mmap(a as *mut c_void, len, prot, flags | real_libc::MAP_FIXED_NOREPLACE, fd, off),
    };
    let mut s = st();
    if ret != real_libc::MAP_FAILED {
        s.owned.push((ret as usize, len));
    }
    if s.logging {
        s.log.push(Event::Mmap { hint: addr as usize, len, prot, ret: if ret == real_libc::MAP_FAILED { usize::MAX } else { ret as usize } });
    }
    ret
}

pub unsafe fn munmap(addr: *mut c_void, len: size_t) -> c_int {
    let (is_owned, protect) = {
        let mut s = st();
        let pos = s.owned.iter().position(|&(a, l)| a == addr as usize && l == len);
        if let Some(p) = pos {
            s.owned.remove(p);
        }
        if s.logging {
            s.log.push(Event::Munmap { addr: addr as usize, len, owned: pos.is_some() });
        }
        (pos.is_some(), s.protect_foreign)
    };
    if is_owned || !protect {
        real_libc::munmap(addr, len)
    } else {
        0
    }
}

pub unsafe fn mprotect(addr: *mut c_void, len: size_t, prot: c_int) -> c_int {
    let fail = {
        let mut s = st();
        if s.mprotect_fail > 0 {
            s.mprotect_fail -= 1;
            true
        } else if s.mprotect_budget == Some(0) {
            *real_libc::__errno_location() = real_libc::ENOMEM;
            true
        } else if s.mprotect_budget.is_some() && { s.mprotect_budget = s.mprotect_budget.map(|b| b - 1); false } {
            true
        } else if s.deny_wx && (prot & real_libc::PROT_WRITE) != 0 && (prot & real_libc::PROT_EXEC) != 0 {
            *real_libc::__errno_location() = real_libc::EACCES;
            true
        } else {
            false
        }
    };
    let ret = if fail { -1 } else { real_libc::mprotect(addr, len, prot) };
    let mut s = st();
    if s.logging {
        s.log.push(Event::Mprotect { addr: addr as usize, len, prot, ret });
    }
    ret
}

/// Interposes libgcc's `__clear_cache` for the whole executable (a no-op on x86-64 anyway):
/// records the range and a snapshot of its content at call time.
#[no_mangle]
pub unsafe extern "C" fn __clear_cache(start: *mut u8, end: *mut u8) {
    let mut s = st();
    if s.logging {
        let lo = start as usize;
        let hi = end as usize;
        let snap = if s.snap_flush && hi >= lo && hi - lo <= 4096 {
            std::slice::from_raw_parts(start as *const u8, hi - lo).to_vec()
        } else {
            Vec::new()
        };
        s.log.push(Event::Flush { lo, hi, snap });
    }
}

/// the un-wrapped calls, for the harness's own arenas
pub mod real {
    pub use real_libc::{mmap, mprotect, munmap};
}
