// Copies /repo/src (or $VERIF_REPO/src) into OUT_DIR on every change, applying exactly these
// transformations (part of the trusted base, DESIGN.md section 2.3):
//   1. a first line `#![cfg(target_arch = "...")]` is deleted (so the arm64 and arm back ends
//      compile on the x86-64 host as plain code);
//   2. in package `shadow_macos` only, and only in arm64_codegenerator.rs and patch_arm64.rs,
//      the literal `target_os = "macos"` is replaced by `all()` (always true);
//   3. the accessor snippet `access/<file>.inc`, if present, is appended to the copy;
//   4. in patch_arm.rs only, ` as usize` / ` as isize` become ` as u32 as usize` / ` as i32 as isize`
//      (pointer-sized integers are 32 bits wide on that target).
// Then a crate root is generated that declares the same module tree with every module `pub`.
use std::env;
use std::fs;
use std::path::{Path, PathBuf};

fn walk(dir: &Path, out: &mut Vec<PathBuf>) {
    for e in fs::read_dir(dir).unwrap() {
        let p = e.unwrap().path();
        if p.is_dir() {
            walk(&p, out);
        } else if p.extension().map(|x| x == "rs").unwrap_or(false) {
            out.push(p);
        }
    }
}

fn mods_of(file: &Path) -> Vec<String> {
    let mut v = Vec::new();
    for line in fs::read_to_string(file).unwrap().lines() {
        let l = line.trim();
        let l = l.strip_prefix("pub(crate) ").or_else(|| l.strip_prefix("pub ")).unwrap_or(l);
        if let Some(rest) = l.strip_prefix("mod ") {
            if let Some(name) = rest.strip_suffix(';') {
                v.push(name.trim().to_string());
            }
        }
    }
    v
}


// ---------------------------------------------------------------------------------------------
// Name discovery for the accessor snippets.  The snippets refer to private items of the crate
// through placeholders (@GEN_BRANCH@, @PG_JIT@, …).  Each placeholder is bound to the item that has
// the expected *shape* in the current source (parameter types, return type, field type,
// constructor position), so that a rename in /repo does not break the harness build; when no
// unique item of that shape is found the name used on the pinned tree is kept.
// ---------------------------------------------------------------------------------------------
struct FnHdr {
    name: String,
    params: Vec<String>, // types only, whitespace removed; receivers skipped
    ret: String,         // whitespace removed, "" for unit
    is_pub: bool,
    body: String,
}

fn strip_ws(s: &str) -> String {
    s.chars().filter(|c| !c.is_whitespace()).collect()
}

fn matching(text: &[char], open: usize) -> Option<usize> {
    let (o, c) = match text[open] {
        '(' => ('(', ')'),
        '{' => ('{', '}'),
        '<' => ('<', '>'),
        _ => return None,
    };
    let mut depth = 0i32;
    let mut i = open;
    while i < text.len() {
        if text[i] == o {
            depth += 1;
        } else if text[i] == c {
            if !(c == '>' && i > 0 && text[i - 1] == '-') {
                depth -= 1;
            }
            if depth == 0 {
                return Some(i);
            }
        }
        i += 1;
    }
    None
}

fn split_top(s: &str) -> Vec<String> {
    let mut out = Vec::new();
    let mut depth = 0i32;
    let mut cur = String::new();
    let cs: Vec<char> = s.chars().collect();
    for (i, &ch) in cs.iter().enumerate() {
        match ch {
            '(' | '[' | '{' | '<' => depth += 1,
            ')' | ']' | '}' => depth -= 1,
            '>' if !(i > 0 && cs[i - 1] == '-') => depth -= 1,
            _ => {}
        }
        if ch == ',' && depth == 0 {
            out.push(cur.clone());
            cur.clear();
        } else {
            cur.push(ch);
        }
    }
    if !cur.trim().is_empty() {
        out.push(cur);
    }
    out
}

fn strip_line_comments(text: &str) -> String {
    text.lines()
        .map(|l| match l.find("//") {
            Some(i) => &l[..i],
            None => l,
        })
        .collect::<Vec<_>>()
        .join("\n")
}

fn fn_headers(text: &str) -> Vec<FnHdr> {
    let clean = strip_line_comments(text);
    let cs: Vec<char> = clean.chars().collect();
    let mut out = Vec::new();
    let mut i = 0;
    while i + 3 < cs.len() {
        let is_fn = cs[i] == 'f' && cs[i + 1] == 'n' && cs[i + 2].is_whitespace() && (i == 0 || !(cs[i - 1].is_alphanumeric() || cs[i - 1] == '_'));
        if !is_fn {
            i += 1;
            continue;
        }
        // visibility: look back on the same line
        let mut ls = i;
        while ls > 0 && cs[ls - 1] != '\n' {
            ls -= 1;
        }
        let prefix: String = cs[ls..i].iter().collect();
        let mut j = i + 2;
        while j < cs.len() && cs[j].is_whitespace() {
            j += 1;
        }
        let ns = j;
        while j < cs.len() && (cs[j].is_alphanumeric() || cs[j] == '_') {
            j += 1;
        }
        let name: String = cs[ns..j].iter().collect();
        while j < cs.len() && cs[j].is_whitespace() {
            j += 1;
        }
        if j < cs.len() && cs[j] == '<' {
            match matching(&cs, j) {
                Some(e) => j = e + 1,
                None => {
                    i += 2;
                    continue;
                }
            }
        }
        if name.is_empty() || j >= cs.len() || cs[j] != '(' {
            i += 2;
            continue;
        }
        let pe = match matching(&cs, j) {
            Some(e) => e,
            None => {
                i += 2;
                continue;
            }
        };
        let ptext: String = cs[j + 1..pe].iter().collect();
        let mut params = Vec::new();
        for p in split_top(&ptext) {
            let p = p.trim().to_string();
            let bare = strip_ws(&p);
            if bare == "self" || bare == "&self" || bare == "&mutself" || bare == "mutself" || bare.is_empty() {
                continue;
            }
            if let Some(k) = p.find(':') {
                params.push(strip_ws(&p[k + 1..]));
            }
        }
        let mut k = pe + 1;
        let mut ret = String::new();
        let mut rdepth = 0i32;
        while k < cs.len() && !((cs[k] == '{' || cs[k] == ';') && rdepth == 0) {
            match cs[k] {
                '[' | '(' => rdepth += 1,
                ']' | ')' => rdepth -= 1,
                _ => {}
            }
            ret.push(cs[k]);
            k += 1;
        }
        let mut ret = strip_ws(&ret);
        if let Some(w) = ret.find("where") {
            ret.truncate(w);
        }
        let ret = ret.trim_start_matches("->").to_string();
        let body = if k < cs.len() && cs[k] == '{' {
            match matching(&cs, k) {
                Some(e) => cs[k + 1..e].iter().collect(),
                None => String::new(),
            }
        } else {
            String::new()
        };
        out.push(FnHdr { name, params, ret, is_pub: prefix.contains("pub"), body });
        i = pe;
    }
    out
}

/// the unique function of the given shape, or the default
/// replace the statement / expression starting at `call_prefix` (up to its matching parenthesis) by a panic
fn replace_call_with_panic(snippet: &str, call_prefix: &str) -> String {
    if let Some(p) = snippet.find(call_prefix) {
        let cs: Vec<char> = snippet.chars().collect();
        let start = snippet[..p].chars().count();
        let open = start + call_prefix.chars().count() - 1;
        if let Some(e) = matching(&cs, open) {
            let before: String = cs[..start].iter().collect();
            let after: String = cs[e + 1..].iter().collect();
            return format!("{}panic!(\"verif-accessor-absent\"){}", before, after);
        }
    }
    snippet.to_string()
}

fn pick(hdrs: &[FnHdr], params: &[&str], ret: &str, want_pub: Option<bool>, default: &str) -> String {
    let mut names: Vec<&str> = hdrs
        .iter()
        .filter(|h| h.params.len() == params.len() && h.params.iter().zip(params).all(|(a, b)| a == b) && h.ret == ret)
        .filter(|h| want_pub.map(|w| h.is_pub == w).unwrap_or(true))
        .map(|h| h.name.as_str())
        .collect();
    names.dedup();
    if names.iter().any(|n| *n == default) || names.len() != 1 {
        default.to_string()
    } else {
        names[0].to_string()
    }
}

/// fields of `struct Name { .. }` as (field, type without whitespace)
fn struct_fields(text: &str, name: &str) -> Vec<(String, String)> {
    let clean = strip_line_comments(text);
    let key = format!("struct {}", name);
    let mut res = Vec::new();
    if let Some(p) = clean.find(&key) {
        let cs: Vec<char> = clean[p..].chars().collect();
        if let Some(o) = cs.iter().position(|&c| c == '{' || c == ';' || c == '(') {
            if cs[o] == '{' {
                if let Some(e) = matching(&cs, o) {
                    let body: String = cs[o + 1..e].iter().collect();
                    for f in split_top(&body) {
                        let f = f.trim();
                        let f = f.rsplit("]").next().unwrap_or(f).trim(); // drop attributes
                        if let Some(k) = f.find(':') {
                            let fname = f[..k].trim().trim_start_matches("pub(crate)").trim_start_matches("pub(super)").trim_start_matches("pub").trim();
                            res.push((fname.to_string(), strip_ws(&f[k + 1..])));
                        }
                    }
                }
            }
        }
    }
    res
}

fn field_by_type(fields: &[(String, String)], needle: &str, default: &str) -> String {
    let m: Vec<&(String, String)> = fields.iter().filter(|(_, t)| t.contains(needle)).collect();
    if m.len() == 1 {
        m[0].0.clone()
    } else {
        default.to_string()
    }
}

/// keep the `//@if FLAG` or the `//@else` part of every conditional block of a snippet
fn select_blocks(snippet: &str, flags: &[(&str, bool)]) -> String {
    let mut out = String::new();
    let mut keep = true;
    let mut in_block = false;
    let mut cond = true;
    for line in snippet.lines() {
        let t = line.trim();
        if let Some(name) = t.strip_prefix("//@if ") {
            cond = flags.iter().find(|(n, _)| *n == name.trim()).map(|(_, v)| *v).unwrap_or(false);
            in_block = true;
            keep = cond;
            continue;
        }
        if t == "//@else" && in_block {
            keep = !cond;
            continue;
        }
        if t == "//@end" && in_block {
            in_block = false;
            keep = true;
            continue;
        }
        if keep {
            out.push_str(line);
            out.push('\n');
        }
    }
    out
}

/// do the AArch64 emitters still have the bit-array interface the emitter-level accessors use?
fn a64_bits_api(src: &Path) -> bool {
    let gen = fs::read_to_string(src.join("injector_core/arm64_codegenerator.rs")).unwrap_or_default();
    let utils = fs::read_to_string(src.join("injector_core/utils.rs")).unwrap_or_default();
    let g = fn_headers(&gen);
    let u = fn_headers(&utils);
    let has = |hs: &[FnHdr], name: &str, params: &[&str], ret: &str| {
        hs.iter().any(|h| h.name == name && h.params.len() == params.len() && h.params.iter().zip(params).all(|(a, b)| a == b) && h.ret == ret)
    };
    has(&g, "emit_movz", &["[bool;16]", "bool", "[bool;2]", "[bool;5]"], "[bool;32]")
        && has(&g, "emit_movk", &["[bool;16]", "bool", "[bool;2]", "[bool;5]"], "[bool;32]")
        && has(&g, "emit_br", &["[bool;5]"], "[bool;32]")
        && has(&g, "emit_ret", &["&[bool;5]"], "[bool;32]")
        && has(&u, "bool_array_to_u32", &["[bool;32]"], "u32")
        && u.iter().any(|h| h.name == "u8_to_bits")
}

fn discover(src: &Path) -> Vec<(String, String)> {
    let rd = |rel: &str| fs::read_to_string(src.join(rel)).unwrap_or_default();
    let common = rd("injector_core/common.rs");
    let amd = rd("injector_core/patch_amd64.rs");
    let a64 = rd("injector_core/patch_arm64.rs");
    let gen = rd("injector_core/arm64_codegenerator.rs");
    let arm = rd("injector_core/patch_arm.rs");
    let tr = rd("injector_core/patch_trait.rs");
    let inj = rd("interface/injector.rs");
    let fp = rd("interface/func_ptr.rs");
    let mut m: Vec<(String, String)> = Vec::new();
    let mut put = |k: &str, v: String| m.push((format!("@{}@", k), v));

    // the newtype around NonNull<()>
    let fpi = {
        let clean = strip_line_comments(&common);
        let mut name = "FuncPtrInternal".to_string();
        for line in clean.lines() {
            let l = strip_ws(line);
            if l.contains("struct") && l.contains("(NonNull<()>)") {
                if let Some(p) = l.find("struct") {
                    let rest = &l[p + 6..];
                    if let Some(e) = rest.find('(') {
                        name = rest[..e].to_string();
                    }
                }
            }
        }
        name
    };
    put("FPI", fpi.clone());
    let ch = fn_headers(&common);
    // the guard type: return type of the trait's methods
    let th = fn_headers(&tr);
    let guard_ty = th.iter().find(|h| h.params.len() == 2 && h.params[1] == "bool").map(|h| h.ret.clone()).filter(|r| !r.is_empty()).unwrap_or_else(|| "PatchGuard".to_string());
    put("PATCHGUARD", guard_ty.clone());
    put("M_EXEC", th.iter().find(|h| h.params.len() == 2 && h.params[0] == fpi && h.params[1] == fpi).map(|h| h.name.clone()).unwrap_or_else(|| "replace_function_with_other_function".into()));
    put("M_BOOL", th.iter().find(|h| h.params.len() == 2 && h.params[0] == fpi && h.params[1] == "bool").map(|h| h.name.clone()).unwrap_or_else(|| "replace_function_return_boolean".into()));
    let fpi_ref = format!("&{}", fpi);
    put("ALLOC", pick(&ch, &[&fpi_ref, "usize"], "*mutu8", Some(true), "allocate_jit_memory"));
    put("PATCH_FUNCTION", pick(&ch, &["*mutu8", "&[u8]"], "", Some(true), "patch_function"));
    put("INJECT", pick(&ch, &["&[u8]", "*mutu8"], "", Some(true), "inject_asm_code"));
    put("READ_BYTES", pick(&ch, &["*constu8", "usize"], "Vec<u8>", None, "read_bytes"));
    // PatchGuard fields by the position of the constructor parameter they are initialised from
    let defaults = ["func_ptr", "original_bytes", "patch_size", "jit_memory", "jit_size"];
    let keys = ["PG_FUNC", "PG_SAVED", "PG_SIZE", "PG_JIT", "PG_JITSIZE"];
    let mut roles: Vec<String> = defaults.iter().map(|s| s.to_string()).collect();
    let fields = struct_fields(&common, &guard_ty);
    if let Some(ctor) = ch.iter().find(|h| h.name == "new" && h.params == ["*mutu8", "Vec<u8>", "usize", "*mutu8", "usize"]) {
        // parameter names in order
        let clean = strip_line_comments(&common);
        let mut pnames: Vec<String> = Vec::new();
        if let Some(p) = clean.find("fn new(") {
            // the constructor with five parameters: scan all `fn new(`
            let mut at = p;
            loop {
                let cs: Vec<char> = clean[at..].chars().collect();
                let o = cs.iter().position(|&c| c == '(').unwrap();
                if let Some(e) = matching(&cs, o) {
                    let ptext: String = cs[o + 1..e].iter().collect();
                    let ps = split_top(&ptext);
                    if ps.len() == 5 {
                        pnames = ps.iter().map(|x| x.split(':').next().unwrap().trim().trim_start_matches("mut ").trim().to_string()).collect();
                        break;
                    }
                }
                match clean[at + 1..].find("fn new(") {
                    Some(n) => at = at + 1 + n,
                    None => break,
                }
            }
        }
        if pnames.len() == 5 {
            let body = strip_ws(&ctor.body);
            for (i, pn) in pnames.iter().enumerate() {
                // `field: param` or shorthand `param` where a field of that name exists
                let mut found: Option<String> = None;
                for (f, _) in &fields {
                    // `field: <expression mentioning the parameter>` inside the constructor
                    if let Some(pos) = body.find(&format!("{}:", f)) {
                        let before_ok = pos == 0 || !(body.as_bytes()[pos - 1].is_ascii_alphanumeric() || body.as_bytes()[pos - 1] == b'_');
                        let rest = &body[pos + f.len() + 1..];
                        let mut depth = 0i32;
                        let mut end = rest.len();
                        for (k, ch) in rest.char_indices() {
                            match ch {
                                '(' | '[' | '{' => depth += 1,
                                ')' | ']' => depth -= 1,
                                '}' => {
                                    if depth == 0 {
                                        end = k;
                                        break;
                                    }
                                    depth -= 1;
                                }
                                ',' if depth == 0 => {
                                    end = k;
                                    break;
                                }
                                _ => {}
                            }
                        }
                        let init = &rest[..end];
                        let mentions = init
                            .split(|c: char| !(c.is_alphanumeric() || c == '_'))
                            .any(|w| w == pn);
                        if before_ok && mentions {
                            found = Some(f.clone());
                        }
                    }
                }
                if found.is_none() && fields.iter().any(|(f, _)| f == pn) {
                    found = Some(pn.clone());
                }
                if let Some(f) = found {
                    roles[i] = f;
                }
            }
        }
    }
    for (k, v) in keys.iter().zip(roles) {
        put(k, v);
    }
    // x86-64 back end
    let ah = fn_headers(&amd);
    put("GEN_BRANCH", pick(&ah, &["usize", "usize"], "Vec<u8>", None, "generate_branch_to_target_function"));
    put("BOOL_STUB", pick(&ah, &["*mutu8", "bool"], "", None, "generate_will_return_boolean_jit_code"));
    // AArch64 back end (its own BOOL_STUB binding is applied per file, see `apply`)
    let h64 = fn_headers(&a64);
    put("JIT_ABS", pick(&h64, &["*mutu8", "*const()"], "", None, "generate_will_execute_jit_code_abs"));
    put("BOOL_STUB64", pick(&h64, &["*mutu8", "bool"], "", None, "generate_will_return_boolean_jit_code"));
    put("APPLY", pick(&h64, &[&fpi, "*mutu8", "usize", "&[u8]"], &guard_ty, None, "apply_branch_patch"));
    put("LONG_JUMP", pick(&fn_headers(&gen), &["usize", "usize"], "Vec<u32>", None, "maybe_emit_long_jump"));
    // 32-bit ARM back end: the two `fn() -> bool` helpers, told apart by their bodies
    let harm = fn_headers(&arm);
    let bools: Vec<&FnHdr> = harm.iter().filter(|h| h.params.is_empty() && h.ret == "bool").collect();
    let t = bools.iter().find(|h| strip_ws(&h.body) == "true").map(|h| h.name.clone()).unwrap_or_else(|| "return_true".into());
    let f = bools.iter().find(|h| strip_ws(&h.body) == "false").map(|h| h.name.clone()).unwrap_or_else(|| "return_false".into());
    put("RET_TRUE", t);
    put("RET_FALSE", f);
    // interface structs
    let ifields = struct_fields(&inj, "InjectorPP");
    put("F_GUARDS", field_by_type(&ifields, &guard_ty, "guards"));
    put("F_VERIFIERS", field_by_type(&ifields, "CallCountVerifier", "verifiers"));
    let ffields = struct_fields(&fp, "FuncPtr");
    put("F_FPI", field_by_type(&ffields, &fpi, "func_ptr_internal"));
    put("F_SIG", field_by_type(&ffields, "str", "signature"));
    m
}

/// the type implementing the patch trait in this back-end file
fn patcher_of(text: &str, default: &str) -> String {
    let clean = strip_line_comments(text);
    for line in clean.lines() {
        let l = line.trim();
        if l.starts_with("impl ") && l.contains(" for ") && l.ends_with('{') {
            let after = l.split(" for ").nth(1).unwrap_or("");
            let name: String = after.chars().take_while(|c| c.is_alphanumeric() || *c == '_').collect();
            if !name.is_empty() && !l.contains("Drop") {
                return name;
            }
        }
    }
    default.to_string()
}

fn main() {
    let repo = env::var("VERIF_REPO").unwrap_or_else(|_| "/repo".to_string());
    let src = Path::new(&repo).join("src");
    let out = PathBuf::from(env::var("OUT_DIR").unwrap());
    let macos = env::var("CARGO_PKG_NAME").unwrap() == "shadow_macos";
    let access = Path::new(&env::var("CARGO_MANIFEST_DIR").unwrap()).join("../shadow/access");
    println!("cargo:rerun-if-changed={}", src.display());
    println!("cargo:rerun-if-changed={}", access.display());
    println!("cargo:rerun-if-env-changed=VERIF_REPO");

    let bindings = discover(&src);
    let flags = [("A64_BITS_API", a64_bits_api(&src))];
    let dst = out.join("src");
    let _ = fs::remove_dir_all(&dst);
    let mut files = Vec::new();
    walk(&src, &mut files);
    for f in &files {
        println!("cargo:rerun-if-changed={}", f.display());
        let rel = f.strip_prefix(&src).unwrap();
        let mut text = fs::read_to_string(f).unwrap();
        if text.starts_with("#![cfg(target_arch") {
            let nl = text.find('\n').unwrap();
            text = format!("// [shadow] stripped: {}\n{}", &text[..nl].replace("#!", "# !"), &text[nl + 1..]);
        }
        let name = rel.file_name().unwrap().to_str().unwrap();
        if name == "patch_arm.rs" {
            // 4. the 32-bit back end runs on a 64-bit host: integer casts to the pointer-sized
            //    types go through the 32-bit type first, so that truncation and sign behave as on
            //    the target (`x as isize` is `x as i32` there)
            text = text.replace(" as usize", " as u32 as usize").replace(" as isize", " as i32 as isize");
        }
        let inc = access.join(format!("{}.inc", name));
        if inc.exists() {
            println!("cargo:rerun-if-changed={}", inc.display());
            text.push_str("\n// ---- [shadow] accessor snippet appended by build.rs ----\n");
            let mut snippet = select_blocks(&fs::read_to_string(&inc).unwrap(), &flags);
            // per-file bindings first, then the crate-wide ones
            let default_patcher = match name {
                "patch_amd64.rs" => "PatchAmd64",
                "patch_arm64.rs" => "PatchArm64",
                _ => "PatchArm",
            };
            snippet = snippet.replace("@PATCHER@", &patcher_of(&text, default_patcher));
            // the stub emitter is optional: when this file has no function of the expected shape the
            // accessor returns an empty vector (the generators then skip the pure stub lines; boolean
            // installations are still exercised through the public API)
            {
                let key = if name == "patch_arm64.rs" { "@BOOL_STUB64@" } else { "@BOOL_STUB@" };
                if let Some((_, fname)) = bindings.iter().find(|(k, _)| k == key) {
                    let defined = text.contains(&format!("fn {}(", fname)) || text.contains(&format!("fn {} (", fname));
                    if !defined {
                        snippet = snippet.replace("@BOOL_STUB@(buf.as_mut_ptr(), value);", "buf.clear(); let _ = value;");
                    }
                }
            }
            // accessors of internal functions are optional as well: when the file has no function that can be
            // called the way the accessor calls it (a rewrite changed its parameters), the accessor panics
            // with a message the generators recognise; they then say so and skip the lines that need it
            for (key, call_prefix, arity) in [("@GEN_BRANCH@", "@GEN_BRANCH@(", 2usize), ("@ALLOC@", "@ALLOC@(", 2), ("@APPLY@", "@APPLY@(", 4)] {
                if let Some((_, fname)) = bindings.iter().find(|(k, _)| k == key) {
                    if snippet.contains(call_prefix) {
                        let ok = fn_headers(&text).iter().any(|h| &h.name == fname && h.params.len() == arity);
                        if !ok {
                            snippet = replace_call_with_panic(&snippet, call_prefix);
                        }
                    }
                }
            }
            if name == "patch_arm64.rs" {
                let b64 = bindings.iter().find(|(k, _)| k == "@BOOL_STUB64@").map(|(_, v)| v.clone()).unwrap();
                snippet = snippet.replace("@BOOL_STUB@", &b64);
            }
            for (k, v) in &bindings {
                snippet = snippet.replace(k.as_str(), v);
            }
            text.push_str(&snippet);
        }
        if macos && (name == "arm64_codegenerator.rs" || name == "patch_arm64.rs") {
            text = text.replace("target_os = \"macos\"", "all()");
        }
        let to = dst.join(rel);
        fs::create_dir_all(to.parent().unwrap()).unwrap();
        fs::write(&to, text).unwrap();
    }

    let mut root = String::new();
    for top in mods_of(&src.join("lib.rs")) {
        root.push_str(&format!("pub mod {} {{\n", top));
        for m in mods_of(&src.join(format!("{}.rs", top))) {
            root.push_str(&format!(
                "    #[path = \"{}/{}/{}.rs\"]\n    pub mod {};\n",
                dst.display(),
                top,
                m,
                m
            ));
        }
        root.push_str("}\n");
    }
    fs::write(out.join("root.rs"), root).unwrap();
}
