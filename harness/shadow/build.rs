// Copies /repo/src (or $VERIF_REPO/src) into OUT_DIR on every change, applying exactly these
// transformations (part of the trusted base, DESIGN.md section 2.3):
//   1. a first line `#![cfg(target_arch = "...")]` is deleted (so the arm64 and arm back ends
//      compile on the x86-64 host as plain code);
//   2. in package `shadow_macos` only, and only in arm64_codegenerator.rs and patch_arm64.rs,
//      the literal `target_os = "macos"` is replaced by `all()` (always true);
//   3. the accessor snippet `access/<file>.inc`, if present, is appended to the copy.
// Then a crate root is generated that declares the same module tree with every module `pub`.
use std::env;
use std::fs;
use std::path::{Path, PathBuf};

fn walk(dir: &Path, out: &mut Vec<PathBuf>) {
    for e in fs::read_dir(dir).unwrap() {
        let p = e.unwrap().path();
        if p.is_dir() {
            walk(&p, out);
        } else if p.extension().map(|x| x == "rs").unwrap_or(false) {
            out.push(p);
        }
    }
}

fn mods_of(file: &Path) -> Vec<String> {
    let mut v = Vec::new();
    for line in fs::read_to_string(file).unwrap().lines() {
        let l = line.trim();
        let l = l.strip_prefix("pub(crate) ").or_else(|| l.strip_prefix("pub ")).unwrap_or(l);
        if let Some(rest) = l.strip_prefix("mod ") {
            if let Some(name) = rest.strip_suffix(';') {
                v.push(name.trim().to_string());
            }
        }
    }
    v
}

fn main() {
    let repo = env::var("VERIF_REPO").unwrap_or_else(|_| "/repo".to_string());
    let src = Path::new(&repo).join("src");
    let out = PathBuf::from(env::var("OUT_DIR").unwrap());
    let macos = env::var("CARGO_PKG_NAME").unwrap() == "shadow_macos";
    let access = Path::new(&env::var("CARGO_MANIFEST_DIR").unwrap()).join("../shadow/access");
    println!("cargo:rerun-if-changed={}", src.display());
    println!("cargo:rerun-if-changed={}", access.display());
    println!("cargo:rerun-if-env-changed=VERIF_REPO");

    let dst = out.join("src");
    let _ = fs::remove_dir_all(&dst);
    let mut files = Vec::new();
    walk(&src, &mut files);
    for f in &files {
        println!("cargo:rerun-if-changed={}", f.display());
        let rel = f.strip_prefix(&src).unwrap();
        let mut text = fs::read_to_string(f).unwrap();
        if text.starts_with("#![cfg(target_arch") {
            let nl = text.find('\n').unwrap();
            text = format!("// [shadow] stripped: {}\n{}", &text[..nl].replace("#!", "# !"), &text[nl + 1..]);
        }
        let name = rel.file_name().unwrap().to_str().unwrap();
        let inc = access.join(format!("{}.inc", name));
        if inc.exists() {
            println!("cargo:rerun-if-changed={}", inc.display());
            text.push_str("\n// ---- [shadow] accessor snippet appended by build.rs ----\n");
            text.push_str(&fs::read_to_string(&inc).unwrap());
        }
        if macos && (name == "arm64_codegenerator.rs" || name == "patch_arm64.rs") {
            text = text.replace("target_os = \"macos\"", "all()");
        }
        let to = dst.join(rel);
        fs::create_dir_all(to.parent().unwrap()).unwrap();
        fs::write(&to, text).unwrap();
    }

    let mut root = String::new();
    for top in mods_of(&src.join("lib.rs")) {
        root.push_str(&format!("pub mod {} {{\n", top));
        for m in mods_of(&src.join(format!("{}.rs", top))) {
            root.push_str(&format!(
                "    #[path = \"{}/{}/{}.rs\"]\n    pub mod {};\n",
                dst.display(),
                top,
                m,
                m
            ));
        }
        root.push_str("}\n");
    }
    fs::write(out.join("root.rs"), root).unwrap();
}
