// Shadow crate: the *unmodified source files* of /repo/src, copied by build.rs into OUT_DIR
// (first-line `#![cfg(target_arch = ..)]` stripped, accessor snippets from ../access appended),
// compiled against the shim libc.  See DESIGN.md section 2.3.
#![allow(dead_code, unused_imports, unused_variables, clippy::all)]
#![allow(macro_expanded_macro_exports_accessed_by_absolute_paths, function_casts_as_integer)]
include!(concat!(env!("OUT_DIR"), "/root.rs"));
