//! C04: T threads repeatedly create an injector (installing a thread-specific fake) or a
//! preventer, call the shared function, and let go by scope exit or by panic.  Every event is
//! appended to one global log while the guard is held; the driver checks that the log is a trace
//! of the lock LTS and that every observed call value is what the model says.
use crate::rng::Rng;
use crate::util::*;
use shadow::interface::injector::*;
use std::io::Write;
use std::sync::atomic::{AtomicUsize, Ordering};
use std::sync::{Arc, Barrier, Mutex};

#[inline(never)]
fn shared() -> u32 {
    std::hint::black_box(0)
}

#[inline(never)]
fn counted() -> u32 {
    std::hint::black_box(77)
}

macro_rules! fakes {
    ($($n:literal)*) => {
        $( paste_fake!($n); )*
        fn fake_ptr(i: usize) -> FuncPtr {
            match i {
                $( $n => shadow::func!(fn (FAKES[$n])() -> u32), )*
                _ => unreachable!(),
            }
        }
    };
}
fn f0() -> u32 { 1 }
fn f1() -> u32 { 2 }
fn f2() -> u32 { 3 }
fn f3() -> u32 { 4 }
fn f4() -> u32 { 5 }
fn f5() -> u32 { 6 }
fn f6() -> u32 { 7 }
fn f7() -> u32 { 8 }
fn f8() -> u32 { 9 }
fn f9() -> u32 { 10 }
fn f10() -> u32 { 11 }
fn f11() -> u32 { 12 }
fn f12() -> u32 { 13 }
fn f13() -> u32 { 14 }
fn f14() -> u32 { 15 }
fn f15() -> u32 { 16 }
static FAKES: [fn() -> u32; 16] = [f0, f1, f2, f3, f4, f5, f6, f7, f8, f9, f10, f11, f12, f13, f14, f15];
macro_rules! paste_fake { ($n:literal) => {}; }
fakes!(0 1 2 3 4 5 6 7 8 9 10 11 12 13 14 15);

#[inline(never)]
fn refused_fake(x: u32) -> u32 {
    std::hint::black_box(x)
}

static INSIDE: AtomicUsize = AtomicUsize::new(0);

/// the holder lets go by a scope exit whose restore itself panics (the OS refuses to make the page writable
/// again: an unloaded plugin, a policy change): the turn must still pass to a waiting thread
fn failed_restore_handover(out: &mut impl Write) {
    let (text, code, sig) = crate::hist::in_child_deadline(60, move |w| {
        let mut inj = InjectorPP::new();
        inj.when_called(shadow::func!(fn (shared)() -> u32)).will_execute_raw(fake_ptr(0));
        let faked = shared() == 1;
        shim::fail_next_mprotects(1000);
        let r = quiet_catch(std::panic::AssertUnwindSafe(move || drop(inj)));
        shim::fail_next_mprotects(0);
        let (tx, rx) = std::sync::mpsc::channel();
        std::thread::spawn(move || {
            let p = InjectorPP::prevent();
            let _ = tx.send(true);
            drop(p);
        });
        let handover = matches!(rx.recv_timeout(std::time::Duration::from_secs(5)), Ok(true));
        writeln!(w, "thrq 1 | faked={} restorepanic={} handover={}", faked as u8, r.is_err() as u8, handover as u8).unwrap();
    });
    if sig != 0 || code != 0 {
        writeln!(out, "thrq 1 | CRASH sig={} code={}", sig, code).unwrap();
    } else {
        out.write_all(text.as_bytes()).unwrap();
    }
}

pub fn run(a: &Args, out: &mut impl Write) {
    silence_panics();
    failed_restore_handover(out);
    let iters = a.n as usize;
    for &t in &[2usize, 4, 8, 16] {
      let seed0 = a.seed;
      let (text, code, sig) = crate::hist::in_child_deadline(1800, move |w| {
        let a = Args { seed: seed0, n: iters as u64, tier_thorough: false, rest: vec![] };
        let out = w;
        let log: Arc<Mutex<Vec<String>>> = Arc::new(Mutex::new(Vec::new()));
        let viol = Arc::new(AtomicUsize::new(0));
        let bar = Arc::new(Barrier::new(t));
        let mut hs = Vec::new();
        for i in 0..t {
            let log = log.clone();
            let viol = viol.clone();
            let bar = bar.clone();
            let seed = a.seed.wrapping_mul(1000).wrapping_add((t * 100 + i) as u64);
            hs.push(std::thread::spawn(move || {
                let mut r = Rng::new(seed);
                bar.wait();
                for _ in 0..iters {
                    // one iteration in six takes its guard from inside a destructor that runs while
                    // the thread is unwinding (`std::thread::panicking()` is true at the acquisition)
                    let in_unwind = r.chance(1, 6);
                    let by_panic = !in_unwind && r.chance(1, 3);
                    let mut iter_body = |r: &mut Rng| {
                    if r.chance(1, 2) {
                        let mut inj = InjectorPP::new();
                        if INSIDE.fetch_add(1, Ordering::SeqCst) != 0 {
                            viol.fetch_add(1, Ordering::SeqCst);
                        }
                        log.lock().unwrap().push(format!("A{}i", i));
                        let pre = shared();
                        log.lock().unwrap().push(format!("C{}:{}", i, pre));
                        if r.chance(1, 4) {
                            // a refused installation whose panic is caught in place: the injector lives on
                            // and still holds its turn
                            let refused = quiet_catch(std::panic::AssertUnwindSafe(|| {
                                inj.when_called(shadow::func!(fn (shared)() -> u32)).will_execute_raw(shadow::func!(fn (refused_fake)(u32) -> u32));
                            }));
                            assert!(refused.is_err());
                            std::thread::yield_now();
                            std::thread::sleep(std::time::Duration::from_micros(200));
                            let again = shared();
                            log.lock().unwrap().push(format!("C{}:{}", i, again));
                        }
                        let reps = *r.pick(&[1usize, 1, 1, 2, 32, 64]);
                        // sometimes leave a call-count expectation unmet, so that the release itself
                        // panics (normal scope exit, verification fails)
                        let unmet = !by_panic && !in_unwind && r.chance(1, 3);
                        if unmet {
                            inj.when_called(shadow::func!(fn (counted)() -> u32))
                                .will_execute(shadow::fake!(func_type: fn() -> u32, returns: 78, times: 1));
                        }
                        for _ in 0..reps {
                            inj.when_called(shadow::func!(fn (shared)() -> u32)).will_execute_raw(fake_ptr(i));
                        }
                        log.lock().unwrap().push(format!("I{}", i));
                        let v = shared();
                        log.lock().unwrap().push(format!("C{}:{}", i, v));
                        if r.chance(1, 4) {
                            std::thread::yield_now();
                            let v2 = shared();
                            log.lock().unwrap().push(format!("C{}:{}", i, v2));
                        }
                        INSIDE.fetch_sub(1, Ordering::SeqCst);
                        log.lock().unwrap().push(format!("R{}{}", i, if by_panic { 'p' } else if unmet { 'v' } else { 'd' }));
                        if by_panic {
                            let _ = quiet_catch(std::panic::AssertUnwindSafe(move || {
                                let _keep = inj;
                                panic!("unwinding with fakes installed");
                            }));
                        } else if unmet {
                            let r = quiet_catch(std::panic::AssertUnwindSafe(move || drop(inj)));
                            assert!(r.is_err());
                        } else {
                            drop(inj);
                        }
                    } else {
                        let p = InjectorPP::prevent();
                        if INSIDE.fetch_add(1, Ordering::SeqCst) != 0 {
                            viol.fetch_add(1, Ordering::SeqCst);
                        }
                        log.lock().unwrap().push(format!("A{}p", i));
                        let v = shared();
                        log.lock().unwrap().push(format!("C{}:{}", i, v));
                        if r.chance(1, 4) {
                            std::thread::yield_now();
                            let v2 = shared();
                            log.lock().unwrap().push(format!("C{}:{}", i, v2));
                        }
                        INSIDE.fetch_sub(1, Ordering::SeqCst);
                        log.lock().unwrap().push(format!("R{}{}", i, if by_panic { 'p' } else { 'd' }));
                        if by_panic {
                            let _ = quiet_catch(std::panic::AssertUnwindSafe(move || {
                                let _keep = p;
                                panic!("unwinding while preventing");
                            }));
                        } else {
                            drop(p);
                        }
                    }
                    };
                    if in_unwind {
                        struct OnDrop<'a>(&'a mut dyn FnMut());
                        impl Drop for OnDrop<'_> {
                            fn drop(&mut self) {
                                (self.0)()
                            }
                        }
                        let mut f = || iter_body(&mut r);
                        let _ = quiet_catch(std::panic::AssertUnwindSafe(|| {
                            let _d = OnDrop(&mut f);
                            panic!("a fixture's destructor takes a guard while unwinding");
                        }));
                    } else {
                        iter_body(&mut r);
                    }
                }
            }));
        }
        let mut dead = 0;
        for h in hs {
            if h.join().is_err() {
                dead += 1;
            }
        }
        let after = shared();
        let l = log.lock().unwrap();
        writeln!(out, "thr {} {} | viol={} dead={} after={} ev={}", t, iters, viol.load(Ordering::SeqCst), dead, after, l.join(",")).unwrap();
      });
      if sig != 0 || code != 0 {
          writeln!(out, "thr {} {} | CRASH sig={} code={} viol=? dead=? after=? ev=", t, iters, sig, code).unwrap();
      } else {
          out.write_all(text.as_bytes()).unwrap();
      }
    }
}
