//! C14: faked async functions complete at once with a freshly evaluated value; siblings and the
//! state after drop are untouched.  Hand-written executor that counts polls.
use crate::hist::in_child;
use crate::rng::Rng;
use crate::util::*;
use shadow::interface::injector::*;
use std::future::Future;
use std::io::Write;
use std::pin::Pin;
use std::sync::atomic::{AtomicUsize, Ordering};
use std::task::{Context, Poll, RawWaker, RawWakerVTable, Waker};

static BODY: [AtomicUsize; 7] = [AtomicUsize::new(0), AtomicUsize::new(0), AtomicUsize::new(0), AtomicUsize::new(0), AtomicUsize::new(0), AtomicUsize::new(0), AtomicUsize::new(0)];
static EVALS: AtomicUsize = AtomicUsize::new(0);

struct YieldOnce(bool);
impl Future for YieldOnce {
    type Output = ();
    fn poll(mut self: Pin<&mut Self>, cx: &mut Context<'_>) -> Poll<()> {
        if self.0 {
            Poll::Ready(())
        } else {
            self.0 = true;
            cx.waker().wake_by_ref();
            Poll::Pending
        }
    }
}

fn noop_waker() -> Waker {
    fn clone(_: *const ()) -> RawWaker {
        RawWaker::new(std::ptr::null(), &VTABLE)
    }
    fn noop(_: *const ()) {}
    static VTABLE: RawWakerVTable = RawWakerVTable::new(clone, noop, noop, noop);
    unsafe { Waker::from_raw(RawWaker::new(std::ptr::null(), &VTABLE)) }
}

/// drive a future to completion, counting polls
fn block_on_count<F: Future>(fut: F) -> (F::Output, usize) {
    let mut fut = std::pin::pin!(fut);
    let w = noop_waker();
    let mut cx = Context::from_waker(&w);
    let mut polls = 0;
    loop {
        polls += 1;
        if let Poll::Ready(v) = fut.as_mut().poll(&mut cx) {
            return (v, polls);
        }
        if polls > 100 {
            panic!("never ready");
        }
    }
}

async fn a_unit(x: u32) {
    BODY[0].fetch_add(1, Ordering::SeqCst);
    YieldOnce(false).await;
    std::hint::black_box(x);
}
async fn a_u32(x: u32) -> u32 {
    BODY[1].fetch_add(1, Ordering::SeqCst);
    YieldOnce(false).await;
    x + 1
}
async fn a_u32_sibling(x: u32) -> u32 {
    BODY[2].fetch_add(1, Ordering::SeqCst);
    x + 2
}
async fn a_string(s: &str) -> String {
    BODY[3].fetch_add(1, Ordering::SeqCst);
    YieldOnce(false).await;
    s.to_uppercase()
}
struct Svc(u64);
impl Svc {
    async fn method(&self, k: u64) -> u64 {
        BODY[4].fetch_add(1, Ordering::SeqCst);
        self.0 + k * 2
    }
}
#[derive(Clone, PartialEq, Debug)]
struct Big {
    a: [u64; 8],
    s: String,
}
async fn a_big(n: u64) -> Big {
    BODY[5].fetch_add(1, Ordering::SeqCst);
    YieldOnce(false).await;
    Big { a: [n; 8], s: format!("orig{}", n) }
}

/// a `bool` output: the one output type for which a ready-made constant stub exists in the library
async fn a_bool(x: u32) -> bool {
    BODY[6].fetch_add(1, Ordering::SeqCst);
    YieldOnce(false).await;
    x % 2 == 0
}

#[inline(never)]
fn sync_helper(a: i32) -> i32 {
    std::hint::black_box(a) + 31
}

/// a synchronous fake with a call-count expectation that is never met (the helper is not called):
/// the scope exit that follows verifies it and panics
fn unmet_sync_fake(inj: &mut InjectorPP) {
    inj.when_called(shadow::func!(fn (sync_helper)(i32) -> i32))
        .will_execute(shadow::fake!(func_type: fn(a: i32) -> i32, returns: a, times: 1));
}

fn h64(s: &str) -> u64 {
    let mut h: u64 = 0xcbf29ce484222325;
    for b in s.bytes() {
        h = (h ^ b as u64).wrapping_mul(0x100000001b3);
    }
    h & 0xffff_ffff
}

/// await function `i` with argument `arg`; returns (polls, value digest)
fn await_fn(i: usize, arg: u32) -> (usize, u64) {
    match i {
        0 => {
            let (_, p) = block_on_count(a_unit(arg));
            (p, 0)
        }
        1 => {
            let (v, p) = block_on_count(a_u32(arg));
            (p, v as u64)
        }
        2 => {
            let (v, p) = block_on_count(a_u32_sibling(arg));
            (p, v as u64)
        }
        3 => {
            let s = format!("arg{}", arg);
            let (v, p) = block_on_count(a_string(&s));
            (p, h64(&v))
        }
        4 => {
            let svc = Svc(1000);
            let (v, p) = block_on_count(svc.method(arg as u64));
            (p, v)
        }
        5 => {
            let (v, p) = block_on_count(a_big(arg as u64));
            (p, v.a[3] * 1000 + h64(&v.s) % 1000)
        }
        _ => {
            let (v, p) = block_on_count(a_bool(arg));
            (p, v as u64)
        }
    }
}

/// one `async_return!` call site shared by the two u32 siblings (site 2)
fn shared_u32_site() -> FuncPtr {
    shadow::async_return!(
        {
            EVALS.fetch_add(1, Ordering::SeqCst);
            7900
        },
        u32
    )
}

/// install fake `site` (0, 1, or 2 = the shared call site, u32 siblings only) for function `i`
fn fake_fn(inj: &mut InjectorPP, i: usize, site: usize) {
    macro_rules! ev {
        ($v:expr) => {{
            EVALS.fetch_add(1, Ordering::SeqCst);
            $v
        }};
    }
    match (i, site) {
        (1, 2) => inj.when_called_async(shadow::async_func!(a_u32(0), u32)).will_return_async(shared_u32_site()),
        (2, 2) => inj.when_called_async(shadow::async_func!(a_u32_sibling(0), u32)).will_return_async(shared_u32_site()),
        (0, _) => inj.when_called_async(shadow::async_func!(a_unit(0), ())).will_return_async(shadow::async_return!(ev!(()), ())),
        (1, 0) => inj.when_called_async(shadow::async_func!(a_u32(0), u32)).will_return_async(shadow::async_return!(ev!(7001), u32)),
        (1, _) => inj.when_called_async(shadow::async_func!(a_u32(0), u32)).will_return_async(shadow::async_return!(ev!(7002), u32)),
        (2, 0) => inj.when_called_async(shadow::async_func!(a_u32_sibling(0), u32)).will_return_async(shadow::async_return!(ev!(7101), u32)),
        (2, _) => inj.when_called_async(shadow::async_func!(a_u32_sibling(0), u32)).will_return_async(shadow::async_return!(ev!(7102), u32)),
        (3, 0) => inj.when_called_async(shadow::async_func!(a_string(""), String)).will_return_async(shadow::async_return!(ev!(String::from("fakeA")), String)),
        (3, _) => inj.when_called_async(shadow::async_func!(a_string(""), String)).will_return_async(shadow::async_return!(ev!(String::from("fakeB")), String)),
        (4, 0) => inj.when_called_async(shadow::async_func!(Svc(0).method(0), u64)).will_return_async(shadow::async_return!(ev!(7401), u64)),
        (4, _) => inj.when_called_async(shadow::async_func!(Svc(0).method(0), u64)).will_return_async(shadow::async_return!(ev!(7402), u64)),
        (5, 0) => inj.when_called_async(shadow::async_func!(a_big(0), Big)).will_return_async(shadow::async_return!(ev!(Big { a: [5; 8], s: String::from("fake5") }), Big)),
        (5, _) => inj.when_called_async(shadow::async_func!(a_big(0), Big)).will_return_async(shadow::async_return!(ev!(Big { a: [6; 8], s: String::from("fake6") }), Big)),
        (_, 0) => inj.when_called_async(shadow::async_func!(a_bool(0), bool)).will_return_async(shadow::async_return!(ev!(true), bool)),
        (_, _) => inj.when_called_async(shadow::async_func!(a_bool(0), bool)).will_return_async(shadow::async_return!(ev!(false), bool)),
    }
}

pub fn run(a: &Args, out: &mut impl Write) {
    silence_panics();
    let mut r = Rng::new(a.seed);
    for _ in 0..a.n {
        if crate::hist::too_many_timeouts() {
            break;
        }
        let nops = r.range(3, 14);
        let mut ops: Vec<String> = Vec::new();
        for _ in 0..nops {
            let i = r.below(7);
            match r.below(8) {
                0 | 1 | 2 => {
                    let site = if (i == 1 || i == 2) && r.chance(1, 3) { 2 } else { r.below(2) };
                    ops.push(format!("F{}:{}", i, site))
                }
                3 | 4 | 5 => ops.push(format!("A{}:{}", i, r.below(50))),
                6 => ops.push(if r.chance(1, 3) { "U".to_string() } else { format!("A{}:{}", i, r.below(50)) }),
                _ => ops.push(if r.chance(1, 3) { "P".to_string() } else { "D".to_string() }),
            }
        }
        // always end with a drop followed by an await of everything
        ops.push("D".to_string());
        for i in 0..7 {
            ops.push(format!("A{}:{}", i, 3));
        }
        let opsc = ops.clone();
        let (text, code, sig) = in_child(move |w| {
            let mut inj = Some(InjectorPP::new());
            for op in &opsc {
                if let Some(rest) = op.strip_prefix("F") {
                    let (i, s) = rest.split_once(':').unwrap();
                    fake_fn(inj.as_mut().unwrap(), i.parse().unwrap(), s.parse().unwrap());
                    w.write_all(format!(" {}", op).as_bytes()).unwrap();
                } else if let Some(rest) = op.strip_prefix("A") {
                    let (i, arg) = rest.split_once(':').unwrap();
                    let i: usize = i.parse().unwrap();
                    let arg: u32 = arg.parse().unwrap();
                    let b0 = BODY[i].load(Ordering::SeqCst);
                    let e0 = EVALS.load(Ordering::SeqCst);
                    let others0: usize = (0..7).filter(|&j| j != i).map(|j| BODY[j].load(Ordering::SeqCst)).sum();
                    let (polls, val) = await_fn(i, arg);
                    let others1: usize = (0..7).filter(|&j| j != i).map(|j| BODY[j].load(Ordering::SeqCst)).sum();
                    w.write_all(
                        format!(
                            " {}={}:{}:{}:{}:{}",
                            op,
                            polls,
                            val,
                            BODY[i].load(Ordering::SeqCst) - b0,
                            EVALS.load(Ordering::SeqCst) - e0,
                            others1 - others0
                        )
                        .as_bytes(),
                    )
                    .unwrap();
                } else if op == "U" {
                    unmet_sync_fake(inj.as_mut().unwrap());
                    w.write_all(b" U").unwrap();
                } else if op == "P" {
                    // the lifetime ends by unwinding: a panic in the scope that owns the injector
                    let owned = inj.take();
                    let _ = std::panic::catch_unwind(std::panic::AssertUnwindSafe(move || {
                        let _held = owned;
                        panic!("user panic while async fakes are installed");
                    }));
                    inj = Some(InjectorPP::new());
                    w.write_all(b" P").unwrap();
                } else {
                    // a scope exit; when an expectation is unmet its verification panics (caught here)
                    let owned = inj.take();
                    let _ = std::panic::catch_unwind(std::panic::AssertUnwindSafe(move || drop(owned)));
                    inj = Some(InjectorPP::new());
                    w.write_all(b" D").unwrap();
                }
            }
        });
        if sig != 0 || code != 0 {
            writeln!(out, "async |{} CRASH sig={} code={}", text, sig, code).unwrap();
        } else {
            writeln!(out, "async |{}", text).unwrap();
        }
    }
}
