//! Pure calls of the x86-64 encoders (shadow crate = /repo's unmodified patch_amd64.rs).
use crate::rng::Rng;
use crate::util::*;
use shadow::injector_core::patch_amd64 as amd;
use std::io::Write;

fn mode_char() -> char {
    if cfg!(debug_assertions) { 'd' } else { 'r' }
}

fn emit(out: &mut impl Write, ori: u64, target: u64) {
    let r = quiet_catch(move || amd::verif_gen_branch(ori as usize, target as usize));
    match r {
        Ok(b) => writeln!(out, "x86br {} {:x} {:x} | ok {}", mode_char(), ori, target, hexb(&b)).unwrap(),
        Err(m) if m == ACCESSOR_ABSENT => note_absent(out, "generate_branch_to_target_function(usize, usize) -> Vec<u8>"),
        Err(_) => writeln!(out, "x86br {} {:x} {:x} | panic", mode_char(), ori, target).unwrap(),
    }
}

/// structured boundary stream (seed-independent) followed by `n` PRNG pairs
pub fn run(a: &Args, out: &mut impl Write) {
    silence_panics();
    let anchors: [u64; 14] = [
        0, 1, 0x1000, 0x10000, 0x7fff_0000, 0x8000_0000, 0xffff_f000, 0x1_0000_0000,
        (1 << 47) - 4096, 0x5555_5555_0000, 0x7fff_ffff_f000, (1u64 << 63) - 8, 1u64 << 63, u64::MAX - 16,
    ];
    // displacement around the rel32 limits, both signs, every anchor
    for &o in &anchors {
        for k in -7i64..=7 {
            for base in [i32::MAX as i64, i32::MIN as i64, 0i64, 1 << 32, -(1i64 << 32)] {
                // target = ori + 5 + base + k  (mod 2^64)
                let t = o.wrapping_add(5).wrapping_add((base + k) as u64);
                emit(out, o, t);
            }
        }
        for &t in &anchors {
            emit(out, o, t);
        }
    }
    // every ori in the window where `ori as isize + 5` overflows
    for d in 0..12u64 {
        emit(out, (1u64 << 63) - 8 + d, 0x1000);
        emit(out, u64::MAX - d, 0x1000);
        emit(out, 0x1000, (1u64 << 63) - 6 + d);
    }
    // constants written in the source, as addresses and as displacements
    for &l in &literal_pool() {
        for d in [0u64, 1, u64::MAX] {
            let v = l.wrapping_add(d);
            for &o in &[0x1000u64, 0x5555_5555_0000, 0x7fff_ffff_f000] {
                emit(out, o, v);
                emit(out, v, o);
                emit(out, o, o.wrapping_add(v));
                emit(out, o, o.wrapping_sub(v));
                emit(out, o, o.wrapping_add(5).wrapping_add(v));
            }
        }
    }
    let mut r = Rng::new(a.seed);
    for _ in 0..a.n {
        let o = match r.below(4) {
            0 => r.next(),
            1 => r.next() >> 17,
            2 => r.next() >> 33,
            _ => *r.pick(&anchors),
        };
        let t = match r.below(5) {
            0 => r.next(),
            1 => r.next() >> 17,
            2 => o.wrapping_add(5).wrapping_add((i32::MAX as i64 + r.range(0, 16) as i64 - 8) as u64),
            3 => o.wrapping_add(5).wrapping_add((i32::MIN as i64 + r.range(0, 16) as i64 - 8) as u64),
            _ => o.wrapping_add(r.next() >> 34).wrapping_sub(1 << 29),
        };
        emit(out, o, t);
    }
    for v in [false, true] {
        let b = amd::verif_bool_stub(v);
        if b.is_empty() {
            continue; // no stub emitter of the expected shape in this source (see shadow/build.rs)
        }
        writeln!(out, "x86bool {} | {}", v as u8, hexb(&b)).unwrap();
    }
}
