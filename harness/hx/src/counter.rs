//! C06 / C07: the `times:` accounting of fake! through the real macro, single- and
//! multi-threaded, and over consecutive lifetimes evaluating the same call site.
use crate::rng::Rng;
use crate::util::*;
use shadow::interface::injector::*;
use std::io::Write;
use std::sync::{Arc, Barrier};

#[inline(never)]
fn target(a: i32) -> i32 {
    std::hint::black_box(a) + 1000
}

#[inline(never)]
fn target2(a: i32) -> i32 {
    std::hint::black_box(a) + 2000
}

macro_rules! sites {
    ($($n:literal)*) => {
        /// one `fake!` call site per N: the same line of source (hence the same static counter)
        /// every time it is evaluated with that N
        fn mk(n: usize) -> (FuncPtr, CallCountVerifier) {
            match n {
                $( $n => shadow::fake!(func_type: fn(a: i32) -> i32, when: a == 7, returns: 42, times: $n), )*
                _ => panic!("no site for N={}", n),
            }
        }
        const MAX_N: usize = 0 $( + { let _ = $n; 1 } )* - 1;
    };
}
sites!(0 1 2 3 4 5 6 7 8 9 10 11 12 13 14 15 16 17 18 19 20 21 22 23 24 25 26 27 28 29 30 31 32
       33 34 35 36 37 38 39 40 41 42 43 44 45 46 47 48 49 50 51 52 53 54 55 56 57 58 59 60 61 62 63 64);

fn one_call(matching: bool) -> char {
    one_call_on(0, matching)
}

fn one_call_on(which: usize, matching: bool) -> char {
    let arg = if matching { 7 } else { 8 };
    match quiet_catch(move || if which % 2 == 0 { target(arg) } else { target2(arg) }) {
        Ok(42) => 'o',
        Ok(_) => '?',
        Err(m) => {
            if m.contains("more times than expected") {
                'v'
            } else if m.contains("unexpected arguments") {
                'u'
            } else {
                '!'
            }
        }
    }
}

fn exit_class(r: Result<(), String>) -> String {
    match r {
        Ok(()) => "ok".into(),
        Err(m) => {
            // "Fake function was expected to be called {expected} time(s), but it is actually called {call_times} time(s)"
            let nums: Vec<&str> = m.split(|c: char| !c.is_ascii_digit()).filter(|s| !s.is_empty()).collect();
            if m.contains("expected to be called") && nums.len() == 2 {
                format!("mismatch:{}:{}", nums[0], nums[1])
            } else {
                format!("other:{}", m.replace(' ', "_"))
            }
        }
    }
}

/// run one lifetime: install site N, perform the per-thread call scripts, drop
fn lifetime(n: usize, scripts: &[Vec<bool>]) -> (Vec<String>, String) {
    lifetime_ending(n, scripts, false)
}

/// `by_panic`: the scope is left by a panic raised in the body after the calls, so the injector
/// (and its verifier) is dropped while the thread is unwinding
fn lifetime_ending(n: usize, scripts: &[Vec<bool>], by_panic: bool) -> (Vec<String>, String) {
    let mut inj = InjectorPP::new();
    inj.when_called(shadow::func!(fn (target)(i32) -> i32)).will_execute(mk(n));
    let outs: Vec<String> = if scripts.len() == 1 {
        vec![scripts[0].iter().map(|&m| one_call(m)).collect()]
    } else {
        let bar = Arc::new(Barrier::new(scripts.len()));
        let hs: Vec<_> = scripts
            .iter()
            .cloned()
            .map(|s| {
                let bar = bar.clone();
                std::thread::spawn(move || {
                    bar.wait();
                    s.iter().map(|&m| one_call(m)).collect::<String>()
                })
            })
            .collect();
        hs.into_iter().map(|h| h.join().unwrap()).collect()
    };
    let ex = if by_panic {
        let r = quiet_catch(std::panic::AssertUnwindSafe(move || {
            let _keep = inj;
            panic!("user panic at the end of the lifetime");
        }));
        match r {
            Err(m) if m.contains("user panic at the end of the lifetime") => "ok".to_string(),
            other => exit_class(other.map(|_| ())),
        }
    } else {
        exit_class(quiet_catch(std::panic::AssertUnwindSafe(move || drop(inj))))
    };
    (outs, ex)
}

/// one lifetime in which the call site N is installed several times, on `target` and `target2`
/// alternately, with the given calls after each installation (single thread)
fn lifetime_multi(n: usize, installs: &[Vec<bool>], by_panic: bool) -> (Vec<String>, String) {
    lifetime_multi_u(n, installs, by_panic, false)
}

/// `unwinding_install`: the first installation is made by a destructor that runs while the thread is
/// unwinding (a fixture's tear-down that sets up a stub), the injector outliving the unwinding
fn lifetime_multi_u(n: usize, installs: &[Vec<bool>], by_panic: bool, unwinding_install: bool) -> (Vec<String>, String) {
    let mut inj = InjectorPP::new();
    let mut outs = Vec::new();
    for (i, calls) in installs.iter().enumerate() {
        if i == 0 && unwinding_install {
            struct D<'a>(&'a mut InjectorPP, usize);
            impl Drop for D<'_> {
                fn drop(&mut self) {
                    self.0.when_called(shadow::func!(fn (target)(i32) -> i32)).will_execute(mk(self.1));
                }
            }
            let _ = quiet_catch(std::panic::AssertUnwindSafe(|| {
                let _d = D(&mut inj, n);
                panic!("the body panics; the tear-down installs");
            }));
        } else if i % 2 == 0 {
            inj.when_called(shadow::func!(fn (target)(i32) -> i32)).will_execute(mk(n));
        } else {
            inj.when_called(shadow::func!(fn (target2)(i32) -> i32)).will_execute(mk(n));
        }
        outs.push(calls.iter().map(|&m| one_call_on(i, m)).collect::<String>());
    }
    let ex = if by_panic {
        let r = quiet_catch(std::panic::AssertUnwindSafe(move || {
            let _keep = inj;
            panic!("user panic at the end of the lifetime");
        }));
        match r {
            Err(m) if m.contains("user panic at the end of the lifetime") => "ok".to_string(),
            other => exit_class(other.map(|_| ())),
        }
    } else {
        exit_class(quiet_catch(std::panic::AssertUnwindSafe(move || drop(inj))))
    };
    (outs, ex)
}

/// The installation window: while `will_execute` runs, a helper thread calls the target (with a
/// matching argument) at every heap allocation the installing thread makes -- at those points the
/// installer is parked in the allocator, so the entry is either still original or completely
/// patched.  Calls served by the original function never reached the fake and are left out; the
/// others are matching calls like any other and belong to the count.  Afterwards the installing
/// thread makes `later` more matching calls.  Reported as a two-thread `cnt` line.
fn lifetime_window(n: usize, total: usize) -> (String, String, String) {
    use crate::winalloc::{ARMED, DONE, REQ};
    use std::sync::atomic::{AtomicBool, Ordering};
    let stop = Arc::new(AtomicBool::new(false));
    let st = stop.clone();
    let helper = std::thread::spawn(move || {
        let mut res = String::new();
        loop {
            if REQ.load(Ordering::SeqCst) > DONE.load(Ordering::SeqCst) {
                res.push(one_call(true));
                DONE.fetch_add(1, Ordering::SeqCst);
            } else if st.load(Ordering::SeqCst) {
                break;
            } else {
                std::thread::yield_now();
            }
        }
        res
    });
    let mut inj = InjectorPP::new();
    let pair = mk(n);
    let fp = shadow::func!(fn (target)(i32) -> i32);
    ARMED.with(|a| a.set(true));
    inj.when_called(fp).will_execute(pair);
    ARMED.with(|a| a.set(false));
    stop.store(true, Ordering::SeqCst);
    let early_all = helper.join().unwrap();
    let early: String = early_all.chars().filter(|&c| c != '?').collect();
    let served = early.len();
    let later: String = (0..total.saturating_sub(served)).map(|_| one_call(true)).collect();
    let ex = exit_class(quiet_catch(std::panic::AssertUnwindSafe(move || drop(inj))));
    (early, later, ex)
}

/// The scope-exit window: the injector holds a `times: N` fake on `target` (oldest) and a newer boolean
/// fake on another function; after the N admitted calls it is dropped while a helper thread makes one
/// matching call at every point where the dropping thread frees memory (it is parked in the allocator
/// there: an entry is either still patched or completely restored, and a trampoline is unmapped only
/// after its entry was restored).  Calls that reach the fake are matching calls like any other: beyond N
/// they are refused at the call, and the scope exit names them.
fn lifetime_exit_window(n: usize) -> (String, String, String) {
    use crate::winalloc::{ARMED_FREE, DONE, REQ};
    use std::sync::atomic::{AtomicBool, Ordering};
    #[inline(never)]
    fn other() -> bool {
        std::hint::black_box(false)
    }
    let stop = Arc::new(AtomicBool::new(false));
    let st = stop.clone();
    let helper = std::thread::spawn(move || {
        let mut res = String::new();
        loop {
            if REQ.load(Ordering::SeqCst) > DONE.load(Ordering::SeqCst) {
                res.push(one_call(true));
                DONE.fetch_add(1, Ordering::SeqCst);
            } else if st.load(Ordering::SeqCst) {
                break;
            } else {
                std::thread::yield_now();
            }
        }
        res
    });
    let mut inj = InjectorPP::new();
    inj.when_called(shadow::func!(fn (target)(i32) -> i32)).will_execute(mk(n));
    inj.when_called(shadow::func!(fn (other)() -> bool)).will_return_boolean(true);
    let first: String = (0..n).map(|_| one_call(true)).collect();
    ARMED_FREE.with(|a| a.set(true));
    let r = quiet_catch(std::panic::AssertUnwindSafe(move || drop(inj)));
    ARMED_FREE.with(|a| a.set(false));
    stop.store(true, Ordering::SeqCst);
    let late_all = helper.join().unwrap();
    let late: String = late_all.chars().filter(|&c| c != '?').collect();
    (first, late, exit_class(r))
}

fn script_str(s: &[bool]) -> String {
    if s.is_empty() {
        return "-".into();
    }
    s.iter().map(|&m| if m { 'm' } else { 'x' }).collect()
}

pub fn run(a: &Args, out: &mut impl Write) {
    silence_panics();
    let mut r = Rng::new(a.seed);
    let nmax = if a.tier_thorough { MAX_N } else { 6 };
    // ---- C06: every N, k in 0..N+2, single thread, PRNG interleaving with non-matching calls
    for n in 0..=nmax {
        for k in 0..=n + 2 {
            let extra = r.below(4) as usize;
            let mut s: Vec<bool> = vec![true; k];
            for _ in 0..extra {
                let p = r.below(s.len() as u64 + 1) as usize;
                s.insert(p, false);
            }
            let (outs, ex) = lifetime(n, &[s.clone()]);
            writeln!(out, "cnt {} 1 {} | {} exit={}", n, script_str(&s), if outs[0].is_empty() { "-".to_string() } else { outs[0].clone() }, ex).unwrap();
        }
    }
    // ---- C06: the k calls split over T threads behind a barrier
    for _ in 0..a.n {
        let n = r.below(nmax as u64 + 1) as usize;
        let k = r.below(n as u64 + 3) as usize;
        let t = *r.pick(&[2usize, 3, 4, 8, 16]);
        let mut scripts: Vec<Vec<bool>> = vec![Vec::new(); t];
        for _ in 0..k {
            let i = r.below(t as u64) as usize;
            scripts[i].push(true);
        }
        for _ in 0..r.below(4) {
            let i = r.below(t as u64) as usize;
            let p = r.below(scripts[i].len() as u64 + 1) as usize;
            scripts[i].insert(p, false);
        }
        let (outs, ex) = lifetime(n, &scripts);
        let ss: Vec<String> = scripts.iter().map(|s| script_str(s)).collect();
        let os: Vec<String> = outs.iter().map(|o| if o.is_empty() { "-".to_string() } else { o.clone() }).collect();
        writeln!(out, "cnt {} {} {} | {} exit={}", n, t, ss.join("/"), os.join("/"), ex).unwrap();
    }
    // ---- C06: the last calls of the script are made by a destructor that runs while the thread unwinds
    // (each inside its own catch_unwind, as a careful tear-down does): the budget is the same there
    for n in 0..=2usize {
        for extra in [1usize, 2] {
            let mut inj = InjectorPP::new();
            inj.when_called(shadow::func!(fn (target)(i32) -> i32)).will_execute(mk(n));
            let mut outs: String = (0..n).map(|_| one_call(true)).collect();
            struct CallsOnDrop<'a>(&'a mut String, usize);
            impl Drop for CallsOnDrop<'_> {
                fn drop(&mut self) {
                    for _ in 0..self.1 {
                        self.0.push(one_call(true));
                    }
                }
            }
            let _ = quiet_catch(std::panic::AssertUnwindSafe(|| {
                let _c = CallsOnDrop(&mut outs, extra);
                panic!("the body panics; its tear-down calls the function");
            }));
            let ex = exit_class(quiet_catch(std::panic::AssertUnwindSafe(move || drop(inj))));
            writeln!(out, "cntunw {} 1 {} | {} exit={}", n, "m".repeat(n + extra), outs, ex).unwrap();
        }
    }
    // ---- C06: matching calls that arrive while the scope exit is still running
    for n in 0..=2usize {
        let (first, late, ex) = lifetime_exit_window(n);
        let sc = |o: &str| if o.is_empty() { "-".to_string() } else { "m".repeat(o.len()) };
        let os = |o: &str| if o.is_empty() { "-".to_string() } else { o.to_string() };
        writeln!(out, "cntexit {} 2 {}/{} | {}/{} exit={}", n, sc(&first), sc(&late), os(&first), os(&late), ex).unwrap();
    }
    // ---- C06: matching calls that arrive while the installation is still running
    for n in 1..=3usize {
        for total in [n, n + 1] {
            let (early, later, ex) = lifetime_window(n, total);
            let sc = |o: &str| if o.is_empty() { "-".to_string() } else { "m".repeat(o.len()) };
            let os = |o: &str| if o.is_empty() { "-".to_string() } else { o.to_string() };
            writeln!(out, "cntwin {} 2 {}/{} | {}/{} exit={}", n, sc(&early), sc(&later), os(&early), os(&later), ex).unwrap();
        }
    }
    {
        // 16-thread hammer on one site (short in the quick tier): a non-atomic counter update
        // loses increments here within milliseconds
        let n = if a.tier_thorough { 64usize } else { 6 };
        let per = if a.tier_thorough { 62500usize } else { 4000 };
        let scripts: Vec<Vec<bool>> = (0..16).map(|_| vec![true; per]).collect();
        let (outs, ex) = lifetime(n, &scripts);
        let admitted: usize = outs.iter().map(|o| o.matches('o').count()).sum();
        let over: usize = outs.iter().map(|o| o.matches('v').count()).sum();
        writeln!(out, "cnthammer {} 16 {} | admitted={} over={} exit={}", n, 16 * per, admitted, over, ex).unwrap();
    }
    {
        // several threads, each with its own injector lifetimes, all built by the same `fake!` line
        // (a shared set-up helper): the global lock serialises the lifetimes, and each one's calls and
        // scope-exit verdict must be its own -- the verdict is read while the lifetime still owns the lock
        let n = 2usize;
        let threads = 8usize;
        let rounds = if a.tier_thorough { 5000usize } else { 400 };
        let bar = Arc::new(Barrier::new(threads));
        let hs: Vec<_> = (0..threads)
            .map(|t| {
                let bar = bar.clone();
                std::thread::spawn(move || {
                    bar.wait();
                    let mut bad = 0usize;
                    let mut first = String::new();
                    for round in 0..rounds {
                        let k = if (round + t) % 2 == 0 { n } else { n - 1 };
                        let (outs, ex) = lifetime(n, &[vec![true; k]]);
                        let want_ex = if k == n { "ok".to_string() } else { format!("mismatch:{}:{}", n, k) };
                        let want_outs: String = std::iter::repeat('o').take(k).collect();
                        if ex != want_ex || outs[0] != want_outs {
                            bad += 1;
                            if first.is_empty() {
                                first = format!("t{}r{}:k{}:{}:{}", t, round, k, outs[0], ex.replace(':', ","));
                            }
                        }
                    }
                    (bad, first)
                })
            })
            .collect();
        let res: Vec<(usize, String)> = hs.into_iter().map(|h| h.join().unwrap()).collect();
        let bad: usize = res.iter().map(|x| x.0).sum();
        let first = res.iter().map(|x| x.1.clone()).find(|x| !x.is_empty()).unwrap_or_else(|| "-".into());
        writeln!(out, "cntshared {} {} {} | bad={} first={}", n, threads, rounds, bad, first).unwrap();
    }
    // ---- C07: consecutive lifetimes evaluating the same call site; in a third of them the site
    // is installed twice or three times within the lifetime (a helper used for several functions)
    for _ in 0..a.n {
        let n = r.below(nmax.min(8) as u64 + 1) as usize;
        let l = r.range(2, if a.tier_thorough { 50 } else { 8 }) as usize;
        let mut parts = Vec::new();
        for _ in 0..l {
            let ninst = if r.chance(1, 3) { r.range(2, 3) as usize } else { 1 };
            let mut installs: Vec<Vec<bool>> = Vec::new();
            for _ in 0..ninst {
                let k = match r.below(4) {
                    0 => n,
                    1 => r.below(n as u64 + 3) as usize,
                    2 => n.saturating_sub(1),
                    _ => n,
                };
                let mut s: Vec<bool> = vec![true; k];
                if r.chance(1, 4) {
                    let p = r.below(s.len() as u64 + 1) as usize;
                    s.insert(p, false);
                }
                installs.push(s);
            }
            let by_panic = r.chance(1, 4);
            let unwinding_install = r.chance(1, 5);
            let (outs, ex) = lifetime_multi_u(n, &installs, by_panic, unwinding_install);
            let sc: Vec<String> = installs.iter().map(|s| script_str(s)).collect();
            let os: Vec<String> = outs.iter().map(|o| if o.is_empty() { "-".to_string() } else { o.clone() }).collect();
            parts.push(format!("{}{}{}:{}:{}", if unwinding_install { "^" } else { "" }, sc.join("+"), if by_panic { "!" } else { "" }, os.join("+"), ex.replace(':', ",")));
        }
        writeln!(out, "life {} | {}", n, parts.join(" ")).unwrap();
    }
}
