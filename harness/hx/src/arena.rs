//! Harness-owned memory arenas at chosen addresses (never logged by the shim).
use shim::real;

pub const PAGE: usize = 4096;

/// Map `len` bytes rwx (or rw-) exactly at `addr`; None if occupied.
pub fn map_at(addr: usize, len: usize, exec: bool) -> Option<usize> {
    unsafe {
        let prot = shim::PROT_READ | shim::PROT_WRITE | if exec { shim::PROT_EXEC } else { 0 };
        let p = real::mmap(
            addr as *mut shim::c_void,
            len,
            prot,
            shim::MAP_PRIVATE | shim::MAP_ANONYMOUS | shim::MAP_FIXED_NOREPLACE,
            -1,
            0,
        );
        if p == shim::MAP_FAILED || p as usize != addr {
            if p != shim::MAP_FAILED {
                real::munmap(p, len);
            }
            None
        } else {
            Some(addr)
        }
    }
}

pub fn map_anywhere(len: usize, exec: bool) -> usize {
    unsafe {
        let prot = shim::PROT_READ | shim::PROT_WRITE | if exec { shim::PROT_EXEC } else { 0 };
        let p = real::mmap(std::ptr::null_mut(), len, prot, shim::MAP_PRIVATE | shim::MAP_ANONYMOUS, -1, 0);
        assert!(p != shim::MAP_FAILED);
        p as usize
    }
}

/// Reserve address space with PROT_NONE (to make a neighbourhood "full").
pub fn reserve(addr: usize, len: usize) -> bool {
    unsafe {
        let p = real::mmap(
            addr as *mut shim::c_void,
            len,
            shim::PROT_NONE,
            shim::MAP_PRIVATE | shim::MAP_ANONYMOUS | shim::MAP_FIXED_NOREPLACE | shim::MAP_NORESERVE,
            -1,
            0,
        );
        if p == shim::MAP_FAILED {
            return false;
        }
        if p as usize != addr {
            real::munmap(p, len);
            return false;
        }
        true
    }
}

pub fn unmap(addr: usize, len: usize) {
    unsafe {
        real::munmap(addr as *mut shim::c_void, len);
    }
}

pub fn protect(addr: usize, len: usize, write: bool, exec: bool) {
    unsafe {
        let prot = shim::PROT_READ | if write { shim::PROT_WRITE } else { 0 } | if exec { shim::PROT_EXEC } else { 0 };
        assert_eq!(real::mprotect(addr as *mut shim::c_void, len, prot), 0);
    }
}

pub unsafe fn write(addr: usize, bytes: &[u8]) {
    std::ptr::copy_nonoverlapping(bytes.as_ptr(), addr as *mut u8, bytes.len());
}

pub unsafe fn read(addr: usize, len: usize) -> Vec<u8> {
    std::slice::from_raw_parts(addr as *const u8, len).to_vec()
}
