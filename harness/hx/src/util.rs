use std::panic;

pub fn hexb(b: &[u8]) -> String {
    if b.is_empty() {
        return "-".to_string();
    }
    let mut s = String::with_capacity(b.len() * 2);
    for x in b {
        s.push_str(&format!("{:02x}", x));
    }
    s
}

/// Run `f`, catching a panic; the default panic hook is silenced for the duration.
pub fn quiet_catch<T>(f: impl FnOnce() -> T + panic::UnwindSafe) -> Result<T, String> {
    let r = panic::catch_unwind(f);
    r.map_err(|e| {
        if let Some(s) = e.downcast_ref::<String>() {
            s.clone()
        } else if let Some(s) = e.downcast_ref::<&str>() {
            s.to_string()
        } else {
            "?".to_string()
        }
    })
}

/// Run `f` from a destructor that executes while the thread is unwinding from a panic
/// (`std::thread::panicking()` is true inside `f`), catching a panic `f` itself raises there.
pub fn in_unwinding<T>(f: impl FnOnce() -> T) -> Result<T, String> {
    struct OnDrop<'a, T, F: FnOnce() -> T>(Option<F>, &'a mut Option<Result<T, String>>);
    impl<T, F: FnOnce() -> T> Drop for OnDrop<'_, T, F> {
        fn drop(&mut self) {
            let f = self.0.take().unwrap();
            *self.1 = Some(quiet_catch(panic::AssertUnwindSafe(f)));
        }
    }
    let mut slot: Option<Result<T, String>> = None;
    let _ = panic::catch_unwind(panic::AssertUnwindSafe(|| {
        let _d = OnDrop(Some(f), &mut slot);
        panic!("a body panics; its tear-down runs the operation");
    }));
    slot.expect("the destructor ran")
}

/// An accessor of an internal function whose shape the source no longer has panics with this message
/// (shadow/build.rs); the generators then print a note once and skip the lines that need it.
pub const ACCESSOR_ABSENT: &str = "verif-accessor-absent";
pub fn note_absent(out: &mut impl std::io::Write, which: &str) {
    use std::sync::atomic::{AtomicBool, Ordering};
    static SAID: AtomicBool = AtomicBool::new(false);
    if !SAID.swap(true, Ordering::SeqCst) {
        writeln!(out, "# accessor absent: {} (no function of the expected shape in the source as written)", which).unwrap();
    }
}

pub fn silence_panics() {
    panic::set_hook(Box::new(|_| {}));
}

pub struct Args {
    pub seed: u64,
    pub n: u64,
    pub tier_thorough: bool,
    pub rest: Vec<String>,
}

pub fn parse_args(v: &[String]) -> Args {
    let mut a = Args { seed: 1, n: 1000, tier_thorough: false, rest: vec![] };
    let mut i = 0;
    while i < v.len() {
        match v[i].as_str() {
            "--seed" => {
                a.seed = v[i + 1].parse().unwrap();
                i += 1;
            }
            "--n" => {
                a.n = v[i + 1].parse().unwrap();
                i += 1;
            }
            "--thorough" => a.tier_thorough = true,
            x => a.rest.push(x.to_string()),
        }
        i += 1;
    }
    a
}


/// integer literals harvested by the translator from the source files it translates
/// (file named by VERIF_LITERALS_FILE, one hexadecimal value per line); used as extra boundary
/// values by the generators, so that a constant written in the code is also tried as an input
pub fn literal_pool() -> Vec<u64> {
    let path = match std::env::var("VERIF_LITERALS_FILE") {
        Ok(p) => p,
        Err(_) => return Vec::new(),
    };
    let text = match std::fs::read_to_string(path) {
        Ok(t) => t,
        Err(_) => return Vec::new(),
    };
    let mut v: Vec<u64> = text.lines().filter_map(|l| u64::from_str_radix(l.trim(), 16).ok()).collect();
    v.sort();
    v.dedup();
    v.truncate(400);
    v
}
