//! C09 / C10: the signature gates through the real macros, over a family of function-pointer
//! types (all ordered pairs), rustc's own `type_name` rendering of each, the unchecked mixes,
//! null pointers, the async forms and the forced-boolean gate.
use crate::arena;
use crate::util::*;
use shadow::interface::injector::*;
use std::io::Write;

pub mod m {
    /// a user type that happens to be called `bool`
    #[allow(non_camel_case_types)]
    pub struct bool;
}

/// same-named types in different modules (and one differing only in letter case): a gate that
/// "normalises" the recorded text (module paths, case) would confuse exactly these
pub mod v1 {
    pub struct Cfg(pub u32);
    #[allow(non_camel_case_types)]
    pub struct cfg(pub u32);
}
pub mod v2 {
    pub struct Cfg(pub u32);
}
/// types parameterised by constants: `type_name` prints the constant (`Drive<'C'>`, `Dim<3>`,
/// `Flag<true>`); a gate that drops quoted text or digits as "noise" would confuse these
pub struct Drive<const L: char>;
pub struct Dim<const N: usize>;
pub struct Flag<const B: bool>;
/// a non-ASCII type name: byte offsets into the rendered text differ from character counts
#[allow(non_camel_case_types, dead_code)]
pub struct Größe(pub u8);

pub struct Entry {
    pub idx: usize,
    pub descr: &'static str,
    pub type_name: fn() -> &'static str,
    pub mk_target: fn() -> FuncPtr,
    pub mk_fake: fn() -> FuncPtr,
    pub target_addr: fn() -> usize,
    /// differs from entry `of` only in lifetime spelling: exercised, not judged
    pub lifetime_variant_of: Option<usize>,
}

macro_rules! family {
    ($( ($idx:literal, $descr:literal, $name:ident, $lv:expr, [$($q:tt)*], ($($p:ty),*), $r:ty) ),* $(,)?) => {
        pub mod tg {
            #![allow(unused, improper_ctypes_definitions, clippy::all)]
            use super::{m, v1, v2, Dim, Drive, Flag};
            $( #[inline(never)] pub $($q)* fn $name($(_: $p),*) -> $r { unimplemented!() } )*
        }
        pub mod fk {
            #![allow(unused, improper_ctypes_definitions, clippy::all)]
            use super::{m, v1, v2, Dim, Drive, Flag};
            $( #[inline(never)] pub $($q)* fn $name($(_: $p),*) -> $r { unimplemented!() } )*
        }
        pub fn family() -> Vec<Entry> {
            vec![ $( Entry {
                idx: $idx,
                descr: $descr,
                type_name: || std::any::type_name::<$($q)* fn($($p),*) -> $r>(),
                mk_target: || shadow::func!(tg::$name, $($q)* fn($($p),*) -> $r),
                mk_fake: || shadow::func!(fk::$name, $($q)* fn($($p),*) -> $r),
                target_addr: || tg::$name as usize,
                lifetime_variant_of: $lv,
            } ),* ]
        }
    };
}

family! {
    (0,  "F0r:0.T0",                         f00, None, [], (), ()),
    (1,  "F0r:0.Pbool",                      f01, None, [], (), bool),
    (2,  "F0r:0.Pi32",                       f02, None, [], (), i32),
    (3,  "F0r:1.Pi32.T0",                    f03, None, [], (i32), ()),
    (4,  "F0r:1.Pi32.Pbool",                 f04, None, [], (i32), bool),
    (5,  "F0r:2.Pi32.Pi32.Pbool",            f05, None, [], (i32, i32), bool),
    (6,  "F0r:1.Pi64.Pbool",                 f06, None, [], (i64), bool),
    (7,  "F0r:1.Pu32.Pbool",                 f07, None, [], (u32), bool),
    (8,  "F0r:1.R0.Pi32.Pbool",              f08, None, [], (&i32), bool),
    (9,  "F0r:1.R1.Pi32.Pbool",              f09, None, [], (&mut i32), bool),
    (10, "F0r:1.Q0.Pi32.Pbool",              f10, None, [], (*const i32), bool),
    (11, "F0r:1.Q1.Pi32.Pbool",              f11, None, [], (*mut i32), bool),
    (12, "F1r:1.Pi32.Pbool",                 f12, None, [unsafe], (i32), bool),
    (13, "F0c:1.Pi32.Pbool",                 f13, None, [extern "C"], (i32), bool),
    (14, "F1c:1.Pi32.Pbool",                 f14, None, [unsafe extern "C"], (i32), bool),
    (15, "F1s:1.Pi32.Pbool",                 f15, None, [unsafe extern "system"], (i32), bool),
    (16, "F0r:1.Pi32.T1.Pbool",              f16, None, [], (i32), (bool,)),
    (17, "F0r:1.Pi32.Gcore::option::Option:1.Pbool", f17, None, [], (i32), Option<bool>),
    (18, "F0r:1.Pi32.F0r:0.Pbool",           f18, None, [], (i32), fn() -> bool),
    (19, "F0r:1.Pi32.Q0.F0r:0.Pbool",        f19, None, [], (i32), *const fn() -> bool),
    (20, "F0r:1.F0r:0.Pbool.T0",             f20, None, [], (fn() -> bool), ()),
    (21, "F0r:1.F0r:0.Pbool.Pbool",          f21, None, [], (fn() -> bool), bool),
    (22, "F0r:1.T2.Pi32.Pi32.Pbool",         f22, None, [], ((i32, i32)), bool),
    (23, "F0r:1.A4.Pi32.Pbool",              f23, None, [], ([i32; 4]), bool),
    (24, "F0r:1.R0.S.Pi32.Pbool",            f24, None, [], (&[i32]), bool),
    (25, "F0r:1.Pi32.Pu8",                   f25, None, [], (i32), u8),
    (26, "F0r:1.Pbool.Pbool",                f26, None, [], (bool), bool),
    (27, "F0r:1.Pi32.R0.Pbool",              f27, None, [], (i32), &'static bool),
    (28, "F0r:1.Pi32.Phx::sigs::m::bool",    f28, None, [], (i32), m::bool),
    (29, "F0r:1.Pi32.R0.D0.Pbool",           f29, None, [], (i32), &'static dyn Fn() -> bool),
    (30, "F0r:1.R0.Pi32.Pbool",              f30, Some(8), [], (&'static i32), bool),
    (31, "F0r:3.Pi32.Pi32.Pi32.Pbool",       f31, None, [], (i32, i32, i32), bool),
    (32, "F0r:2.Pi32.Pi64.Pbool",            f32x, None, [], (i32, i64), bool),
    (33, "F0r:2.Pi64.Pi32.Pbool",            f33, None, [], (i64, i32), bool),
    (34, "F1c:0.Pbool",                      f34, None, [unsafe extern "C"], (), bool),
    (35, "F1c:0.T0",                         f35, None, [unsafe extern "C"], (), ()),
    (36, "F0r:1.R0.Phx::sigs::v1::Cfg.Pbool", f36, None, [], (&v1::Cfg), bool),
    (37, "F0r:1.R0.Phx::sigs::v2::Cfg.Pbool", f37, None, [], (&v2::Cfg), bool),
    (38, "F0r:1.R0.Phx::sigs::v1::cfg.Pbool", f38, None, [], (&v1::cfg), bool),
    (39, "F0r:1.Pi32.Phx::sigs::v1::Cfg",    f39, None, [], (i32), v1::Cfg),
    (40, "F0r:1.Pi32.Phx::sigs::v2::Cfg",    f40, None, [], (i32), v2::Cfg),
    (41, "F0r:1.Pi32.Gcore::option::Option:1.Phx::sigs::v1::Cfg", f41, None, [], (i32), Option<v1::Cfg>),
    (42, "F0r:1.Pi32.Gcore::option::Option:1.Phx::sigs::v2::Cfg", f42, None, [], (i32), Option<v2::Cfg>),
    (43, "F0r:1.Ghx::sigs::Drive:1.P'C'.Pbool", f43, None, [], (Drive<'C'>), bool),
    (44, "F0r:1.Ghx::sigs::Drive:1.P'D'.Pbool", f44, None, [], (Drive<'D'>), bool),
    (45, "F0r:1.Ghx::sigs::Drive:1.P'c'.Pbool", f45, None, [], (Drive<'c'>), bool),
    (46, "F0r:1.Ghx::sigs::Dim:1.P3.Pbool",   f46, None, [], (Dim<3>), bool),
    (47, "F0r:1.Ghx::sigs::Dim:1.P4.Pbool",   f47, None, [], (Dim<4>), bool),
    (48, "F0r:1.Pi32.Ghx::sigs::Flag:1.Ptrue", f48, None, [], (i32), Flag<true>),
    (49, "F0r:1.Pi32.Ghx::sigs::Flag:1.Pfalse", f49, None, [], (i32), Flag<false>),
    // a wrapper around a function-pointer type next to that type itself (f04, f02): a gate that peels
    // `fn() -> Wrapper<..>` off one side confuses exactly these
    (50, "F0r:0.Gcore::task::poll::Poll:1.F0r:1.Pi32.Pbool", f50, None, [], (), std::task::Poll<fn(i32) -> bool>),
    (51, "F0r:0.Gcore::task::poll::Poll:1.F0r:0.Pi32", f51, None, [], (), std::task::Poll<fn() -> i32>),
    (52, "F0r:0.Gcore::task::poll::Poll:1.Pi32", f52, None, [], (), std::task::Poll<i32>),
    (53, "F0r:0.Gcore::option::Option:1.F0r:1.Pi32.Pbool", f53, None, [], (), Option<fn(i32) -> bool>),
    // the unwinding variants of the C and system ABIs next to f13 / f14 / f15
    (54, "F0u:1.Pi32.Pbool",                 f54, None, [extern "C-unwind"], (i32), bool),
    (55, "F1u:1.Pi32.Pbool",                 f55, None, [unsafe extern "C-unwind"], (i32), bool),
    (56, "F1v:1.Pi32.Pbool",                 f56, None, [unsafe extern "system-unwind"], (i32), bool),
}

pub struct BoolEntry {
    pub descr: String,
    pub mk_target: fn() -> FuncPtr,
    pub target_addr: fn() -> usize,
}

/// parameter shapes x return shapes (cross product) for the forced-boolean gate: return types that
/// contain parentheses / end in `-> bool`, combined with parameter lists that nest parentheses
macro_rules! boolfam {
    (params: [ $( ($pn:ident, $pd:literal, $pc:literal, $ps:tt) ),* ]; rets: $rets:tt) => {
        pub fn bool_family() -> Vec<BoolEntry> {
            let mut v = Vec::new();
            $( boolfam!(@row v; $pn, $pd, $pc, $ps; $rets); )*
            v
        }
    };
    (@row $v:ident; $pn:ident, $pd:literal, $pc:literal, $ps:tt; [ $( ($rn:ident, $rd:literal, $r:ty) ),* ]) => {
        $( boolfam!(@one $v; $pn, $pd, $pc, $ps; $rn, $rd, $r); )*
    };
    (@one $v:ident; $pn:ident, $pd:literal, $pc:literal, ($($p:ty),*); $rn:ident, $rd:literal, $r:ty) => {
        {
            #[allow(unused, non_snake_case)]
            mod $rn {
                #[allow(unused_imports)] use super::*;
                pub mod $pn {
                    #[allow(unused_imports)] use super::super::*;
                    #[inline(never)] pub fn t($(_: $p),*) -> $r { unimplemented!() }
                }
            }
            $v.push(BoolEntry {
                descr: format!("F0r:{}{}.{}", $pc, $pd, $rd),
                mk_target: || shadow::func!($rn::$pn::t, fn($($p),*) -> $r),
                target_addr: || $rn::$pn::t as usize,
            });
        }
    };
}

boolfam! {
    params: [
        (p0, "", "0", ()),
        (p1, ".Pi32", "1", (i32)),
        (p2, ".T2.Pi32.Pi32", "1", ((i32, i32))),
        (p3, ".F0r:1.Pi32.Pi32", "1", (fn(i32) -> i32)),
        (p4, ".Pi32.T1.Pu8", "2", (i32, (u8,))),
        (p5, ".F0r:0.Pbool", "1", (fn() -> bool)),
        (p6, ".Phx::sigs::Größe.T2.Pi32.Pi32", "2", (Größe, (i32, i32))),
        // references: rustc writes their elided lifetimes into the recorded text (`&'_ i32`), so the text
        // holds quote characters -- one, two, or one inside a nested parenthesis
        (p7, ".R0.Pi32", "1", (&i32)),
        (p8, ".R0.Pi32.R1.Pu8", "2", (&i32, &mut u8)),
        (p9, ".T2.R0.Pi32.Pu8", "1", ((&i32, u8)))
    ];
    rets: [
        (r_bool, "Pbool", bool),
        (r_unit, "T0", ()),
        (r_i32, "Pi32", i32),
        (r_fn_bool, "F0r:0.Pbool", fn() -> bool),
        (r_ufn_bool, "F1r:1.Pu8.Pbool", unsafe fn(u8) -> bool),
        (r_fn_ref_bool, "F0r:1.R0.Pu8.Pbool", fn(&u8) -> bool),
        (r_fn_2ref_bool, "F0r:2.R0.Pu8.R0.Pi32.Pbool", fn(&u8, &i32) -> bool),
        (r_cfn_bool, "F0c:0.Pbool", extern "C" fn() -> bool),
        (r_ptr_fn_bool, "Q0.F0r:0.Pbool", *const fn() -> bool),
        (r_dyn_bool, "R0.D0.Pbool", &'static dyn Fn() -> bool),
        (r_tup_bool, "T1.Pbool", (bool,)),
        (r_fn_tup, "F0r:1.T2.Pi32.Pi32.Pbool", fn((i32, i32)) -> bool)
    ]
}

/// strip higher-ranked binders and lifetimes from a `type_name` string
fn canon(s: &str) -> String {
    let mut out = String::new();
    let b: Vec<char> = s.chars().collect();
    let mut i = 0;
    while i < b.len() {
        if b[i..].starts_with(&['f', 'o', 'r', '<']) && (i == 0 || !b[i - 1].is_alphanumeric()) {
            // for<'a, 'b> binder
            let mut j = i + 4;
            while j < b.len() && b[j] != '>' {
                j += 1;
            }
            i = j + 1;
            while i < b.len() && b[i] == ' ' {
                i += 1;
            }
            continue;
        }
        if b[i] == '\'' && i + 2 < b.len() && b[i + 2] == '\'' {
            // a char constant (`Drive<'C'>`), not a lifetime: kept as written
            out.push(b[i]);
            out.push(b[i + 1]);
            out.push(b[i + 2]);
            i += 3;
            continue;
        }
        if b[i] == '\'' {
            let mut j = i + 1;
            while j < b.len() && (b[j].is_alphanumeric() || b[j] == '_') {
                j += 1;
            }
            while j < b.len() && b[j] == ' ' {
                j += 1;
            }
            i = j;
            continue;
        }
        out.push(b[i]);
        i += 1;
    }
    out
}

fn classify(r: &Result<(), String>) -> &'static str {
    match r {
        Ok(()) => "accept",
        Err(m) if m.contains("Signature mismatch") => "sigpanic",
        Err(m) if m.contains("Pointer must not be null") => "nullpanic",
        Err(_) => "otherpanic",
    }
}

async fn a_unit() {}
async fn a_bool() -> bool {
    true
}
async fn a_i32() -> i32 {
    1
}
async fn a_u32() -> u32 {
    1
}
async fn a_string() -> String {
    String::new()
}
async fn a_pair() -> (i32, i32) {
    (1, 2)
}

macro_rules! async_pairs {
    ($out:expr; $( ($tn:literal, $f:ident, $t:ty) ),* ; $us:tt) => {
        $( async_pairs!(@row $out; $tn, $f, $t; $us); )*
    };
    (@row $out:expr; $tn:literal, $f:ident, $t:ty; [ $( ($un:literal, $u:ty, $v:expr) ),* ]) => {
        $( {
            let r = quiet_catch(std::panic::AssertUnwindSafe(|| {
                let mut inj = InjectorPP::new();
                inj.when_called_async(shadow::async_func!($f(), $t)).will_return_async(shadow::async_return!($v, $u));
            }));
            writeln!($out, "sigasync {} {} | {}", $tn, $un, classify(&r)).unwrap();
        } )*
    };
}

pub fn run(a_: &Args, out: &mut impl Write) {
    silence_panics();
    let fam = family();
    // ---- rustc's rendering of every family type
    for e in &fam {
        let tn = (e.type_name)();
        writeln!(out, "sigty {} {} | raw={} canon={}", e.idx, e.descr, tn.replace(' ', "~"), canon(tn).replace(' ', "~")).unwrap();
    }
    // ---- the gate asked from a destructor that runs while the thread unwinds (a fixture's tear-down
    // installing a stub): same verdicts as anywhere else
    for a in fam.iter().step_by(3) {
        for b in fam.iter().step_by(5).chain(std::iter::once(a)) {
            let (mt, mf) = (a.mk_target, b.mk_fake);
            let ta = (a.target_addr)();
            let before = unsafe { arena::read(ta, 16) };
            let r = in_unwinding(move || {
                let mut inj = InjectorPP::new();
                inj.when_called(mt()).will_execute_raw(mf());
            });
            let after = unsafe { arena::read(ta, 16) };
            let lv = a.lifetime_variant_of == Some(b.idx) || b.lifetime_variant_of == Some(a.idx);
            writeln!(out, "sigpair unwinding {} {} | {} restored={} guards=0 lv={}", a.descr, b.descr, classify(&r), (before == after) as u8, lv as u8).unwrap();
        }
    }
    for e in bool_family().iter().step_by(2) {
        let mk = e.mk_target;
        let r = in_unwinding(move || {
            let mut inj = InjectorPP::new();
            inj.when_called(mk()).will_return_boolean(true);
        });
        writeln!(out, "boolgate {} | {} restored=1", e.descr, classify(&r)).unwrap();
    }
    // ---- every ordered pair through func!/func!
    for a in &fam {
        for b in &fam {
            let ta = (a.target_addr)();
            let before = unsafe { arena::read(ta, 16) };
            let (mt, mf) = (a.mk_target, b.mk_fake);
            let mut guards_after = 0usize;
            let mut os_calls = 0usize;
            let r = {
                let ga = &mut guards_after;
                let oc = &mut os_calls;
                quiet_catch(std::panic::AssertUnwindSafe(move || {
                    let mut inj = InjectorPP::new();
                    // everything the library asks of the OS during the attempt (mmap, munmap,
                    // mprotect, cache flush): a refusal must come before any of it
                    shim::start_log();
                    let res = std::panic::catch_unwind(std::panic::AssertUnwindSafe(|| {
                        inj.when_called(mt()).will_execute_raw(mf());
                    }));
                    *oc = shim::stop_log().len();
                    *ga = inj.verif_guards().len();
                    if let Err(e) = res {
                        // check the function while the injector is still alive, then let it go
                        let now = unsafe { arena::read(ta, 16) };
                        drop(inj);
                        if now != unsafe { arena::read(ta, 16) } {
                            panic!("changed-while-refused");
                        }
                        std::panic::resume_unwind(e);
                    }
                }))
            };
            let after = unsafe { arena::read(ta, 16) };
            let lv = a.lifetime_variant_of == Some(b.idx) || b.lifetime_variant_of == Some(a.idx);
            writeln!(
                out,
                "sigpair raw {} {} | {} restored={} guards={} lv={} os={}",
                a.descr,
                b.descr,
                classify(&r),
                (before == after) as u8,
                guards_after,
                lv as u8,
                os_calls
            )
            .unwrap();
        }
    }
    // ---- closure! on the replacement side (safe Rust-ABI types only)
    {
        let c4 = |_: i32| -> bool { true };
        let c5 = |_: i32, _: i32| -> bool { true };
        let c26 = |_: bool| -> bool { true };
        for a in &fam {
            for (descr, which) in [("F0r:1.Pi32.Pbool", 4), ("F0r:2.Pi32.Pi32.Pbool", 5), ("F0r:1.Pbool.Pbool", 26)] {
                let mt = a.mk_target;
                let r = quiet_catch(std::panic::AssertUnwindSafe(move || {
                    let mut inj = InjectorPP::new();
                    let p = match which {
                        4 => shadow::closure!(c4, fn(i32) -> bool),
                        5 => shadow::closure!(c5, fn(i32, i32) -> bool),
                        _ => shadow::closure!(c26, fn(bool) -> bool),
                    };
                    inj.when_called(mt()).will_execute_raw(p);
                }));
                writeln!(out, "sigpair closure {} {} | {} restored=1 guards=0 lv=0", a.descr, descr, classify(&r)).unwrap();
            }
        }
    }
    // ---- fake! on the replacement side
    for a in &fam {
        let mt = a.mk_target;
        let r = quiet_catch(std::panic::AssertUnwindSafe(move || {
            let mut inj = InjectorPP::new();
            inj.when_called(mt()).will_execute(shadow::fake!(func_type: fn(x: i32) -> bool, returns: x > 0));
        }));
        writeln!(out, "sigpair fake {} F0r:1.Pi32.Pbool | {} restored=1 guards=0 lv=0", a.descr, classify(&r)).unwrap();
        let mt = a.mk_target;
        let r = quiet_catch(std::panic::AssertUnwindSafe(move || {
            let mut inj = InjectorPP::new();
            inj.when_called(mt()).will_execute(shadow::fake!(func_type: unsafe extern "C" fn(x: i32) -> bool, returns: x > 0));
        }));
        writeln!(out, "sigpair fake {} F1c:1.Pi32.Pbool | {} restored=1 guards=0 lv=0", a.descr, classify(&r)).unwrap();
    }
    // ---- typed paired with unchecked, both ways; null pointers
    for a in &fam {
        let (mt, mf) = (a.mk_target, a.mk_fake);
        let r = quiet_catch(std::panic::AssertUnwindSafe(move || unsafe {
            let mut inj = InjectorPP::new();
            inj.when_called(mt()).will_execute_raw(shadow::func_unchecked!(fk::f00));
        }));
        writeln!(out, "sigmix typed-unchecked {} | {}", a.descr, classify(&r)).unwrap();
        let r = quiet_catch(std::panic::AssertUnwindSafe(move || unsafe {
            let mut inj = InjectorPP::new();
            inj.when_called_unchecked(shadow::func_unchecked!(tg::f00)).will_execute_raw(mf());
        }));
        writeln!(out, "sigmix unchecked-typed {} | {}", a.descr, classify(&r)).unwrap();
    }
    {
        let r = quiet_catch(|| unsafe {
            let _ = FuncPtr::new(std::ptr::null(), "fn()");
        });
        writeln!(out, "signull target | {}", classify(&r)).unwrap();
        let before = unsafe { arena::read(tg::f04 as usize, 16) };
        let r = quiet_catch(|| unsafe {
            let mut inj = InjectorPP::new();
            inj.when_called(shadow::func!(tg::f04, fn(i32) -> bool)).will_execute_raw(FuncPtr::new(std::ptr::null(), "fn(i32) -> bool"));
        });
        let same = before == unsafe { arena::read(tg::f04 as usize, 16) };
        writeln!(out, "signull replacement | {} restored={}", classify(&r), same as u8).unwrap();
    }
    // ---- async forms: every ordered pair of output types
    async_pairs!(out;
        ("unit", a_unit, ()), ("bool", a_bool, bool), ("i32", a_i32, i32), ("u32", a_u32, u32),
        ("String", a_string, String), ("pair", a_pair, (i32, i32));
        [ ("unit", (), ()), ("bool", bool, false), ("i32", i32, 7), ("u32", u32, 7u32),
          ("String", String, String::from("x")), ("pair", (i32, i32), (3, 4)) ]);
    // ---- forced boolean gate on every family type (C10)
    for a in &fam {
        let ta = (a.target_addr)();
        let before = unsafe { arena::read(ta, 16) };
        let mt = a.mk_target;
        let r = quiet_catch(std::panic::AssertUnwindSafe(move || {
            let mut inj = InjectorPP::new();
            let res = std::panic::catch_unwind(std::panic::AssertUnwindSafe(|| inj.when_called(mt()).will_return_boolean(true)));
            let g = inj.verif_guards().len();
            if let Err(e) = res {
                if g != 0 {
                    panic!("guard-after-refusal");
                }
                std::panic::resume_unwind(e);
            }
        }));
        let after = unsafe { arena::read(ta, 16) };
        writeln!(out, "boolgate {} | {} restored={}", a.descr, classify(&r), (before == after) as u8).unwrap();
    }
    for e in bool_family() {
        let ta = (e.target_addr)();
        let before = unsafe { arena::read(ta, 16) };
        let mt = e.mk_target;
        let mut os_calls = 0usize;
        let oc = &mut os_calls;
        let r = quiet_catch(std::panic::AssertUnwindSafe(move || {
            let mut inj = InjectorPP::new();
            shim::start_log();
            let res = std::panic::catch_unwind(std::panic::AssertUnwindSafe(|| inj.when_called(mt()).will_return_boolean(false)));
            *oc = shim::stop_log().len();
            let g = inj.verif_guards().len();
            if let Err(err) = res {
                if g != 0 {
                    panic!("guard-after-refusal");
                }
                std::panic::resume_unwind(err);
            }
        }));
        let after = unsafe { arena::read(ta, 16) };
        writeln!(out, "boolgate {} | {} restored={} os={}", e.descr, classify(&r), (before == after) as u8, os_calls).unwrap();
    }
    {
        let r = quiet_catch(|| unsafe {
            let mut inj = InjectorPP::new();
            inj.when_called_unchecked(shadow::func_unchecked!(tg::f01)).will_return_boolean(true);
        });
        writeln!(out, "boolgate - | {} restored=1", classify(&r)).unwrap();
    }
    // ---- the gate on every token string up to a length: the signature text is whatever the
    // caller's FuncPtr carries, so the helper must be right on arbitrary text, not only on types
    {
        // `é` makes byte offsets and character counts differ in the scanned text
        let alphabet: [(char, &str); 10] =
            [('f', "fn"), ('(', "("), (')', ")"), ('>', " -> "), ('b', "bool"), ('u', "u8"), (',', ", "), ('&', "&"), ('e', "é"), ('q', "&'_ ")];
        let maxlen = if a_.tier_thorough { 6 } else { 5 };
        let ta = (bool_family()[0].target_addr)();
        let mut idx = vec![0usize; 0];
        loop {
            // next string in length-lexicographic order
            let mut k = idx.len();
            loop {
                if k == 0 {
                    idx = vec![0; idx.len() + 1];
                    break;
                }
                k -= 1;
                if idx[k] + 1 < alphabet.len() {
                    idx[k] += 1;
                    for j in k + 1..idx.len() {
                        idx[j] = 0;
                    }
                    break;
                }
            }
            if idx.len() > maxlen {
                break;
            }
            let code: String = idx.iter().map(|&i| alphabet[i].0).collect();
            let text: String = idx.iter().map(|&i| alphabet[i].1).collect();
            let leaked: &'static str = Box::leak(text.into_boxed_str());
            let r = quiet_catch(std::panic::AssertUnwindSafe(move || unsafe {
                let mut inj = InjectorPP::new();
                inj.when_called(FuncPtr::new(ta as *const (), leaked)).will_return_boolean(true);
            }));
            writeln!(out, "boolstr {} | {}", code, classify(&r)).unwrap();
        }
    }
}
