//! C05: scripted lifetimes with a panic at a chosen point and of a chosen kind; each case in a
//! forked child (an abort would be an observation), several consecutive lifetimes per child.
use crate::arena;
use crate::hist::in_child;
use crate::rng::Rng;
use crate::util::*;
use shadow::interface::injector::*;
use shim::Answer;
use std::io::Write;
use std::sync::atomic::{AtomicUsize, Ordering};

#[inline(never)]
fn t0(a: i32) -> i32 {
    std::hint::black_box(a) + 1000
}
#[inline(never)]
fn t1(a: i32) -> i32 {
    std::hint::black_box(a) + 2000
}
#[inline(never)]
fn t2(a: i32) -> i32 {
    std::hint::black_box(a) + 3000
}
fn raw_fake(a: i32) -> i32 {
    a + 500
}
fn other_sig(_a: i64) -> i32 {
    0
}

fn site(n: usize) -> (FuncPtr, CallCountVerifier) {
    match n {
        0 => shadow::fake!(func_type: fn(a: i32) -> i32, when: a == 7, returns: 42, times: 0),
        1 => shadow::fake!(func_type: fn(a: i32) -> i32, when: a == 7, returns: 42, times: 1),
        2 => shadow::fake!(func_type: fn(a: i32) -> i32, when: a == 7, returns: 42, times: 2),
        _ => shadow::fake!(func_type: fn(a: i32) -> i32, when: a == 7, returns: 42, times: 3),
    }
}

fn target(i: usize) -> (fn(i32) -> i32, usize) {
    match i {
        0 => (t0, t0 as usize),
        1 => (t1, t1 as usize),
        _ => (t2, t2 as usize),
    }
}
fn target_ptr(i: usize) -> FuncPtr {
    match i {
        0 => shadow::func!(fn (t0)(i32) -> i32),
        1 => shadow::func!(fn (t1)(i32) -> i32),
        _ => shadow::func!(fn (t2)(i32) -> i32),
    }
}

static PANICS: AtomicUsize = AtomicUsize::new(0);
/// bytes of an entry changed under a W^X policy that no later flush request covers
static WX_UNFLUSHED: AtomicUsize = AtomicUsize::new(0);

fn gen_script(r: &mut Rng) -> Vec<String> {
    let mut ops: Vec<String> = Vec::new();
    let n = r.range(0, 7);
    let mut used_sites: Vec<usize> = Vec::new();
    for _ in 0..n {
        let t = r.below(3);
        match r.below(12) {
            0 | 1 => ops.push(format!("R{}", t)),
            2 | 3 | 4 => {
                let s = r.below(4) as usize;
                if !used_sites.contains(&s) {
                    used_sites.push(s);
                    ops.push(format!("F{}:{}", t, s));
                }
            }
            5 | 6 | 7 => ops.push(format!("Cm{}", t)),
            8 => ops.push(format!("Cx{}", t)),
            9 => ops.push(match r.below(5) {
                0 => format!("S{}", t),
                1 => format!("SF{}", t),
                2 => "Z".to_string(),
                3 => if r.chance(1, 2) { format!("M{}", t) } else { format!("W{}", t) },
                _ => format!("A{}", t),
            }),
            10 => ops.push("U".to_string()),
            _ => ops.push(format!("Cm{}", t)),
        }
    }
    ops
}

/// returns (ops actually executed until the body ended, body panicked?)
fn run_body(inj: &mut InjectorPP, ops: &[String]) {
    for op in ops {
        let t = op.chars().last().and_then(|c| c.to_digit(10)).unwrap_or(0) as usize;
        if let Some(rest) = op.strip_prefix("F") {
            let (ts, ns) = rest.split_once(':').unwrap();
            let t: usize = ts.parse().unwrap();
            inj.when_called(target_ptr(t)).will_execute(site(ns.parse().unwrap()));
        } else if op.starts_with("R") {
            inj.when_called(target_ptr(t)).will_execute_raw(shadow::func!(fn (raw_fake)(i32) -> i32));
        } else if op.starts_with("Cm") {
            let _ = (target(t).0)(7);
        } else if op.starts_with("Cx") {
            let _ = (target(t).0)(8);
        } else if op.starts_with("SF") {
            inj.when_called(target_ptr(t)).will_execute(shadow::fake!(func_type: fn(a: i64) -> i32, returns: 1, times: 1));
        } else if op.starts_with("S") {
            inj.when_called(target_ptr(t)).will_execute_raw(shadow::func!(fn (other_sig)(i64) -> i32));
        } else if op == "Z" {
            let p = unsafe { FuncPtr::new(std::ptr::null(), "fn(i32) -> i32") };
            inj.when_called(target_ptr(t)).will_execute_raw(p);
        } else if op.starts_with("A") {
            shim::set_script(vec![Answer::Fail; 70000]);
            let r = std::panic::catch_unwind(std::panic::AssertUnwindSafe(|| {
                inj.when_called(target_ptr(t)).will_execute_raw(shadow::func!(fn (raw_fake)(i32) -> i32));
            }));
            shim::set_script(vec![]);
            if let Err(e) = r {
                std::panic::resume_unwind(e);
            }
        } else if op.starts_with("M") {
            // the OS refuses to make the target writable, now and for whatever the unwinding
            // attempts next (a read-only file mapping, a W^X policy)
            shim::fail_next_mprotects(1000);
            let r = std::panic::catch_unwind(std::panic::AssertUnwindSafe(|| {
                inj.when_called(target_ptr(t)).will_execute_raw(shadow::func!(fn (raw_fake)(i32) -> i32));
            }));
            shim::fail_next_mprotects(0);
            if let Err(e) = r {
                std::panic::resume_unwind(e);
            }
        } else if op.starts_with("W") {
            // a W^X policy: memory writable and executable at once is refused with EACCES, anything else
            // is allowed.  Whatever the library then does, every byte of the entry it changed must be
            // covered by a flush request issued afterwards
            let entry = target(t).1;
            let before = unsafe { arena::read(entry, 16) };
            shim::deny_wx(true);
            shim::start_log();
            let r = std::panic::catch_unwind(std::panic::AssertUnwindSafe(|| {
                inj.when_called(target_ptr(t)).will_execute_raw(shadow::func!(fn (raw_fake)(i32) -> i32));
            }));
            let log = shim::stop_log();
            shim::deny_wx(false);
            let after = unsafe { arena::read(entry, 16) };
            for i in 0..16usize {
                if before[i] != after[i] {
                    let a = entry + i;
                    let covered = log.iter().any(|e| matches!(e, shim::Event::Flush { lo, hi, .. } if *lo <= a && a < *hi));
                    if !covered {
                        WX_UNFLUSHED.fetch_add(1, Ordering::SeqCst);
                    }
                }
            }
            if let Err(e) = r {
                std::panic::resume_unwind(e);
            }
        } else if op == "U" {
            panic!("user panic in the test body");
        }
    }
}

pub fn run(a: &Args, out: &mut impl Write) {
    let mut r = Rng::new(a.seed);
    for _case in 0..a.n {
        if crate::hist::too_many_timeouts() {
            break;
        }
        let lifetimes = r.range(1, 4);
        let scripts: Vec<Vec<String>> = (0..lifetimes).map(|_| gen_script(&mut r)).collect();
        let sc = scripts.clone();
        let (text, code, sig) = in_child(move |w| {
            std::panic::set_hook(Box::new(|_| {
                PANICS.fetch_add(1, Ordering::SeqCst);
            }));
            let snaps: Vec<Vec<u8>> = (0..3).map(|i| unsafe { arena::read(target(i).1, 16) }).collect();
            let mut line = String::new();
            for ops in &sc {
                let p0 = PANICS.load(Ordering::SeqCst);
                // mappings the library holds when the lifetime begins (a trampoline obtained just
                // before an mprotect refusal in an earlier lifetime stays behind on the pinned tree)
                let owned0 = shim::owned().len();
                // body and scope exit observed separately: the injector is moved out of the body
                let mut inj_slot: Option<InjectorPP> = Some(InjectorPP::new());
                let body = {
                    let injr = inj_slot.as_mut().unwrap();
                    std::panic::catch_unwind(std::panic::AssertUnwindSafe(|| run_body(injr, ops)))
                };
                let p1 = PANICS.load(Ordering::SeqCst);
                let inj = inj_slot.take().unwrap();
                let exit = if body.is_err() {
                    // the body panicked: the injector is dropped by *unwinding* — re-raise inside a
                    // scope that owns it
                    let e = body.err().unwrap();
                    let r2 = std::panic::catch_unwind(std::panic::AssertUnwindSafe(move || {
                        let _owned = inj;
                        std::panic::resume_unwind(e);
                    }));
                    assert!(r2.is_err());
                    "unwound"
                } else {
                    match std::panic::catch_unwind(std::panic::AssertUnwindSafe(move || drop(inj))) {
                        Ok(()) => "ok",
                        Err(_) => "panic",
                    }
                };
                let p2 = PANICS.load(Ordering::SeqCst);
                let restored = (0..3).all(|i| unsafe { arena::read(target(i).1, 16) } == snaps[i]);
                let calls_ok = (target(0).0)(7) == 1007 && (target(1).0)(7) == 2007 && (target(2).0)(8) == 3008;
                // the process-wide guard must be usable from another thread, promptly
                let (tx, rx) = std::sync::mpsc::channel();
                std::thread::spawn(move || {
                    // through both entry points of the guard, the preventer first: the very next
                    // acquisition after the lifetime must work whichever kind it is
                    {
                        let p = InjectorPP::prevent();
                        let _ = t0(1);
                        drop(p);
                    }
                    let mut i2 = InjectorPP::new();
                    i2.when_called(shadow::func!(fn (t0)(i32) -> i32)).will_execute_raw(shadow::func!(fn (raw_fake)(i32) -> i32));
                    let v = t0(1);
                    drop(i2);
                    let _ = tx.send(v == 501 && t0(1) == 1001);
                });
                let relock = matches!(rx.recv_timeout(std::time::Duration::from_secs(5)), Ok(true));
                line.push_str(&format!(
                    " ; L {} | body={} bodypanics={} exit={} exitpanics={} restored={} calls={} relock={} owned={} wxunflushed={}",
                    if ops.is_empty() { "-".to_string() } else { ops.join(",") },
                    p1 - p0,
                    p1 - p0,
                    exit,
                    p2 - p1,
                    restored as u8,
                    calls_ok as u8,
                    relock as u8,
                    shim::owned().len() as i64 - owned0 as i64,
                    WX_UNFLUSHED.swap(0, Ordering::SeqCst)
                ));
                w.write_all(line.as_bytes()).unwrap();
                line.clear();
            }
        });
        let all: Vec<String> = scripts.iter().map(|s| if s.is_empty() { "-".to_string() } else { s.join(",") }).collect();
        if sig != 0 || code != 0 {
            writeln!(out, "pan {}{} ; DIED sig={} code={}", all.join("/"), text, sig, code).unwrap();
        } else {
            writeln!(out, "pan {}{}", all.join("/"), text).unwrap();
        }
    }
}
