//! C13: redirection is transparent to the calling convention (x86-64 System V).
//! An assembly caller loads sentinels into every integer / vector argument register, two stack
//! arguments and the callee-saved set, calls the faked function, and an assembly fake records
//! what it receives; near fake (short trampoline form) and a copy of the fake > 2 GiB away
//! (long form, `mov rax, imm64; jmp rax`).  Plus Rust-level shapes.
use crate::arena;
use crate::rng::Rng;
use crate::util::*;
use shadow::interface::injector::*;
use std::io::Write;

std::arch::global_asm!(
    r#"
    .text
    .p2align 4
    .globl hx_cc_target
hx_cc_target:
    mov eax, 1
    ret
    .fill 16, 1, 0xcc

    .p2align 4
    .globl hx_cc_fake
hx_cc_fake:
    mov [r11 + 0], rdi
    mov [r11 + 8], rsi
    mov [r11 + 16], rdx
    mov [r11 + 24], rcx
    mov [r11 + 32], r8
    mov [r11 + 40], r9
    movq [r11 + 48], xmm0
    movq [r11 + 56], xmm1
    movq [r11 + 64], xmm2
    movq [r11 + 72], xmm3
    movq [r11 + 80], xmm4
    movq [r11 + 88], xmm5
    movq [r11 + 96], xmm6
    movq [r11 + 104], xmm7
    mov rax, [rsp + 8]
    mov [r11 + 112], rax
    mov rax, [rsp + 16]
    mov [r11 + 120], rax
    mov [r11 + 128], rbx
    mov [r11 + 136], rbp
    mov [r11 + 144], r12
    mov [r11 + 152], r13
    mov [r11 + 160], r14
    mov [r11 + 168], r15
    mov [r11 + 176], rsp
    movabs rax, 0x3333333333333333
    movq xmm0, rax
    movabs rax, 0x4444444444444444
    movq xmm1, rax
    movabs rax, 0x1111111111111111
    movabs rdx, 0x2222222222222222
    ret
    .globl hx_cc_fake_end
hx_cc_fake_end:
    nop

    .p2align 4
    .globl hx_cc_caller
hx_cc_caller:
    push rbx
    push rbp
    push r12
    push r13
    push r14
    push r15
    push rdx
    mov r10, rdi
    mov r11, rcx
    mov rax, rsi
    push qword ptr [rax + 120]
    push qword ptr [rax + 112]
    mov rbx, [rax + 128]
    mov rbp, [rax + 136]
    mov r12, [rax + 144]
    mov r13, [rax + 152]
    mov r14, [rax + 160]
    mov r15, [rax + 168]
    movq xmm0, [rax + 48]
    movq xmm1, [rax + 56]
    movq xmm2, [rax + 64]
    movq xmm3, [rax + 72]
    movq xmm4, [rax + 80]
    movq xmm5, [rax + 88]
    movq xmm6, [rax + 96]
    movq xmm7, [rax + 104]
    mov rdi, [rax + 0]
    mov rsi, [rax + 8]
    mov rdx, [rax + 16]
    mov rcx, [rax + 24]
    mov r8, [rax + 32]
    mov r9, [rax + 40]
    mov [r11 + 184], rsp
    call r10
    mov r10, [rsp + 16]
    mov [r10 + 0], rax
    mov [r10 + 8], rdx
    movq [r10 + 16], xmm0
    movq [r10 + 24], xmm1
    mov [r10 + 32], rbx
    mov [r10 + 40], rbp
    mov [r10 + 48], r12
    mov [r10 + 56], r13
    mov [r10 + 64], r14
    mov [r10 + 72], r15
    mov [r10 + 80], rsp
    add rsp, 24
    pop r15
    pop r14
    pop r13
    pop r12
    pop rbp
    pop rbx
    ret
"#
);

// 256-bit vector arguments: System V passes __m256 in the whole ymm0..7, so the upper halves are
// argument bits too.  Used only when the CPU has AVX.
std::arch::global_asm!(
    r#"
    .text
    .p2align 4
    .globl hx_cc_fake_avx
hx_cc_fake_avx:
    vmovdqu [r11 + 0], ymm0
    vmovdqu [r11 + 32], ymm1
    vmovdqu [r11 + 64], ymm2
    vmovdqu [r11 + 96], ymm3
    vmovdqu [r11 + 128], ymm4
    vmovdqu [r11 + 160], ymm5
    vmovdqu [r11 + 192], ymm6
    vmovdqu [r11 + 224], ymm7
    vzeroupper
    ret
    .globl hx_cc_fake_avx_end
hx_cc_fake_avx_end:
    nop

    .p2align 4
    .globl hx_cc_caller_avx
hx_cc_caller_avx:
    sub rsp, 8
    mov r10, rdi
    mov r11, rdx
    vmovdqu ymm0, [rsi + 0]
    vmovdqu ymm1, [rsi + 32]
    vmovdqu ymm2, [rsi + 64]
    vmovdqu ymm3, [rsi + 96]
    vmovdqu ymm4, [rsi + 128]
    vmovdqu ymm5, [rsi + 160]
    vmovdqu ymm6, [rsi + 192]
    vmovdqu ymm7, [rsi + 224]
    call r10
    vzeroupper
    add rsp, 8
    ret
"#
);

extern "C" {
    fn hx_cc_fake_avx();
    static hx_cc_fake_avx_end: u8;
    fn hx_cc_caller_avx(target: usize, inbuf: *const u64, rec: *mut u64);
    fn hx_cc_target();
    fn hx_cc_fake();
    static hx_cc_fake_end: u8;
    fn hx_cc_caller(target: usize, inbuf: *const u64, outbuf: *mut u64, rec: *mut u64);
}

fn hexw(v: &[u64]) -> String {
    v.iter().map(|x| format!("{:x}", x)).collect::<Vec<_>>().join(",")
}

#[derive(Clone, Copy, PartialEq, Debug)]
#[repr(C)]
struct Big {
    a: [u64; 9],
}

#[inline(never)]
fn many(a: u64, b: f64, c: u32, d: f32, e: i64, f: f64, g: u8, h: u64, i: f64, j: u64, k: u64, l: f32) -> u64 {
    std::hint::black_box(a + c as u64 + e as u64 + g as u64 + h + j + k + (b + d as f64 + f + i + l as f64) as u64)
}
fn many_fake(a: u64, b: f64, c: u32, d: f32, e: i64, f: f64, g: u8, h: u64, i: f64, j: u64, k: u64, l: f32) -> u64 {
    // an injective-ish digest of every argument
    a ^ (b.to_bits().rotate_left(3)) ^ ((c as u64) << 7) ^ ((d.to_bits() as u64) << 11) ^ (e as u64).rotate_left(17) ^ f.to_bits().rotate_left(23)
        ^ ((g as u64) << 29) ^ h.rotate_left(31) ^ i.to_bits().rotate_left(37) ^ j.rotate_left(41) ^ k.rotate_left(43) ^ ((l.to_bits() as u64) << 47)
}
#[inline(never)]
fn ret_big(x: u64) -> Big {
    Big { a: [std::hint::black_box(x); 9] }
}
fn ret_big_fake(x: u64) -> Big {
    let mut a = [0u64; 9];
    for (i, v) in a.iter_mut().enumerate() {
        *v = x.wrapping_mul(i as u64 + 3);
    }
    Big { a }
}
#[inline(never)]
fn ret_pair(x: u64) -> (u64, u64) {
    (std::hint::black_box(x), 1)
}
fn ret_pair_fake(x: u64) -> (u64, u64) {
    (x.rotate_left(9), !x)
}
#[inline(never)]
fn ret_f64(x: f64, y: u64) -> f64 {
    std::hint::black_box(x) + y as f64
}
fn ret_f64_fake(x: f64, y: u64) -> f64 {
    x * 3.0 - y as f64
}

pub fn run(a: &Args, out: &mut impl Write) {
    silence_panics();
    let mut r = Rng::new(a.seed);
    let fake_len = unsafe { &hx_cc_fake_end as *const u8 as usize } - hx_cc_fake as usize;
    let far_base = 0x6100_0000_0000usize;
    let far = arena::map_at(far_base, arena::PAGE, true).expect("far arena");
    unsafe { arena::write(far + 64, &arena::read(hx_cc_fake as usize, fake_len)) };
    for case in 0..a.n {
        let form = if case % 2 == 0 { "near" } else { "far" };
        let fake_addr = if form == "near" { hx_cc_fake as usize } else { far + 64 };
        let inbuf: Vec<u64> = (0..22).map(|_| r.next()).collect();
        let mut outbuf = vec![0u64; 12];
        let mut rec = vec![0u64; 24];
        let mut inj = InjectorPP::new();
        unsafe {
            inj.when_called_unchecked(FuncPtr::new(hx_cc_target as *const (), ""))
                .will_execute_raw_unchecked(FuncPtr::new(fake_addr as *const (), ""));
        }
        let g = inj.verif_guards();
        let tr = unsafe { arena::read(g[0].jit, g[0].jit_size) };
        unsafe { hx_cc_caller(hx_cc_target as usize, inbuf.as_ptr(), outbuf.as_mut_ptr(), rec.as_mut_ptr()) };
        drop(inj);
        writeln!(out, "cc {} | tr={} in={} rec={} out={}", form, hexb(&tr), hexw(&inbuf), hexw(&rec), hexw(&outbuf[..11])).unwrap();
    }
    // ---- 256-bit vector arguments (both trampoline forms)
    if std::is_x86_feature_detected!("avx") {
        let avx_len = unsafe { &hx_cc_fake_avx_end as *const u8 as usize } - hx_cc_fake_avx as usize;
        unsafe { arena::write(far + 1024, &arena::read(hx_cc_fake_avx as usize, avx_len)) };
        for case in 0..(a.n / 4).max(8) {
            let form = if case % 2 == 0 { "near" } else { "far" };
            let fake_addr = if form == "near" { hx_cc_fake_avx as usize } else { far + 1024 };
            let inbuf: Vec<u64> = (0..32).map(|_| r.next()).collect();
            let mut rec = vec![0u64; 32];
            let mut inj = InjectorPP::new();
            unsafe {
                inj.when_called_unchecked(FuncPtr::new(hx_cc_target as *const (), ""))
                    .will_execute_raw_unchecked(FuncPtr::new(fake_addr as *const (), ""));
                hx_cc_caller_avx(hx_cc_target as usize, inbuf.as_ptr(), rec.as_mut_ptr());
            }
            drop(inj);
            writeln!(out, "ccavx {} | in={} rec={}", form, hexw(&inbuf), hexw(&rec)).unwrap();
        }
    }
    // ---- Rust-level shapes through the typed API
    for _ in 0..a.n {
        let v: Vec<u64> = (0..8).map(|_| r.next()).collect();
        let f: Vec<f64> = (0..5).map(|_| (r.next() >> 12) as f64 / 1024.0).collect();
        let mut inj = InjectorPP::new();
        inj.when_called(shadow::func!(fn (many)(u64, f64, u32, f32, i64, f64, u8, u64, f64, u64, u64, f32) -> u64))
            .will_execute_raw(shadow::func!(fn (many_fake)(u64, f64, u32, f32, i64, f64, u8, u64, f64, u64, u64, f32) -> u64));
        inj.when_called(shadow::func!(fn (ret_big)(u64) -> Big)).will_execute_raw(shadow::func!(fn (ret_big_fake)(u64) -> Big));
        inj.when_called(shadow::func!(fn (ret_pair)(u64) -> (u64, u64))).will_execute_raw(shadow::func!(fn (ret_pair_fake)(u64) -> (u64, u64)));
        inj.when_called(shadow::func!(fn (ret_f64)(f64, u64) -> f64)).will_execute_raw(shadow::func!(fn (ret_f64_fake)(f64, u64) -> f64));
        let a1 = many(v[0], f[0], v[1] as u32, f[1] as f32, v[2] as i64, f[2], v[3] as u8, v[4], f[3], v[5], v[6], f[4] as f32);
        let e1 = many_fake(v[0], f[0], v[1] as u32, f[1] as f32, v[2] as i64, f[2], v[3] as u8, v[4], f[3], v[5], v[6], f[4] as f32);
        let ok = a1 == e1 && ret_big(v[7]) == ret_big_fake(v[7]) && ret_pair(v[0]) == ret_pair_fake(v[0]) && ret_f64(f[0], v[1]) == ret_f64_fake(f[0], v[1]);
        drop(inj);
        let restored = many(1, 0.0, 0, 0.0, 0, 0.0, 0, 0, 0.0, 0, 0, 0.0) == 1 && ret_pair(5) == (5, 1);
        writeln!(out, "ccrust mixed12+bigret+pairret+floatret | ok={} restored={}", ok as u8, restored as u8).unwrap();
    }
}
