mod alloc;
mod arena;
mod callconv;
mod asyncs;
mod enc_arm;
mod counter;
mod cycles;
mod enc_x86;
mod hist;
mod panics;
mod rng;
mod selfuse;
mod sigs;
mod threads;
mod util;

use std::io::{BufWriter, Write};

fn main() {
    let argv: Vec<String> = std::env::args().collect();
    if argv.len() < 2 {
        eprintln!("usage: hx <cmd> [--seed S] [--n N] [--thorough]");
        std::process::exit(2);
    }
    let a = util::parse_args(&argv[2..]);
    let stdout = std::io::stdout();
    let mut out = BufWriter::new(stdout.lock());
    match argv[1].as_str() {
        "enc-x86" => enc_x86::run(&a, &mut out),
        "enc-arm" => enc_arm::run(&a, &mut out),
        "hist" => hist::run(&a, &mut out),
        "cycles" => cycles::run(&a, &mut out),
        "selfuse" => selfuse::run(&a, &mut out),
        "counter" => counter::run(&a, &mut out),
        "alloc" => alloc::run(&a, &mut out),
        "threads" => threads::run(&a, &mut out),
        "panics" => panics::run(&a, &mut out),
        "sigs" => sigs::run(&a, &mut out),
        "asyncs" => asyncs::run(&a, &mut out),
        "callconv" => callconv::run(&a, &mut out),
        x => {
            eprintln!("unknown command {x}");
            std::process::exit(2);
        }
    }
    out.flush().unwrap();
}
