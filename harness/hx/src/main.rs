mod alloc;
mod arena;
mod callconv;
mod asyncs;
mod enc_arm;
mod counter;
mod cycles;
mod enc_x86;
mod hist;
mod panics;
mod rng;
mod selfuse;
mod sigs;
mod threads;
mod util;

use std::io::{BufWriter, Write};

/// The process allocator: the system allocator, except that a thread which has *armed* it parks
/// at every allocation until a helper thread has performed one action (`counter.rs`, the
/// installation-window scenario: a call of the target at every allocation point inside
/// `will_execute`).  Never armed elsewhere.
pub mod winalloc {
    use std::alloc::{GlobalAlloc, Layout, System};
    use std::cell::Cell;
    use std::sync::atomic::{AtomicUsize, Ordering};
    thread_local! { pub static ARMED: Cell<bool> = const { Cell::new(false) }; }
    // like ARMED, for releases: the armed thread parks at every `dealloc` too (scope exits free memory)
    thread_local! { pub static ARMED_FREE: Cell<bool> = const { Cell::new(false) }; }
    pub static REQ: AtomicUsize = AtomicUsize::new(0);
    pub static DONE: AtomicUsize = AtomicUsize::new(0);
    pub struct A;
    fn rendezvous() {
        if ARMED.try_with(|a| a.get()).unwrap_or(false) {
            let want = REQ.fetch_add(1, Ordering::SeqCst) + 1;
            while DONE.load(Ordering::SeqCst) < want {
                std::thread::yield_now();
            }
        }
    }
    unsafe impl GlobalAlloc for A {
        unsafe fn alloc(&self, l: Layout) -> *mut u8 {
            rendezvous();
            System.alloc(l)
        }
        unsafe fn alloc_zeroed(&self, l: Layout) -> *mut u8 {
            rendezvous();
            System.alloc_zeroed(l)
        }
        unsafe fn dealloc(&self, p: *mut u8, l: Layout) {
            if ARMED_FREE.try_with(|a| a.get()).unwrap_or(false) {
                let want = REQ.fetch_add(1, Ordering::SeqCst) + 1;
                while DONE.load(Ordering::SeqCst) < want {
                    std::thread::yield_now();
                }
            }
            System.dealloc(p, l)
        }
        unsafe fn realloc(&self, p: *mut u8, l: Layout, n: usize) -> *mut u8 {
            rendezvous();
            System.realloc(p, l, n)
        }
    }
}
#[global_allocator]
static GLOBAL: winalloc::A = winalloc::A;

fn main() {
    let argv: Vec<String> = std::env::args().collect();
    if argv.len() < 2 {
        eprintln!("usage: hx <cmd> [--seed S] [--n N] [--thorough]");
        std::process::exit(2);
    }
    let a = util::parse_args(&argv[2..]);
    let stdout = std::io::stdout();
    let mut out = BufWriter::new(stdout.lock());
    match argv[1].as_str() {
        "enc-x86" => enc_x86::run(&a, &mut out),
        "enc-arm" => enc_arm::run(&a, &mut out),
        "hist" => hist::run(&a, &mut out),
        "cycles" => cycles::run(&a, &mut out),
        "selfuse" => selfuse::run(&a, &mut out),
        "counter" => counter::run(&a, &mut out),
        "alloc" => alloc::run(&a, &mut out),
        "threads" => threads::run(&a, &mut out),
        "panics" => panics::run(&a, &mut out),
        "sigs" => sigs::run(&a, &mut out),
        "asyncs" => asyncs::run(&a, &mut out),
        "callconv" => callconv::run(&a, &mut out),
        x => {
            eprintln!("unknown command {x}");
            std::process::exit(2);
        }
    }
    out.flush().unwrap();
}
