//! Install / drop histories through the public API of the (shadow) crate on x86-64, on
//! synthetic functions placed at chosen addresses.  One history = one output line; each history
//! runs in a forked child so that a crash is an observation, not a harness failure.
use crate::arena;
use crate::rng::Rng;
use crate::util::*;
use shadow::interface::injector::*;
use shim::Event;
use std::io::Write;

pub const SLOT: usize = 16;

/// `mov eax, imm32; ret` padded with int3 to 16 bytes
pub fn func_bytes(k: u32) -> [u8; 16] {
    let mut b = [0xCCu8; 16];
    b[0] = 0xB8;
    b[1..5].copy_from_slice(&k.to_le_bytes());
    b[5] = 0xC3;
    b
}

pub fn call_u32(addr: usize) -> u32 {
    let f: extern "C" fn() -> u32 = unsafe { std::mem::transmute(addr) };
    f()
}

pub struct Layout {
    pub base: usize,
    pub pages: usize,
    /// (address, K) of every synthetic function in the arena
    pub funcs: Vec<(usize, u32)>,
    pub snapshot: Vec<u8>,
}

/// Build a code arena of `pages` pages at `base`: functions at 16-byte pitch everywhere except
/// around `special` (absolute addresses of functions at odd in-page offsets, each given a clear
/// 32-byte window).  Ends r-x.
pub fn build_arena(base: usize, pages: usize, special: &[usize], kbase: u32) -> Option<Layout> {
    let len = pages * arena::PAGE;
    arena::map_at(base, len, true)?;
    let mut funcs = Vec::new();
    let mut buf = vec![0xCCu8; len];
    let mut k = kbase;
    let mut off = 0;
    let clashes = |a: usize| special.iter().any(|&s| a + SLOT > s.saturating_sub(SLOT) && a < s + 2 * SLOT);
    let mut stub_pending = false;
    while off + SLOT <= len {
        let a = base + off;
        if !clashes(a) {
            // every seventh function is a linker-style stub: its whole entry is `jmp rel32` to
            // the function in the next slot (whose value it therefore returns).  A library that
            // "sees through" such an entry writes outside the slot it was asked to patch.
            let next_ok = off + 2 * SLOT <= len && !clashes(a + SLOT);
            if funcs.len() % 7 == 3 && next_ok && !stub_pending {
                let mut b = vec![0xCCu8; SLOT];
                b[0] = 0xE9;
                b[1..5].copy_from_slice(&((SLOT as i32) - 5).to_le_bytes());
                buf[off..off + SLOT].copy_from_slice(&b);
                funcs.push((a, k)); // k is the value of the function that follows
                stub_pending = true;
            } else if funcs.len() % 7 == 5 {
                // every seventh function starts with a harmless instruction whose leading bytes are
                // ones a patcher might inspect or emit itself (landing pad, SSE prefix, long NOP, the head
                // of the long trampoline form, a jmp to the next instruction); it still returns K
                let prefixes: [&[u8]; 6] = [
                    &[0xF3, 0x0F, 0x1E, 0xFA],                                     // endbr64
                    &[0xF3, 0x0F, 0x58, 0xC7],                                     // addss xmm0, xmm7
                    &[0x0F, 0x1F, 0x40, 0x00],                                     // nop dword [rax+0]
                    &[0x48, 0xB8, 0x11, 0x22, 0x33, 0x44, 0x55, 0x66, 0x77, 0x08], // mov rax, imm64
                    &[0xE9, 0x00, 0x00, 0x00, 0x00],                               // jmp +0
                    &[0x66, 0x90],                                                 // 2-byte nop
                ];
                let pre = prefixes[(funcs.len() / 7) % prefixes.len()];
                let mut b = vec![0xCCu8; SLOT];
                b[..pre.len()].copy_from_slice(pre);
                b[pre.len()..pre.len() + 6].copy_from_slice(&func_bytes(k)[..6]);
                buf[off..off + SLOT].copy_from_slice(&b);
                funcs.push((a, k));
                k += 1;
                stub_pending = false;
            } else {
                buf[off..off + SLOT].copy_from_slice(&func_bytes(k));
                funcs.push((a, k));
                k += 1;
                stub_pending = false;
            }
        }
        off += SLOT;
    }
    for &s in special {
        let o = s - base;
        if o + SLOT <= len {
            buf[o..o + SLOT].copy_from_slice(&func_bytes(k));
            funcs.push((s, k));
            k += 1;
        }
    }
    unsafe { arena::write(base, &buf) };
    arena::protect(base, len, false, true);
    Some(Layout { base, pages, funcs, snapshot: buf })
}

pub fn ev_str(evs: &[Event]) -> String {
    if evs.is_empty() {
        return "-".into();
    }
    let v: Vec<String> = evs
        .iter()
        .map(|e| match e {
            Event::Mmap { hint, len, ret, .. } => {
                if *ret == usize::MAX {
                    format!("M{:x}:{:x}:X", hint, len)
                } else {
                    format!("M{:x}:{:x}:{:x}", hint, len, ret)
                }
            }
            Event::Munmap { addr, len, owned } => format!("U{:x}:{:x}:{}", addr, len, *owned as u8),
            Event::Mprotect { addr, len, ret, prot } => format!("P{:x}:{:x}:{}:{}", addr, len, ret, prot),
            Event::Flush { lo, hi, snap } => format!("F{:x}:{:x}:{}", lo, hi, hexb(snap)),
        })
        .collect();
    v.join(",")
}

fn rwx_anon_maps_outside(arenas: &[Layout]) -> usize {
    rwx_anon_maps()
        .into_iter()
        .filter(|&(a, b)| !arenas.iter().any(|l| a < l.base + l.pages * arena::PAGE && l.base < b))
        .count()
}

fn rwx_anon_maps() -> Vec<(usize, usize)> {
    let s = std::fs::read_to_string("/proc/self/maps").unwrap_or_default();
    let mut v = Vec::new();
    for l in s.lines() {
        let mut it = l.split_whitespace();
        let range = it.next().unwrap_or("");
        let perm = it.next().unwrap_or("");
        let _off = it.next();
        let _dev = it.next();
        let inode = it.next().unwrap_or("");
        let path = it.next();
        if perm.starts_with("rwx") && inode == "0" && path.is_none() {
            let (a, b) = range.split_once('-').unwrap();
            v.push((usize::from_str_radix(a, 16).unwrap(), usize::from_str_radix(b, 16).unwrap()));
        }
    }
    v
}

/// hash of every r-x file-backed mapping (program text, shared libraries)
fn text_hash() -> u64 {
    let s = std::fs::read_to_string("/proc/self/maps").unwrap_or_default();
    let mut h: u64 = 0xcbf29ce484222325;
    for l in s.lines() {
        let mut it = l.split_whitespace();
        let range = it.next().unwrap_or("");
        let perm = it.next().unwrap_or("");
        let _ = it.next();
        let _ = it.next();
        let inode = it.next().unwrap_or("0");
        let path = it.next().unwrap_or("");
        if perm.starts_with("r-x") && inode != "0" && !path.starts_with('[') {
            let (a, b) = range.split_once('-').unwrap();
            let (a, b) = (usize::from_str_radix(a, 16).unwrap(), usize::from_str_radix(b, 16).unwrap());
            let sl = unsafe { std::slice::from_raw_parts(a as *const u8, b - a) };
            for chunk in sl.chunks(8) {
                let mut w = [0u8; 8];
                w[..chunk.len()].copy_from_slice(chunk);
                h = (h ^ u64::from_le_bytes(w)).wrapping_mul(0x100000001b3);
            }
        }
    }
    h
}

struct Ctx {
    targets: Vec<(usize, u32)>,
    named: Vec<bool>,
    arenas: Vec<Layout>,
}

impl Ctx {
    fn slots(&self) -> String {
        let v: Vec<String> = self.targets.iter().map(|&(a, _)| hexb(&unsafe { arena::read(a, SLOT) })).collect();
        v.join(",")
    }
    /// every arena byte outside the 16-byte slots of targets named so far equals the snapshot
    fn frame_ok(&self) -> bool {
        for l in &self.arenas {
            let now = unsafe { arena::read(l.base, l.pages * arena::PAGE) };
            let mut mask = vec![false; now.len()];
            for (i, &(a, _)) in self.targets.iter().enumerate() {
                if self.named[i] && a >= l.base && a < l.base + now.len() {
                    for j in 0..SLOT {
                        if a - l.base + j < mask.len() {
                            mask[a - l.base + j] = true;
                        }
                    }
                }
            }
            for i in 0..now.len() {
                if !mask[i] && now[i] != l.snapshot[i] {
                    return false;
                }
            }
        }
        true
    }
    fn calls(&self, only_named_or_all: bool) -> String {
        let v: Vec<String> = self
            .targets
            .iter()
            .enumerate()
            .map(|(i, &(a, _))| if only_named_or_all || self.named[i] { format!("{:x}", call_u32(a)) } else { "-".into() })
            .collect();
        v.join(",")
    }
}

fn rust_fake_a() -> u32 {
    0xFA4E0001
}
fn rust_fake_b() -> u32 {
    0xFA4E0002
}

#[derive(Clone, Debug)]
enum Op {
    New,
    /// kind: 0 raw, 1 unchecked, 2 closure, 3 fake!, 4 rust fn via func!, 5 fake! with an expectation that stays unmet
    Exec { kind: u8, t: usize, f: usize },
    Bool { t: usize, v: bool },
    Drop,
    DropByPanic,
}

fn gen_history(r: &mut Rng, ntargets: usize, nfakes: usize, thorough: bool) -> Vec<Op> {
    let mut ops = Vec::new();
    let lifetimes = r.range(1, if thorough { 4 } else { 3 });
    for _ in 0..lifetimes {
        ops.push(Op::New);
        // one lifetime in twelve is long (more than 32 guards alive, many of them on repeated targets):
        // beyond the sizes up to which library sorts and small-vector fast paths behave like stable ones
        let n = match r.below(12) {
            0 | 1 => 1,
            2 | 3 => 2,
            4..=7 => r.range(2, 6),
            8..=10 => r.range(3, if thorough { 40 } else { 14 }),
            _ => r.range(33, 80),
        };
        // restrict to a small subset so that repetition is frequent
        let sub = if n > 32 { r.range(4, ntargets.min(12) as u64) as usize } else { r.range(1, ntargets.min(4) as u64) as usize };
        let subset: Vec<usize> = (0..sub).map(|_| r.below(ntargets as u64) as usize).collect();
        for _ in 0..n {
            let t = if r.chance(3, 4) { *r.pick(&subset) } else { r.below(ntargets as u64) as usize };
            if r.chance(1, 5) {
                ops.push(Op::Bool { t, v: r.chance(1, 2) });
            } else {
                ops.push(Op::Exec { kind: if r.chance(1, 8) { 5 } else { r.below(5) as u8 }, t, f: r.below(nfakes as u64) as usize });
            }
        }
        ops.push(if r.chance(1, 4) { Op::DropByPanic } else { Op::Drop });
    }
    ops
}

/// directed histories: every ordered triple of installations on ONE function inside one lifetime, drawn
/// from {force true, force false, fake A (near), fake B (far)} -- a cache keyed on "the same request as
/// last time" is wrong exactly on a-b-a patterns
fn directed_history(idx: usize, t: usize) -> Vec<Op> {
    let kinds = |k: usize| match k {
        0 => Op::Bool { t, v: true },
        1 => Op::Bool { t, v: false },
        2 => Op::Exec { kind: 0, t, f: 0 },
        _ => Op::Exec { kind: 0, t, f: 2 },
    };
    let mut ops = vec![Op::New];
    ops.push(kinds(idx % 4));
    ops.push(kinds(idx / 4 % 4));
    ops.push(kinds(idx / 16 % 4));
    ops.push(if idx % 5 == 0 { Op::DropByPanic } else { Op::Drop });
    ops
}
pub const DIRECTED: u64 = 64;

const SIG: &str = "fn() -> u32";
const SIGB: &str = "fn() -> bool";

fn run_history(out: &mut impl Write, ctx: &mut Ctx, fakes: &[(usize, u32)], ops: &[Op]) {
    let mode = if cfg!(debug_assertions) { 'd' } else { 'r' };
    let mut line = format!("hist {}", mode);
    for (i, &(a, k)) in ctx.targets.iter().enumerate() {
        line.push_str(&format!(" T{}={:x}:{:x}:{}", i, a, k, hexb(&unsafe { arena::read(a, SLOT) })));
    }
    for l in &ctx.arenas {
        line.push_str(&format!(" AR={:x}:{:x}", l.base, l.pages * arena::PAGE));
    }
    let base_maps = rwx_anon_maps_outside(&ctx.arenas);
    let text0 = text_hash();
    let mut inj: Option<InjectorPP> = None;
    for op in ops {
        // flush what we have so that a crash inside the next operation leaves a usable prefix
        line.push_str(match op {
            Op::New => "",
            Op::Exec { .. } | Op::Bool { .. } => " ; @I",
            Op::Drop | Op::DropByPanic => " ; @D",
        });
        out.write_all(line.as_bytes()).unwrap();
        out.flush().unwrap();
        line.clear();
        line.push_str(" ;");
        match op {
            Op::New => {
                inj = Some(InjectorPP::new());
                line.push_str(" N");
            }
            Op::Exec { kind, t, f } => {
                let (ta, _) = ctx.targets[*t];
                ctx.named[*t] = true;
                let injr = inj.as_mut().unwrap();
                let before = injr.verif_guards().len();
                let (fa, fk): (usize, u32) = match kind {
                    0 | 1 => fakes[*f],
                    2 => {
                        let c = || -> u32 { 0xC105E001 };
                        let p = shadow::closure!(c, fn() -> u32);
                        (p.verif_addr(), 0xC105E001)
                    }
                    3 => (0, 0xFA4E0003),
                    5 => (0, 0xFA4E0005),
                    _ => {
                        if *f % 2 == 0 {
                            (rust_fake_a as usize, 0xFA4E0001)
                        } else {
                            (rust_fake_b as usize, 0xFA4E0002)
                        }
                    }
                };
                shim::start_log();
                // an entry that spans two pages: the OS serves one more `mprotect` and refuses every later one
                // (the second page is not ours to change).  One request covering both pages is all an installation needs.
                if ta % arena::PAGE + 5 > arena::PAGE && *f % 2 == 0 {
                    shim::mprotect_budget(Some(1));
                }
                let mut fake_addr = fa;
                let res = {
                    let injr = &mut *injr;
                    let fake_addr = &mut fake_addr;
                    quiet_catch(std::panic::AssertUnwindSafe(move || unsafe {
                        match kind {
                            0 => injr.when_called(FuncPtr::new(ta as *const (), SIG)).will_execute_raw(FuncPtr::new(fa as *const (), SIG)),
                            1 => injr.when_called_unchecked(FuncPtr::new(ta as *const (), "")).will_execute_raw_unchecked(FuncPtr::new(fa as *const (), "")),
                            2 => {
                                let c = || -> u32 { 0xC105E001 };
                                let p = shadow::closure!(c, fn() -> u32);
                                *fake_addr = p.verif_addr();
                                injr.when_called(FuncPtr::new(ta as *const (), SIG)).will_execute_raw(p)
                            }
                            3 => {
                                let pair = shadow::fake!(func_type: fn() -> u32, returns: 0xFA4E0003);
                                *fake_addr = pair.0.verif_addr();
                                injr.when_called(FuncPtr::new(ta as *const (), SIG)).will_execute(pair)
                            }
                            5 => {
                                // never called a million times: the expectation is unmet at scope exit
                                let pair = shadow::fake!(func_type: fn() -> u32, returns: 0xFA4E0005, times: 1000000);
                                *fake_addr = pair.0.verif_addr();
                                injr.when_called(FuncPtr::new(ta as *const (), SIG)).will_execute(pair)
                            }
                            _ => {
                                let p = if fa == rust_fake_a as usize { shadow::func!(fn (rust_fake_a)() -> u32) } else { shadow::func!(fn (rust_fake_b)() -> u32) };
                                injr.when_called(FuncPtr::new(ta as *const (), SIG)).will_execute_raw(p)
                            }
                        }
                    }))
                };
                shim::mprotect_budget(None);
                let evs = shim::stop_log();
                line.push_str(&format!(" I x{} {} {:x} {:x}", kind, t, fake_addr, fk));
                finish_install(&mut line, ctx, inj.as_ref().unwrap(), before, res, &evs);
            }
            Op::Bool { t, v } => {
                let (ta, _) = ctx.targets[*t];
                ctx.named[*t] = true;
                let injr = inj.as_mut().unwrap();
                let before = injr.verif_guards().len();
                shim::start_log();
                let res = {
                    let injr = &mut *injr;
                    quiet_catch(std::panic::AssertUnwindSafe(move || unsafe {
                        injr.when_called(FuncPtr::new(ta as *const (), SIGB)).will_return_boolean(*v)
                    }))
                };
                let evs = shim::stop_log();
                line.push_str(&format!(" I b {} {:x} {:x}", t, *v as u8, *v as u8));
                finish_install(&mut line, ctx, inj.as_ref().unwrap(), before, res, &evs);
            }
            Op::Drop | Op::DropByPanic => {
                let i = inj.take().unwrap();
                shim::start_log();
                let how = if matches!(op, Op::DropByPanic) {
                    let r = quiet_catch(std::panic::AssertUnwindSafe(move || {
                        let _keep = i;
                        panic!("user panic while fakes are installed");
                    }));
                    assert!(r.is_err());
                    "Dp"
                } else {
                    // call-count verification may raise its panic on the way out
                    match quiet_catch(std::panic::AssertUnwindSafe(move || drop(i))) {
                        Ok(()) => "D",
                        Err(_) => "Dv",
                    }
                };
                let evs = shim::stop_log();
                line.push_str(&format!(
                    " {} ev={} sl={} frame={} call={} owned={} maps={} text={}",
                    how,
                    ev_str(&evs),
                    ctx.slots(),
                    ctx.frame_ok() as u8,
                    ctx.calls(true),
                    shim::owned().len(),
                    rwx_anon_maps_outside(&ctx.arenas) as i64 - base_maps as i64,
                    (text_hash() == text0) as u8
                ));
            }
        }
    }
    writeln!(out, "{}", line).unwrap();
}

fn finish_install(line: &mut String, ctx: &Ctx, inj: &InjectorPP, before: usize, res: Result<(), String>, evs: &[Event]) {
    let guards = inj.verif_guards();
    match res {
        Ok(()) if guards.len() != before + 1 => {
            // the installation was accepted but did not add exactly one guard: reported as it is
            // (what the functions now return decides whether anything is wrong)
            line.push_str(&format!(
                " noguard ev={} n={} sl={} frame={} call={} live={}",
                ev_str(evs),
                guards.len() as i64 - before as i64,
                ctx.slots(),
                ctx.frame_ok() as u8,
                ctx.calls(false),
                shim::owned().len()
            ));
        }
        Ok(()) => {
            let g = guards.last().unwrap();
            // a guard without a trampoline (null) is reported as it is: nothing to read
            let tr = if g.jit == 0 { Vec::new() } else { unsafe { arena::read(g.jit, g.jit_size) } };
            line.push_str(&format!(
                " ok ev={} g={:x}:{}:{:x}:{}:{} tr={} sl={} frame={} call={} live={}",
                ev_str(evs),
                g.func,
                g.patch_size,
                g.jit,
                g.jit_size,
                hexb(&g.saved),
                hexb(&tr),
                ctx.slots(),
                ctx.frame_ok() as u8,
                ctx.calls(false),
                shim::owned().len()
            ));
        }
        Err(msg) => {
            let class = if msg.contains("Signature mismatch") {
                "sig"
            } else if msg.contains("overflow") {
                "overflow"
            } else if msg.contains("Failed to allocate") {
                "alloc"
            } else if msg.contains("mprotect") {
                "mprotect"
            } else {
                "other"
            };
            line.push_str(&format!(
                " panic={} ev={} sl={} frame={} guards={} live={}",
                class,
                ev_str(evs),
                ctx.slots(),
                ctx.frame_ok() as u8,
                guards.len() - before,
                shim::owned().len()
            ));
        }
    }
}

/// fork; the child runs `f` writing to a pipe; the parent returns (output, exit status / signal).
/// A child still alive after `secs` seconds is killed (signal 9 is then the observation).
pub static TIMEOUTS: std::sync::atomic::AtomicUsize = std::sync::atomic::AtomicUsize::new(0);

/// several children already had to be killed: stop generating further cases of this kind
pub fn too_many_timeouts() -> bool {
    TIMEOUTS.load(std::sync::atomic::Ordering::SeqCst) >= 3
}

pub fn in_child_deadline(secs: u64, f: impl FnOnce(&mut std::fs::File)) -> (String, i32, i32) {
    use std::io::Read;
    use std::os::unix::io::FromRawFd;
    use std::sync::atomic::{AtomicBool, Ordering};
    use std::sync::Arc;
    unsafe {
        let mut fds = [0i32; 2];
        assert_eq!(shim::pipe(fds.as_mut_ptr()), 0);
        let pid = shim::fork();
        assert!(pid >= 0);
        if pid == 0 {
            shim::close(fds[0]);
            let mut w = std::fs::File::from_raw_fd(fds[1]);
            f(&mut w);
            let _ = w.flush();
            drop(w);
            shim::_exit(0);
        }
        shim::close(fds[1]);
        let done = Arc::new(AtomicBool::new(false));
        let d2 = done.clone();
        let watchdog = std::thread::spawn(move || {
            let start = std::time::Instant::now();
            while start.elapsed().as_secs() < secs {
                if d2.load(Ordering::SeqCst) {
                    return;
                }
                std::thread::sleep(std::time::Duration::from_millis(20));
            }
            if !d2.load(Ordering::SeqCst) {
                TIMEOUTS.fetch_add(1, Ordering::SeqCst);
                shim::kill(pid, shim::SIGKILL);
            }
        });
        let mut rd = std::fs::File::from_raw_fd(fds[0]);
        let mut s = String::new();
        let _ = rd.read_to_string(&mut s);
        let mut status = 0i32;
        shim::waitpid(pid, &mut status, 0);
        done.store(true, Ordering::SeqCst);
        let _ = watchdog.join();
        let sig = if shim::WIFSIGNALED(status) { shim::WTERMSIG(status) } else { 0 };
        let code = if shim::WIFEXITED(status) { shim::WEXITSTATUS(status) } else { -1 };
        (s, code, sig)
    }
}

pub fn in_child(f: impl FnOnce(&mut std::fs::File)) -> (String, i32, i32) {
    in_child_deadline(30, f)
}

pub fn run(a: &Args, out: &mut impl Write) {
    silence_panics();
    let mut r = Rng::new(a.seed);
    let bases: [usize; 5] = [0x10000, 0x4000_0000, 0x10_0000_0000, 0x5555_0000_0000, 0x7ffd_0000_0000];
    for h in 0..a.n + DIRECTED {
        if too_many_timeouts() {
            break;
        }
        let seed_h = r.next();
        let directed = if h >= a.n { Some((h - a.n) as usize) } else { None };
        let base = bases[(h % bases.len() as u64) as usize];
        let thorough = a.tier_thorough;
        let (s, code, sig) = in_child(move |w| {
            let mut r = Rng::new(seed_h);
            // targets: page-end specials + aligned slots
            let p0 = base + arena::PAGE;
            let specials = [p0 - 3, p0 + arena::PAGE - 5, p0 + arena::PAGE + 0x7f1];
            let lay = match build_arena(base, 3, &specials, 0x1000 + (h as u32) * 0x1000) {
                Some(l) => l,
                None => {
                    writeln!(w, "# arena at {:x} unavailable", base).unwrap();
                    return;
                }
            };
            // fakes: near (1 MiB above the targets) and far (> 4 GiB away)
            let near = build_arena(base + 0x10_0000, 1, &[], 0x7000_0000).expect("near fakes");
            let far_base = if base < 0x4000_0000_0000 { 0x6000_0000_0000 + base } else { 0x2000_0000_0000 };
            let far = build_arena(far_base, 1, &[], 0x7100_0000).expect("far fakes");
            let mut targets: Vec<(usize, u32)> = Vec::new();
            // the three specials are the last three funcs
            let nf = lay.funcs.len();
            for i in 0..3 {
                targets.push(lay.funcs[nf - 3 + i]);
            }
            // some aligned ones, including neighbours of each other and first/last slots of pages
            for idx in [0usize, 1, 2, 3, 4, 254, 255, 300] {
                targets.push(lay.funcs[idx.min(nf - 4)]);
            }
            for _ in 0..3 {
                targets.push(lay.funcs[r.below((nf - 3) as u64) as usize]);
            }
            {
                // distinct addresses only (a random pick may repeat a fixed one)
                let mut seen = std::collections::HashSet::new();
                targets.retain(|t| seen.insert(t.0));
            }
            let fakes: Vec<(usize, u32)> = vec![near.funcs[0], near.funcs[7], far.funcs[1], far.funcs[200], near.funcs[255]];
            let ops = match directed {
                Some(i) => directed_history(i, 3 + i % 5),
                None => gen_history(&mut r, targets.len(), fakes.len(), thorough),
            };
            let n = targets.len();
            let mut arenas = vec![lay];
            // "library" code exactly one search range below the page-aligned target: the first
            // mmap hint of an install on that target falls on it (occupied -> kernel relocates)
            if base >= 0x800_0000 + 0x10000 {
                if let Some(lib) = build_arena(base - 0x800_0000, 2, &[], 0x6600_0000) {
                    arenas.push(lib);
                }
            }
            // the arenas holding the fakes are code the library never allocated, like the others
            arenas.push(near);
            arenas.push(far);
            let mut ctx = Ctx { targets, named: vec![false; n], arenas };
            run_history(w, &mut ctx, &fakes, &ops);
        });
        if sig != 0 || code != 0 {
            // the child died inside an operation: keep the prefix it managed to write and say how
            let prefix = s.trim_end_matches('\n');
            if prefix.starts_with("hist") {
                writeln!(out, "{} ; CRASH sig={} code={}", prefix, sig, code).unwrap();
            } else {
                writeln!(out, "hist ? ; CRASH sig={} code={} seed={:x} base={:x}", sig, code, seed_h, base).unwrap();
            }
        } else {
            out.write_all(s.as_bytes()).unwrap();
        }
    }
}
