//! AArch64 and 32-bit ARM back ends of /repo, compiled on the host (shadow crate) and run
//! against data memory: they only compute bytes and write them; nothing is executed.
use crate::arena;
use crate::rng::Rng;
use crate::util::*;
use shadow::injector_core::arm64_codegenerator as gen;
use shadow::injector_core::patch_arm as arm;
use shadow::injector_core::patch_arm64 as a64;
use std::io::Write;

fn le_word(b: &[u8]) -> u32 {
    u32::from_le_bytes([b[0], b[1], b[2], b[3]])
}

fn tramp(out: &mut impl Write, fake: u64) {
    let b = a64::verif_jit_abs(fake);
    writeln!(out, "a64tramp {:x} | {}", fake, hexb(&b[..24])).unwrap();
}

fn entry(out: &mut impl Write, func: usize, jit: u64) {
    // fresh known content at func so that saved bytes can be checked too
    let orig: Vec<u8> = (0..16u8).map(|i| 0xA0 + i).collect();
    unsafe { arena::write(func, &orig) };
    let r = quiet_catch(move || unsafe {
        let g = a64::verif_apply_branch_patch(func, jit as usize, 20, &orig[..12]);
        let after = arena::read(func, 16);
        let info = g.info();
        drop(g);
        let restored = arena::read(func, 16);
        (after, info, restored)
    });
    match r {
        Ok((after, info, restored)) => {
            let orig: Vec<u8> = (0..16u8).map(|i| 0xA0 + i).collect();
            writeln!(
                out,
                "a64entry {:x} {:x} | ok {} tail={} restored={} psize={}",
                func,
                jit,
                hexb(&after[..12]),
                (after[12..] == orig[12..]) as u8,
                (restored == orig) as u8,
                info.patch_size
            )
            .unwrap()
        }
        Err(m) if m == ACCESSOR_ABSENT => note_absent(out, "apply_branch_patch(FuncPtrInternal, *mut u8, usize, &[u8]) -> PatchGuard"),
        Err(_) => {
            let now = unsafe { arena::read(func, 16) };
            let orig: Vec<u8> = (0..16u8).map(|i| 0xA0 + i).collect();
            writeln!(out, "a64entry {:x} {:x} | panic untouched={}", func, jit, (now == orig) as u8).unwrap()
        }
    }
}

fn longj(out: &mut impl Write, pc: u64, target: u64) {
    let w = shadow_macos::injector_core::arm64_codegenerator::verif_long_jump(pc as usize, target as usize);
    let s: Vec<String> = w.iter().map(|x| format!("{:08x}", x)).collect();
    writeln!(out, "a64long {:x} {:x} | {}", pc, target, s.join(",")).unwrap();
}

fn a32(out: &mut impl Write, base: usize, src: u32, target: u32) {
    a32_with(out, base, src, target, None)
}

/// `first`: the first four bytes found at the entry (what the function's own first instruction is)
fn a32_with(out: &mut impl Write, base: usize, src: u32, target: u32, first: Option<[u8; 4]>) {
    // src may carry the Thumb bit; the 16 bytes around the written range get known content
    let addr = (src & !1) as usize;
    let _ = base;
    let mut orig: Vec<u8> = (0..20u8).map(|i| 0x50 + i).collect();
    if let Some(f) = first {
        orig[4..8].copy_from_slice(&f);
    }
    unsafe { arena::write(addr - 4, &orig) };
    let r = quiet_catch(move || unsafe {
        let g = arm::verif_replace(src as usize, target as usize);
        let after = arena::read(addr - 4, 20);
        let info = g.info();
        drop(g);
        let restored = arena::read(addr - 4, 20);
        (after, info, restored)
    });
    match r {
        Ok((after, info, restored)) => writeln!(
            out,
            "a32patch {:x} {:x} | ok addr={:x} bytes={} frame={} saved={} psize={} restored={}",
            src,
            target,
            info.func,
            hexb(&after[4..16]),
            (after[..4] == orig[..4] && after[16..] == orig[16..]) as u8,
            hexb(&info.saved),
            info.patch_size,
            (restored == orig) as u8
        )
        .unwrap(),
        Err(e) => writeln!(out, "a32patch {:x} {:x} | panic {}", src, target, e.replace(' ', "_")).unwrap(),
    }
}

/// the same entry patched twice (the first guard still alive): the line reports the second patch, whose
/// bytes and destination must be those of a first patch; both guards are then dropped newest first
fn a32_refake(out: &mut impl Write, src: u32, t1: u32, t2: u32) {
    let addr = (src & !1) as usize;
    let orig: Vec<u8> = (0..20u8).map(|i| 0x50 + i).collect();
    unsafe { arena::write(addr - 4, &orig) };
    let r = quiet_catch(move || unsafe {
        let g1 = arm::verif_replace(src as usize, t1 as usize);
        let g2 = arm::verif_replace(src as usize, t2 as usize);
        let after = arena::read(addr - 4, 20);
        let info = g2.info();
        drop(g2);
        drop(g1);
        let restored = arena::read(addr - 4, 20);
        (after, info, restored)
    });
    match r {
        Ok((after, info, restored)) => writeln!(
            out,
            "a32patch {:x} {:x} | ok addr={:x} bytes={} frame={} saved={} psize={} restored={} refake={:x}",
            src,
            t2,
            info.func,
            hexb(&after[4..16]),
            (after[..4] == orig[..4] && after[16..] == orig[16..]) as u8,
            hexb(&info.saved),
            info.patch_size,
            (restored == orig) as u8,
            t1
        )
        .unwrap(),
        Err(e) => writeln!(out, "a32patch {:x} {:x} | panic {}", src, t2, e.replace(' ', "_")).unwrap(),
    }
}

pub fn run(a: &Args, out: &mut impl Write) {
    silence_panics();
    let mut r = Rng::new(a.seed);
    // ---- emitters, field by field
    for rd in [0u8, 9, 16, 17, 30, 31] {
        for hw in 0..4u8 {
            for imm in [0u16, 1, 0x8000, 0xffff, 0x1234, r.next() as u16] {
                if let (Some(z), Some(k)) = (gen::verif_emit_movz(imm, true, hw, rd), gen::verif_emit_movk(imm, true, hw, rd)) {
                    writeln!(out, "a64emit movz {:x} 1 {} {} | {:08x}", imm, hw, rd, z).unwrap();
                    writeln!(out, "a64emit movk {:x} 1 {} {} | {:08x}", imm, hw, rd, k).unwrap();
                }
            }
        }
        if let (Some(b), Some(t)) = (gen::verif_emit_br(rd), gen::verif_emit_ret(rd)) {
            writeln!(out, "a64emit br 0 0 0 {} | {:08x}", rd, b).unwrap();
            writeln!(out, "a64emit ret 0 0 0 {} | {:08x}", rd, t).unwrap();
        }
    }
    // ---- trampoline: each 16-bit chunk exhaustively (thorough) or sampled, in every position
    let chunk_step: u64 = if a.tier_thorough { 1 } else { 257 };
    for pos in 0..4u64 {
        let mut c = 0u64;
        while c < 0x10000 {
            let bg = if c % 2 == 0 { 0 } else { 0xffff_ffff_ffff_ffffu64 & !(0xffffu64 << (16 * pos)) };
            tramp(out, bg | (c << (16 * pos)));
            c += chunk_step;
        }
        tramp(out, 0xffffu64 << (16 * pos));
    }
    for _ in 0..a.n {
        tramp(out, r.next() >> r.below(40));
    }
    // constants written in the source, as fake addresses
    for &l in &literal_pool() {
        for d in [0u64, 1, u64::MAX] {
            tramp(out, l.wrapping_add(d));
        }
    }
    for v in [false, true] {
        let b = a64::verif_bool_stub(v);
        if b.len() >= 8 {
            writeln!(out, "a64bool {} | {}", v as u8, hexb(&b[..8])).unwrap();
        }
    }
    // ---- entry branch (Linux): func inside an arena, jit any number
    let arena_base = 0x2_0000_0000usize;
    let base = arena::map_at(arena_base, 2 * arena::PAGE, false).unwrap_or_else(|| arena::map_anywhere(2 * arena::PAGE, false));
    let funcs = [base, base + 4, base + 0x7fc, base + 4096 - 12, base + 4096 - 8, base + 4096 - 4, base + 4096];
    let lim: i64 = 1 << 27;
    for &f in &funcs {
        for d in [-lim - 8, -lim - 4, -lim, -lim + 4, -4, 0, 4, 4096, lim - 8, lim - 4, lim, lim + 4, lim + 4096, 2 * lim - 4, 2 * lim, 4 * lim, 8 * lim - 4, 16 * lim - 4, 16 * lim, 32 * lim] {
            entry(out, f, (f as i64 + d) as u64);
            entry(out, f, (f as i64 - d) as u64);
        }
    }
    // constants written in the source, as entry displacements (word aligned) and long-jump distances
    for &l in &literal_pool() {
        if l < (1u64 << 40) {
            for d in [-4i64, 0, 4] {
                let disp = ((l as i64) & !3) + d;
                entry(out, funcs[0], (funcs[0] as i64 + disp) as u64);
                entry(out, funcs[0], (funcs[0] as i64 - disp) as u64);
                longj(out, 0x1_0000_0f40, (0x1_0000_0f40i64 + disp) as u64);
                longj(out, 0x1_0000_0f40, (0x1_0000_0f40i64 - disp) as u64);
            }
        }
    }
    // distances at which a narrower integer wraps: k * 2^j + delta (j = 28..47), both sides
    for j in 28..48u32 {
        for k in [1i64, 2, 3] {
            for delta in [-lim, -4, 0, 4, 4096, lim - 4] {
                let d = k.wrapping_mul(1i64 << j).wrapping_add(delta);
                entry(out, funcs[0], (funcs[0] as i64).wrapping_add(d) as u64);
                entry(out, funcs[0], (funcs[0] as i64).wrapping_sub(d) as u64);
            }
        }
    }
    let band = if a.tier_thorough { 1 << 16 } else { 1 << 9 };
    for k in 0..band {
        // word-aligned displacements in a band across +-128 MiB
        let d = (k as i64 - band as i64 / 2) * 4;
        entry(out, funcs[0], (funcs[0] as i64 + lim + d) as u64);
        entry(out, funcs[1], (funcs[1] as i64 - lim + d) as u64);
    }
    for _ in 0..a.n / 4 {
        let f = *r.pick(&funcs);
        let d = (r.next() as i64 >> r.range(34, 50)) & !3;
        entry(out, f, (f as i64).wrapping_add(d) as u64);
    }
    // page-aligned jit (what the allocator really returns)
    for _ in 0..a.n / 4 {
        let f = *r.pick(&funcs);
        let d = ((r.next() as i64 >> 35) & !4095) as i64;
        entry(out, f, (((f as i64) & !4095) + d) as u64);
    }
    // ---- Windows / AArch64 allocator (C11): parameters only -- the driver runs the translated function on
    // a page size and a script of VirtualAlloc answers (0 = NULL): placements at and around the limits of the
    // window, occupied prefixes, exhaustion
    {
        let src = 0x7ff6_0000_1000u64;
        let lim = 1u64 << 27;
        for d in [lim, lim - 4, lim - 4096, lim + 4096, 0, 4096] {
            for sign in [1i64, -1] {
                let a = (src as i64 + sign * d as i64) as u64;
                writeln!(out, "winalloc {:x} 1000 {:x} | -", src, a).unwrap();
                writeln!(out, "winalloc {:x} 1000 0,0,{:x} | -", src, a).unwrap();
                writeln!(out, "winalloc {:x} 1000 {:x},{:x} | -", src, src + 3 * lim, a).unwrap();
            }
        }
        writeln!(out, "winalloc {:x} 10000 0,0,0,0 | -", 0x10_0000u64).unwrap();
        for _ in 0..(a.n / 100).max(4) {
            let k = r.range(1, 5);
            let ans: Vec<String> = (0..k).map(|_| if r.chance(1, 3) { "0".to_string() } else { format!("{:x}", (src as i64 + ((r.next() as i64) >> 34)) as u64 & !0xfff) }).collect();
            writeln!(out, "winalloc {:x} 1000 {} | -", src, ans.join(",")).unwrap();
        }
    }
    // ---- macOS memory path (C17): parameters only -- the driver runs the translated functions
    for (jit, func, remap, n) in [(0x1_0400_0000u64, 0x1_0000_0f40u64, 0x2_8000_0000u64, 20usize), (0x1_0400_4000, 0x1_0000_3ffc, 0x2_8000_4ffc, 8), (0x7_0000_0000, 0x1_0000_0000, 0x1_0000_0000, 20)] {
        writeln!(out, "macflush {:x} {:x} {:x} {} | -", jit, func, remap, n).unwrap();
    }
    for _ in 0..(a.n / 50).max(4) {
        let jit = (r.next() >> 20) & !0xfff;
        let func = (r.next() >> 20) & !3;
        let remap = ((r.next() >> 20) & !0xfff) | (func & 0xfff);
        writeln!(out, "macflush {:x} {:x} {:x} {} | -", jit, func, remap, if r.chance(1, 2) { 20 } else { 8 }).unwrap();
    }
    // ---- macOS long jump (pure)
    for &(pc, t) in &[(0x1_0000_0000u64, 0x1_0000_0004u64), (0x1_0000_0000, 0x1_0800_0000), (0x1_0000_0000, 0x1_07ff_fffc), (0x1_0800_0000, 0x1_0000_0000), (0x1_0800_0004, 0x1_0000_0000)] {
        longj(out, pc, t);
    }
    // entries in the first and last words of a page (the 12-byte patch then straddles the boundary), near and far
    for off in [0xff0u64, 0xff4, 0xff8, 0xffc, 0x000, 0x004] {
        for t in [0x1_0000_4008u64, 0x1_4000_0000, 0x8204_c000, 0x8204_cff8, 0x2_0000_0000, 0x1_8000_0ffc] {
            longj(out, 0x1_0204_8000 + off, t);
            longj(out, t & !0xfff | off, 0x1_0204_8000 + (t & 0xffc));
        }
    }
    for _ in 0..a.n {
        let pc = ((r.next() >> 18) & !3) | 0x1_0000_0000;
        let t = match r.below(4) {
            0 => pc.wrapping_add(((r.next() as i64 >> 36) & !3) as u64),
            1 => pc.wrapping_add(((r.next() as i64 >> 32) & !3) as u64),
            2 => (pc as i64 + (if r.chance(1, 2) { 1 } else { -1 }) * ((1i64 << 27) + ((r.below(64) as i64 - 32) * 4))) as u64,
            _ => (pc as i64 + (if r.chance(1, 2) { 1 } else { -1 }) * ((1i64 << 32) - 4096 + ((r.below(2048) as i64 - 1024) * 4))) as u64,
        };
        longj(out, pc, t);
    }
    // ---- 32-bit ARM: arenas below 4 GiB, one of them above 2 GiB (bit 31 of every address set:
    // where signed and unsigned 32-bit views of an address differ)
    let b_lo = arena::map_at(0x1000_0000, 4 * arena::PAGE, false).or_else(|| arena::map_at(0x2000_0000, 4 * arena::PAGE, false)).expect("a32 arena");
    let b_hi = arena::map_at(0xB6F1_0000, 4 * arena::PAGE, false).or_else(|| arena::map_at(0x9000_0000, 4 * arena::PAGE, false)).expect("a32 high arena");
    for b32 in [b_lo, b_hi] {
        for off in [16usize, 18, 20, 22, 4096 - 12, 4096 - 10, 4096 - 6, 4096 - 4, 4096 - 2, 4096, 4098] {
            for t in [0x8000u32, 0x8001, 0xffff_fffc, 0xffff_ffff, 0x1234_5678, 0x1234_5679] {
                if off % 4 == 0 {
                    a32(out, b32, (b32 + off) as u32, t); // ARM state: entries are word aligned
                }
                a32(out, b32, (b32 + off) as u32 | 1, t); // Thumb state
            }
        }
    }
    // re-fake of an entry that is already patched: all three entry cases, fakes in the same and in
    // different 64 KiB blocks, both fake states
    for b32 in [b_lo, b_hi] {
        for off in [16usize, 18, 4096 - 6, 4096 - 4] {
            for (t1, t2) in [(0x0002_4001u32, 0x0005_8001u32), (0x0002_4000, 0x0002_4100), (0x8123_4560, 0x0123_4561), (0xffff_0001, 0x0000_ffff)] {
                if off % 4 == 0 {
                    a32_refake(out, (b32 + off) as u32, t1, t2);
                }
                a32_refake(out, (b32 + off) as u32 | 1, t1, t2);
            }
        }
    }
    for _ in 0..a.n / 8 {
        let b32 = if r.chance(1, 2) { b_lo } else { b_hi };
        let off = 16 + 2 * r.below(2040) as usize;
        let thumb = r.chance(2, 3);
        let off = if thumb { off } else { off & !3 };
        a32_refake(out, (b32 + off) as u32 | thumb as u32, r.next() as u32, r.next() as u32);
    }
    // what the function itself begins with: every value of the top seven bits of the first halfword and
    // of the first word (where instruction classes are decided), in both states; and the constants
    // written in the source as first halfword / first word
    for k in 0..128u32 {
        let h = ((k << 9) | (r.next() as u32 & 0x1ff)) as u16;
        let w = (k << 25) | (r.next() as u32 & 0x01ff_ffff);
        for (src, t) in [((b_lo + 32) as u32, 0x0002_4001u32), ((b_lo + 32) as u32 | 1, 0x0002_4000), ((b_lo + 34) as u32 | 1, 0x8123_4561)] {
            let hb = h.to_le_bytes();
            a32_with(out, b_lo, src, t, Some([hb[0], hb[1], 0x77, 0x66]));
            a32_with(out, b_lo, src, t, Some(w.to_le_bytes()));
        }
    }
    for &l in &literal_pool() {
        if l <= 0xffff_ffff {
            let w = (l as u32).to_le_bytes();
            a32_with(out, b_lo, (b_lo + 32) as u32, 0x0002_4001, Some(w));
            a32_with(out, b_lo, (b_lo + 32) as u32 | 1, 0x0002_4000, Some(w));
            a32_with(out, b_lo, (b_lo + 32) as u32, 0x0002_4001, Some([0x11, 0x22, w[0], w[1]]));
        }
    }
    for &l in &literal_pool() {
        for d in [0u32, 1, u32::MAX] {
            a32(out, b_lo, (b_lo + 16) as u32, (l as u32).wrapping_add(d));
            a32(out, b_lo, (b_lo + 18) as u32 | 1, (l as u32).wrapping_add(d));
        }
    }
    for i in 0..a.n {
        let b32 = if i % 2 == 0 { b_lo } else { b_hi };
        let off = 16 + 2 * r.below(4096) as usize;
        let thumb = r.chance(2, 3);
        let off = if thumb { off } else { off & !3 };
        a32(out, b32, (b32 + off) as u32 | thumb as u32, r.next() as u32);
    }
    let _ = (arm::verif_return_true_addr(), arm::verif_return_false_addr());
}
