//! C11: the trampoline search of `allocate_jit_memory_unix` under scripted and real kernels.
use crate::arena;
use crate::hist::{build_arena, ev_str};
use crate::rng::Rng;
use crate::util::*;
use shadow::injector_core::common as cm;
use shadow::injector_core::patch_amd64 as amd;
use shim::Answer;
use std::io::Write;

const RANGE: usize = 0x800_0000;
const PAGE: usize = 4096;

fn run_alloc(out: &mut impl Write, tag: &str, src: usize, size: usize, script: Vec<Answer>) {
    shim::set_script(script);
    shim::start_log();
    let r = quiet_catch(move || cm::verif_allocate_jit_memory(src, size));
    let evs = shim::stop_log();
    shim::set_script(vec![]);
    if matches!(&r, Err(m) if m == ACCESSOR_ABSENT) {
        note_absent(out, "allocate_jit_memory(&FuncPtrInternal, usize) -> *mut u8");
        return;
    }
    let res = match &r {
        Ok(a) => format!("{:x}", a),
        Err(m) => {
            if m.contains("Failed to allocate JIT memory") {
                "panic".into()
            } else {
                format!("otherpanic:{}", m.replace(' ', "_"))
            }
        }
    };
    // what is still mapped through the shim afterwards
    let owned = shim::owned();
    let owned_s: Vec<String> = owned.iter().map(|(a, l)| format!("{:x}:{:x}", a, l)).collect();
    // compress long runs of identical failing probes for readability of the line: keep as is (driver needs all)
    writeln!(out, "alloc {} {:x} {:x} | ev={} res={} owned={}", tag, src, size, ev_str(&evs), res, if owned_s.is_empty() { "-".into() } else { owned_s.join(",") }).unwrap();
    // give back whatever the call returned so that the next case starts clean
    for (a, l) in owned {
        unsafe {
            shim::munmap(a as *mut shim::c_void, l);
        }
    }
}

pub fn run(a: &Args, out: &mut impl Write) {
    silence_panics();
    {
        let mut st = shim::STATE.lock().unwrap();
        st.snap_flush = false;
    }
    let mut r = Rng::new(a.seed);
    let srcs: [usize; 6] = [0x10000, 0x400_0000, RANGE, 0x1_0000_0000 + 0x123000, 0x5000_0000_0000, 0x7ffe_0000_1000];
    let total = 2 * RANGE / PAGE + 1;
    // ---- scripted kernel: boundary placements
    for &src in &srcs {
        for size in [8usize, 12, 20] {
            let plus = src + RANGE;
            let minus = src.wrapping_sub(RANGE);
            let mut cases: Vec<Vec<Answer>> = vec![
                vec![Answer::At(plus)],                              // exactly +range: must be rejected (a64 B cannot reach)
                vec![Answer::At(plus - PAGE)],
                vec![Answer::At(plus + PAGE), Answer::At(plus - PAGE)],
                vec![Answer::Fail, Answer::Fail, Answer::Honour],
                vec![Answer::At(src + 0x10_0000)],
                vec![Answer::At(0x6fff_0000_0000), Answer::Fail, Answer::At(plus), Answer::At(src + PAGE * 16)],
            ];
            if src >= RANGE {
                cases.push(vec![Answer::At(minus)]);                 // exactly -range
                cases.push(vec![Answer::At(minus + PAGE)]);
                if minus >= 2 * PAGE {
                    cases.push(vec![Answer::At(minus - PAGE), Answer::Honour]);
                }
            }
            for c in cases {
                run_alloc(out, "script", src, size, c);
            }
        }
    }
    // ---- scripted kernel: placements whose distance from the target is a multiple of a power of two plus
    // a small offset (the distances at which an arithmetic done in a narrower integer type, in pages or in
    // bytes, wraps back into the window), on both sides, followed by an honoured hint
    for &src in &[0x5000_0000_0000usize, 0x2000_0000_1000] {
        for j in 28..47u32 {
            for k in [1usize, 2, 3, 7] {
                for delta in [0usize, PAGE, RANGE / 2, RANGE - PAGE] {
                    let d = match (k << j).checked_add(delta) {
                        Some(d) => d,
                        None => continue,
                    };
                    for up in [true, false] {
                        let at = if up { src.checked_add(d) } else { src.checked_sub(d) };
                        if let Some(at) = at {
                            if at >= 0x10000 && at < 0x7fff_0000_0000 && (at & (PAGE - 1)) == (src & (PAGE - 1)) & 0 {
                                run_alloc(out, "alias", src, 12, vec![Answer::At(at), Answer::Honour]);
                            }
                        }
                    }
                }
            }
        }
    }
    // ---- scripted kernel: PRNG scripts
    for _ in 0..a.n {
        let src = *r.pick(&srcs) + PAGE * r.below(64) as usize;
        let len = r.range(1, 6);
        let mut sc = Vec::new();
        for _ in 0..len {
            sc.push(match r.below(7) {
                0 => Answer::Fail,
                1 => Answer::Honour,
                2 => Answer::At(src + RANGE),
                3 => Answer::At((src + RANGE).wrapping_sub(PAGE * r.range(1, 4) as usize)),
                4 => Answer::At(src.wrapping_add(RANGE + PAGE * r.range(1, 9) as usize)),
                5 => Answer::At(if src > RANGE + 16 * PAGE { src - RANGE - PAGE * r.range(1, 9) as usize } else { 0x6ff0_0000_0000 }),
                _ => Answer::At(src.wrapping_add(PAGE * r.range(1, 30000) as usize)),
            });
        }
        run_alloc(out, "script", src, *r.pick(&[8usize, 12]), sc);
    }
    // ---- exhaustion and "full except one page": every probe fails (scripted), for a clipped and an unclipped window
    for &src in &[0x10000usize, 0x400_0000, 0x5000_0000_0000] {
        let lo = src.saturating_sub(RANGE);
        let probes = (src + RANGE - lo) / PAGE + 1;
        run_alloc(out, "full", src, 12, vec![Answer::Fail; probes + 8]);
        let ks = [0usize, 1, probes / 2, probes - 2, probes - 1];
        for &k in &ks {
            let mut sc = vec![Answer::Fail; k];
            sc.push(Answer::Honour);
            run_alloc(out, "onefree", src, 12, sc);
        }
        let _ = total;
    }
    // ---- real kernel: neighbourhood reserved with PROT_NONE except one page
    if true {
        let src = 0x3000_0000_0000usize + 0x5000;
        let lo = src - RANGE - 16 * PAGE;
        let len = 2 * RANGE + 32 * PAGE;
        for &hole in &[Some(src - RANGE + PAGE), Some(src + RANGE - PAGE - 0x5000), Some(src + 0x40_0000), None] {
            assert!(arena::reserve(lo, len), "reserve");
            if let Some(h) = hole {
                let hp = h & !(PAGE - 1);
                arena::unmap(hp, PAGE);
            }
            run_alloc(out, "kernel", src, 12, vec![]);
            arena::unmap(lo, len);
        }
    }
    // ---- a whole install whose allocation fails: the function must be untouched, nothing left mapped
    {
        let base = 0x2800_0000_0000usize;
        let lay = build_arena(base, 1, &[], 0x9000).expect("arena");
        let (t, _) = lay.funcs[3];
        let before = unsafe { arena::read(base, PAGE) };
        let probes = 2 * RANGE / PAGE + 1;
        shim::set_script(vec![Answer::Fail; probes + 8]);
        shim::start_log();
        let r = quiet_catch(move || unsafe {
            let g = amd::verif_replace(t, lay.funcs[9].0);
            drop(g);
        });
        let evs = shim::stop_log();
        shim::set_script(vec![]);
        let after = unsafe { arena::read(base, PAGE) };
        let nprot = evs.iter().filter(|e| matches!(e, shim::Event::Mprotect { .. })).count();
        writeln!(
            out,
            "allocinstall {:x} | panicked={} untouched={} mprotects={} owned={}",
            t,
            r.is_err() as u8,
            (before == after) as u8,
            nprot,
            shim::owned().len()
        )
        .unwrap();
    }
}
