//! C02 with targets the library itself calls while it restores: faking `sysconf`, `mprotect`,
//! `munmap` (each fake does the real work through a raw system call) next to an ordinary
//! function, then letting the injector go.  The restore path of every guard calls these very
//! functions, so the order "write the original bytes back, then give the trampoline up" is what
//! keeps the process alive.  Each scenario in a forked child.
use crate::hist::{build_arena, call_u32, in_child_deadline};
use crate::util::*;
use shadow::interface::injector::*;
use std::io::Write;
use std::sync::atomic::{AtomicUsize, Ordering};

static HITS: AtomicUsize = AtomicUsize::new(0);

extern "C" fn fake_sysconf(name: shim::c_int) -> shim::c_long {
    HITS.fetch_add(1, Ordering::SeqCst);
    if name == shim::_SC_PAGESIZE {
        4096
    } else if name == shim::_SC_NPROCESSORS_ONLN {
        64
    } else {
        -1
    }
}
extern "C" fn fake_mprotect(addr: *mut shim::c_void, len: usize, prot: shim::c_int) -> shim::c_int {
    HITS.fetch_add(1, Ordering::SeqCst);
    unsafe { shim::syscall(shim::SYS_mprotect, addr, len, prot) as shim::c_int }
}
extern "C" fn fake_munmap(addr: *mut shim::c_void, len: usize) -> shim::c_int {
    HITS.fetch_add(1, Ordering::SeqCst);
    unsafe { shim::syscall(shim::SYS_munmap, addr, len) as shim::c_int }
}

/// functions the library has no business calling, but a "robustness" change might start to consult
/// (process identity, thread identity, time): faked like any other target
extern "C" fn fake_getpid() -> shim::c_int {
    HITS.fetch_add(1, Ordering::SeqCst);
    4242
}
extern "C" fn fake_getppid() -> shim::c_int {
    HITS.fetch_add(1, Ordering::SeqCst);
    4243
}
extern "C" fn fake_pthread_self() -> usize {
    HITS.fetch_add(1, Ordering::SeqCst);
    0x7777_0000
}

fn scenario(out: &mut impl Write, name: &str, target: usize, fake: usize) {
    let nm = name.to_string();
    let (text, code, sig) = in_child_deadline(30, move |w| {
        let lay = build_arena(0x7100_0000_0000, 1, &[], 0x4200).expect("selfuse arena");
        let (ord, ordk) = lay.funcs[5];
        let (ordfake, ordfk) = lay.funcs[9];
        let before = unsafe { crate::arena::read(target, 16) };
        let before_ord = unsafe { crate::arena::read(ord, 16) };
        let mut inj = InjectorPP::new();
        unsafe {
            inj.when_called_unchecked(FuncPtr::new(target as *const (), "")).will_execute_raw_unchecked(FuncPtr::new(fake as *const (), ""));
            inj.when_called_unchecked(FuncPtr::new(ord as *const (), "")).will_execute_raw_unchecked(FuncPtr::new(ordfake as *const (), ""));
        }
        let faked = (call_u32(ord) == ordfk) as u8;
        let h0 = HITS.load(Ordering::SeqCst);
        if nm == "sysconf" {
            let n = unsafe { shim::sysconf(shim::_SC_NPROCESSORS_ONLN) };
            w.write_all(format!(" seen={}", (n == 64) as u8).as_bytes()).unwrap();
        }
        w.write_all(format!(" faked={}", faked).as_bytes()).unwrap();
        w.flush().unwrap();
        drop(inj);
        let hits = HITS.load(Ordering::SeqCst) - h0;
        let restored = (unsafe { crate::arena::read(target, 16) } == before && unsafe { crate::arena::read(ord, 16) } == before_ord) as u8;
        let orig = (call_u32(ord) == ordk) as u8;
        w.write_all(format!(" dropped=1 restored={} orig={} used_by_restore={}", restored, orig, (hits > 0) as u8).as_bytes()).unwrap();
    });
    if sig != 0 || code != 0 {
        writeln!(out, "selfuse {} |{} DIED sig={} code={}", name, text, sig, code).unwrap();
    } else {
        writeln!(out, "selfuse {} |{}", name, text).unwrap();
    }
}

pub fn run(_a: &Args, out: &mut impl Write) {
    silence_panics();
    scenario(out, "sysconf", shim::sysconf as usize, fake_sysconf as usize);
    scenario(out, "mprotect", shim::real::mprotect as usize, fake_mprotect as usize);
    scenario(out, "munmap", shim::real::munmap as usize, fake_munmap as usize);
    scenario(out, "getpid", shim::getpid as usize, fake_getpid as usize);
    scenario(out, "getppid", shim::getppid as usize, fake_getppid as usize);
    scenario(out, "pthread_self", shim::pthread_self as usize, fake_pthread_self as usize);
}
