//! Many create / install / drop cycles in one process (C12): mapping balance and exact
//! mmap/munmap pairing from the shim's log.
use crate::arena;
use crate::hist::{build_arena, call_u32};
use crate::rng::Rng;
use crate::util::*;
use shadow::interface::injector::*;
use shim::Event;
use std::io::Write;

fn rust_fake() -> u32 {
    0xC1C1E001
}

fn rwx_anon_count(skip: &[(usize, usize)]) -> usize {
    let s = std::fs::read_to_string("/proc/self/maps").unwrap_or_default();
    let mut n = 0;
    for l in s.lines() {
        let mut it = l.split_whitespace();
        let range = it.next().unwrap_or("");
        let perm = it.next().unwrap_or("");
        let _ = it.next();
        let _ = it.next();
        let inode = it.next().unwrap_or("");
        let path = it.next();
        if perm.starts_with("rwx") && inode == "0" && path.is_none() {
            let (a, b) = range.split_once('-').unwrap();
            let (a, b) = (usize::from_str_radix(a, 16).unwrap(), usize::from_str_radix(b, 16).unwrap());
            if !skip.iter().any(|&(x, y)| a < y && x < b) {
                n += 1;
            }
        }
    }
    n
}

pub fn run(a: &Args, out: &mut impl Write) {
    silence_panics();
    let mut r = Rng::new(a.seed);
    let base = 0x20_0000_0000usize;
    let lay = build_arena(base, 2, &[base + 4093], 0x3000).expect("arena");
    let fakes = build_arena(base + 0x40_0000, 1, &[], 0x7700_0000).expect("fakes");
    let skip = [(base, base + 2 * arena::PAGE), (base + 0x40_0000, base + 0x40_0000 + arena::PAGE)];
    let batch = 100u64;
    let mut done = 0u64;
    {
        let mut st = shim::STATE.lock().unwrap();
        st.snap_flush = false;
    }
    while done < a.n {
        let n = batch.min(a.n - done);
        let maps0 = rwx_anon_count(&skip);
        shim::start_log();
        let mut installs = 0u64;
        let mut maxlive = 0usize;
        let mut repeated = 0u64;
        let mut wrong_calls = 0u64;
        for _ in 0..n {
            let mut inj = InjectorPP::new();
            let k = r.range(1, 8);
            let sub: Vec<usize> = (0..r.range(1, 3)).map(|_| r.below(lay.funcs.len() as u64) as usize).collect();
            let mut seen: Vec<usize> = Vec::new();
            let mut expect: Vec<(usize, u32)> = Vec::new();
            for _ in 0..k {
                let ti = *r.pick(&sub);
                let (ta, _) = lay.funcs[ti];
                if seen.contains(&ti) {
                    repeated += 1;
                }
                seen.push(ti);
                // one installation in nine redirects the function to itself (a table that "fakes with the
                // original" to switch a fake off, or two functions merged by the linker): never called while
                // that is the newest installation
                let kind = if r.chance(1, 9) { 4 } else { r.below(4) };
                let val: u32;
                unsafe {
                    match kind {
                        0 => {
                            let (fa, fk) = fakes.funcs[r.below(200) as usize];
                            inj.when_called(FuncPtr::new(ta as *const (), "fn() -> u32")).will_execute_raw(FuncPtr::new(fa as *const (), "fn() -> u32"));
                            val = fk;
                        }
                        1 => {
                            let v = r.chance(1, 2);
                            inj.when_called(FuncPtr::new(ta as *const (), "fn() -> bool")).will_return_boolean(v);
                            val = v as u32;
                        }
                        2 => {
                            inj.when_called(FuncPtr::new(ta as *const (), "fn() -> u32")).will_execute(shadow::fake!(func_type: fn() -> u32, returns: 0xC1C1E002));
                            val = 0xC1C1E002;
                        }
                        4 => {
                            inj.when_called(FuncPtr::new(ta as *const (), "fn() -> u32")).will_execute_raw(FuncPtr::new(ta as *const (), "fn() -> u32"));
                            val = u32::MAX;
                        }
                        _ => {
                            inj.when_called_unchecked(FuncPtr::new(ta as *const (), "")).will_execute_raw_unchecked(shadow::func_unchecked!(rust_fake));
                            val = 0xC1C1E001;
                        }
                    }
                }
                expect.retain(|&(t, _)| t != ti);
                expect.push((ti, val));
                installs += 1;
            }
            maxlive = maxlive.max(shim::owned().len());
            for &(ti, v) in &expect {
                if v != u32::MAX && call_u32(lay.funcs[ti].0) != v {
                    wrong_calls += 1;
                }
            }
            drop(inj);
            for &(ti, _) in &expect {
                if call_u32(lay.funcs[ti].0) != lay.funcs[ti].1 {
                    wrong_calls += 1;
                }
            }
        }
        let log = shim::stop_log();
        let mut mm: Vec<(usize, usize)> = Vec::new();
        let (mut maps, mut unmaps, mut foreign, mut unmatched) = (0u64, 0u64, 0u64, 0u64);
        for e in &log {
            match e {
                Event::Mmap { ret, len, .. } if *ret != usize::MAX => {
                    maps += 1;
                    mm.push((*ret, *len));
                }
                Event::Munmap { addr, len, owned } => {
                    unmaps += 1;
                    if !owned {
                        foreign += 1;
                    }
                    match mm.iter().position(|&(a, l)| a == *addr && l == *len) {
                        Some(p) => {
                            mm.remove(p);
                        }
                        None => unmatched += 1,
                    }
                }
                _ => {}
            }
        }
        let now = unsafe { arena::read(lay.base, lay.pages * arena::PAGE) };
        writeln!(
            out,
            "cycles {} | installs={} repeated={} owned={} maps={} mmaps={} munmaps={} leftover={} foreign={} unmatched={} restored={} wrongcalls={} maxlive={}",
            n,
            installs,
            repeated,
            shim::owned().len(),
            rwx_anon_count(&skip) as i64 - maps0 as i64,
            maps,
            unmaps,
            mm.len(),
            foreign,
            unmatched,
            (now == lay.snapshot) as u8,
            wrong_calls,
            maxlive
        )
        .unwrap();
        done += n;
    }
}
