//! C08: drives one compiled instantiation of every `fake!` arm through the same call script.
//! Each (arm, N) runs in a forked child (a panic inside an `extern "C"` fake aborts by language
//! rule); the child writes one record per call so that an abort leaves a usable prefix.
use shadow::interface::injector::*;
use std::io::Write;
use std::sync::atomic::{AtomicUsize, Ordering};

pub struct Entry {
    pub line: u32,
    pub ns: &'static [usize],
    pub has_when: bool,
    pub has_times: bool,
    pub aborts_on_panic: bool,
    pub mk: fn(usize) -> (FuncPtr, CallCountVerifier),
    pub target_ptr: fn() -> FuncPtr,
    pub call: fn(i32, &mut i32) -> i32,
    pub assigns: &'static AtomicUsize,
    pub rets: &'static AtomicUsize,
}

include!("generated.rs");

fn quiet_catch<T>(f: impl FnOnce() -> T + std::panic::UnwindSafe) -> Result<T, String> {
    std::panic::catch_unwind(f).map_err(|e| {
        if let Some(s) = e.downcast_ref::<String>() {
            s.clone()
        } else if let Some(s) = e.downcast_ref::<&str>() {
            s.to_string()
        } else {
            "?".into()
        }
    })
}

fn in_child(f: impl FnOnce(&mut std::fs::File)) -> (String, i32, i32) {
    use std::io::Read;
    use std::os::unix::io::FromRawFd;
    unsafe {
        let mut fds = [0i32; 2];
        assert_eq!(shim::pipe(fds.as_mut_ptr()), 0);
        let pid = shim::fork();
        assert!(pid >= 0);
        if pid == 0 {
            shim::close(fds[0]);
            // the abort message of a non-unwinding panic is noise here
            let devnull = shim::open(b"/dev/null\0".as_ptr() as *const shim::c_char, shim::O_WRONLY);
            if devnull >= 0 {
                shim::dup2(devnull, 2);
            }
            let mut w = std::fs::File::from_raw_fd(fds[1]);
            f(&mut w);
            let _ = w.flush();
            drop(w);
            shim::_exit(0);
        }
        shim::close(fds[1]);
        // a child that spins is killed after 30 s
        let done = std::sync::Arc::new(std::sync::atomic::AtomicBool::new(false));
        let d2 = done.clone();
        let watchdog = std::thread::spawn(move || {
            let start = std::time::Instant::now();
            while start.elapsed().as_secs() < 30 {
                if d2.load(Ordering::SeqCst) {
                    return;
                }
                std::thread::sleep(std::time::Duration::from_millis(20));
            }
            if !d2.load(Ordering::SeqCst) {
                shim::kill(pid, shim::SIGKILL);
            }
        });
        let mut rd = std::fs::File::from_raw_fd(fds[0]);
        let mut s = String::new();
        let _ = rd.read_to_string(&mut s);
        let mut status = 0i32;
        shim::waitpid(pid, &mut status, 0);
        done.store(true, Ordering::SeqCst);
        let _ = watchdog.join();
        let sig = if shim::WIFSIGNALED(status) { shim::WTERMSIG(status) } else { 0 };
        let code = if shim::WIFEXITED(status) { shim::WEXITSTATUS(status) } else { -1 };
        (s, code, sig)
    }
}

fn main() {
    std::panic::set_hook(Box::new(|_| {}));
    let stdout = std::io::stdout();
    let mut out = stdout.lock();
    for e in TABLE {
        for &n in e.ns {
            // script: N admitted matching calls, one call with the other argument, two more matching
            let mut script: Vec<i32> = vec![7; n];
            script.push(8);
            script.push(7);
            script.push(7);
            let sstr: String = script.iter().map(|&a| if a == 7 { 'm' } else { 'x' }).collect();
            let (s, code, sig) = in_child(|w| {
                let mut inj = InjectorPP::new();
                // the target is written with exactly the arm's `func_type`: identical writing
                // must be accepted
                let inst = {
                    let injr = &mut inj;
                    quiet_catch(std::panic::AssertUnwindSafe(move || injr.when_called((e.target_ptr)()).will_execute((e.mk)(n))))
                };
                if let Err(m) = inst {
                    let c = if m.contains("Signature mismatch") { "sig" } else { "other" };
                    w.write_all(format!(" inst={}", c).as_bytes()).unwrap();
                    return;
                }
                for &a in &script {
                    let a0 = e.assigns.load(Ordering::SeqCst);
                    let r0 = e.rets.load(Ordering::SeqCst);
                    let call = e.call;
                    let mut outv = 555i32;
                    let res = {
                        let o = &mut outv;
                        quiet_catch(std::panic::AssertUnwindSafe(move || call(a, o)))
                    };
                    let da = e.assigns.load(Ordering::SeqCst) - a0;
                    let dr = e.rets.load(Ordering::SeqCst) - r0;
                    let rec = match res {
                        Ok(v) => format!(" o:{}:{}:{}:{}", v, outv, da, dr),
                        Err(m) => {
                            let c = if m.contains("more times than expected") {
                                'v'
                            } else if m.contains("unexpected arguments") {
                                'u'
                            } else if m.contains("unreachable") {
                                'r'
                            } else {
                                '!'
                            };
                            format!(" {}:0:{}:{}:{}", c, outv, da, dr)
                        }
                    };
                    w.write_all(rec.as_bytes()).unwrap();
                }
                let ex = match quiet_catch(std::panic::AssertUnwindSafe(move || drop(inj))) {
                    Ok(()) => "ok".to_string(),
                    Err(m) => {
                        let nums: Vec<&str> = m.split(|c: char| !c.is_ascii_digit()).filter(|s| !s.is_empty()).collect();
                        if m.contains("expected to be called") && nums.len() == 2 {
                            format!("mismatch:{}:{}", nums[0], nums[1])
                        } else {
                            "other".to_string()
                        }
                    }
                };
                w.write_all(format!(" exit={}", ex).as_bytes()).unwrap();
            });
            if sig != 0 || code != 0 {
                writeln!(out, "armrun {} {} {} |{} DIED sig={} code={}", e.line, n, sstr, s, sig, code).unwrap();
            } else {
                writeln!(out, "armrun {} {} {} |{}", e.line, n, sstr, s).unwrap();
            }
        }
        if e.has_times {
            // the budget under concurrent callers: 8 threads make exactly `times` matching calls in
            // total, none may be refused and the scope-exit verdict must be silent.  (No over-call is
            // made, so arms whose fake cannot unwind are driven the same way.)
            const BIG: usize = 400000;
            const T: usize = 8;
            let (s, code, sig) = in_child(|w| {
                let mut inj = InjectorPP::new();
                let inst = {
                    let injr = &mut inj;
                    quiet_catch(std::panic::AssertUnwindSafe(move || injr.when_called((e.target_ptr)()).will_execute((e.mk)(BIG))))
                };
                if inst.is_err() {
                    w.write_all(b" inst=other").unwrap();
                    return;
                }
                let bar = std::sync::Arc::new(std::sync::Barrier::new(T));
                let call = e.call;
                let hs: Vec<_> = (0..T)
                    .map(|_| {
                        let bar = bar.clone();
                        std::thread::spawn(move || {
                            bar.wait();
                            let mut refused = 0usize;
                            for _ in 0..BIG / T {
                                let mut o = 0i32;
                                let r = {
                                    let oo = &mut o;
                                    quiet_catch(std::panic::AssertUnwindSafe(move || call(7, oo)))
                                };
                                if r.is_err() {
                                    refused += 1;
                                }
                            }
                            refused
                        })
                    })
                    .collect();
                let refused: usize = hs.into_iter().map(|h| h.join().unwrap_or(1)).sum();
                let ex = match quiet_catch(std::panic::AssertUnwindSafe(move || drop(inj))) {
                    Ok(()) => "ok".to_string(),
                    Err(m) => {
                        let nums: Vec<&str> = m.split(|c: char| !c.is_ascii_digit()).filter(|s| !s.is_empty()).collect();
                        if m.contains("expected to be called") && nums.len() == 2 {
                            format!("mismatch:{}:{}", nums[0], nums[1])
                        } else {
                            "other".to_string()
                        }
                    }
                };
                w.write_all(format!(" refused={} exit={}", refused, ex).as_bytes()).unwrap();
            });
            if sig != 0 || code != 0 {
                writeln!(out, "armhammer {} {} {} |{} DIED sig={} code={}", e.line, BIG, T, s, sig, code).unwrap();
            } else {
                writeln!(out, "armhammer {} {} {} |{}", e.line, BIG, T, s).unwrap();
            }
        }
    }
}
