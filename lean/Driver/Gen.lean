/-
  Driver/Gen.lean — the functions translated from /repo's source on this run (Generated/Fns.lean)
  executed on the inputs of the correspondence lines: a third party besides the hand-written
  model and the implementation.  Each helper returns `none` when the translated function gives
  what the implementation gave, `some why` otherwise.
-/
import InjModel.Generated.Fns
import InjModel.Model.A64
import Driver.Util
namespace Driver.Gen
open Inj Inj.Rt

def os0 (answers : List Val) : Os := { answers := answers, log := [] }

/-- the byte lists handed to `copy_nonoverlapping` in a log, in order, with their destinations -/
def copies (log : List (String × List Val)) : List (Nat × List Nat) :=
  log.filterMap fun e => match e with
    | ("copy_nonoverlapping", [Val.bs bs, Val.n d, _]) => some (d.toNat, bs)
    | _ => none

def x86Branch (mode : Mode) (ori target : Nat) (impl : Option (List Nat)) : Option String :=
  match GenX86.generate_branch_to_target_function mode ori target, impl with
  | Res.ok bs, some ib => if bs == ib then none else some ("translated=" ++ hexBytes bs)
  | Res.panic _, none => none
  | Res.ok bs, none => some ("translated=ok:" ++ hexBytes bs)
  | Res.panic w, some _ => some ("translated=panic:" ++ w)

def x86Bool (v : Bool) (impl : List Nat) : Option String :=
  match run (GenX86.generate_will_return_boolean_jit_code Mode.debug 0x10000 v) (os0 []) with
  | (Res.ok _, os) => match copies os.log with
    | [(_, bs)] => if bs == impl then none else some ("translated=" ++ hexBytes bs)
    | _ => some "translated=no-single-copy"
  | (Res.panic w, _) => some ("translated=panic:" ++ w)

/-- allocator: `answers` are what the kernel answered to the hinted mmap calls (none = MAP_FAILED);
    returns (result, events as (kind, a, b)) -/
def alloc (src size : Nat) (answers : List (Option Nat)) : String × List (String × Nat × Nat) :=
  let ans : List Val := Val.n 4096 :: answers.map fun a => match a with
    | some x => Val.n x
    | none => Val.n 18446744073709551615
  let (r, os) := run (GenX86.allocate_jit_memory_unix Mode.release (answers.length + 2) src size) (os0 ans)
  -- pair each mmap call with the answer it consumed
  let evs := Id.run do
    let mut out : List (String × Nat × Nat) := []
    let mut rest := answers
    for e in os.log do
      match e with
      | ("mmap", Val.n h :: Val.n _ :: _) =>
        match rest with
        | a :: tl => out := out ++ [("M", h.toNat, a.getD 18446744073709551615)]; rest := tl
        | [] => out := out ++ [("M", h.toNat, 0)]
      | ("munmap", [Val.n a, Val.n l]) => out := out ++ [("U", a.toNat, l.toNat)]
      | _ => pure ()
    return out
  let rs := match r with
    | Res.ok a => hex a
    | Res.panic w => if w == "oracle-exhausted" || w == "fuel" then "stuck" else "panic"
  (rs, evs)

def a64Tramp (fake : Nat) (impl : List Nat) : Option String :=
  match run (GenA64L.generate_will_execute_jit_code_abs Mode.debug 0x10000 fake) (os0 []) with
  | (Res.ok _, os) => match copies os.log with
    | [(_, bs)] => if bs == impl then none else some ("translated=" ++ hexBytes bs)
    | _ => some "translated=no-single-copy"
  | (Res.panic w, _) => some ("translated=panic:" ++ w)

def a64Bool (v : Bool) (impl : List Nat) : Option String :=
  match run (GenA64L.generate_will_return_boolean_jit_code Mode.debug 0x10000 v) (os0 []) with
  | (Res.ok _, os) => match copies os.log with
    | [(_, bs)] => if bs == impl then none else some ("translated=" ++ hexBytes bs)
    | _ => some "translated=no-single-copy"
  | (Res.panic w, _) => some ("translated=panic:" ++ w)

/-- Linux entry patch: `impl = none` when the implementation refused (panicked) -/
def a64Entry (mode : Mode) (func jit : Nat) (impl : Option (List Nat)) : Option String :=
  let saved := List.replicate 12 0
  match run (GenA64L.apply_branch_patch mode func jit 20 saved) (os0 [Val.n 4096, Val.n 0]), impl with
  | (Res.ok _, os), some ib => match copies os.log with
    | [(d, bs)] => if bs == ib && d == func then none else some ("translated=" ++ hexBytes bs)
    | _ => some "translated=no-single-copy"
  | (Res.panic _, os), none => if (copies os.log).isEmpty then none else some "translated=wrote-before-refusing"
  | (Res.ok _, _), none => some "translated=ok"
  | (Res.panic w, _), some _ => some ("translated=panic:" ++ w)

def a64Long (pc target : Nat) (impl : List Nat) : Option String :=
  match GenA64M.maybe_emit_long_jump Mode.release pc target with
  | Res.ok ws => if ws == impl then none else some ("translated=" ++ toString (ws.map hex))
  | Res.panic w => some ("translated=panic:" ++ w)

/-- 32-bit ARM entry patch: destination address and bytes written -/
def a32Patch (src target : Nat) (addr : Nat) (impl : List Nat) (saved : List Nat := List.replicate 12 0) : Option String :=
  match run (GenA32.replace_function_with_other_function Mode.release src target) (os0 [Val.bs saved, Val.n 4096, Val.n 0]) with
  | (Res.ok _, os) => match copies os.log with
    | [(d, bs)] => if bs.take impl.length == impl && bs.length ≤ 12 && d == addr then none else some ("translated=" ++ hex d ++ ":" ++ hexBytes bs)
    | _ => some "translated=no-single-copy"
  | (Res.panic w, _) => some ("translated=panic:" ++ w)

/-- the forced-boolean gate as translated (`signature_returns_bool` run on the recorded text), against what
    the implementation did (`accept` / `sigpanic`) -/
def sigBool (text : String) (out : String) : Option String :=
  match GenIf.signature_returns_bool Mode.debug text.toList, GenIf.signature_returns_bool Mode.release text.toList with
  | Res.ok b, Res.ok b' =>
    if b != b' then some "profiles-differ"
    else if (if b then "accept" else "sigpanic") == out then none else some ("gate=" ++ toString b)
  | Res.panic w, _ => if out == "panic:" ++ w then none else some ("panic:" ++ w)
  | _, Res.panic w => some ("release-panic:" ++ w)

/-- the signature gate as translated (`will_execute_raw` run on the two recorded texts; the async builder's
    `will_return_async` likewise), against what the implementation did: a refusal must come before any effect -/
def sigGate (async : Bool) (expected got : String) (out : String) : Option String :=
  let lib : (List Unit) × (List Unit) × Unit := ([], [], ())
  let r := if async then run (GenIf.WhenCalledBuilderAsync_will_return_async Mode.debug lib 1 expected.toList (2, got.toList)) (os0 [])
           else run (GenIf.WhenCalledBuilder_will_execute_raw Mode.debug lib 1 expected.toList (2, got.toList)) (os0 [])
  match r.1 with
  | Res.ok _ => if out == "accept" then (if r.2.log.length == 2 then none else some "effects") else some "translated-gate-accepts"
  | Res.panic _ => if out == "sigpanic" then (if r.2.log.isEmpty then none else some "effects-before-refusal") else some "translated-gate-refuses"

/-- `Drop for CallCountVerifier` as translated, run on (expected `n`, counter `k`, is the thread unwinding),
    against the exit verdict the implementation gave (`ok` / `mismatch:…`) -/
def verifierExit (n k : Nat) (unwinding : Bool) (ex : String) : Option String :=
  let r := run (GenIf.CallCountVerifier_Drop_drop Mode.debug)
    (os0 [Val.n 1, Val.n (Int.ofNat n), Val.n (Int.ofNat k), Val.n (if unwinding then 1 else 0)])
  match r.1 with
  | Res.ok _ => if ex == "ok" then none else some "translated-verifier-silent"
  | Res.panic _ => if ex.startsWith "mismatch" then none else some "translated-verifier-panics"

/-- is the range `[a, a+n)` covered by an `sys_icache_invalidate` request logged at position ≥ `from_`? -/
def macInvalidated (log : List (String × List Val)) (from_ a n : Nat) : Bool :=
  (log.drop from_).any fun e => match e with
    | ("sys_icache_invalidate", [Val.n lo, Val.n len]) => lo.toNat ≤ a && a + n ≤ lo.toNat + len.toNat
    | _ => false

/-- position of the first raw copy in a log -/
def copyPos (log : List (String × List Val)) : Option Nat := log.findIdx? (·.1 == "copy_nonoverlapping")

/-- C17 on the macOS memory path as translated (`GenMac`): the trampoline written by `inject_asm_code`
    at `dest` must be covered by an instruction-cache invalidation requested after the copy -/
def macTrampFlushed (bytes : List Nat) (dest : Nat) : Bool :=
  let r := run (GenMac.inject_asm_code Mode.debug bytes dest) (os0 [])
  match r.1, copyPos r.2.log with
  | Res.ok _, some i => macInvalidated r.2.log (i + 1) dest bytes.length
  | _, _ => false

/-- the entry rewritten by the macOS `patch_function` (through the alias `remap` the kernel hands out)
    must be covered, at `func`, by an invalidation requested after the copy -/
def macEntryFlushed (func : Nat) (patch : List Nat) (remap : Nat) : Bool :=
  let r := run (GenMac.patch_function Mode.debug func patch) (os0 [Val.n remap, Val.n func])
  match r.1, copyPos r.2.log with
  | Res.ok _, some i => macInvalidated r.2.log (i + 1) func patch.length
  | _, _ => false

/-- the restore of `PatchGuard::drop` on macOS: the original bytes written back at `func` are invalidated -/
def macRestoreFlushed (func : Nat) (saved : List Nat) (jit remap : Nat) : Bool :=
  let r := run (GenMac.drop Mode.debug func saved saved.length jit 20) (os0 [Val.n remap, Val.n func])
  match r.1, copyPos r.2.log with
  | Res.ok _, some i => macInvalidated r.2.log (i + 1) func saved.length
  | _, _ => false

/-- C11 on the Windows / AArch64 allocator as translated (`GenWinA64`; there is no Windows to run): run on a page
    size and a script of `VirtualAlloc` answers (0 = NULL).  An accepted placement must be one the entry encoder
    (`A64.entryLinux`, shared by Linux and Windows) can reach, and every placement that was obtained and not
    returned must have been released. -/
def winAlloc (src page : Nat) (answers : List Nat) : Bool × Bool :=
  let r := run (GenWinA64.allocate_jit_memory_windows Mode.debug (answers.length + 2) src 20)
    (os0 (Val.n page :: answers.map (fun a => Val.n (Int.ofNat a))))
  let used := (r.2.log.filter (·.1 == "VirtualAlloc")).length
  let obtained := ((answers.take used).filter (· != 0)).length
  let freed := (r.2.log.filter (·.1 == "VirtualFree")).length
  match r.1 with
  | Res.ok a =>
    ((match A64.entryLinux src a with | Res.ok _ => true | Res.panic _ => false), obtained == freed + 1)
  | Res.panic _ => (true, obtained == freed)

/-- fold the translated function's verdict into a line verdict: a difference is a disagreement
    (between the source as translated and the implementation's observation) -/
def withGen (v : Verdict) (g : Option String) : Verdict :=
  match g with
  | none => v
  | some why => { v with agree := false, detail := v.detail ++ " why=translated-function-differs:" ++ why }

def withGen' (g : Option String) (v : Verdict) : Verdict := withGen v g

end Driver.Gen
