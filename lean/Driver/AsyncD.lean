import InjModel.Model.Async
import Driver.Util
import Driver.Arm
namespace Driver
open Inj Inj.Async

def fnv32 (s : String) : Nat :=
  (s.toUTF8.toList.foldl (fun h b => ((Nat.xor h b.toNat) * 0x100000001b3) % 18446744073709551616) 0xcbf29ce484222325) % 4294967296

def origPollsOf : Nat → Nat
  | 0 => 2 | 1 => 2 | 2 => 1 | 3 => 2 | 4 => 1 | 5 => 2 | _ => 2

def origValue (i arg : Nat) : Nat :=
  match i with
  | 0 => 0
  | 1 => arg + 1
  | 2 => arg + 2
  | 3 => fnv32 ("ARG" ++ toString arg)
  | 4 => 1000 + arg * 2
  | 5 => arg * 1000 + fnv32 ("orig" ++ toString arg) % 1000
  | _ => if arg % 2 == 0 then 1 else 0

def fakeValue (i site : Nat) : Nat :=
  match i, site with
  | 0, _ => 0
  | 1, 2 => 7900 | 2, 2 => 7900
  | 1, 0 => 7001 | 1, _ => 7002
  | 2, 0 => 7101 | 2, _ => 7102
  | 3, 0 => fnv32 "fakeA" | 3, _ => fnv32 "fakeB"
  | 4, 0 => 7401 | 4, _ => 7402
  | 5, 0 => 5 * 1000 + fnv32 "fake5" % 1000
  | 5, _ => 6 * 1000 + fnv32 "fake6" % 1000
  | _, 0 => 1
  | _, _ => 0

/-- `async | F1:0 A1:16=1:7001:0:1:0 … D …` -/
def handleAsync (obs : List String) : Verdict := Id.run do
  let mut st : State := []
  let mut agree := true
  let mut why := ""
  let mut keys : List String := []
  let mut tags : List String := []
  let mut dropped := false          -- some injector lifetime has ended
  for tk in obs do
    if tk == "D" || tk == "P" then
      st := (step origPollsOf st Op.drop).1
      tags := tags ++ [if tk == "D" then "drop" else "unwind-drop"]
      dropped := true
    else if tk.startsWith "F" then
      match ((tk.drop 1).toString.splitOn ":") with
      | [i, s] =>
        if (lookup st (i.toNat?.getD 0)).isSome then tags := tags ++ ["refake"]
        st := (step origPollsOf st (Op.fake (i.toNat?.getD 0) (s.toNat?.getD 0))).1
      | _ => agree := false
    else if tk.startsWith "A" then
      match ((tk.drop 1).toString.splitOn "=") with
      | [lhs, rhs] =>
        match lhs.splitOn ":", (rhs.splitOn ":").map String.toNat? with
        | [iS, argS], [some polls, some val, some body, some evals, some others] =>
          let i := iS.toNat?.getD 0
          let arg := argS.toNat?.getD 0
          let o := awaitObs origPollsOf st i
          let mval := match o.fakedBy with | some site => fakeValue i site | none => origValue i arg
          if polls != o.polls || val != mval || body != o.bodyRuns || evals != o.valueEvals || others != 0 then
            agree := false
            if why == "" then why := tk ++ ":model=" ++ toString o.polls ++ ":" ++ toString mval ++ ":" ++ toString o.bodyRuns ++ ":" ++ toString o.valueEvals
          -- property
          match o.fakedBy with
          | some site =>
            tags := tags ++ ["faked-await"]
            if polls != 1 then keys := keys ++ ["c14.not-first-poll"]
            if val != fakeValue i site || evals != 1 then keys := keys ++ ["c14.wrong-or-stale-value"]
            if body != 0 then keys := keys ++ ["c14.original-body-ran"]
          | none =>
            tags := tags ++ [if st.isEmpty then "orig-await" else "sibling-await"]
            if val != origValue i arg || body != 1 || evals != 0 || polls != origPollsOf i then
              keys := keys ++ ["c14.unfaked-disturbed"]
              -- nothing is faked in the current lifetime and an earlier one has ended: C02's clause too
              if st.isEmpty && dropped then keys := keys ++ ["c02.async-not-restored"]
          if others != 0 then keys := keys ++ ["c14.other-body-ran"]
        | _, _ => agree := false; if why == "" then why := "parse:" ++ tk
      | _ => agree := false
    else if tk == "CRASH" then
      agree := false; why := "process-died"; keys := keys ++ ["c14.crash"]
      if st.isEmpty && dropped then keys := keys ++ ["c02.async-crash-after-drop"]
    else pure ()
  let ukeys := keys.eraseDups
  return { agree := agree, propOk := ukeys.isEmpty, branch := String.intercalate "+" ("async" :: tags.eraseDups),
           detail := (if agree then "" else "why=" ++ why) ++ String.join (ukeys.map (" key=" ++ ·)) }

end Driver
