import InjModel.Model.Counter
import InjModel.Generated.Layout
import Driver.Util
import Driver.Gen
import Driver.Arm
namespace Driver
open Inj Inj.Counter

def scriptOf (s : String) : List Bool := if s = "-" then [] else s.toList.map (· == 'm')

def outChar : CallOut → Char
  | CallOut.ok => 'o'
  | CallOut.panicOver => 'v'
  | CallOut.panicUnexpected => 'u'

def outsStr (os : List CallOut) : String := if os.isEmpty then "-" else String.ofList (os.map outChar)

def exitStr : ExitOut → String
  | ExitOut.ok => "ok"
  | ExitOut.panicMismatch e a => "mismatch:" ++ toString e ++ ":" ++ toString a

def countCh (c : Char) (s : String) : Nat := (s.toList.filter (· == c)).length

/-- `cnt <N> <T> <script>/<script>… | <outs>/<outs>… exit=<…>` -/
def handleCnt (args obs : List String) : Verdict :=
  match args, obs with
  | [nS, tS, scS], [outS, exS] =>
    match nS.toNat?, tS.toNat? with
    | some n, some t =>
      let scripts := (scS.splitOn "/").map scriptOf
      let outs := outS.splitOn "/"
      let ex := (exS.drop 5).toString
      let k := (scripts.map (fun s => (s.filter id).length)).foldl (· + ·) 0
      let nonm := (scripts.map (fun s => (s.filter (!·)).length)).foldl (· + ·) 0
      let cp := Generated.Layout.verifierChecksPanicking
      let modelExit := exitStr (verifierDrop cp n k false)
      let admitted := (outs.map (countCh 'o')).foldl (· + ·) 0
      let over := (outs.map (countCh 'v')).foldl (· + ·) 0
      let unexp := (outs.map (countCh 'u')).foldl (· + ·) 0
      let weird := (outs.map (fun o => countCh '?' o + countCh '!' o)).foldl (· + ·) 0
      -- property on the implementation's observations
      let pCounts := admitted == min k n && over == k - min k n && unexp == nonm && weird == 0
      let pExit := ex == (if k == n then "ok" else "mismatch:" ++ toString n ++ ":" ++ toString k)
      -- per thread: program order within a thread is preserved, so admitted calls form a prefix of
      -- that thread's matching calls
      let pPrefix := (List.zip scripts outs).all fun (s, o) =>
        let os := (if o = "-" then [] else o.toList)
        os.length == s.length &&
        (let ms := (List.zip s os).filter (·.1) |>.map (·.2)
         let rec okPrefix : List Char → Bool → Bool
           | [], _ => true
           | c :: cs, seenOver => if c == 'o' then (!seenOver) && okPrefix cs seenOver else if c == 'v' then okPrefix cs true else false
         okPrefix ms false) &&
        ((List.zip s os).filter (!·.1) |>.all (·.2 == 'u'))
      let agree :=
        if t == 1 then
          let r := runCalls n 0 (scripts.getD 0 [])
          outsStr r.1 == outS && modelExit == ex
        else modelExit == ex && pCounts
      let keys := (if pCounts then "" else " key=c06.admission-count") ++ (if pExit then "" else " key=c06.exit-verdict") ++
                  (if pPrefix then "" else " key=c06.order")
      Gen.withGen' (Gen.verifierExit n k false ex) <|
      { agree := agree, propOk := pCounts && pExit && pPrefix,
        branch := "cnt-T" ++ (if t == 1 then "1" else "n") ++ (if k > n then "+over" else if k < n then "+under" else "+exact") ++ (if nonm > 0 then "+nonmatch" else "") ++ (if n == 0 then "+N0" else ""),
        detail := (if agree then "" else "model=" ++ (if t == 1 then outsStr (runCalls n 0 (scripts.getD 0 [])).1 else "counts") ++ "," ++ modelExit) ++ keys }
    | _, _ => bad "args"
  | _, _ => bad "arity"

/-- `cnthammer <N> <T> <k> | admitted= over= exit=` -/
def handleHammer (args obs : List String) : Verdict :=
  match args with
  | [nS, _, kS] =>
    match nS.toNat?, kS.toNat? with
    | some n, some k =>
      let adm := (kv obs "admitted").bind String.toNat?
      let over := (kv obs "over").bind String.toNat?
      let ex := kv obs "exit"
      let ok := adm == some (min k n) && over == some (k - min k n) &&
                ex == some (exitStr (verifierDrop Generated.Layout.verifierChecksPanicking n k false))
      { agree := ok, propOk := ok, branch := "hammer", detail := if ok then "" else " key=c06.admission-count" }
    | _, _ => bad "args"
  | _ => bad "arity"

/-- `cntshared <N> <T> <R> | bad= first=`: T threads x R lifetimes of one shared call site, each with its
    own injector; every lifetime's call outcomes and exit verdict must be those of its own calls
    (C06_exit applied per lifetime: the verdict depends on that lifetime's k and N only). -/
def handleShared (args obs : List String) : Verdict :=
  match args with
  | [_, _, _] =>
    let ok := kv obs "bad" == some "0"
    { agree := ok, propOk := ok, branch := "shared-site", detail := if ok then "" else " key=c06.shared-site-verdict key=c07.shared-site-verdict" }
  | _ => bad "arity"

/-- `life <N> | script:outs:exit script:outs:exit …` (consecutive lifetimes of one call site).
    A script is one call string per installation of the site within the lifetime, joined by `+`
    (`mm+mx`: install, two calls, install again on another function, two calls); a trailing `!`
    marks a lifetime left by a panic raised in its body, a leading `^` one whose first installation was made
    by a destructor running while the thread unwound.  `outs` has the same shape. -/
def handleLife (args obs : List String) : Verdict :=
  match args with
  | [nS] =>
    match nS.toNat? with
    | some n =>
      let parts := obs.map (fun p => p.splitOn ":")
      let hist : List (Nat × List (List Bool) × Bool) := parts.map (fun p =>
        let sc := p.getD 0 "-"
        (n, (((sc.replace "!" "").replace "^" "").splitOn "+").map scriptOf, sc.endsWith "!"))
      let cp := Generated.Layout.verifierChecksPanicking
      let model := lifetimes Generated.Layout.counterResetOnInstall cp 0 hist
      let render := fun (r : List (List CallOut) × ExitOut) =>
        String.intercalate "+" (r.1.map outsStr) ++ ":" ++ (exitStr r.2).replace ":" ","
      let implStr := parts.map (fun p => p.getD 1 "?" ++ ":" ++ p.getD 2 "?")
      let agree := model.map render == implStr
      -- property: every installation counts from zero, every lifetime has the verdict it would have alone
      let alone := hist.map (fun l =>
        let r := runInstalls true l.1 0 l.2.1
        render (r.1, exitVerdict cp l.1 l.2.1 r.2 l.2.2))
      let pOk := alone == implStr
      let firstBad := (List.zip (List.range alone.length) (List.zip alone implStr)).find? (fun x => x.2.1 != x.2.2)
      { agree := agree, propOk := pOk,
        branch := "life" ++ (if hist.length > 4 then "+many" else "") ++ (if hist.any (·.2.2) then "+unwound" else "") ++
                  (if hist.any (·.2.1.length > 1) then "+reinstall" else "") ++
                  (if parts.any (fun p => (p.getD 0 "").startsWith "^") then "+install-while-unwinding" else ""),
        detail := (if agree then "" else "model=" ++ String.intercalate " " (model.map render)) ++
                  (match firstBad with | some (i, _) => " key=c07.lifetime-" ++ (if i == 0 then "first" else "later") | none => "") }
    | none => bad "args"
  | _ => bad "arity"

end Driver
