import InjModel.Model.X86
import Driver.Util
import Driver.Arm
namespace Driver
open Inj

def parseWords (s : String) : List Nat := (s.splitOn ",").filterMap parseHex

/-- `cc <near|far> | tr=… in=<22 words> rec=<24 words> out=<11 words>` -/
def handleCc (args obs : List String) : Verdict :=
  match args with
  | [form] =>
    let inb := parseWords ((kv obs "in").getD "")
    let recw := parseWords ((kv obs "rec").getD "")
    let out := parseWords ((kv obs "out").getD "")
    let tr := ((kv obs "tr").bind parseBytes).getD []
    if inb.length != 22 || recw.length != 24 || out.length != 11 then bad "lengths" else
    let g := fun (l : List Nat) i => l.getD i 0
    -- what the model (C13_x86: everything but rip/rax unchanged, no store) predicts the fake sees
    let intArgs := (List.range 6).all fun i => g recw i == g inb i
    let vecArgs := (List.range 8).all fun i => g recw (6 + i) == g inb (6 + i)
    let stackArgs := g recw 14 == g inb 14 && g recw 15 == g inb 15
    let calleeIn := (List.range 6).all fun i => g recw (16 + i) == g inb (16 + i)
    -- at the fake's entry rsp = caller's rsp at the call minus the pushed return address
    let rspIn := g recw 22 + 8 == g recw 23
    let rets := g out 0 == 0x1111111111111111 && g out 1 == 0x2222222222222222 &&
                g out 2 == 0x3333333333333333 && g out 3 == 0x4444444444444444
    let calleeOut := (List.range 6).all fun i => g out (4 + i) == g inb (16 + i)
    let rspOut := g out 10 == g recw 23
    let long := tr.take 2 == [0x48, 0xB8]
    let keys := (if intArgs then [] else ["c13.int-arg"]) ++ (if vecArgs then [] else ["c13.vector-arg"]) ++
                (if stackArgs && rspIn then [] else ["c13.stack-arg"]) ++ (if calleeIn && calleeOut then [] else ["c13.callee-saved"]) ++
                (if rets then [] else ["c13.return-value"]) ++ (if rspOut then [] else ["c13.stack-pointer"])
    { agree := keys.isEmpty && (long == (form == "far")), propOk := keys.isEmpty,
      branch := "cc-" ++ form ++ (if long then "+long-tramp" else "+short-tramp"),
      detail := String.join (keys.map (" key=" ++ ·)) }
  | _ => bad "arity"

/-- `ccavx <near|far> | in=<32 words> rec=<32 words>`: the eight 256-bit vector argument
    registers as the caller loaded them and as the fake received them -/
def handleCcAvx (args obs : List String) : Verdict :=
  match args with
  | [form] =>
    let inb := parseWords ((kv obs "in").getD "")
    let recw := parseWords ((kv obs "rec").getD "")
    if inb.length != 32 || recw.length != 32 then bad "lengths" else
    let ok := inb == recw
    let upperOnly := !ok && (List.range 8).all fun i => inb.getD (4 * i) 0 == recw.getD (4 * i) 1 && inb.getD (4 * i + 1) 0 == recw.getD (4 * i + 1) 1
    { agree := ok, propOk := ok, branch := "cc-avx-" ++ form ++ (if upperOnly then "+upper-halves-lost" else ""),
      detail := if ok then "" else " key=c13.vector-arg" }
  | _ => bad "arity"

def handleCcRust (_args obs : List String) : Verdict :=
  let ok := kv obs "ok" == some "1" && kv obs "restored" == some "1"
  { agree := ok, propOk := ok, branch := "cc-rust-shapes", detail := if ok then "" else " key=c13.rust-shape" }

end Driver
