import InjModel.Model.Alloc
import InjModel.Model.A64
import InjModel.Generated.Consts
import Driver.Util
import Driver.Arm
import Driver.Hist
import Driver.Gen
namespace Driver
open Inj Inj.Alloc

/-- `alloc <tag> <src> <size> | ev=… res=<addr|panic> owned=…` -/
def handleAlloc (args obs : List String) : Verdict :=
  match args with
  | [tag, sS, zS] =>
    match parseHex sS, parseHex zS, (kv obs "ev").bind parseEvs, kv obs "res" with
    | some src, some size, some evs, some res =>
      let range := Generated.Consts.linuxMaxRange
      let answers : List (Option Nat) := evs.filterMap fun e => match e with | Ev.M _ _ r => some r | _ => none
      let (mres, mevs) := search src range 4096 size answers
      let mresS := match mres with
        | AResult.ok a => hex a | AResult.panic => "panic" | AResult.stuck => "stuck"
      -- the allocator as translated from the source on this run, on the same kernel answers
      -- (skipped for the 65537-probe exhaustion scripts: the translated loop is not tail recursive)
      let genDiff : Option String :=
        if answers.length > 4000 then none else
        let (gres, gevs) := Gen.alloc src size answers
        let gcanon := gevs.map fun (k, a, b) =>
          if k == "M" then "M" ++ hex a ++ ":" ++ hex size ++ ":" ++ (if b == 18446744073709551615 then "X" else hex b)
          else "U" ++ hex a ++ ":" ++ hex b
        if gres == res && gcanon == evs.map Ev.canon then none
        else some ("translated=" ++ gres ++ ":" ++ toString gevs.length ++ "ev")
      let agree := mresS == res && mevs.map allocEvCanon == evs.map Ev.canon && genDiff.isNone
      -- property predicates on the implementation's observations
      let accepted := parseHex res
      -- within reach of both entry encodings: x86-64 rel32 and the AArch64 B (±128 MiB, word offsets)
      let reachOk : Bool := match accepted with
        | some a => if a ≥ src then decide (a - src ≤ 134217724) else decide (src - a ≤ 134217728)
        | none => res == "panic"
      -- every mapping obtained and not returned was given back, exactly once, with its own length
      let maps := evs.filterMap fun e => match e with | Ev.M _ l (some a) => some (a, l) | _ => none
      let unmaps := evs.filterMap fun e => match e with | Ev.U a l _ => some (a, l) | _ => none
      let kept := match accepted with | some a => [(a, size)] | none => []
      let balanced := maps.length == unmaps.length + kept.length &&
                      unmaps.all (fun u => maps.contains u) && kept.all (fun k => maps.contains k) &&
                      (match accepted with
                       | some a => !(unmaps.any (·.1 == a)) || (maps.filter (·.1 == a)).length > 1
                       | none => true)
      let ownedS := (kv obs "owned").getD "-"
      let ownedOk := match accepted with
        | some a => ownedS == hex a ++ ":" ++ hex size
        | none => ownedS == "-"
      let foreign := evs.any fun e => match e with | Ev.U _ _ o => !o | _ => false
      -- an exhausted search must have probed the whole window
      let keys := (if reachOk then [] else ["c11.out-of-reach"]) ++ (if balanced && ownedOk then [] else ["c11.rejected-left-mapped"]) ++
                  (if foreign then ["c11.foreign-munmap"] else []) ++ (if res.startsWith "otherpanic" then ["c11.other-panic"] else [])
      { agree := agree, propOk := keys.isEmpty,
        branch := "alloc-" ++ tag ++ (if res == "panic" then "+exhausted" else "") ++ (if unmaps.isEmpty then "" else "+rejects") ++
                  (if src < range then "+clipped" else "") ++ (if answers.any (·.isNone) then "+mapfail" else ""),
        detail := (if agree then "" else "model=" ++ mresS ++ ":" ++ toString mevs.length ++ "ev") ++
                  (match genDiff with | some w => " why=translated-function-differs:" ++ w | none => "") ++ String.join (keys.map (" key=" ++ ·)) }
    | _, _, _, _ => bad "fields"
  | _ => bad "arity"

/-- `allocinstall <t> | panicked= untouched= mprotects= owned=` -/
def handleAllocInstall (_args obs : List String) : Verdict :=
  let ok := kv obs "panicked" == some "1" && kv obs "untouched" == some "1" && kv obs "mprotects" == some "0" && kv obs "owned" == some "0"
  { agree := ok, propOk := ok, branch := "alloc-install-exhausted",
    detail := if ok then "" else (if kv obs "untouched" != some "1" then " key=c11.function-touched" else " key=c11.rejected-left-mapped") }

end Driver
