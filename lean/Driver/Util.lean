import InjModel.Model.Bytes
namespace Driver
open Inj

def hexVal (c : Char) : Option Nat :=
  if '0' ≤ c ∧ c ≤ '9' then some (c.toNat - 48)
  else if 'a' ≤ c ∧ c ≤ 'f' then some (c.toNat - 87)
  else if 'A' ≤ c ∧ c ≤ 'F' then some (c.toNat - 55)
  else none

def parseHex (s : String) : Option Nat :=
  if s.isEmpty then none else
  s.toList.foldl (fun acc c => match acc, hexVal c with
    | some a, some v => some (a * 16 + v)
    | _, _ => none) (some 0)

/-- "e9fb0f" → [0xe9, 0xfb, 0x0f]; "-" → [] -/
def parseBytes (s : String) : Option (List Nat) :=
  if s = "-" then some [] else
  let rec go : List Char → List Nat → Option (List Nat)
    | [], acc => some acc.reverse
    | [_], _ => none
    | a :: b :: rest, acc => match hexVal a, hexVal b with
      | some x, some y => go rest ((x * 16 + y) :: acc)
      | _, _ => none
  go s.toList []

def hex (n : Nat) : String := String.ofList (Nat.toDigits 16 n)

def splitBar (toks : List String) : List String × List String :=
  (toks.takeWhile (· ≠ "|"), (toks.dropWhile (· ≠ "|")).drop 1)

structure Verdict where
  agree : Bool
  propOk : Bool
  branch : String
  detail : String := ""

def Verdict.render (v : Verdict) : String :=
  (if v.agree then "agree" else "DISAGREE") ++ " prop=" ++ (if v.propOk then "ok" else "FAIL") ++
  " branch=" ++ v.branch ++ (if v.detail.isEmpty then "" else " " ++ v.detail)

def bad (why : String) : Verdict := { agree := false, propOk := true, branch := "bad-line", detail := why }

end Driver
