import InjModel.Model.X86
import Driver.Util
import Driver.Gen
namespace Driver
open Inj Inj.X86

/-- One step of a slightly wider instruction set than the model's, used only to *judge* stub
    bytes the implementation emitted (never in a proof): the model's five instructions, plus
    `mov r8, imm8` (B0+r, r < 4), `mov r32, imm32` (B8+r, zero-extending), `xor eax, eax`
    (31 C0 / 33 C0), `vzeroupper`, `nop`, and `mov r64, imm64` / `jmp r64` through any register
    (so that a branch through another scratch register is judged by what it clobbers, not as undecodable).  Anything else is undecodable. -/
def stepWide (m : Nat → Nat) (c : Cpu) : Option Cpu :=
  match step m c with
  | some c' => some c'
  | none =>
    let b0 := m c.rip
    let b1 := m (c.rip + 1)
    if 0xB0 ≤ b0 && b0 < 0xB4 then
      let r := b0 - 0xB0
      some { c with rip := c.rip + 2, gpr := setReg c.gpr r (c.gpr r / 256 * 256 + b1 % 256) }
    else if 0xB8 ≤ b0 && b0 < 0xC0 then
      let r := b0 - 0xB8
      let imm := m (c.rip + 1) + 256 * m (c.rip + 2) + 65536 * m (c.rip + 3) + 16777216 * m (c.rip + 4)
      some { c with rip := c.rip + 5, gpr := setReg c.gpr r imm }
    else if (b0 == 0x31 || b0 == 0x33) && b1 == 0xC0 then
      some { c with rip := c.rip + 2, gpr := setReg c.gpr 0 0, flags := 0x246 }
    else if b0 == 0xC5 && b1 == 0xF8 && m (c.rip + 2) == 0x77 then
      -- vzeroupper: clears the upper halves of the vector registers (not tracked here)
      some { c with rip := c.rip + 3 }
    else if b0 == 0x90 then some { c with rip := c.rip + 1 }
    else if (b0 == 0x48 || b0 == 0x49) && 0xB8 ≤ b1 && b1 < 0xC0 then
      -- REX.W (+B) B8+r io : mov r64, imm64 for any of the sixteen registers
      let r := (b1 - 0xB8) + (if b0 == 0x49 then 8 else 0)
      some { c with rip := c.rip + 10, gpr := setReg c.gpr r (rd64 m (c.rip + 2)) }
    else if b0 == 0xFF && 0xE0 ≤ b1 && b1 < 0xE8 then
      some { c with rip := c.gpr (b1 - 0xE0) }
    else if b0 == 0x41 && b1 == 0xFF && 0xE0 ≤ m (c.rip + 2) && m (c.rip + 2) < 0xE8 then
      some { c with rip := c.gpr (m (c.rip + 2) - 0xE0 + 8) }
    else none

/-- is the instruction at `a` a jump of the wide set (it ends a followed sequence wherever it lands)? -/
def isJumpWide (m : Nat → Nat) (a : Nat) : Bool :=
  m a == 0xE9 || (m a == 0xFF && 0xE0 ≤ m (a + 1) && m (a + 1) < 0xE8) ||
  (m a == 0x41 && m (a + 1) == 0xFF && 0xE0 ≤ m (a + 2) && m (a + 2) < 0xE8)

def runWide (m : Nat → Nat) : Nat → Cpu → Option Cpu
  | 0, c => some c
  | n+1, c => match stepWide m c with
    | none => none
    | some c' => if c'.rip == 0x123456789a then some c' else runWide m n c'

/-- Where control goes when the bytes `bs` placed at `a` are executed from their first byte:
    up to four instructions of the wide set, until the instruction pointer leaves the bytes.
    Used to judge emitted branches, whatever (decodable) form they take. -/
def followWideCpu (a : Nat) (bs : List Nat) (rax : Nat) : Option Cpu := Id.run do
  let m := memOfBytes a bs
  let mut c : Cpu := { rip := a, gpr := setReg (fun _ => 0) 0 rax, xmm := fun _ => 0, flags := 0 }
  for _ in [0:4] do
    let isJump := isJumpWide m c.rip
    match stepWide m c with
    | none => return none
    | some c' =>
      c := c'
      if isJump then return some c
      if !(a ≤ c.rip && c.rip < a + bs.length) then return none
  return none

/-- did the followed sequence leave every register other than rax (and rip) as it found it?
    (all start at 0 in `followWideCpu`) -/
def onlyRaxTouched (c : Cpu) : Bool :=
  (List.range 16).all (fun r => r == 0 || c.gpr r == 0) && (List.range 16).all (fun r => c.xmm r == 0) && c.flags == 0

def followWide (a : Nat) (bs : List Nat) (rax : Nat) : Option (Nat × Nat) := Id.run do
  let m := memOfBytes a bs
  let mut c : Cpu := { rip := a, gpr := setReg (fun _ => 0) 0 rax, xmm := fun _ => 0, flags := 0 }
  for _ in [0:4] do
    let isJump := isJumpWide m c.rip
    match stepWide m c with
    | none => return none
    | some c' =>
      c := c'
      -- a jump ends the sequence wherever it lands (possibly back inside these very bytes)
      if isJump then return some (c.rip, c.gpr 0)
      if !(a ≤ c.rip && c.rip < a + bs.length) then return none
  return none

/-- `x86br <d|r> <ori> <target> | ok <bytes>` / `| panic` -/
def handleX86Br (args obs : List String) : Verdict :=
  match args, obs with
  | [m, o, t], ob =>
    match parseHex o, parseHex t with
    | some ori, some target =>
      let mode := if m = "d" then Mode.debug else Mode.release
      let model := genBranch mode ori target
      match ob with
      | ["panic"] =>
        Gen.withGen' (Gen.x86Branch mode ori target none) <|
        { agree := (match model with | Res.panic _ => true | _ => false), propOk := true, branch := "panic",
          detail := (match model with | Res.ok bs => "model=ok:" ++ hexBytes bs | _ => "") }
      | ["ok", bh] =>
        match parseBytes bh with
        | none => bad "bytes"
        | some bs =>
          let dest := followWide ori bs 0x5a5a5a5a
          let pOk := (match dest with | some (d, _) => d == target | none => false)
          -- C13 on the emitted bytes themselves: control arrives at the target with nothing but rax written
          let ccOk := pOk && (match followWideCpu ori bs 0x5a5a5a5a with | some c => onlyRaxTouched c | none => false)
          let br := if bs.length = 5 then "short" else if bs.length = 12 then "long" else "other"
          let ag := (match model with | Res.ok mb => mb == bs | _ => false)
          Gen.withGen' (Gen.x86Branch mode ori target (some bs)) <|
          { agree := ag, propOk := ccOk, branch := br,
            detail := (if ag then "" else "model=" ++ (match model with | Res.ok mb => hexBytes mb | Res.panic w => "panic:" ++ w)) ++
                      (if pOk then "" else " dest=" ++ (match dest with | some (d, _) => hex d | none => "undecodable") ++ " key=c01.branch-dest") ++
                      (if ccOk then "" else " key=c13.x86-branch") }
      | _ => bad "obs"
    | _, _ => bad "args"
  | _, _ => bad "arity"

/-- `x86bool <0|1> | <bytes>` : the boolean stub as emitted.  Judged as C10 states it: control
    returns to the caller, the returned `bool` (`al`) is the requested value, the stack pointer
    is popped and the callee-saved registers are unchanged. -/
def handleX86Bool (args obs : List String) : Verdict :=
  match args, obs with
  | [v], [bh] =>
    match parseBytes bh with
    | none => bad "bytes"
    | some bs =>
      let b := v = "1"
      let model := boolStub b
      let base := 0x10000
      let stack := 0x800000
      let retaddr := 0x123456789a
      let m : Nat → Nat := fun x =>
        if base ≤ x ∧ x < base + bs.length then bs.getD (x - base) 0xCC
        else if stack ≤ x ∧ x < stack + 8 then (le64 retaddr).getD (x - stack) 0
        else 0xCC
      let c0 : Cpu := { rip := base, gpr := setReg (setReg (fun r => 0x1111 * (r + 1)) 4 stack) 0 0xdeadbeefdeadbeef,
                        xmm := fun _ => 7, flags := 0x246 }
      let r := runWide m 4 c0
      let calleeSaved := [3, 5, 12, 13, 14, 15]
      let pOk := match r with
        | some c => c.rip == retaddr && c.gpr 0 % 256 == (if b then 1 else 0) && c.gpr 4 == stack + 8 &&
                    calleeSaved.all (fun i => c.gpr i == c0.gpr i)
        | none => false
      let full := match r with | some c => c.gpr 0 == (if b then 1 else 0) | none => false
      Gen.withGen' (Gen.x86Bool b (bs.take 8)) <|
      { agree := model == bs.take 8, propOk := pOk,
        branch := (if b then "true" else "false") ++ (if pOk && !full then "+upper-bits-kept" else ""),
        detail := (if model == bs.take 8 then "" else "model=" ++ hexBytes model) ++
                  (if pOk then "" else " key=c10.stub") }
  | _, _ => bad "arity"

end Driver
