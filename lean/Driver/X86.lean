import InjModel.Model.X86
import Driver.Util
namespace Driver
open Inj Inj.X86

/-- `x86br <d|r> <ori> <target> | ok <bytes>` / `| panic` -/
def handleX86Br (args obs : List String) : Verdict :=
  match args, obs with
  | [m, o, t], ob =>
    match parseHex o, parseHex t with
    | some ori, some target =>
      let mode := if m = "d" then Mode.debug else Mode.release
      let model := genBranch mode ori target
      match ob with
      | ["panic"] =>
        { agree := (match model with | Res.panic _ => true | _ => false), propOk := true, branch := "panic",
          detail := (match model with | Res.ok bs => "model=ok:" ++ hexBytes bs | _ => "") }
      | ["ok", bh] =>
        match parseBytes bh with
        | none => bad "bytes"
        | some bs =>
          let dest := follow ori bs 0x5a5a5a5a
          let pOk := (match dest with | some (d, _) => d == target | none => false)
          let br := if bs.length = 5 then "short" else if bs.length = 12 then "long" else "other"
          let ag := (match model with | Res.ok mb => mb == bs | _ => false)
          { agree := ag, propOk := pOk, branch := br,
            detail := (if ag then "" else "model=" ++ (match model with | Res.ok mb => hexBytes mb | Res.panic w => "panic:" ++ w)) ++
                      (if pOk then "" else " dest=" ++ (match dest with | some (d, _) => hex d | none => "undecodable")) }
      | _ => bad "obs"
    | _, _ => bad "args"
  | _, _ => bad "arity"

/-- `x86bool <0|1> | <bytes>` : the boolean stub as emitted -/
def handleX86Bool (args obs : List String) : Verdict :=
  match args, obs with
  | [v], [bh] =>
    match parseBytes bh with
    | none => bad "bytes"
    | some bs =>
      let b := v = "1"
      let model := boolStub b
      -- property on the implementation's bytes: run from the stub with a return address on the stack
      let base := 0x10000
      let stack := 0x800000
      let retaddr := 0x123456789a
      let m : Nat → Nat := fun x =>
        if base ≤ x ∧ x < base + bs.length then bs.getD (x - base) 0xCC
        else if stack ≤ x ∧ x < stack + 8 then (le64 retaddr).getD (x - stack) 0
        else 0xCC
      let c0 : Cpu := { rip := base, gpr := setReg (setReg (fun r => 0x1111 * (r + 1)) 4 stack) 0 0xdeadbeefdeadbeef,
                        xmm := fun _ => 7, flags := 0x246 }
      let r := run m 2 c0
      let pOk := match r with
        | some c => c.rip == retaddr && c.gpr 0 % 256 == (if b then 1 else 0) && c.gpr 4 == stack + 8 &&
                    (List.range 16).all (fun i => i == 0 || i == 4 || c.gpr i == c0.gpr i) && c.flags == c0.flags
        | none => false
      { agree := model == bs.take 8, propOk := pOk, branch := (if b then "true" else "false"),
        detail := if model == bs.take 8 then "" else "model=" ++ hexBytes model }
  | _, _ => bad "arity"

end Driver
