import InjModel.Model.Sig
import InjModel.Model.SigText
import Driver.Util
import Driver.Arm
import Driver.Gen
namespace Driver
open Inj Inj.Sig

/-- name table: `bool` is identifier 0 (Sig.boolId); others get 1 + position -/
abbrev NameTab := List String

def nameId (ns : NameTab) (n : String) : NameTab × Nat :=
  if n == "bool" then (ns, 0) else
  match ns.findIdx? (· == n) with
  | some i => (ns, i + 1)
  | none => (ns ++ [n], ns.length + 1)

def abiId : Char → Nat
  | 'r' => 0 | 'c' => 1 | 's' => 2 | 'u' => 3 | 'v' => 4 | _ => 9

mutual
/-- prefix-notation descriptor tokens → type (see harness/hx/src/sigs.rs) -/
partial def parseTy (ns : NameTab) (toks : List String) : Option (Ty × NameTab × List String) :=
  match toks with
  | [] => none
  | t :: rest =>
    let c := t.toList.headD ' '
    let body := (t.drop 1).toString
    if c == 'P' then
      let (ns', i) := nameId ns body
      some (Ty.prim i, ns', rest)
    else if c == 'R' || c == 'Q' then
      match parseTy ns rest with
      | some (u, ns', rest') => some ((if c == 'R' then Ty.ref (body == "1") u else Ty.ptr (body == "1") u), ns', rest')
      | none => none
    else if c == 'T' then
      match parseList ns rest (body.toNat?.getD 0) with
      | some (ts, ns', rest') => some (Ty.tuple ts, ns', rest')
      | none => none
    else if c == 'S' then
      match parseTy ns rest with
      | some (u, ns', rest') => some (Ty.slice u, ns', rest')
      | none => none
    else if c == 'A' then
      match parseTy ns rest with
      | some (u, ns', rest') => some (Ty.array u (body.toNat?.getD 0), ns', rest')
      | none => none
    else if c == 'G' then
      -- G<path>:<n>  (the path itself contains "::", so split at the last ':')
      let parts := body.splitOn ":"
      let n := (parts.getLast?.getD "0").toNat?.getD 0
      let name := String.intercalate ":" (parts.dropLast)
      let (ns1, i) := nameId ns name
      match parseList ns1 rest n with
      | some (ts, ns', rest') => some (Ty.app i ts, ns', rest')
      | none => none
    else if c == 'F' then
      match parseFn ns toks with
      | some (f, ns', rest') => some (Ty.fn_ f, ns', rest')
      | none => none
    else if c == 'D' then
      match parseList ns rest (body.toNat?.getD 0) with
      | some (ps, ns', rest') =>
        match parseTy ns' rest' with
        | some (r, ns'', rest'') => some (Ty.dynfn ps r, ns'', rest'')
        | none => none
      | none => none
    else none
partial def parseList (ns : NameTab) (toks : List String) (n : Nat) : Option (TyList × NameTab × List String) :=
  if n == 0 then some (TyList.nil, ns, toks) else
  match parseTy ns toks with
  | some (t, ns', rest) =>
    match parseList ns' rest (n - 1) with
    | some (ts, ns'', rest') => some (TyList.cons t ts, ns'', rest')
    | none => none
  | none => none
/-- F<u><abi>:<n> params… ret -/
partial def parseFn (ns : NameTab) (toks : List String) : Option (FnTy × NameTab × List String) :=
  match toks with
  | t :: rest =>
    let cs := t.toList
    if cs.headD ' ' != 'F' then none else
    let u := cs.getD 1 '0' == '1'
    let abi := abiId (cs.getD 2 'r')
    let n := ((t.splitOn ":").getD 1 "0").toNat?.getD 0
    match parseList ns rest n with
    | some (ps, ns', rest') =>
      match parseTy ns' rest' with
      | some (r, ns'', rest'') => some (FnTy.mk u abi ps r, ns'', rest'')
      | none => none
    | none => none
  | [] => none
end

def parseDescr (ns : NameTab) (d : String) : Option (FnTy × NameTab) :=
  match parseFn ns (d.splitOn ".") with
  | some (f, ns', []) => some (f, ns')
  | _ => none

def nameOf (ns : NameTab) (i : Nat) : String :=
  if i == 0 then "bool" else if i == 9999 then "core::ops::function::Fn" else ns.getD (i - 1) "?"

/-- spell a token list the way rustc spaces `type_name` output: the *model's* `Sig.spellC` (the function
    `Props/C10.C10_gate_text` is about), with this run's name table; `sigty` lines compare it with rustc -/
def spell (ns : NameTab) (toks : List Tok) : String :=
  String.ofList (Sig.spellC
    { id := fun n => (nameOf ns n).toList, num := fun n => (toString n).toList,
      abi := fun a => (if a == 1 then "C" else if a == 2 then "system" else if a == 3 then "C-unwind" else if a == 4 then "system-unwind" else "?").toList } toks)

/-- `sigty <idx> <descr> | raw=… canon=…` : the model's rendering vs rustc's -/
def handleSigTy (args obs : List String) : Verdict :=
  match args with
  | [_, d] =>
    match parseDescr [] d with
    | some (f, ns) =>
      let m := spell ns (renderFn f)
      let c := ((kv obs "canon").getD "").replace "~" " "
      { agree := m == c, propOk := true, branch := "sigty", detail := if m == c then "" else "model=" ++ m.replace " " "~" }
    | none => bad "descr"
  | _ => bad "arity"

/-- `sigpair <form> <descr_a> <descr_b> | accept|sigpanic|… restored= guards= lv=` -/
def handleSigPair (args obs : List String) : Verdict :=
  match args with
  | [form, da, db] =>
    match parseDescr [] da with
    | some (fa, ns1) =>
      match parseDescr ns1 db with
      | some (fb, _) =>
        let ra := renderFn fa
        let rb := renderFn fb
        let mAccept := gate ra rb
        let out := obs.headD "?"
        let lv := kv obs "lv" == some "1"
        let agree := lv || (out == (if mAccept then "accept" else "sigpanic"))
        -- property: identical writing accepted; structurally different refused with a signature panic,
        -- before anything is modified
        let same := da == db
        -- `os` = OS calls the library made during the attempt: a refusal must precede all of them
        let untouched := kv obs "restored" == some "1" && kv obs "guards" == some "0" &&
                         (kv obs "os" == none || kv obs "os" == some "0")
        let pOk := lv || ((if same then out == "accept" else out == "sigpanic") && (out == "accept" || untouched))
        -- the gate as translated, on the two texts as spelled (not for pairs that differ in lifetimes only:
        -- their recorded texts are rustc's, with lifetimes)
        let ns2 := (parseDescr ns1 db).map (·.2) |>.getD ns1
        Gen.withGen' (if lv then none else Gen.sigGate false (spell ns2 ra) (spell ns2 rb) out) <|
        { agree := agree, propOk := pOk,
          branch := "sigpair-" ++ form ++ (if lv then "+lifetime-only" else if same then "+same" else "+different"),
          detail := (if agree then "" else "model=" ++ (if mAccept then "accept" else "refuse")) ++
                    (if pOk then "" else (if same then " key=c09.identical-refused" else if out == "accept" then " key=c09.different-accepted" else " key=c09.refusal-modified-or-wrong-panic")) }
      | none => bad "descr-b"
    | none => bad "descr-a"
  | _ => bad "arity"

/-- `sigmix <which> <descr> | sigpanic` -/
def handleSigMix (args obs : List String) : Verdict :=
  match args with
  | [which, d] =>
    match parseDescr [] d with
    | some (f, _) =>
      let m := if which == "typed-unchecked" then gate (renderFn f) [] else gate [] (renderFn f)
      let out := obs.headD "?"
      { agree := out == (if m then "accept" else "sigpanic"), propOk := out == "sigpanic", branch := "sigmix-" ++ which,
        detail := if out == "sigpanic" then "" else " key=c09.unchecked-mix-accepted" }
    | none => bad "descr"
  | _ => bad "arity"

def handleSigNull (args obs : List String) : Verdict :=
  let ok := obs.headD "?" == "nullpanic" && (args != ["replacement"] || kv obs "restored" == some "1")
  { agree := ok, propOk := ok, branch := "signull", detail := if ok then "" else " key=c09.null-accepted" }

/-- `sigasync <T> <U> | accept|sigpanic` — the gate compares `fn() -> Poll<T>` with `fn() -> Poll<U>` -/
def handleSigAsync (args obs : List String) : Verdict :=
  match args with
  | [t, u] =>
    let poll := fun (n : Nat) => FnTy.mk false 0 TyList.nil (Ty.app 7 (TyList.cons (Ty.prim n) TyList.nil))
    let names := ["unit", "bool", "i32", "u32", "String", "pair"]
    let it := (names.findIdx? (· == t)).getD 99
    let iu := (names.findIdx? (· == u)).getD 99
    let m := gate (renderFn (poll it)) (renderFn (poll iu))
    let out := obs.headD "?"
    let want := if t == u then "accept" else "sigpanic"
    Gen.withGen' (Gen.sigGate true (spell ["T1", "T2", "T3", "T4", "T5", "T6", "Poll"] (renderFn (poll it))) (spell ["T1", "T2", "T3", "T4", "T5", "T6", "Poll"] (renderFn (poll iu))) out) <|
    { agree := out == (if m then "accept" else "sigpanic"), propOk := out == want,
      branch := "sigasync" ++ (if t == u then "+same" else "+different"),
      detail := if out == want then "" else (if t == u then " key=c09.async-identical-refused" else " key=c09.async-different-accepted") }
  | _ => bad "arity"

/-- `boolgate <descr|-> | accept|sigpanic restored=` (C10) -/
def handleBoolGate (args obs : List String) : Verdict :=
  match args with
  | [d] =>
    let out := obs.headD "?"
    if d == "-" then
      { agree := out == (if boolGate [] then "accept" else "sigpanic"), propOk := out == "sigpanic", branch := "boolgate-unchecked",
        detail := if out == "sigpanic" then "" else " key=c10.gate-unchecked-accepted" }
    else
    match parseDescr [] d with
    | some (f, _) =>
      let m := boolGate (renderFn f)
      let isBool := match f.ret with | Ty.prim 0 => true | _ => false
      let want := if isBool then "accept" else "sigpanic"
      let pOk := out == want && (out == "accept" || (kv obs "restored" == some "1" && (kv obs "os" == none || kv obs "os" == some "0")))
      Gen.withGen' (Gen.sigBool (spell (parseDescr [] d |>.map (·.2) |>.getD []) (renderFn f)) out) <|
      { agree := out == (if m then "accept" else "sigpanic"), propOk := pOk,
        branch := "boolgate" ++ (if isBool then "+bool" else "+other"),
        detail := (if out == (if m then "accept" else "sigpanic") then "" else "model=" ++ toString m) ++
                  (if pOk then "" else (if isBool then " key=c10.gate-bool-refused" else " key=c10.gate-nonbool-accepted")) }
    | none => bad "descr"
  | _ => bad "arity"

/-- `boolstr <codes> | accept|sigpanic`: the forced-boolean gate on an arbitrary token string
    (f fn, ( ), > arrow, b bool, u u8, `,` comma, & amp, e a non-ASCII identifier).  Agreement is with the gate the
    translator read; the property side is the top-level-return-type scan itself. -/
def handleBoolStr (args obs : List String) : Verdict :=
  match args with
  | [codes] =>
    let toks : List Tok := codes.toList.filterMap fun c =>
      if c == 'f' then some Tok.fn_ else if c == '(' then some Tok.lp else if c == ')' then some Tok.rp
      else if c == '>' then some Tok.arrow else if c == 'b' then some (Tok.id boolId) else if c == 'u' then some (Tok.id 1)
      else if c == ',' then some Tok.comma else if c == '&' || c == 'q' then some Tok.amp else if c == 'e' then some (Tok.id 2) else none
    if toks.length != codes.length then bad "codes" else
    let out := obs.headD "?"
    let m := if boolGate toks then "accept" else "sigpanic"
    let want := if boolGateTopLevel toks then "accept" else "sigpanic"
    -- the text the harness recorded for this code string (harness/hx/src/sigs.rs, same alphabet)
    let text := String.join (codes.toList.map fun c =>
      if c == 'f' then "fn" else if c == '(' then "(" else if c == ')' then ")" else if c == '>' then " -> "
      else if c == 'b' then "bool" else if c == 'u' then "u8" else if c == ',' then ", " else if c == '&' then "&" else if c == 'q' then "&'_ " else "é")
    Gen.withGen' (Gen.sigBool text out) <|
    { agree := out == m, propOk := out == want,
      branch := "boolstr" ++ (if want == "accept" then "+accept" else "+refuse"),
      detail := (if out == m then "" else "model=" ++ m) ++
                (if out == want then "" else (if want == "accept" then " key=c10.gate-bool-refused" else " key=c10.gate-nonbool-accepted")) }
  | _ => bad "arity"

end Driver
