import InjModel.Model.Lock
import Driver.Util
import Driver.Arm
namespace Driver
open Inj Inj.Lock

/-- complete the release of whoever is letting go (its micro-steps are not in the log: the real
    release finished before anybody else could acquire) -/
def finishReleases (p : Params) (s : LState) (threads : Nat) : LState := Id.run do
  let mut s := s
  for t in List.range threads do
    match s.pcs t with
    | Pc.releasing _ _ rest _ =>
      for _ in List.range (rest.length + 1) do
        match step p s (Action.micro t) with
        | some s' => s := s'
        | none => pure ()
    | _ => pure ()
  return s

/-- rebuild the per-thread table so that the closure chain of `setPc` does not grow -/
def compact (s : LState) (threads : Nat) : LState :=
  let arr := ((List.range threads).map s.pcs).toArray
  { s with pcs := fun x => arr.getD x Pc.idle }

/-- `thr <T> <iters> | viol= dead= after= ev=A0i,C0:0,I0,C0:1,R0d,…` -/
def handleThr (args obs : List String) : Verdict := Id.run do
  match args with
  | [tS, _] =>
    let threads := tS.toNat?.getD 0
    let p := srcParams
    let evs := ((kv obs "ev").getD "").splitOn ","
    let mut s := init
    let mut agree := true
    let mut why := ""
    let mut keys : List String := []
    let mut nAcq := 0
    let mut nPanicRel := 0
    let mut nVerifRel := 0
    let mut nInj := 0
    let mut handovers := 0     -- acquisitions by a thread other than the previous holder
    let mut last : Option Nat := none
    for e in evs do
      if e.isEmpty then continue
      s := compact s threads
      let c := e.toList.headD ' '
      let body := (e.drop 1).toString
      if c == 'A' then
        let k := if body.endsWith "i" then Kind.injector else Kind.preventer
        let t := (body.dropEnd 1).toString.toNat?.getD 0
        -- anybody still *holding* (not letting go) when another thread gets in: exclusion broken
        let holder := (List.range threads).find? (fun u => match s.pcs u with | Pc.holding _ _ => true | _ => false)
        if holder.isSome then keys := keys ++ ["c04.exclusion"]
        s := finishReleases p s threads
        match step p s (Action.acquire t k) with
        | some s' => s := s'
        | none => agree := false; if why == "" then why := "acquire-not-enabled:" ++ e
        nAcq := nAcq + 1
        if k == Kind.injector then nInj := nInj + 1
        if last.isSome && last != some t then handovers := handovers + 1
        last := some t
      else if c == 'I' then
        let t := body.toNat?.getD 0
        match step p s (Action.install t) with
        | some s' => s := s'
        | none => agree := false; if why == "" then why := "install-not-enabled:" ++ e
      else if c == 'C' then
        match body.splitOn ":" with
        | [tS', vS] =>
          let t := tS'.toNat?.getD 0
          let v := vS.toNat?.getD 999
          let modelV := match s.fn with | none => 0 | some u => u + 1
          if v != modelV then
            agree := false; if why == "" then why := "call:" ++ e ++ ":model=" ++ toString modelV
          -- property on the observation itself
          match s.pcs t with
          | Pc.holding Kind.preventer _ => if v != 0 then keys := keys ++ ["c04.preventer-saw-fake"]
          | Pc.holding Kind.injector true => if v != t + 1 then keys := keys ++ ["c04.injector-saw-other"]
          | Pc.holding Kind.injector false => if v != 0 then keys := keys ++ ["c04.injector-saw-stale-fake"]
          | _ => keys := keys ++ ["c04.call-outside-guard"]
        | _ => agree := false
      else if c == 'R' then
        let how := if body.endsWith "p" then How.panic else How.drop
        let t := (body.dropEnd 1).toString.toNat?.getD 0
        if how == How.panic then nPanicRel := nPanicRel + 1
        -- `v`: normal scope exit whose call-count verification panics; when the source drops the
        -- verifiers inside `Drop::drop`, the rest of that body is skipped (first panic path)
        let alt : Option Nat := if body.endsWith "v" && !p.injectorPanicPaths.isEmpty then some 0 else none
        if body.endsWith "v" then nVerifRel := nVerifRel + 1
        match step p s (Action.beginRelease t how alt) with
        | some s' => s := s'
        | none => agree := false; if why == "" then why := "release-not-enabled:" ++ e
      else agree := false
    if obs.contains "CRASH" then
      return { agree := false, propOk := false, branch := "thr-crash", detail := "why=process-died key=c04.crash" }
    if kv obs "viol" != some "0" then keys := keys ++ ["c04.exclusion"]
    if kv obs "dead" != some "0" then keys := keys ++ ["c04.thread-died"]
    if kv obs "after" != some "0" then keys := keys ++ ["c04.fake-left-behind"]
    let ukeys := keys.eraseDups
    return { agree := agree, propOk := ukeys.isEmpty,
             branch := "thr-T" ++ toString threads ++ (if handovers > 0 then "+handover" else "") ++ (if nPanicRel > 0 then "+unwind" else "") ++ (if nVerifRel > 0 then "+verifpanic" else ""),
             detail := "acq=" ++ toString nAcq ++ " handovers=" ++ toString handovers ++ (if agree then "" else " why=" ++ why) ++
                       String.join (ukeys.map (" key=" ++ ·)) }
  | _ => return bad "arity"

/-- `thrq 1 | faked= restorepanic= handover=`: a scope exit whose restore panics (mprotect refused); whatever
    else happens, a waiting thread must get its turn (C04's hand-over clause) -/
def handleThrQ (obs : List String) : Verdict :=
  let crash := obs.any (·.startsWith "CRASH")
  let ok := !crash && kv obs "handover" == some "1"
  { agree := !crash && kv obs "faked" == some "1" && kv obs "restorepanic" == some "1", propOk := ok,
    branch := "thrq", detail := if ok then "" else (if crash then " key=c04.crash" else " key=c04.handover-after-failed-restore") }

end Driver
