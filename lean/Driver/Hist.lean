import InjModel.Model.Machine
import InjModel.Model.Alloc
import InjModel.Generated.Layout
import InjModel.Model.Panic
import Driver.Util
import Driver.X86
import Driver.Arm
/-!
  `hist` lines: one install/drop history run through the public API on x86-64.
  The driver replays the same operations through Model/Machine (+ Model/Alloc for the
  trampoline search, fed with the kernel's answers as the oracle script), compares every
  observation, and evaluates the property predicates of C01/C02/C03/C12/C17 on the
  implementation's observations.
-/
namespace Driver
open Inj Inj.Machine

inductive Ev where
  | M (hint len : Nat) (ret : Option Nat)
  | U (addr len : Nat) (owned : Bool)
  | P (addr len : Nat) (ret : Nat)
  | F (lo hi : Nat) (snap : List Nat)
  deriving Repr

def Ev.canon : Ev → String
  | Ev.M h l r => "M" ++ hex h ++ ":" ++ hex l ++ ":" ++ (match r with | some a => hex a | none => "X")
  | Ev.U a l _ => "U" ++ hex a ++ ":" ++ hex l
  | Ev.P a l _ => "P" ++ hex a ++ ":" ++ hex l
  | Ev.F lo hi _ => "F" ++ hex lo ++ ":" ++ hex hi

def parseEv (t : String) : Option Ev :=
  let body := (t.drop 1).toString
  let parts := body.splitOn ":"
  match t.toList.head?, parts with
  | some 'M', [h, l, r] => do
    let h ← parseHex h; let l ← parseHex l
    if r = "X" then pure (Ev.M h l none) else do let r ← parseHex r; pure (Ev.M h l (some r))
  | some 'U', [a, l, o] => do let a ← parseHex a; let l ← parseHex l; pure (Ev.U a l (o = "1"))
  | some 'P', [a, l, r, _] => do let a ← parseHex a; let l ← parseHex l; pure (Ev.P a l (if r = "0" then 0 else 1))
  | some 'F', [lo, hi, s] => do let lo ← parseHex lo; let hi ← parseHex hi; let s ← parseBytes s; pure (Ev.F lo hi s)
  | _, _ => none

def parseEvs (s : String) : Option (List Ev) :=
  if s = "-" then some [] else (s.splitOn ",").mapM parseEv

def modelEvCanon : Event → Option String
  | Event.mmap _ _ => none           -- reported through the allocator's events
  | Event.munmap a n => some ("U" ++ hex a ++ ":" ++ hex n)
  | Event.mprotect a n => some ("P" ++ hex a ++ ":" ++ hex n)
  | Event.write _ _ => none          -- raw copies are not observable as calls
  | Event.flush lo hi => some ("F" ++ hex lo ++ ":" ++ hex hi)
  | Event.ret => none

def allocEvCanon : Alloc.AEvent → String
  | Alloc.AEvent.mmap h l r => "M" ++ hex h ++ ":" ++ hex l ++ ":" ++ (match r with | some a => hex a | none => "X")
  | Alloc.AEvent.munmap a l => "U" ++ hex a ++ ":" ++ hex l

structure HTarget where
  addr : Nat
  k : Nat
  init : List Nat

structure HSt where
  ms : MState
  targets : List HTarget
  /-- code arenas of the harness (base, length): memory the library never allocated -/
  arenas : List (Nat × Nat) := []
  /-- target index ↦ value a call must return now (newest first) -/
  latest : List (Nat × Nat) := []
  named : List Nat := []
  mode : Mode
  marker : String := ""
  agree : Bool := true
  why : String := ""
  keys : List String := []
  tags : List String := []
  installs : Nat := 0
  /-- counted installations of this lifetime whose expectation cannot be met (`times: 1000000`) -/
  unmet : Nat := 0

def HSt.disagree (s : HSt) (w : String) : HSt :=
  if s.agree then { s with agree := false, why := w } else s

def HSt.fail (s : HSt) (k : String) : HSt :=
  if s.keys.contains k then s else { s with keys := s.keys ++ [k] }

def HSt.tag (s : HSt) (t : String) : HSt :=
  if s.tags.contains t then s else { s with tags := s.tags ++ [t] }

def splitSections (toks : List String) : List (List String) :=
  let rec go : List String → List String → List (List String) → List (List String)
    | [], cur, acc => (cur.reverse :: acc).reverse
    | t :: ts, cur, acc => if t = ";" then go ts [] (cur.reverse :: acc) else go ts (t :: cur) acc
  go toks [] []

def parseTarget (t : String) : Option HTarget :=
  -- T<i>=<addr>:<k>:<bytes>
  match (t.splitOn "=") with
  | [_, rhs] =>
    match rhs.splitOn ":" with
    | [a, k, b] => do let a ← parseHex a; let k ← parseHex k; let b ← parseBytes b; pure { addr := a, k := k, init := b }
    | _ => none
  | _ => none

def initMem (ts : List HTarget) : Mem := fun x =>
  match ts.find? (fun t => t.addr ≤ x ∧ x < t.addr + t.init.length) with
  | some t => t.init.getD (x - t.addr) 0xCC
  | none => 0xCC

def slotsOf (m : Mem) (ts : List HTarget) : List (List Nat) := ts.map (fun t => readMem m t.addr 16)

def parseArena (t : String) : Option (Nat × Nat) :=
  if t.startsWith "AR=" then
    match ((t.drop 3).toString.splitOn ":") with
    | [a, l] => do let a ← parseHex a; let l ← parseHex l; pure (a, l)
    | _ => none
  else none

/-- a `munmap` of a range the library did not map itself that overlaps known code -/
def foreignUnmapHitsCode (arenas : List (Nat × Nat)) (evs : List Ev) : Bool :=
  evs.any fun e => match e with
    | Ev.U a l false => arenas.any (fun (b, n) => decide (a < b + n) && decide (b < a + (max l 1 + 4095) / 4096 * 4096))
    | _ => false

def parseSlots (s : String) : Option (List (List Nat)) := (s.splitOn ",").mapM parseBytes

def parseCalls (s : String) : List (Option Nat) := (s.splitOn ",").map (fun x => if x = "-" then none else parseHex x)

/-- does some flush cover `[a, a+bs.length)` with a snapshot equal to `bs` there? -/
def flushCovers (evs : List Ev) (a : Nat) (bs : List Nat) : Bool :=
  evs.any fun e => match e with
    | Ev.F lo hi snap => lo ≤ a && a + bs.length ≤ hi && (snap.drop (a - lo)).take bs.length == bs
    | _ => false

/-- the last flush that covers byte `x` must already hold its final value `v` -/
def lastFlushHolds (evs : List Ev) (x v : Nat) : Bool :=
  match evs.reverse.find? (fun e => match e with | Ev.F lo hi _ => lo ≤ x && x < hi | _ => false) with
  | some (Ev.F lo _ snap) => snap.getD (x - lo) 0x100 == v
  | _ => false

def dropOrder : DropOrder :=
  match Generated.Layout.guardDropOrder with
  | Generated.Layout.DropOrderSrc.explicitNewestFirst => DropOrder.newestFirst
  | _ => DropOrder.oldestFirst

/-- follow the implementation's bytes: entry slot → trampoline → destination -/
def followImpl (func : Nat) (slot : List Nat) (jit : Nat) (tr : List Nat) : Option Nat :=
  match followWide func slot 0 with
  | some (d1, _) =>
    if d1 == jit then (followWide jit tr 0).map (·.1) else some d1
  | none => none

/-- value a call of target `i` must return now: its latest fake's, else — for a stub whose whole
    entry is `jmp rel32` to another target of the history — whatever that target returns now,
    else its own constant -/
def expectCall (s : HSt) (i : Nat) : Nat :=
  match s.latest.find? (·.1 == i) with
  | some (_, v) => v
  | none =>
    let t := s.targets.getD i { addr := 0, k := 0, init := [] }
    if t.init.take 1 == [0xE9] then
      let rel := t.init.getD 1 0 + 256 * t.init.getD 2 0 + 65536 * t.init.getD 3 0 + 16777216 * t.init.getD 4 0
      let dest := (t.addr + 5 + rel) % 4294967296 + t.addr / 4294967296 * 4294967296
      match s.targets.findIdx? (·.addr == dest) with
      | some j =>
        if j == i then t.k else
        (match s.latest.find? (·.1 == j) with
         | some (_, v) => v
         | none => t.k)
      | none => t.k
    else t.k

/-- common checks after any operation: slots vs model, frame, calls -/
def checkAfter (s : HSt) (obs : List String) (phase : String) : HSt := Id.run do
  let mut s := s
  match (kv obs "sl").bind parseSlots with
  | some sl =>
    let msl := slotsOf s.ms.mem s.targets
    if sl != msl then s := s.disagree (phase ++ ":slots")
    -- C03: targets never named keep their original bytes
    for i in List.range s.targets.length do
      if !s.named.contains i then
        if sl.getD i [] != (s.targets.getD i { addr := 0, k := 0, init := [] }).init then s := s.fail "c03.neighbour-bytes"
  | none => s := s.disagree (phase ++ ":no-slots")
  if kv obs "frame" != some "1" then s := s.fail "c03.frame"
  match kv obs "call" with
  | some cs =>
    let calls := parseCalls cs
    for i in List.range s.targets.length do
      match calls.getD i none with
      | some v =>
        if v != expectCall s i then
          s := s.fail (if phase == "drop" then "c02.call-after-drop" else "c02.latest-wins")
      | none => pure ()
  | none => pure ()
  return s

def doInstall (s : HSt) (hdr obs : List String) : HSt := Id.run do
  let mut s := { s with installs := s.installs + 1 }
  -- hdr: ["I", kind, t, a, b]
  let (kind, ti, a, b) := match hdr with
    | [_, k, t, a, b] => (k, t.toNat?.getD 0, (parseHex a).getD 0, (parseHex b).getD 0)
    | _ => ("?", 0, 0, 0)
  let tgt := s.targets.getD ti { addr := 0, k := 0, init := [] }
  let payload := if kind = "b" then Payload.bool (a == 1) else Payload.exec a
  if s.named.contains ti then s := s.tag "rep"
  s := { s with named := if s.named.contains ti then s.named else ti :: s.named }
  if tgt.addr % 4096 + 5 > 4096 then s := s.tag "cross"
  let evs := ((kv obs "ev").bind parseEvs).getD []
  let before := s.ms
  match obs.head? with
  | some "ok" =>
    -- ---- property predicates on the implementation's own observations (independent of what
    -- the model predicts): guard as reported, entry bytes, trampoline bytes, OS-call log
    let gobs := ((kv obs "g").getD "").splitOn ":"
    let ojit := (gobs[2]? >>= parseHex).getD 0
    let oplen := (gobs[1]? >>= String.toNat?).getD 0
    let tr := ((kv obs "tr").bind parseBytes).getD []
    let slot := ((kv obs "sl").bind parseSlots).getD [] |>.getD ti []
    -- C01: the entry bytes, followed through the trampoline, reach the fake
    if kind != "b" then
      if followImpl tgt.addr slot ojit tr != some a then s := s.fail "c01.follow"
    else
      if (followWide tgt.addr slot 0).map (·.1) != some ojit then s := s.fail "c01.follow"
    -- C17: both written ranges flushed with their final content
    if !flushCovers evs ojit (tr.take (if kind = "b" then 8 else (if tr.take 1 == [0xE9] then 5 else 12))) then s := s.fail "c17.tramp-flush"
    if !flushCovers evs tgt.addr (slot.take oplen) then s := s.fail "c17.entry-flush"
    -- C01: the entry may point at the trampoline only once the trampoline holds its code: the
    -- trampoline's flush (issued right after it is written) must precede the entry's
    let idxOf := fun (a : Nat) => (List.zip (List.range evs.length) evs).find? (fun p => match p.2 with | Ev.F lo hi _ => lo ≤ a && a < hi | _ => false) |>.map (·.1)
    match idxOf ojit, idxOf tgt.addr with
    | some it, some ie => if ie < it then s := s.fail "c01.entry-before-trampoline"
    | _, _ => pure ()
    -- C12: every munmap targets something the library mapped itself
    if evs.any (fun e => match e with | Ev.U _ _ o => !o | _ => false) then s := s.fail "c12.foreign-munmap"
    if foreignUnmapHitsCode s.arenas evs then s := s.fail "c03.unmapped-foreign-code"
    -- allocator: oracle answers = what the kernel returned
    let answers : List (Option Nat) := evs.filterMap fun e => match e with | Ev.M _ _ r => some r | _ => none
    let (ares, aevs) := Alloc.search tgt.addr Generated.Consts.linuxMaxRange 4096 payload.jitSize answers
    match ares with
    | Alloc.AResult.ok jit =>
      if answers.length > 1 then s := s.tag "retry"
      match installX86 s.mode s.ms tgt.addr payload jit with
      | some ms' =>
        let newEvs := (ms'.log.take (ms'.log.length - before.log.length)).reverse
        let mcanon := aevs.map allocEvCanon ++ newEvs.filterMap modelEvCanon
        if mcanon != evs.map Ev.canon then
          s := s.disagree ("install:events model=" ++ String.intercalate "," (mcanon.drop (mcanon.length - 4)))
        s := { s with ms := ms', latest := (ti, b) :: s.latest, unmet := s.unmet + (if kind == "x5" then 1 else 0) }
        let g := ms'.guards.getLast?.getD { addr := 0, saved := [], patchLen := 0, jit := 0, jitLen := 0 }
        let gs := hex g.addr ++ ":" ++ toString g.patchLen ++ ":" ++ hex g.jit ++ ":" ++ toString g.jitLen ++ ":" ++ hexBytes g.saved
        if kv obs "g" != some gs then s := s.disagree ("install:guard model=" ++ gs)
        if tr != readMem ms'.mem jit g.jitLen then s := s.disagree "install:tramp"
        if g.patchLen == 12 then s := s.tag "long-entry"
        if kind != "b" && tr.take 2 == [0x48, 0xB8] then s := s.tag "long-tramp"
        if kv obs "live" != some (toString ms'.maps.length) then s := s.fail "c12.live-count"
        s := checkAfter s obs "install"
      | none => s := s.disagree "install:model-panics"
    | _ => s := s.disagree "install:alloc-model"
  | some "noguard" =>
    -- accepted without adding a guard: judged by what the named function returns from now on
    -- (the payload's value: the requested boolean, or whatever the fake returns)
    s := s.tag "noguard"
    s := s.disagree "install:no-guard-added"
    s := { s with latest := (ti, b) :: s.latest }
    match kv obs "call" with
    | some cs =>
      match (parseCalls cs).getD ti none with
      | some v => if v != expectCall s ti then s := s.fail (if kind == "b" then "c10.forced-value" else "c01.install-without-effect")
      | none => pure ()
    | none => pure ()
  | some p =>
    if p.startsWith "panic=" then
      s := s.tag "refused"
      s := s.disagree ("install:impl-" ++ p)
      -- a refused installation leaves everything as it was
      let sl := (kv obs "sl").bind parseSlots
      if sl != some (slotsOf before.mem s.targets) then s := s.fail "c05.refused-wrote"
      if kv obs "guards" != some "0" then s := s.fail "c05.refused-guard"
    else s := s.disagree "install:obs"
  | none => s := s.disagree "install:empty"
  return s

def doDrop (s : HSt) (obs : List String) (unwinding : Bool) (verifPanicked : Bool) : HSt := Id.run do
  let mut s := s
  if unwinding then s := s.tag "unwind"
  if s.unmet > 0 then s := s.tag "unmet"
  let evs := ((kv obs "ev").bind parseEvs).getD []
  let before := s.ms
  -- two-phase release as the language prescribes, along the `Drop` body and field order read
  -- from the source, with the pending expectations of this lifetime
  let ex := Panic.scopeExit2 dropOrder Generated.Layout.verifierChecksPanicking Generated.Layout.injectorDropBody
    Generated.Layout.injectorFields ⟨s.ms, List.replicate s.unmet (1000000, 0), unwinding⟩
  let ms' := ex.ms
  if ex.abort then s := s.disagree "drop:model-aborts"
  if (ex.newPanics > 0) != verifPanicked then s := s.disagree "drop:verification-panic"
  -- C06/C02: at a normal scope exit an unmet expectation must be reported, and only then
  if !unwinding && (s.unmet > 0) != verifPanicked then s := s.fail "c06.exit-verdict"
  let newEvs := (ms'.log.take (ms'.log.length - before.log.length)).reverse
  let mcanon := newEvs.filterMap modelEvCanon
  if mcanon != evs.map Ev.canon then s := s.disagree "drop:events"
  s := { s with ms := ms', latest := [], unmet := 0 }
  s := checkAfter s obs "drop"
  -- C02: byte-for-byte restoration
  match (kv obs "sl").bind parseSlots with
  | some sl => if sl != s.targets.map (·.init) then s := s.fail "c02.restore-bytes"
  | none => pure ()
  -- C12
  if kv obs "owned" != some "0" then s := s.fail "c12.leak"
  if kv obs "maps" != some "0" then s := s.fail "c12.maps-balance"
  if evs.any (fun e => match e with | Ev.U _ _ o => !o | _ => false) then s := s.fail "c12.foreign-munmap"
  -- C03: a restore must not ask the kernel to unmap code the library never allocated
  if foreignUnmapHitsCode s.arenas evs then s := s.fail "c03.unmapped-foreign-code"
  let unmaps := evs.filterMap fun e => match e with | Ev.U a l _ => some (a, l) | _ => none
  if unmaps != (match dropOrder with | DropOrder.newestFirst => before.guards.reverse | DropOrder.oldestFirst => before.guards).map (fun (g : Guard) => (g.jit, g.jitLen)) then
    s := s.fail "c12.once"
  -- C03
  if kv obs "text" != some "1" then s := s.fail "c03.text"
  -- C17: every restored range is flushed holding its final (restored) content
  for g in before.guards do
    match s.targets.find? (·.addr == g.addr) with
    | some t =>
      for j in List.range g.patchLen do
        if !lastFlushHolds evs (g.addr + j) (t.init.getD j 0) then s := s.fail "c17.restore-flush"
    | none => pure ()
  if ms'.fault then s := s.disagree "drop:model-fault"
  return s

def handleHist (toks : List String) : Verdict := Id.run do
  -- toks: everything after "hist"
  let secs := splitSections toks
  match secs with
  | [] => return bad "empty"
  | hdr :: ops =>
    let mode := if hdr.head? == some "d" then Mode.debug else Mode.release
    let targets := (hdr.drop 1).filterMap parseTarget
    let arenas := (hdr.drop 1).filterMap parseArena
    let ms0 : MState := { mem := initMem targets, writable := fun _ => false, maps := [], guards := [], log := [], fault := false }
    let mut s : HSt := { ms := ms0, targets := targets, arenas := arenas, mode := mode }
    if targets.isEmpty && !(ops.any (fun o => o.head? == some "CRASH")) then return bad "no-targets"
    for op in ops do
      match op with
      | [] => pure ()
      | t :: rest =>
        if t.startsWith "@" then s := { s with marker := t }
        else if t == "N" then
          if !s.ms.guards.isEmpty then s := s.disagree "new:guards-left"
          s := s.tag "life"
        else if t == "I" then s := doInstall s (t :: rest.take 4) (rest.drop 4)
        else if t == "D" then s := doDrop s rest false false
        else if t == "Dp" then s := doDrop s rest true false
        else if t == "Dv" then s := doDrop s rest false true
        else if t == "CRASH" then
          s := s.tag "crash"
          s := s.fail (if s.marker == "@I" then "c01.crash-during-install" else "c02.crash-after-drop")
        else s := s.disagree ("op:" ++ t)
    if s.ms.fault then s := s.disagree "model-fault"
    let branch := String.intercalate "+" ("hist" :: s.tags)
    return { agree := s.agree, propOk := s.keys.isEmpty, branch := branch,
             detail := (if s.agree then "" else "why=" ++ s.why.replace " " "_") ++
                       String.join (s.keys.map (fun k => " key=" ++ k)) }

/-- `cycles <n> | installs= … owned= maps= mmaps= munmaps= leftover= foreign= unmatched= restored= wrongcalls=` -/
def handleCycles (args obs : List String) : Verdict :=
  let g := fun k => (kv obs k).bind String.toNat?
  let gi := fun k => kv obs k
  match args, g "installs", g "mmaps", g "munmaps" with
  | [_], some inst, some mm, some um =>
    -- model (C12_balance / C12_once): after whole cycles nothing is owned, the mapping set is
    -- what it was, and every successful mmap has exactly one munmap with its own (addr, len)
    let agree := gi "owned" == some "0" && gi "maps" == some "0" && mm == um && gi "leftover" == some "0"
    let keys := (if gi "owned" != some "0" || gi "leftover" != some "0" then [" key=c12.leak"] else []) ++
                (if gi "maps" != some "0" then [" key=c12.maps-balance"] else []) ++
                (if gi "foreign" != some "0" || gi "unmatched" != some "0" then [" key=c12.foreign-munmap"] else []) ++
                (if mm < inst then [" key=c12.fewer-mmaps-than-installs"] else []) ++
                (if gi "restored" != some "1" then [" key=c02.restore-bytes"] else []) ++
                (if gi "wrongcalls" != some "0" then [" key=c02.latest-wins"] else [])
    { agree := agree, propOk := keys.isEmpty,
      branch := "cycles" ++ (if (g "repeated").getD 0 > 0 then "+rep" else ""), detail := String.join keys }
  | _, _, _, _ => bad "cycles-fields"

/-- `selfuse <fn> | [seen=] faked= dropped= restored= orig= used_by_restore= [DIED …]`: a libc
    function the library calls on its own restore path is itself faked (with a fake that does
    the real work); the injector must still go away cleanly and restore everything (C02). -/
def handleSelfUse (args obs : List String) : Verdict :=
  match args with
  | [f] =>
    let died := obs.any (·.startsWith "DIED")
    let ok := !died && kv obs "faked" == some "1" && kv obs "dropped" == some "1" &&
              kv obs "restored" == some "1" && kv obs "orig" == some "1"
    let key := if died then (if kv obs "dropped" == some "1" then " key=c02.crash-after-drop" else " key=c02.crash-during-drop")
               else if kv obs "restored" != some "1" || kv obs "orig" != some "1" then " key=c02.restore-bytes" else " key=c02.selfuse"
    { agree := ok, propOk := ok, branch := "selfuse-" ++ f ++ (if kv obs "used_by_restore" == some "1" then "+used-by-restore" else ""),
      detail := if ok then "" else key }
  | _ => bad "arity"

end Driver
