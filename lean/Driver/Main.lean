import Driver.Util
import Driver.X86
import Driver.Arm
import Driver.Hist
import Driver.Counter
import Driver.Arms
import Driver.AllocD
import Driver.Threads
import Driver.PanicD
import Driver.SigD
import Driver.AsyncD
import Driver.CallConv
namespace Driver

def dispatch (line : String) : String :=
  let toks := (line.trimAscii.toString.splitOn " ").filter (· ≠ "")
  match toks with
  | [] => "skip"
  | tag :: rest =>
    let (args, obs) := splitBar rest
    let v : Verdict := match tag with
      | "x86br" => handleX86Br args obs
      | "x86bool" => handleX86Bool args obs
      | "a64emit" => handleA64Emit args obs
      | "a64tramp" => handleA64Tramp args obs
      | "a64bool" => handleA64Bool args obs
      | "a64entry" => handleA64Entry args obs
      | "a64long" => handleA64Long args obs
      | "a32patch" => handleA32Patch args obs
      | "hist" => handleHist rest
      | "cycles" => handleCycles args obs
      | "cnt" => handleCnt args obs
      | "macflush" => handleMacFlush args
      | "winalloc" => handleWinAlloc args
      | "cntwin" => handleCnt args obs
      | "cntunw" => handleCnt args obs
      | "cntexit" => handleCnt args obs
      | "cnthammer" => handleHammer args obs
      | "cntshared" => handleShared args obs
      | "life" => handleLife args obs
      | "alloc" => handleAlloc args obs
      | "allocinstall" => handleAllocInstall args obs
      | "thr" => handleThr args obs
      | "thrq" => handleThrQ obs
      | "pan" => handlePan rest
      | "async" => handleAsync obs
      | "selfuse" => handleSelfUse args obs
      | "cc" => handleCc args obs
      | "ccavx" => handleCcAvx args obs
      | "ccrust" => handleCcRust args obs
      | "sigty" => handleSigTy args obs
      | "sigpair" => handleSigPair args obs
      | "sigmix" => handleSigMix args obs
      | "signull" => handleSigNull args obs
      | "sigasync" => handleSigAsync args obs
      | "boolgate" => handleBoolGate args obs
      | "boolstr" => handleBoolStr args obs
      | "armrun" => handleArmRun args obs
      | "armhammer" => handleArmHammer args obs
      | "armcompile" => handleArmCompile args obs
      | _ => bad ("unknown-tag:" ++ tag)
    v.render

partial def loop (h : IO.FS.Stream) (out : IO.FS.Stream) : IO Unit := do
  let line ← h.getLine
  if line.isEmpty then return ()
  out.putStrLn (dispatch line)
  loop h out

end Driver

def main : IO Unit := do
  let i ← IO.getStdin
  let o ← IO.getStdout
  Driver.loop i o
