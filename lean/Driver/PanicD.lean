import InjModel.Model.Panic
import InjModel.Generated.Layout
import Driver.Util
import Driver.Arm
import Driver.Hist
namespace Driver
open Inj Inj.Machine Inj.Panic

/-- what a call on a target reaches right now -/
inductive Cur where
  | original | raw | counted (idx : Nat)
  deriving Repr, BEq

def dropOrderSrc : DropOrder := dropOrder

def releaseOrderSrc : List Generated.Layout.Field := Lock.srcParams.injectorRelease

/-- translate one script token into model ops, tracking which expectation each target feeds -/
def scriptToOps (toks : List String) : List Op := Id.run do
  let mut cur : List (Nat × Cur) := []
  let mut nver := 0
  let mut ninst := 0
  let mut ops : List Op := []
  for tk in toks do
    let digit := fun (s : String) => (s.toList.getLast?.getD '0').toNat - 48
    let mkReq := fun (t i : Nat) => Req.mk (0x100000 + 0x1000 * t) (Payload.exec 0x900000) (0x4000000 + 0x1000 * i)
    if tk.startsWith "F" then
      match ((tk.drop 1).toString.splitOn ":") with
      | [tS, nS] =>
        let t := tS.toNat?.getD 0
        let n := nS.toNat?.getD 0
        ops := ops ++ [Op.installCounted (mkReq t ninst) n]
        cur := (t, Cur.counted nver) :: cur
        nver := nver + 1
        ninst := ninst + 1
      | _ => pure ()
    else if tk.startsWith "R" then
      let t := digit tk
      ops := ops ++ [Op.install (mkReq t ninst)]
      cur := (t, Cur.raw) :: cur
      ninst := ninst + 1
    else if tk.startsWith "Cm" || tk.startsWith "Cx" then
      let t := digit tk
      let c := match cur.find? (·.1 == t) with | some (_, c) => c | none => Cur.original
      match c with
      | Cur.counted idx => ops := ops ++ [if tk.startsWith "Cm" then Op.countedCall idx else Op.rejectedCall]
      | _ => ops := ops ++ [Op.plainCall]
    else if tk.startsWith "SF" then
      -- `will_execute` stores the verifier before the signature gate refuses
      ops := ops ++ [Op.refused (if Generated.Layout.verifierPushedBeforeGate then some 1 else none)]
      nver := nver + (if Generated.Layout.verifierPushedBeforeGate then 1 else 0)
    else if tk.startsWith "S" || tk == "Z" || tk.startsWith "A" || tk.startsWith "M" || tk.startsWith "W" then
      ops := ops ++ [Op.refused none]
    else if tk == "U" then
      ops := ops ++ [Op.userPanic]
    else pure ()
  return ops

/-- `pan <scripts> ; L <ops> | body= … ; L …` -/
def handlePan (toks : List String) : Verdict := Id.run do
  let secs := (splitSections toks).drop 1
  let mut agree := true
  let mut why := ""
  let mut keys : List String := []
  let mut tags : List String := []
  let ms0 : MState := { mem := fun _ => 0x90, writable := fun _ => false, maps := [], guards := [], log := [], fault := false }
  for sec in secs do
    match sec with
    | "DIED" :: rest =>
      keys := keys ++ [if rest.any (· == "sig=6") then "c05.abort" else "c05.died"]
      agree := false; why := "process-died"
    | "L" :: opsS :: "|" :: obs =>
      let toksL := if opsS == "-" then [] else opsS.splitOn ","
      let ops := scriptToOps toksL
      let st := runBody Mode.debug { ms := ms0, verifs := [], panicked := false } ops
      let e := scopeExit2 dropOrderSrc Generated.Layout.verifierChecksPanicking Generated.Layout.injectorDropBody Generated.Layout.injectorFields st
      let mBody := if st.panicked then "1" else "0"
      let mExit := if st.panicked then "unwound" else (if e.newPanics > 0 then "panic" else "ok")
      let mExitPanics := toString e.newPanics
      if kv obs "body" != some mBody || kv obs "exit" != some mExit || kv obs "exitpanics" != some mExitPanics || e.abort then
        agree := false
        if why == "" then why := "life:" ++ opsS ++ ":model=" ++ mBody ++ "/" ++ mExit ++ "/" ++ mExitPanics ++ (if e.abort then "/abort" else "")
      -- property on the observations
      let bp := ((kv obs "bodypanics").bind String.toNat?).getD 99
      let ep := ((kv obs "exitpanics").bind String.toNat?).getD 99
      if bp + ep > 1 then keys := keys ++ ["c05.more-than-one-panic"]
      if kv obs "restored" != some "1" || kv obs "calls" != some "1" then keys := keys ++ ["c05.not-restored"]
      if kv obs "relock" != some "1" then keys := keys ++ ["c05.guard-unusable"]
      -- (an installation refused by `mprotect` after its trampoline was obtained leaves that
      --  mapping behind on the pinned tree: not part of C05's statement, not judged here)
      if kv obs "owned" != some "0" && !(toksL.any (fun t => t.startsWith "M" || t.startsWith "W")) then keys := keys ++ ["c05.mapping-left"]
      -- C17 under a W^X policy: whatever was written to an entry is covered by a later flush request
      if (kv obs "wxunflushed").isSome && kv obs "wxunflushed" != some "0" then keys := keys ++ ["c17.entry-flush"]
      if st.panicked then tags := tags ++ ["bodypanic"]
      if e.newPanics > 0 then tags := tags ++ ["exitpanic"]
      if toksL.any (fun t => t.startsWith "S" || t == "Z" || t.startsWith "A" || t.startsWith "M" || t.startsWith "W") then tags := tags ++ ["refusal"]
      if toksL.any (·.startsWith "W") then tags := tags ++ ["wx-denied"]
      if toksL.any (·.startsWith "M") then tags := tags ++ ["mprotect-refused"]
      if st.panicked && anyMismatchD st.verifs then tags := tags ++ ["pending-unsatisfied"]
    | [] => pure ()
    | _ => agree := false; if why == "" then why := "section"
  let ukeys := keys.eraseDups
  return { agree := agree, propOk := ukeys.isEmpty, branch := String.intercalate "+" ("pan" :: tags.eraseDups),
           detail := (if agree then "" else "why=" ++ why.replace " " "_") ++ String.join (ukeys.map (" key=" ++ ·)) }
where
  anyMismatchD (vs : List Verif) : Bool := vs.any (fun v => v.2 != v.1)

end Driver
