import InjModel.Model.A64
import InjModel.Model.A32
import Driver.Util
import Driver.Gen
namespace Driver
open Inj

def kv (obs : List String) (k : String) : Option String :=
  obs.findSome? fun t => if t.startsWith (k ++ "=") then some ((t.drop (k.length + 1)).toString) else none

def bytesToWords : List Nat → List Nat
  | b0 :: b1 :: b2 :: b3 :: rest => de32 b0 b1 b2 b3 :: bytesToWords rest
  | _ => []

def regsSentinel : Nat → Nat := fun i => 0x1000000000000000 + 0x1111 * (i + 1)

/-- `a64emit <kind> <imm> <sf> <hw> <rd> | <word>` -/
def handleA64Emit (args obs : List String) : Verdict :=
  match args, obs with
  | [kind, immS, sfS, hwS, rdS], [wS] =>
    match parseHex immS, hwS.toNat?, rdS.toNat?, parseHex wS with
    | some imm, some hw, some rd, some w =>
      let sf := sfS = "1"
      let model := match kind with
        | "movz" => A64.movz imm sf hw rd
        | "movk" => A64.movk imm sf hw rd
        | "br" => A64.br rd
        | _ => A64.ret rd
      let want := match kind with
        | "movz" => A64.Instr.movz rd imm hw
        | "movk" => A64.Instr.movk rd imm hw
        | "br" => A64.Instr.br rd
        | _ => A64.Instr.ret rd
      let pOk := A64.decode w == want || (rd == 31 && (kind == "movz" || kind == "movk") && A64.decode w == want)
      { agree := model == w, propOk := pOk, branch := "emit-" ++ kind,
        detail := if model == w then "" else "model=" ++ hex model }
    | _, _, _, _ => bad "args"
  | _, _ => bad "arity"

/-- `a64tramp <fake> | <bytes>` -/
def handleA64Tramp (args obs : List String) : Verdict :=
  match args, obs with
  | [fS], [bS] =>
    match parseHex fS, parseBytes bS with
    | some fake, some bs =>
      let n := 4 * Generated.Consts.a64TrampSeq.length
      let impl := bs.take n
      let model := A64.wordsToBytes (A64.tramp fake)
      let ws := bytesToWords impl
      let base := 0x7f0000001000
      let c0 : A64.Cpu := { pc := base, x := regsSentinel }
      let r := A64.runSeq ws base 16 c0
      let changed := match r with
        | some c => (List.range 31).filter (fun i => c.x i != c0.x i)
        | none => []
      let pOk := match r with
        | some c => c.pc == fake && changed.all (fun i => 9 ≤ i && i ≤ 17)
        | none => false
      let guardOk := bs.drop n |>.all (· == 0xCC)
      Gen.withGen' (Gen.a64Tramp fake impl) <|
      { agree := model == impl, propOk := pOk && guardOk, branch := "tramp",
        detail := (if model == impl then "" else "model=" ++ hexBytes model) ++
                  (if pOk then "" else " key=a64.tramp.dest") ++ (if guardOk then "" else " key=a64.tramp.overrun") }
    | _, _ => bad "args"
  | _, _ => bad "arity"

/-- `a64bool <0|1> | <bytes>` -/
def handleA64Bool (args obs : List String) : Verdict :=
  match args, obs with
  | [vS], [bS] =>
    match parseBytes bS with
    | some bs =>
      let v := vS = "1"
      let model := A64.wordsToBytes (A64.boolStub v)
      let ws := bytesToWords bs
      let base := 0x7f0000001000
      let c0 : A64.Cpu := { pc := base, x := regsSentinel }
      let r := A64.runSeq ws base 8 c0
      let pOk := match r with
        | some c => c.pc == c0.x 30 && c.x 0 == (if v then 1 else 0) &&
                    (List.range 31).all (fun i => i == 0 || c.x i == c0.x i)
        | none => false
      { agree := model == bs, propOk := pOk, branch := if v then "bool-true" else "bool-false",
        detail := if model == bs then "" else "model=" ++ hexBytes model }
    | none => bad "bytes"
  | _, _ => bad "arity"

/-- `a64entry <func> <jit> | ok <bytes> tail= restored= psize=` / `| panic untouched=` -/
def handleA64Entry (args obs : List String) : Verdict :=
  match args with
  | [fS, jS] =>
    match parseHex fS, parseHex jS with
    | some func, some jit =>
      let model := A64.entryLinux func jit
      match obs with
      | "panic" :: rest =>
        let untouched := kv rest "untouched" == some "1"
        Gen.withGen' (Gen.a64Entry Mode.release func jit none) <|
        { agree := (match model with | Res.panic _ => true | _ => false), propOk := untouched, branch := "entry-refused",
          detail := (match model with | Res.ok ws => "model=ok:" ++ hexBytes (A64.wordsToBytes ws) | _ => "") ++
                    (if untouched then "" else " key=a64.entry.refused-but-written") }
      | "ok" :: bS :: rest =>
        match parseBytes bS with
        | some bs =>
          let ws := bytesToWords bs
          let c0 : A64.Cpu := { pc := func, x := regsSentinel }
          let r := A64.runSeq ws func 1 c0
          let isB := match A64.decode (ws.getD 0 0) with | A64.Instr.b _ => true | _ => false
          let dest := match r with | some c => c.pc | none => 0
          let nops := ws.drop 1 == [0xD503201F, 0xD503201F]
          let tail := kv rest "tail" == some "1" && kv rest "restored" == some "1" && kv rest "psize" == some "12"
          let pOk := isB && dest == jit && nops && tail
          let ag := match model with | Res.ok mw => A64.wordsToBytes mw == bs | _ => false
          Gen.withGen' (Gen.a64Entry Mode.release func jit (some bs)) <|
          { agree := ag, propOk := pOk, branch := "entry-b",
            detail := (if ag then "" else "model=" ++ (match model with | Res.ok mw => hexBytes (A64.wordsToBytes mw) | Res.panic _ => "panic")) ++
                      (if pOk then "" else if isB && dest == jit && nops then " key=a64.frame" else " dest=" ++ hex dest ++ " key=a64.entry.dest") }
        | none => bad "bytes"
      | _ => bad "obs"
    | _, _ => bad "args"
  | _ => bad "arity"

/-- `a64long <pc> <target> | w0,w1,w2` -/
def handleA64Long (args obs : List String) : Verdict :=
  match args, obs with
  | [pS, tS], [wS] =>
    match parseHex pS, parseHex tS with
    | some pc, some target =>
      let ws := (wS.splitOn ",").filterMap parseHex
      let model := A64.entryMacos pc target
      let modelW := if ws.length == 1 then model.take 1 else model
      let c0 : A64.Cpu := { pc := pc, x := regsSentinel }
      let r := A64.runSeq ws pc 4 c0
      let pd : Int := ((target / 4096 : Nat) : Int) - ((pc / 4096 : Nat) : Int)
      let inRange := decide (-1048576 ≤ pd) && decide (pd < 1048576)
      let changed := match r with
        | some c => (List.range 31).filter (fun i => c.x i != c0.x i)
        | none => []
      let pOk := match r with
        | some c => c.pc == target && changed.all (fun i => 9 ≤ i && i ≤ 17)
        | none => false
      Gen.withGen' (Gen.a64Long pc target ws) <|
      { agree := modelW == ws, propOk := pOk || !inRange, branch := if ws.length == 1 then "long-b" else (if inRange then "long-adrp" else "long-out-of-range"),
        detail := (if modelW == ws then "" else "model=" ++ toString (model.map hex)) ++ (if pOk || !inRange then "" else " key=a64.long.dest") }
    | _, _ => bad "args"
  | _, _ => bad "arity"

/-- `macflush <jit> <func> <remap> <n> | -` : C17 for the macOS memory path, judged on the source as translated
    (there is no macOS to run): trampoline contents, entry patch and restoration are each covered by an
    instruction-cache invalidation requested after the write -/
def handleMacFlush (args : List String) : Verdict :=
  match args with
  | [jS, fS, rS, nS] =>
    match parseHex jS, parseHex fS, parseHex rS, nS.toNat? with
    | some jit, some func, some remap, some n =>
      let bytes := (List.range n).map (fun i => (i * 37 + 11) % 256)
      let t := Gen.macTrampFlushed bytes jit
      let e := Gen.macEntryFlushed func (bytes.take 12) remap
      let d := Gen.macRestoreFlushed func (bytes.take 12) jit remap
      { agree := true, propOk := t && e && d, branch := "macflush",
        detail := (if t then "" else " key=c17.macos-trampoline-flush") ++ (if e then "" else " key=c17.macos-entry-flush") ++
                  (if d then "" else " key=c17.macos-restore-flush") }
    | _, _, _, _ => bad "args"
  | _ => bad "arity"

/-- `winalloc <src> <page> <a1,a2,…> | -` : the Windows / AArch64 allocator judged on the source as translated -/
def handleWinAlloc (args : List String) : Verdict :=
  match args with
  | [sS, pS, aS] =>
    match parseHex sS, parseHex pS with
    | some src, some page =>
      let answers := (aS.splitOn ",").filterMap parseHex
      let (reach, freed) := Gen.winAlloc src page answers
      { agree := true, propOk := reach && freed, branch := "winalloc",
        detail := (if reach then "" else " key=c11.win-accepted-unreachable") ++ (if freed then "" else " key=c11.win-rejected-left") }
    | _, _ => bad "args"
  | _ => bad "arity"

/-- `a32patch <src> <target> | ok addr= bytes= frame= saved= psize= restored=` -/
def handleA32Patch (args obs : List String) : Verdict :=
  match args with
  | [sS, tS] =>
    match parseHex sS, parseHex tS with
    | some src, some target =>
      match obs with
      | "ok" :: rest =>
        match (kv rest "addr").bind parseHex, (kv rest "bytes").bind parseBytes with
        | some addr, some bs =>
          let p := A32.patch src target
          let m : Mem := writeMem (fun _ => 0xEE) addr bs
          let c0 : A32.Cpu := { pc := addr, thumb := src % 2 == 1, r := regsSentinel }
          let r := A32.run m 3 c0 |>.orElse (fun _ => A32.run m 2 c0)
          let written := A32.writtenRegs m c0 3
          let landed := match r with
            | some c => c.pc == target / 2 * 2 && c.thumb == (target % 2 == 1)
            | none => false
          let frame := kv rest "frame" == some "1" && kv rest "restored" == some "1" &&
                       kv rest "psize" == some (toString bs.length)
          let bad := written.filter A32.calleeSaved
          let key := if !landed then " key=a32.dest" else if !frame then " key=a32.frame"
                     else match bad with
                       | [] => ""
                       | r :: _ => " key=a32.scratch=r" ++ toString r
          let ag := p.addr == addr && p.bytes == bs
          Gen.withGen' (Gen.a32Patch src target addr bs (((kv rest "saved").bind parseBytes).getD (List.replicate 12 0))) <|
          { agree := ag, propOk := landed && frame && bad.isEmpty,
            branch := (if src % 2 == 1 then (if addr % 4 == 0 then "thumb0" else "thumb2") else "arm"),
            detail := (if ag then "" else "model=" ++ hex p.addr ++ ":" ++ hexBytes p.bytes) ++ key }
        | _, _ => bad "obs-fields"
      | _ => { agree := false, propOk := true, branch := "a32-panic", detail := "implementation panicked" }
    | _, _ => bad "args"
  | _ => bad "arity"

end Driver
