import InjModel.Model.FakeArm
import InjModel.Model.Counter
import InjModel.Generated.Layout
import Driver.Util
import Driver.Arm
namespace Driver
open Inj Inj.FakeArm Inj.Generated.FakeArms

/-- `armcompile <line> | <diagnostic>`: rustc rejected the instantiation of this arm -/
def handleArmCompile (args _obs : List String) : Verdict :=
  match args with
  | [l] =>
    let a := arms.find? (fun a => toString a.line == l)
    -- the model predicts a compile failure exactly for arms using unbound metavariables
    let predicted := match a with | some a => a.unboundVars != 0 || !a.parsed | none => true
    { agree := predicted, propOk := false, branch := "arm-rejected", detail := " key=c08.compile-line-" ++ l }
  | _ => bad "arity"

/-- `armhammer <line> <N> <T> | refused= exit=`: T threads make exactly N matching calls in total on the
    compiled instantiation of a `times` arm: by C06_admit / C06_exit (any linearisation of the N calls)
    none is refused and the exit verdict is silent. -/
def handleArmHammer (args obs : List String) : Verdict :=
  match args with
  | [_, _, _] =>
    let ok := kv obs "refused" == some "0" && kv obs "exit" == some "ok" && !(obs.any (·.startsWith "DIED"))
    { agree := ok, propOk := ok, branch := "arm-hammer",
      detail := if ok then "" else " key=c06.arm-concurrent-budget key=c08.times-budget-concurrent" }
  | _ => bad "arity"

/-- `armrun <line> <N> <script> | rec rec … exit=…` with rec = `<c>:<ret>:<out>:<dA>:<dR>` -/
def handleArmRun (args obs : List String) : Verdict := Id.run do
  match args with
  | [l, nS, script] =>
    match arms.find? (fun a => toString a.line == l), nS.toNat? with
    | some a, some n =>
      if let some why := kv obs "inst" then
        -- installing the arm's fake over a target of the identically written type was refused
        return { agree := false, propOk := false, branch := "arm+install-refused",
                 detail := "why=install-" ++ why ++ " key=c08.install-refused" ++ (if why == "sig" then " key=c09.identical-refused" else "") }
      let died := obs.any (·.startsWith "DIED")
      let recs := obs.filter (fun t => t.contains ':' && !(t.startsWith "exit=") && !(t.startsWith "sig=") && !(t.startsWith "code="))
      let exitTok := kv obs "exit"
      let ext := a.kind == FnKind.externC || a.kind == FnKind.externSystem
      let mut cnt := 0
      let mut cntRef := 0      -- the counter of the one common meaning, run beside the arm's own
      let mut nA := 0          -- assign evaluations so far
      let mut agree := true
      let mut why := ""
      let mut keys : List String := []
      let mut stopped := false  -- model: the process aborted here
      let mut i := 0
      for ch in script.toList do
        if stopped then break
        let argv : Int := if ch == 'm' then 7 else 8
        let r := sem a { cond := ch == 'm', cnt := cnt, n := n }
        let ref := refSem (optsOf a) { cond := ch == 'm', cnt := cntRef, n := n }
        let isPanic := r.out == Out.panicOver || r.out == Out.panicUnexpected || r.out == Out.unreachable
        match recs[i]? with
        | none =>
          -- no record: legitimate only if the model says this call panics in a non-unwinding ABI
          if isPanic && ext && died then stopped := true
          else
            agree := false; why := "missing-record-" ++ toString i
            keys := keys ++ ["c08.died-unexpectedly"]
            stopped := true
        | some rec =>
          let f := rec.splitOn ":"
          let c := f.getD 0 "?"
          let ret := (f.getD 1 "0").toInt?.getD 0
          let outv := (f.getD 2 "0").toInt?.getD 0
          let dA := (f.getD 3 "0").toNat?.getD 99
          let dR := (f.getD 4 "0").toNat?.getD 99
          let mc := match r.out with
            | Out.retVal => "o" | Out.retUnit => "o" | Out.panicOver => "v" | Out.panicUnexpected => "u"
            | Out.unreachable => "r" | Out.stuck => "?"
          let hasA := r.trace.contains Eff.assign
          let hasR := r.trace.contains Eff.evalRet
          let expOut : Int := if hasA then 100 + nA else 555
          let expRet : Int := if r.out == Out.retVal then argv * 1000 + expOut else 0
          if c != mc || dA != (if hasA then 1 else 0) || dR != (if hasR then 1 else 0) || outv != expOut || (c == "o" && ret != expRet) then
            agree := false
            if why == "" then why := "call-" ++ toString i ++ ":model=" ++ mc ++ ":" ++ toString expRet ++ ":" ++ toString expOut
          -- property (the one common meaning) on the implementation's record
          let refc := match ref.out with
            | Out.retVal => "o" | Out.retUnit => "o" | Out.panicOver => "v" | Out.panicUnexpected => "u" | _ => "?"
          let refA := ref.trace.contains Eff.assign
          let refR := ref.trace.contains Eff.evalRet
          let refOut : Int := if refA then 100 + nA else 555
          let refRet : Int := if ref.out == Out.retVal then argv * 1000 + refOut else 0
          if c != refc then
            keys := keys ++ ["c08.outcome"]
            -- C06: admission of a matching call / rejection of a non-matching one under `times`
            if a.optTimes then keys := keys ++ [if ch == 'm' then "c06.arm-admission" else "c06.arm-rejection"]
          if dA != (if refA then 1 else 0) || outv != refOut then keys := keys ++ ["c08.assign-effect"]
          if dR != (if refR then 1 else 0) || (c == "o" && ret != refRet) then keys := keys ++ ["c08.returns-value"]
          cnt := r.cnt
          cntRef := ref.cnt
          if hasA then nA := nA + 1
        i := i + 1
      -- exit verdict
      if !stopped then
        if died then
          agree := false; why := "died-after-all-calls"; keys := keys ++ ["c08.died-unexpectedly"]
        else
          let counted := a.verifier == VerifierK.withCount
          let want := if counted then
              (match Counter.verifierDrop Generated.Layout.verifierChecksPanicking n cnt false with
               | Counter.ExitOut.ok => "ok"
               | Counter.ExitOut.panicMismatch e k => "mismatch:" ++ toString e ++ ":" ++ toString k)
            else "ok"
          if exitTok != some want then
            agree := false; if why == "" then why := "exit:model=" ++ want
          -- property: the verdict the common meaning's own count of matching calls demands
          let wantRef := if a.optTimes then
              (match Counter.verifierDrop true n cntRef false with
               | Counter.ExitOut.ok => "ok"
               | Counter.ExitOut.panicMismatch e k => "mismatch:" ++ toString e ++ ":" ++ toString k)
            else "ok"
          if exitTok != some wantRef then
            keys := keys ++ ["c08.exit-verdict"] ++ (if a.optTimes then ["c06.arm-exit-verdict"] else [])
      let ukeys := keys.eraseDups
      return { agree := agree, propOk := ukeys.isEmpty,
               branch := "arm" ++ (if a.optWhen then "+when" else "") ++ (if a.optAssign then "+assign" else "") ++
                         (if a.optReturns then "+returns" else "") ++ (if a.optTimes then "+times" else "") ++
                         (if ext then "+extern" else "") ++ (if stopped then "+abort-by-abi" else ""),
               detail := (if agree then "" else "why=" ++ why) ++ String.join (ukeys.map (" key=" ++ ·)) }
    | _, _ => return bad "unknown-arm-line"
  | _ => return bad "arity"

end Driver
