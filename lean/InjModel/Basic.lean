def hello := "world"
