import InjModel.Model.Sig
namespace Inj.Sig

theorem afterClose_rp (d : Nat) (rest : List Tok) :
    afterClose (d + 2) (Tok.rp :: rest) = afterClose (d + 1) rest := by
  simp [afterClose]

mutual
/-- rendered types are parenthesis-balanced: scanning for a closing parenthesis skips them -/
theorem ac_render (t : Ty) (d : Nat) (rest : List Tok) :
    afterClose (d + 1) (render t ++ rest) = afterClose (d + 1) rest := by
  cases t with
  | prim n => simp [render, afterClose]
  | ref m t =>
    cases m
    · simp only [render, Bool.false_eq_true, if_false, List.append_nil, List.cons_append, afterClose]
      exact ac_render t d rest
    · simp only [render, if_true, List.cons_append, List.nil_append, afterClose]
      exact ac_render t d rest
  | ptr m t =>
    cases m
    · simp only [render, Bool.false_eq_true, if_false, List.cons_append, afterClose]
      exact ac_render t d rest
    · simp only [render, if_true, List.cons_append, afterClose]
      exact ac_render t d rest
  | tuple ts =>
    simp only [render, List.cons_append, List.append_assoc, List.nil_append, afterClose]
    rw [ac_tuple ts (d + 1) (Tok.rp :: rest)]
    simp [afterClose]
  | slice t =>
    simp only [render, List.cons_append, List.append_assoc, List.nil_append, afterClose]
    rw [ac_render t d (Tok.rb :: rest)]
    simp [afterClose]
  | array t n =>
    simp only [render, List.cons_append, List.append_assoc, List.nil_append, afterClose]
    rw [ac_render t d (Tok.semi :: Tok.num n :: Tok.rb :: rest)]
    simp [afterClose]
  | app n args =>
    simp only [render, List.cons_append, List.append_assoc, List.nil_append, afterClose]
    rw [ac_args args d (Tok.gt :: rest)]
    simp [afterClose]
  | fn_ f => simp only [render]; exact ac_fn f d rest
  | dynfn ps r =>
    simp only [render, List.cons_append, List.append_assoc, List.nil_append, afterClose]
    rw [ac_args ps (d + 1) (Tok.rp :: (renderRet r ++ rest))]
    rw [afterClose_rp]
    exact ac_ret r d rest

theorem ac_args (ts : TyList) (d : Nat) (rest : List Tok) :
    afterClose (d + 1) (renderArgs ts ++ rest) = afterClose (d + 1) rest := by
  cases ts with
  | nil => simp [renderArgs]
  | cons t ts =>
    cases ts with
    | nil => simp only [renderArgs]; exact ac_render t d rest
    | cons t' ts' =>
      simp only [renderArgs, List.append_assoc, List.cons_append, List.nil_append]
      rw [ac_render t d (Tok.comma :: (renderArgs (TyList.cons t' ts') ++ rest))]
      simp only [afterClose]
      exact ac_args (TyList.cons t' ts') d rest

theorem ac_tuple (ts : TyList) (d : Nat) (rest : List Tok) :
    afterClose (d + 1) (renderTuple ts ++ rest) = afterClose (d + 1) rest := by
  cases ts with
  | nil => simp [renderTuple]
  | cons t ts =>
    cases ts with
    | nil =>
      simp only [renderTuple, List.append_assoc, List.cons_append, List.nil_append]
      rw [ac_render t d (Tok.comma :: rest)]
      simp [afterClose]
    | cons t' ts' =>
      simp only [renderTuple, List.append_assoc, List.cons_append, List.nil_append]
      rw [ac_render t d (Tok.comma :: (renderArgs (TyList.cons t' ts') ++ rest))]
      simp only [afterClose]
      exact ac_args (TyList.cons t' ts') d rest

theorem ac_ret (r : Ty) (d : Nat) (rest : List Tok) :
    afterClose (d + 1) (renderRet r ++ rest) = afterClose (d + 1) rest := by
  by_cases h : r = Ty.tuple TyList.nil
  · subst h; simp [renderRet]
  · have : renderRet r = Tok.arrow :: render r := by
      cases r with
      | tuple ts => cases ts with
        | nil => exact absurd rfl h
        | cons t ts => simp [renderRet]
      | _ => simp [renderRet]
    rw [this]
    simp only [List.cons_append, afterClose]
    exact ac_render r d rest

theorem ac_fn (f : FnTy) (d : Nat) (rest : List Tok) :
    afterClose (d + 1) (renderFn f ++ rest) = afterClose (d + 1) rest := by
  cases f with
  | mk u abi ps r =>
    simp only [renderFn, List.append_assoc]
    have hpre : ∀ (tl : List Tok), afterClose (d + 1) ((if u = true then [Tok.unsafe_] else []) ++ ((if abi = 0 then [] else [Tok.extern_ abi]) ++ tl)) = afterClose (d + 1) tl := by
      intro tl
      cases u <;> by_cases ha : abi = 0 <;> simp [ha, afterClose]
    rw [hpre]
    simp only [List.cons_append, List.nil_append, afterClose]
    rw [ac_args ps (d + 1) (Tok.rp :: (renderRet r ++ rest))]
    rw [afterClose_rp]
    exact ac_ret r d rest
end

/-- what follows the parameter list of a rendered function-pointer type is its return part -/
theorem afterParams_renderFn (f : FnTy) : afterParams (renderFn f) = some (renderRet f.ret) := by
  cases f with
  | mk u abi ps r =>
    simp only [renderFn, FnTy.ret, List.append_assoc]
    have hpre : ∀ (tl : List Tok), afterParams ((if u = true then [Tok.unsafe_] else []) ++ ((if abi = 0 then [] else [Tok.extern_ abi]) ++ ([Tok.fn_, Tok.lp] ++ tl))) = afterClose 1 tl := by
      intro tl
      cases u <;> by_cases ha : abi = 0 <;> simp [ha, afterParams]
    rw [hpre]
    have := ac_args ps 0 (Tok.rp :: renderRet r)
    simp only [Nat.zero_add] at this
    simp only [List.cons_append, List.nil_append]
    rw [this]
    simp [afterClose]

/-- only the primitive `bool` renders as the single token `bool` -/
theorem render_eq_bool (t : Ty) : render t = [Tok.id boolId] ↔ t = Ty.prim boolId := by
  constructor
  · intro h
    cases t with
    | prim n => simp only [render] at h; injection h with h1; injection h1 with h2; rw [h2]
    | ref m t => cases m <;> simp [render] at h
    | ptr m t => cases m <;> simp [render] at h
    | tuple ts => simp [render] at h
    | slice t => simp [render] at h
    | array t n => simp [render] at h
    | app n args => simp [render] at h
    | fn_ f =>
      cases f with
      | mk u abi ps r =>
        simp only [render, renderFn] at h
        cases u <;> by_cases ha : abi = 0 <;> simp [ha] at h
    | dynfn ps r => simp [render] at h
  · intro h; subst h; simp [render]

end Inj.Sig
