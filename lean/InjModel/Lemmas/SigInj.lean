import InjModel.Lemmas.Sig
namespace Inj.Sig

/-- tokens that may follow a complete type inside a rendering -/
def isCloser : Tok → Bool
  | Tok.rp => true | Tok.gt => true | Tok.rb => true | Tok.comma => true | Tok.semi => true
  | _ => false

/-- what follows a complete type: nothing, or a closing / separating token (never `<`, `->`, `(`) -/
def Follow : List Tok → Prop
  | [] => True
  | x :: _ => isCloser x = true

/-- first token of a rendered function-pointer type -/
def hdFn : FnTy → Tok
  | FnTy.mk u abi _ _ => if u then Tok.unsafe_ else if abi = 0 then Tok.fn_ else Tok.extern_ abi

/-- first token of a rendered type -/
def hd : Ty → Tok
  | Ty.prim n => Tok.id n
  | Ty.ref _ _ => Tok.amp
  | Ty.ptr _ _ => Tok.star
  | Ty.tuple _ => Tok.lp
  | Ty.slice _ => Tok.lb
  | Ty.array _ _ => Tok.lb
  | Ty.app n _ => Tok.id n
  | Ty.fn_ f => hdFn f
  | Ty.dynfn _ _ => Tok.dyn_

theorem renderFn_head (f : FnTy) : ∃ tl, renderFn f = hdFn f :: tl := by
  cases f with
  | mk u abi ps r =>
    simp only [renderFn, hdFn]
    cases u <;> by_cases h : abi = 0 <;> simp [h]

theorem render_head (t : Ty) : ∃ tl, render t = hd t :: tl := by
  cases t with
  | prim n => exact ⟨[], by simp [render, hd]⟩
  | ref m t => exact ⟨(if m then [Tok.mut_] else []) ++ render t, by simp [render, hd]⟩
  | ptr m t => exact ⟨(if m then Tok.mut_ else Tok.const_) :: render t, by simp [render, hd]⟩
  | tuple ts => exact ⟨renderTuple ts ++ [Tok.rp], by simp [render, hd]⟩
  | slice t => exact ⟨render t ++ [Tok.rb], by simp [render, hd]⟩
  | array t n => exact ⟨render t ++ [Tok.semi, Tok.num n, Tok.rb], by simp [render, hd]⟩
  | app n args => exact ⟨Tok.lt :: (renderArgs args ++ [Tok.gt]), by simp [render, hd]⟩
  | fn_ f => simp only [render, hd]; exact renderFn_head f
  | dynfn ps r => exact ⟨Tok.id 9999 :: Tok.lp :: (renderArgs ps ++ Tok.rp :: renderRet r), by simp [render, hd]⟩

/-- a type never starts with a closer, `mut`, `const`, `->`, `<`, a number -/
theorem hd_not_closer (t : Ty) : isCloser (hd t) = false := by
  cases t with
  | fn_ f => cases f with | mk u abi ps r => simp only [hd, hdFn]; cases u <;> by_cases h : abi = 0 <;> simp [h, isCloser]
  | _ => simp [hd, isCloser]

theorem hd_ne_mut (t : Ty) : hd t ≠ Tok.mut_ := by
  cases t with
  | fn_ f => cases f with | mk u abi ps r => simp only [hd, hdFn]; cases u <;> by_cases h : abi = 0 <;> simp [h]
  | _ => simp [hd]

theorem hd_ne_arrow (t : Ty) : hd t ≠ Tok.arrow := by
  cases t with
  | fn_ f => cases f with | mk u abi ps r => simp only [hd, hdFn]; cases u <;> by_cases h : abi = 0 <;> simp [h]
  | _ => simp [hd]

theorem follow_not_hd (t : Ty) (tl r : List Tok) (h : Follow (hd t :: tl ++ r)) : False := by
  simp only [List.cons_append, Follow] at h
  rw [hd_not_closer] at h; cases h

end Inj.Sig

namespace Inj.Sig

theorem follow_cons_closer (x : Tok) (r : List Tok) (h : isCloser x = true) : Follow (x :: r) := h

/-- `renderRet` is either empty (unit) or `->` followed by the type -/
theorem renderRet_cases (t : Ty) : (t = unitTy ∧ renderRet t = []) ∨ (t ≠ unitTy ∧ renderRet t = Tok.arrow :: render t) := by
  by_cases h : t = Ty.tuple TyList.nil
  · left; subst h; exact ⟨rfl, by simp [renderRet]⟩
  · right
    refine ⟨h, ?_⟩
    cases t with
    | tuple ts => cases ts with
      | nil => exact absurd rfl h
      | cons t ts => simp [renderRet]
    | _ => simp [renderRet]

theorem head_eq_of_append_eq (t t' : Ty) (r r' : List Tok) (h : render t ++ r = render t' ++ r') : hd t = hd t' := by
  obtain ⟨tl1, e1⟩ := render_head t
  obtain ⟨tl2, e2⟩ := render_head t'
  rw [e1, e2] at h
  simp only [List.cons_append, List.cons.injEq] at h
  exact h.1

/-- a function-pointer type starts with `unsafe`, `extern` or `fn` — none of the tokens other
    types start with -/
theorem hdFn_ne (f : FnTy) (x : Tok)
    (hx : x = Tok.amp ∨ x = Tok.star ∨ x = Tok.lp ∨ x = Tok.lb ∨ x = Tok.dyn_ ∨ ∃ n, x = Tok.id n) : hdFn f ≠ x := by
  cases f with
  | mk u abi ps r =>
    simp only [hdFn]
    rcases hx with h | h | h | h | h | ⟨n, h⟩ <;> subst h <;> cases u <;> by_cases ha : abi = 0 <;> simp [ha]

/-- discharge a goal whose hypothesis equates two renderings with different first tokens -/
macro "head_mismatch" h:ident : tactic => `(tactic| (
  exfalso
  have hh := head_eq_of_append_eq _ _ _ _ $h
  simp only [hd] at hh
  first
    | (simp at hh; done)
    | (exact absurd hh (hdFn_ne _ _ (by simp)))
    | (exact absurd hh.symm (hdFn_ne _ _ (by simp)))))

end Inj.Sig

namespace Inj.Sig

/-- an argument list is always followed by the closing `)` or `>` -/
def Close : List Tok → Prop
  | Tok.rp :: _ => True
  | Tok.gt :: _ => True
  | _ => False

theorem close_follow (r : List Tok) (h : Close r) : Follow r := by
  cases r with
  | nil => trivial
  | cons x xs => cases x <;> simp [Close] at h <;> simp [Follow, isCloser]

theorem renderArgs_cons_head (t : Ty) (ts : TyList) : ∃ tl, renderArgs (TyList.cons t ts) = hd t :: tl := by
  obtain ⟨tl, e⟩ := render_head t
  cases ts with
  | nil => exact ⟨tl, by simp [renderArgs, e]⟩
  | cons a as => exact ⟨tl ++ [Tok.comma] ++ renderArgs (TyList.cons a as), by simp [renderArgs, e]⟩

theorem close_not_hd (t : Ty) (tl r : List Tok) (h : Close (hd t :: tl ++ r)) : False := by
  have := close_follow _ h
  exact follow_not_hd t tl r this

mutual
theorem inj_render (t t' : Ty) (r r' : List Tok) (h : render t ++ r = render t' ++ r')
    (hr : Follow r) (hr' : Follow r') : t = t' ∧ r = r' := by
  cases t with
  | prim n =>
    cases t' with
    | prim m =>
      simp only [render, List.cons_append, List.nil_append, List.cons.injEq, Tok.id.injEq] at h
      exact ⟨by rw [h.1], h.2⟩
    | app m args =>
      exfalso
      simp only [render, List.cons_append, List.nil_append, List.cons.injEq] at h
      rw [h.2] at hr
      simp [Follow, isCloser] at hr
    | _ => head_mismatch h
  | ref m u =>
    cases t' with
    | ref m' u' =>
      cases m <;> cases m' <;>
        simp only [render, Bool.false_eq_true, if_false, if_true, List.cons_append, List.nil_append,
          List.append_nil, List.cons.injEq, true_and] at h
      · obtain ⟨a, b⟩ := inj_render u u' r r' h hr hr'
        exact ⟨by rw [a], b⟩
      · exfalso
        obtain ⟨tl, e⟩ := render_head u
        rw [e] at h
        simp only [List.cons_append, List.cons.injEq] at h
        exact hd_ne_mut u h.1
      · exfalso
        obtain ⟨tl, e⟩ := render_head u'
        rw [e] at h
        simp only [List.cons_append, List.cons.injEq] at h
        exact hd_ne_mut u' h.1.symm
      · obtain ⟨a, b⟩ := inj_render u u' r r' h hr hr'
        exact ⟨by rw [a], b⟩
    | _ => head_mismatch h
  | ptr m u =>
    cases t' with
    | ptr m' u' =>
      cases m <;> cases m' <;>
        simp only [render, Bool.false_eq_true, if_false, if_true, List.cons_append, List.cons.injEq, true_and,
          reduceCtorEq, false_and] at h
      · obtain ⟨a, b⟩ := inj_render u u' r r' h hr hr'
        exact ⟨by rw [a], b⟩
      · obtain ⟨a, b⟩ := inj_render u u' r r' h hr hr'
        exact ⟨by rw [a], b⟩
    | _ => head_mismatch h
  | tuple ts =>
    cases t' with
    | tuple ts' =>
      simp only [render, List.cons_append, List.append_assoc, List.nil_append, List.cons.injEq, true_and] at h
      obtain ⟨a, b⟩ := inj_tuple ts ts' r r' h
      exact ⟨by rw [a], b⟩
    | _ => head_mismatch h
  | slice u =>
    cases t' with
    | slice u' =>
      simp only [render, List.cons_append, List.append_assoc, List.nil_append, List.cons.injEq, true_and] at h
      obtain ⟨a, b⟩ := inj_render u u' (Tok.rb :: r) (Tok.rb :: r') h (by simp [Follow, isCloser]) (by simp [Follow, isCloser])
      simp only [List.cons.injEq, true_and] at b
      exact ⟨by rw [a], b⟩
    | array u' n' =>
      exfalso
      simp only [render, List.cons_append, List.append_assoc, List.nil_append, List.cons.injEq, true_and] at h
      obtain ⟨_, b⟩ := inj_render u u' (Tok.rb :: r) (Tok.semi :: Tok.num n' :: Tok.rb :: r') h (by simp [Follow, isCloser]) (by simp [Follow, isCloser])
      simp at b
    | _ => head_mismatch h
  | array u n =>
    cases t' with
    | array u' n' =>
      simp only [render, List.cons_append, List.append_assoc, List.nil_append, List.cons.injEq, true_and] at h
      obtain ⟨a, b⟩ := inj_render u u' (Tok.semi :: Tok.num n :: Tok.rb :: r) (Tok.semi :: Tok.num n' :: Tok.rb :: r') h
        (by simp [Follow, isCloser]) (by simp [Follow, isCloser])
      simp only [List.cons.injEq, true_and, Tok.num.injEq] at b
      exact ⟨by rw [a, b.1], b.2⟩
    | slice u' =>
      exfalso
      simp only [render, List.cons_append, List.append_assoc, List.nil_append, List.cons.injEq, true_and] at h
      obtain ⟨_, b⟩ := inj_render u u' (Tok.semi :: Tok.num n :: Tok.rb :: r) (Tok.rb :: r') h (by simp [Follow, isCloser]) (by simp [Follow, isCloser])
      simp at b
    | _ => head_mismatch h
  | app n args =>
    cases t' with
    | app m args' =>
      simp only [render, List.cons_append, List.append_assoc, List.nil_append, List.cons.injEq, Tok.id.injEq, true_and] at h
      obtain ⟨a, b⟩ := inj_args args args' (Tok.gt :: r) (Tok.gt :: r') h.2 trivial trivial
      simp only [List.cons.injEq, true_and] at b
      exact ⟨by rw [h.1, a], b⟩
    | prim m =>
      exfalso
      simp only [render, List.cons_append, List.nil_append, List.cons.injEq] at h
      rw [← h.2] at hr'
      simp [Follow, isCloser] at hr'
    | _ => head_mismatch h
  | fn_ f =>
    cases t' with
    | fn_ f' =>
      simp only [render] at h
      obtain ⟨a, b⟩ := inj_fn f f' r r' h hr hr'
      exact ⟨by rw [a], b⟩
    | _ => head_mismatch h
  | dynfn ps rt =>
    cases t' with
    | dynfn ps' rt' =>
      simp only [render, List.cons_append, List.append_assoc, List.nil_append, List.cons.injEq, true_and] at h
      obtain ⟨a, b⟩ := inj_args ps ps' (Tok.rp :: (renderRet rt ++ r)) (Tok.rp :: (renderRet rt' ++ r')) h trivial trivial
      simp only [List.cons.injEq, true_and] at b
      obtain ⟨c, d⟩ := inj_ret rt rt' r r' b hr hr'
      exact ⟨by rw [a, c], d⟩
    | _ => head_mismatch h

theorem inj_args (ts ts' : TyList) (r r' : List Tok) (h : renderArgs ts ++ r = renderArgs ts' ++ r')
    (hc : Close r) (hc' : Close r') : ts = ts' ∧ r = r' := by
  cases ts with
  | nil =>
    cases ts' with
    | nil => simp only [renderArgs, List.nil_append] at h; exact ⟨rfl, h⟩
    | cons t' ts'' =>
      exfalso
      obtain ⟨tl, e⟩ := renderArgs_cons_head t' ts''
      simp only [renderArgs, List.nil_append] at h
      rw [e] at h
      rw [h] at hc
      exact close_not_hd t' tl r' hc
  | cons t ts1 =>
    cases ts' with
    | nil =>
      exfalso
      obtain ⟨tl, e⟩ := renderArgs_cons_head t ts1
      simp only [renderArgs, List.nil_append] at h
      rw [e] at h
      rw [← h] at hc'
      exact close_not_hd t tl r hc'
    | cons t' ts1' =>
      cases ts1 with
      | nil =>
        cases ts1' with
        | nil =>
          simp only [renderArgs] at h
          obtain ⟨a, b⟩ := inj_render t t' r r' h (close_follow r hc) (close_follow r' hc')
          exact ⟨by rw [a], b⟩
        | cons a' as' =>
          exfalso
          simp only [renderArgs, List.append_assoc, List.cons_append, List.nil_append] at h
          obtain ⟨_, b⟩ := inj_render t t' r (Tok.comma :: (renderArgs (TyList.cons a' as') ++ r')) h (close_follow r hc) (by simp [Follow, isCloser])
          rw [b] at hc
          simp [Close] at hc
      | cons a as =>
        cases ts1' with
        | nil =>
          exfalso
          simp only [renderArgs, List.append_assoc, List.cons_append, List.nil_append] at h
          obtain ⟨_, b⟩ := inj_render t t' (Tok.comma :: (renderArgs (TyList.cons a as) ++ r)) r' h (by simp [Follow, isCloser]) (close_follow r' hc')
          rw [← b] at hc'
          simp [Close] at hc'
        | cons a' as' =>
          simp only [renderArgs, List.append_assoc, List.cons_append, List.nil_append] at h
          obtain ⟨e1, b⟩ := inj_render t t' (Tok.comma :: (renderArgs (TyList.cons a as) ++ r)) (Tok.comma :: (renderArgs (TyList.cons a' as') ++ r')) h
            (by simp [Follow, isCloser]) (by simp [Follow, isCloser])
          simp only [List.cons.injEq, true_and] at b
          obtain ⟨e2, e3⟩ := inj_args (TyList.cons a as) (TyList.cons a' as') r r' b hc hc'
          exact ⟨by rw [e1, e2], e3⟩

theorem inj_tuple (ts ts' : TyList) (r r' : List Tok) (h : renderTuple ts ++ Tok.rp :: r = renderTuple ts' ++ Tok.rp :: r') :
    ts = ts' ∧ r = r' := by
  cases ts with
  | nil =>
    cases ts' with
    | nil => simp only [renderTuple, List.nil_append, List.cons.injEq, true_and] at h; exact ⟨rfl, h⟩
    | cons t' ts'' =>
      exfalso
      obtain ⟨tl, e⟩ := render_head t'
      cases ts'' <;> simp only [renderTuple, List.nil_append, List.append_assoc, e, List.cons_append, List.cons.injEq] at h <;>
        (have := hd_not_closer t'; rw [← h.1] at this; simp [isCloser] at this)
  | cons t ts1 =>
    cases ts' with
    | nil =>
      exfalso
      obtain ⟨tl, e⟩ := render_head t
      cases ts1 <;> simp only [renderTuple, List.nil_append, List.append_assoc, e, List.cons_append, List.cons.injEq] at h <;>
        (have := hd_not_closer t; rw [h.1] at this; simp [isCloser] at this)
    | cons t' ts1' =>
      cases ts1 with
      | nil =>
        cases ts1' with
        | nil =>
          simp only [renderTuple, List.append_assoc, List.cons_append, List.nil_append] at h
          obtain ⟨a, b⟩ := inj_render t t' (Tok.comma :: Tok.rp :: r) (Tok.comma :: Tok.rp :: r') h (by simp [Follow, isCloser]) (by simp [Follow, isCloser])
          simp only [List.cons.injEq, true_and] at b
          exact ⟨by rw [a], b⟩
        | cons a' as' =>
          exfalso
          simp only [renderTuple, List.append_assoc, List.cons_append, List.nil_append] at h
          obtain ⟨_, b⟩ := inj_render t t' (Tok.comma :: Tok.rp :: r) (Tok.comma :: (renderArgs (TyList.cons a' as') ++ Tok.rp :: r')) h
            (by simp [Follow, isCloser]) (by simp [Follow, isCloser])
          simp only [List.cons.injEq, true_and] at b
          obtain ⟨tl, e⟩ := renderArgs_cons_head a' as'
          rw [e] at b
          simp only [List.cons_append, List.cons.injEq] at b
          have := hd_not_closer a'; rw [← b.1] at this; simp [isCloser] at this
      | cons a as =>
        cases ts1' with
        | nil =>
          exfalso
          simp only [renderTuple, List.append_assoc, List.cons_append, List.nil_append] at h
          obtain ⟨_, b⟩ := inj_render t t' (Tok.comma :: (renderArgs (TyList.cons a as) ++ Tok.rp :: r)) (Tok.comma :: Tok.rp :: r') h
            (by simp [Follow, isCloser]) (by simp [Follow, isCloser])
          simp only [List.cons.injEq, true_and] at b
          obtain ⟨tl, e⟩ := renderArgs_cons_head a as
          rw [e] at b
          simp only [List.cons_append, List.cons.injEq] at b
          have := hd_not_closer a; rw [b.1] at this; simp [isCloser] at this
        | cons a' as' =>
          simp only [renderTuple, List.append_assoc, List.cons_append, List.nil_append] at h
          obtain ⟨e1, b⟩ := inj_render t t' (Tok.comma :: (renderArgs (TyList.cons a as) ++ Tok.rp :: r)) (Tok.comma :: (renderArgs (TyList.cons a' as') ++ Tok.rp :: r')) h
            (by simp [Follow, isCloser]) (by simp [Follow, isCloser])
          simp only [List.cons.injEq, true_and] at b
          obtain ⟨e2, e3⟩ := inj_args (TyList.cons a as) (TyList.cons a' as') (Tok.rp :: r) (Tok.rp :: r') b trivial trivial
          simp only [List.cons.injEq, true_and] at e3
          exact ⟨by rw [e1, e2], e3⟩

theorem inj_ret (t t' : Ty) (r r' : List Tok) (h : renderRet t ++ r = renderRet t' ++ r')
    (hr : Follow r) (hr' : Follow r') : t = t' ∧ r = r' := by
  rcases renderRet_cases t with ⟨e1, e2⟩ | ⟨e1, e2⟩ <;> rcases renderRet_cases t' with ⟨f1, f2⟩ | ⟨f1, f2⟩
  · rw [e2, f2] at h; exact ⟨by rw [e1, f1], h⟩
  · exfalso
    rw [e2, f2] at h
    simp only [List.nil_append, List.cons_append] at h
    rw [h] at hr
    simp [Follow, isCloser] at hr
  · exfalso
    rw [e2, f2] at h
    simp only [List.nil_append, List.cons_append] at h
    rw [← h] at hr'
    simp [Follow, isCloser] at hr'
  · rw [e2, f2] at h
    simp only [List.cons_append, List.cons.injEq, true_and] at h
    exact inj_render t t' r r' h hr hr'

theorem inj_fn (f f' : FnTy) (r r' : List Tok) (h : renderFn f ++ r = renderFn f' ++ r')
    (hr : Follow r) (hr' : Follow r') : f = f' ∧ r = r' := by
  cases f with
  | mk u abi ps rt =>
    cases f' with
    | mk u' abi' ps' rt' =>
      simp only [renderFn, List.append_assoc] at h
      have key : u = u' ∧ abi = abi' ∧
          renderArgs ps ++ (Tok.rp :: (renderRet rt ++ r)) = renderArgs ps' ++ (Tok.rp :: (renderRet rt' ++ r')) := by
        cases u <;> cases u' <;> by_cases ha : abi = 0 <;> by_cases ha' : abi' = 0 <;>
          simp [ha, ha'] at h <;> first | (exact ⟨rfl, by omega, h⟩) | (exact ⟨rfl, by rw [ha, ha'], h⟩) | (exact ⟨rfl, h.1, h.2⟩)
      obtain ⟨hu, habi, hrest⟩ := key
      obtain ⟨a, b⟩ := inj_args ps ps' _ _ hrest trivial trivial
      simp only [List.cons.injEq, true_and] at b
      obtain ⟨c, d⟩ := inj_ret rt rt' r r' b hr hr'
      exact ⟨by rw [hu, habi, a, c], d⟩
end

/-- **The rendering of function-pointer types is injective**: distinct types of the grammar never
    print the same. -/
theorem renderFn_injective (f f' : FnTy) (h : renderFn f = renderFn f') : f = f' := by
  have := inj_fn f f' [] [] (by simpa using h) trivial trivial
  exact this.1

end Inj.Sig
