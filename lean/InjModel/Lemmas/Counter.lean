import InjModel.Model.Counter
namespace Inj.Counter

def countTrue : List Bool → Nat
  | [] => 0
  | true :: ms => countTrue ms + 1
  | false :: ms => countTrue ms

theorem countTrue_append (a b : List Bool) : countTrue (a ++ b) = countTrue a + countTrue b := by
  induction a with
  | nil => simp [countTrue]
  | cons x xs ih => cases x <;> simp [countTrue, ih] <;> omega

theorem call_true_snd (n cnt : Nat) : (call n cnt true).2 = cnt + 1 := by
  unfold call; simp only [if_true]; split <;> rfl

theorem call_false (n cnt : Nat) : call n cnt false = (CallOut.panicUnexpected, cnt) := rfl

theorem runCalls_cnt (n : Nat) (ms : List Bool) : ∀ cnt, (runCalls n cnt ms).2 = cnt + countTrue ms := by
  induction ms with
  | nil => intro cnt; simp [runCalls, countTrue]
  | cons m ms ih =>
    intro cnt
    cases m
    · simp [runCalls, call_false, ih, countTrue]
    · simp only [runCalls, call_true_snd, ih, countTrue]; omega

theorem runCalls_length (n : Nat) (ms : List Bool) : ∀ cnt, (runCalls n cnt ms).1.length = ms.length := by
  induction ms with
  | nil => intro cnt; rfl
  | cons m ms ih => intro cnt; simp [runCalls, ih]

theorem runCalls_append (n : Nat) (a b : List Bool) : ∀ cnt,
    (runCalls n cnt (a ++ b)).1 = (runCalls n cnt a).1 ++ (runCalls n (runCalls n cnt a).2 b).1 := by
  induction a with
  | nil => intro cnt; simp [runCalls]
  | cons x xs ih => intro cnt; simp [runCalls, ih]

/-- outcome of the call at position `pre.length` -/
theorem runCalls_at (n cnt : Nat) (pre post : List Bool) (m : Bool) :
    (runCalls n cnt (pre ++ m :: post)).1.getD pre.length CallOut.ok = (call n (cnt + countTrue pre) m).1 := by
  rw [runCalls_append]
  have hl := runCalls_length n pre cnt
  rw [List.getD_eq_getElem?_getD, List.getElem?_append_right (by omega)]
  simp [hl, runCalls, runCalls_cnt]

def countOut (o : CallOut) : List CallOut → Nat
  | [] => 0
  | x :: xs => (if x = o then 1 else 0) + countOut o xs

theorem runCalls_counts (n : Nat) (ms : List Bool) : ∀ cnt,
    countOut CallOut.ok (runCalls n cnt ms).1 = min (countTrue ms) (n - cnt) ∧
    countOut CallOut.panicOver (runCalls n cnt ms).1 = countTrue ms - min (countTrue ms) (n - cnt) ∧
    countOut CallOut.panicUnexpected (runCalls n cnt ms).1 = ms.length - countTrue ms := by
  induction ms with
  | nil => intro cnt; simp [runCalls, countOut, countTrue]
  | cons m ms ih =>
    intro cnt
    cases m
    · have := ih cnt
      have hle : countTrue ms ≤ ms.length := by
        clear ih this; induction ms with
        | nil => simp [countTrue]
        | cons x xs ihx => cases x <;> simp [countTrue] <;> omega
      simp only [runCalls, call, countOut, countTrue, List.length_cons]
      simp; omega
    · have := ih (cnt + 1)
      simp only [runCalls, call, countTrue, List.length_cons]
      by_cases h : cnt ≥ n
      · simp only [h, if_true, countOut]; simp; omega
      · simp only [h, if_false, countOut]; simp; omega

end Inj.Counter
