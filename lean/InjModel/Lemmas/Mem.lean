import InjModel.Model.Mem
namespace Inj

theorem writeMem_in (m : Mem) (a : Nat) (bs : List Nat) (x : Nat) (h1 : a ≤ x) (h2 : x < a + bs.length) :
    writeMem m a bs x = bs.getD (x - a) 0 := by
  unfold writeMem; rw [if_pos ⟨h1, h2⟩]

theorem writeMem_out (m : Mem) (a : Nat) (bs : List Nat) (x : Nat) (h : x < a ∨ a + bs.length ≤ x) :
    writeMem m a bs x = m x := by
  unfold writeMem
  have : ¬ (a ≤ x ∧ x < a + bs.length) := by omega
  rw [if_neg this]

theorem readMem_length (m : Mem) (a n : Nat) : (readMem m a n).length = n := by
  induction n generalizing a with
  | zero => rfl
  | succ n ih => simp [readMem, ih]

theorem readMem_getD (m : Mem) (a n i : Nat) (h : i < n) : (readMem m a n).getD i 0 = m (a + i) := by
  induction n generalizing a i with
  | zero => omega
  | succ n ih =>
    cases i with
    | zero => simp [readMem]
    | succ i =>
      simp only [readMem, List.getD_cons_succ]
      rw [ih (a+1) i (by omega)]
      congr 1; omega

/-- reading depends only on the bytes read -/
theorem readMem_congr (m m' : Mem) (a n : Nat) (h : ∀ x, a ≤ x → x < a + n → m x = m' x) :
    readMem m a n = readMem m' a n := by
  induction n generalizing a with
  | zero => rfl
  | succ n ih =>
    simp only [readMem]
    rw [h a (by omega) (by omega), ih (a+1) (fun x h1 h2 => h x (by omega) (by omega))]

/-- writing back what was read restores those bytes -/
theorem writeMem_readMem (m m' : Mem) (a n x : Nat) (h1 : a ≤ x) (h2 : x < a + n) :
    writeMem m' a (readMem m a n) x = m x := by
  rw [writeMem_in _ _ _ _ h1 (by rw [readMem_length]; exact h2), readMem_getD _ _ _ _ (by omega)]
  congr 1; omega

theorem take_readMem (m : Mem) (a n : Nat) : (readMem m a n).take n = readMem m a n := by
  rw [List.take_of_length_le]; rw [readMem_length]; exact Nat.le_refl _

theorem pageStart_le (a : Nat) : pageStart a ≤ a := by
  unfold pageStart pageSize; omega

theorem le_pageUp (a : Nat) : a ≤ pageUp a := by
  unfold pageUp pageSize; omega

theorem pageUp_small (n : Nat) (h1 : 0 < n) (h2 : n ≤ 4096) : pageUp n = 4096 := by
  unfold pageUp pageSize; omega

end Inj
