import InjModel.Model.A32
import InjModel.Lemmas.Bytes
namespace Inj.A32
open Inj Inj.Generated Inj.Generated.Consts

theorem writeMem_get (m : Mem) (a : Nat) (bs : List Nat) (k : Nat) (h : k < bs.length) :
    writeMem m a bs (a + k) = bs.getD k 0 := by
  unfold writeMem
  have : a ≤ a + k ∧ a + k < a + bs.length := by omega
  rw [if_pos this]; congr 1; omega

theorem writeMem_get0 (m : Mem) (a : Nat) (bs : List Nat) (h : 0 < bs.length) :
    writeMem m a bs a = bs.getD 0 0 := by
  have := writeMem_get m a bs 0 h; simpa using this

/-- the three shapes of the entry patch -/
theorem patch_arm (src target : Nat) (h : src % 4 = 0) :
    patch src target =
      { addr := src, thumb := false,
        bytes := [0x00, 0x90, 0x1F, 0xE5, 0x19, 0xFF, 0x2F, 0xE1] ++ le32 (target % 4294967296) } := by
  unfold patch
  have e : (src % 2 == 1) = false := by
    have : src % 2 = 0 := by omega
    simp [this]
  simp [e, armArmWords, wordOf, le32]

theorem patch_thumb0 (src target : Nat) (h : src % 4 = 1) :
    patch src target =
      { addr := src - 1, thumb := true,
        bytes := [0x00, 0x4F, 0x38, 0x47] ++ le32 (target % 4294967296) ++ [0, 0, 0, 0] } := by
  unfold patch
  have e : (src % 2 == 1) = true := by
    have : src % 2 = 1 := by omega
    simp [this]
  have e2 : ((src - 1) % armAlignMod != 0) = false := by
    have : (src - 1) % 4 = 0 := by omega
    simp [armAlignMod, this]
  simp [e, e2, armThumbWords, wordOf, le32]

theorem patch_thumb2 (src target : Nat) (h : src % 4 = 3) :
    patch src target =
      { addr := src - 1, thumb := true,
        bytes := [0xC0, 0x46, 0x00, 0x4F, 0x38, 0x47] ++ le32 (target % 4294967296) ++ [0, 0] } := by
  unfold patch
  have e : (src % 2 == 1) = true := by
    have : src % 2 = 1 := by omega
    simp [this]
  have e2 : ((src - 1) % armAlignMod != 0) = true := by
    have : (src - 1) % 4 = 2 := by omega
    simp [armAlignMod, this]
  simp [e, e2, armThumbWords, wordOf, le32, rotateRight, armRotate, armNop0, armNop1]

end Inj.A32

namespace Inj.A32
open Inj Inj.Generated Inj.Generated.Consts

theorem rd32_writeMem (m : Mem) (a : Nat) (bs : List Nat) (k : Nat) (h : k + 3 < bs.length) :
    rd32 (writeMem m a bs) (a + k) =
      de32 (bs.getD k 0) (bs.getD (k+1) 0) (bs.getD (k+2) 0) (bs.getD (k+3) 0) := by
  unfold rd32
  rw [writeMem_get m a bs k (by omega)]
  rw [show a + k + 1 = a + (k+1) by omega, show a + k + 2 = a + (k+2) by omega, show a + k + 3 = a + (k+3) by omega]
  rw [writeMem_get m a bs (k+1) (by omega), writeMem_get m a bs (k+2) (by omega), writeMem_get m a bs (k+3) (by omega)]

theorem rd16_writeMem (m : Mem) (a : Nat) (bs : List Nat) (k : Nat) (h : k + 1 < bs.length) :
    rd16 (writeMem m a bs) (a + k) = bs.getD k 0 + 256 * bs.getD (k+1) 0 := by
  unfold rd16
  rw [writeMem_get m a bs k (by omega), show a + k + 1 = a + (k+1) by omega, writeMem_get m a bs (k+1) (by omega)]

theorem de32_le32' (t : Nat) (h : t < 4294967296) :
    de32 ((le32 t).getD 0 0) ((le32 t).getD 1 0) ((le32 t).getD 2 0) ((le32 t).getD 3 0) = t := by
  simp [le32]; unfold de32; omega

/-- one A32 step from explicit facts about the memory -/
theorem step_arm_ldr (m : Mem) (pc : Nat) (r : Nat → Nat) (w rt imm v : Nat)
    (hw : rd32 m pc = w) (hd : decodeArm w = Instr.ldrLit rt false imm) (hrt : rt ≠ 15)
    (hv : rd32 m ((pc + 8) / 4 * 4 - imm) = v) :
    step m { pc := pc, thumb := false, r := r } = some { pc := pc + 4, thumb := false, r := setR r rt v } := by
  unfold step
  simp only [Bool.false_eq_true, if_false, hw, hd, hrt, hv]

theorem step_arm_bx (m : Mem) (pc : Nat) (r : Nat → Nat) (w rm : Nat)
    (hw : rd32 m pc = w) (hd : decodeArm w = Instr.bx rm) (hrm : rm ≠ 15) :
    step m { pc := pc, thumb := false, r := r } = some { pc := r rm / 2 * 2, thumb := r rm % 2 == 1, r := r } := by
  unfold step
  simp only [Bool.false_eq_true, if_false, hw, hd, hrm]

theorem step_thumb_ldr (m : Mem) (pc : Nat) (r : Nat → Nat) (h rt imm v : Nat)
    (hw : rd16 m pc = h) (hd : decodeThumb h = Instr.ldrLit rt true imm) (hrt : rt ≠ 15)
    (hv : rd32 m ((pc + 4) / 4 * 4 + imm) = v) :
    step m { pc := pc, thumb := true, r := r } = some { pc := pc + 2, thumb := true, r := setR r rt v } := by
  unfold step
  simp only [if_true, hw, hd, hrt, if_false, hv]

theorem step_thumb_bx (m : Mem) (pc : Nat) (r : Nat → Nat) (h rm : Nat)
    (hw : rd16 m pc = h) (hd : decodeThumb h = Instr.bx rm) (hrm : rm ≠ 15) :
    step m { pc := pc, thumb := true, r := r } = some { pc := r rm / 2 * 2, thumb := r rm % 2 == 1, r := r } := by
  unfold step
  simp only [if_true, hw, hd, hrm, if_false]

theorem step_thumb_nop (m : Mem) (pc : Nat) (r : Nat → Nat) (h : Nat)
    (hw : rd16 m pc = h) (hd : decodeThumb h = Instr.nop) :
    step m { pc := pc, thumb := true, r := r } = some { pc := pc + 2, thumb := true, r := r } := by
  unfold step
  simp only [if_true, hw, hd]

theorem setR_same (f : Nat → Nat) (i v : Nat) : setR f i v i = v := by simp [setR]

/-- ARM state, word-aligned entry: `ldr r9,[pc,#-0]` reads the word at entry+8, which holds the
    fake's address; `bx r9` goes there with the right instruction-set state. -/
theorem run_arm (m0 : Mem) (src target : Nat) (h : src % 4 = 0) (r : Nat → Nat) :
    run (writeMem m0 src (patch src target).bytes) 2 { pc := src, thumb := false, r := r } =
      some { pc := target % 4294967296 / 2 * 2, thumb := target % 4294967296 % 2 == 1,
             r := setR r 9 (target % 4294967296) } := by
  rw [patch_arm src target h]
  have f0 := rd32_writeMem m0 src ([0x00, 0x90, 0x1F, 0xE5, 0x19, 0xFF, 0x2F, 0xE1] ++ le32 (target % 4294967296)) 0 (by simp [le32])
  have f4 := rd32_writeMem m0 src ([0x00, 0x90, 0x1F, 0xE5, 0x19, 0xFF, 0x2F, 0xE1] ++ le32 (target % 4294967296)) 4 (by simp [le32])
  have f8 := rd32_writeMem m0 src ([0x00, 0x90, 0x1F, 0xE5, 0x19, 0xFF, 0x2F, 0xE1] ++ le32 (target % 4294967296)) 8 (by simp [le32])
  have t8 := de32_le32' (target % 4294967296) (by omega)
  simp only [List.cons_append, List.nil_append, List.getD_cons_succ, List.getD_cons_zero, Nat.add_zero, Nat.zero_add] at f0 f4 f8 ⊢
  rw [t8] at f8
  generalize writeMem m0 src (0 :: 144 :: 31 :: 229 :: 25 :: 255 :: 47 :: 225 :: le32 (target % 4294967296)) = M at *
  have hb : (src + 8) / 4 * 4 - 0 = src + 8 := by omega
  have s1 := step_arm_ldr M src r _ 9 0 (target % 4294967296) f0 (by decide) (by decide) (by rw [hb]; exact f8)
  have s2 := step_arm_bx M (src + 4) (setR r 9 (target % 4294967296)) _ 9 f4 (by decide) (by decide)
  simp only [run, s1, s2, setR_same]

/-- Thumb state, entry ≡ 0 mod 4: `ldr r7,[pc,#0]` (PC = entry+4, already aligned) reads the word
    at entry+4 = the fake's address; `bx r7`. -/
theorem run_thumb0 (m0 : Mem) (src target : Nat) (h : src % 4 = 1) (r : Nat → Nat) :
    run (writeMem m0 (src - 1) (patch src target).bytes) 2 { pc := src - 1, thumb := true, r := r } =
      some { pc := target % 4294967296 / 2 * 2, thumb := target % 4294967296 % 2 == 1,
             r := setR r 7 (target % 4294967296) } := by
  rw [patch_thumb0 src target h]
  have f0 := rd16_writeMem m0 (src - 1) ([0x00, 0x4F, 0x38, 0x47] ++ le32 (target % 4294967296) ++ [0, 0, 0, 0]) 0 (by simp [le32])
  have f2 := rd16_writeMem m0 (src - 1) ([0x00, 0x4F, 0x38, 0x47] ++ le32 (target % 4294967296) ++ [0, 0, 0, 0]) 2 (by simp [le32])
  have f4 := rd32_writeMem m0 (src - 1) ([0x00, 0x4F, 0x38, 0x47] ++ le32 (target % 4294967296) ++ [0, 0, 0, 0]) 4 (by simp [le32])
  have t8 : de32 (target % 256) (target % 4294967296 / 256 % 256) (target % 4294967296 / 65536 % 256) (target % 4294967296 / 16777216 % 256) = target % 4294967296 := by
    unfold de32; omega
  generalize writeMem m0 (src - 1) _ = M at f0 f2 f4 ⊢
  simp [le32] at f0 f2 f4
  rw [t8] at f4
  have hb : (src - 1 + 4) / 4 * 4 + 0 = src - 1 + 4 := by omega
  have s1 := step_thumb_ldr M (src - 1) r _ 7 0 (target % 4294967296) f0 (by decide) (by decide) (by rw [hb]; exact f4)
  have s2 := step_thumb_bx M (src - 1 + 2) (setR r 7 (target % 4294967296)) _ 7 f2 (by decide) (by decide)
  simp only [run, s1, s2, setR_same]

/-- Thumb state, entry ≡ 2 mod 4: NOP; `ldr r7,[pc,#0]` at entry+2 (PC = entry+6 ≡ 0 mod 4) reads the
    word at entry+6 = the fake's address; `bx r7`. -/
theorem run_thumb2 (m0 : Mem) (src target : Nat) (h : src % 4 = 3) (r : Nat → Nat) :
    run (writeMem m0 (src - 1) (patch src target).bytes) 3 { pc := src - 1, thumb := true, r := r } =
      some { pc := target % 4294967296 / 2 * 2, thumb := target % 4294967296 % 2 == 1,
             r := setR r 7 (target % 4294967296) } := by
  rw [patch_thumb2 src target h]
  have f0 := rd16_writeMem m0 (src - 1) ([0xC0, 0x46, 0x00, 0x4F, 0x38, 0x47] ++ le32 (target % 4294967296) ++ [0, 0]) 0 (by simp [le32])
  have f2 := rd16_writeMem m0 (src - 1) ([0xC0, 0x46, 0x00, 0x4F, 0x38, 0x47] ++ le32 (target % 4294967296) ++ [0, 0]) 2 (by simp [le32])
  have f4 := rd16_writeMem m0 (src - 1) ([0xC0, 0x46, 0x00, 0x4F, 0x38, 0x47] ++ le32 (target % 4294967296) ++ [0, 0]) 4 (by simp [le32])
  have f6 := rd32_writeMem m0 (src - 1) ([0xC0, 0x46, 0x00, 0x4F, 0x38, 0x47] ++ le32 (target % 4294967296) ++ [0, 0]) 6 (by simp [le32])
  have t8 : de32 (target % 256) (target % 4294967296 / 256 % 256) (target % 4294967296 / 65536 % 256) (target % 4294967296 / 16777216 % 256) = target % 4294967296 := by
    unfold de32; omega
  generalize writeMem m0 (src - 1) _ = M at f0 f2 f4 f6 ⊢
  simp [le32] at f0 f2 f4 f6
  rw [t8] at f6
  have hb : (src - 1 + 2 + 4) / 4 * 4 + 0 = src - 1 + 6 := by omega
  have s0 := step_thumb_nop M (src - 1) r _ f0 (by decide)
  have s1 := step_thumb_ldr M (src - 1 + 2) r _ 7 0 (target % 4294967296) f2 (by decide) (by decide) (by rw [hb]; exact f6)
  have s2 := step_thumb_bx M (src - 1 + 2 + 2) (setR r 7 (target % 4294967296)) _ 7 (show rd16 M (src - 1 + 2 + 2) = 18232 by rw [show src - 1 + 2 + 2 = src - 1 + 4 by omega]; exact f4) (by decide) (by decide)
  simp only [run, s0, s1, s2, setR_same]

end Inj.A32
