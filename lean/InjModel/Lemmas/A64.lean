import InjModel.Model.A64
import InjModel.Lemmas.Bytes
namespace Inj.A64
open Inj Inj.Generated Inj.Generated.Consts

theorem bitsToNat_append (a b : List Bool) :
    bitsToNat (a ++ b) = bitsToNat a + 2 ^ a.length * bitsToNat b := by
  induction a with
  | nil => simp [bitsToNat]
  | cons x xs ih =>
    simp only [List.cons_append, bitsToNat, ih, List.length_cons, Nat.pow_succ]
    rw [Nat.mul_add, ← Nat.add_assoc, Nat.mul_comm (2 ^ xs.length) 2, Nat.mul_assoc]

theorem natToBits_length (n w : Nat) : (natToBits n w).length = w := by
  induction w generalizing n with
  | zero => rfl
  | succ w ih => simp [natToBits, ih]

theorem bitsToNat_natToBits (n w : Nat) : bitsToNat (natToBits n w) = n % 2 ^ w := by
  induction w generalizing n with
  | zero => simp [natToBits, bitsToNat, Nat.mod_one]
  | succ w ih =>
    simp only [natToBits, bitsToNat, ih]
    have h2 : n % 2 ^ (w + 1) = n % 2 + 2 * (n / 2 % 2 ^ w) := by
      rw [Nat.pow_succ, Nat.mul_comm, Nat.mod_mul]
    rw [h2]
    have : (if (n % 2 == 1) = true then 1 else 0) = n % 2 := by
      rcases Nat.mod_two_eq_zero_or_one n with h | h <;> simp [h]
    rw [this]

/-- value of the MOVZ word the emitter builds -/
theorem movz_val (imm : Nat) (sf : Bool) (hw rd : Nat) :
    movz imm sf hw rd = rd % 32 + 32 * (imm % 65536) + 2097152 * (hw % 4) + 8388608 * 165 +
      (if sf then 2147483648 else 0) := by
  unfold movz emitWord
  simp only [emitMovz, emitBits, srcBits, bitsToNat_append, bitsToNat_natToBits, natToBits_length,
    List.length_cons, List.length_nil, bitsToNat, List.append_nil]
  cases sf <;> simp <;> omega

theorem movk_val (imm : Nat) (sf : Bool) (hw rd : Nat) :
    movk imm sf hw rd = rd % 32 + 32 * (imm % 65536) + 2097152 * (hw % 4) + 8388608 * 229 +
      (if sf then 2147483648 else 0) := by
  unfold movk emitWord
  simp only [emitMovk, emitBits, srcBits, bitsToNat_append, bitsToNat_natToBits, natToBits_length,
    List.length_cons, List.length_nil, bitsToNat, List.append_nil]
  cases sf <;> simp <;> omega

theorem br_val (rn : Nat) : br rn = 0xD61F0000 + 32 * (rn % 32) := by
  unfold br emitWord
  simp only [emitBr, emitBits, srcBits, bitsToNat_append, bitsToNat_natToBits, natToBits_length,
    List.length_cons, List.length_nil, bitsToNat, List.append_nil]
  simp; omega

theorem ret_val (rn : Nat) : ret rn = 0xD65F0000 + 32 * (rn % 32) := by
  unfold ret emitWord
  simp only [emitRet, emitBits, srcBits, bitsToNat_append, bitsToNat_natToBits, natToBits_length,
    List.length_cons, List.length_nil, bitsToNat, List.append_nil]
  simp; omega

end Inj.A64

namespace Inj.A64
open Inj Inj.Generated Inj.Generated.Consts

theorem decode_movz (imm hw rd : Nat) (hi : imm < 65536) (hh : hw < 4) (hr : rd < 32) :
    decode (movz imm true hw rd) = Instr.movz rd imm hw := by
  rw [movz_val]; unfold decode
  simp only [if_true]
  have e0 : ¬ (rd % 32 + 32 * (imm % 65536) + 2097152 * (hw % 4) + 8388608 * 165 + 2147483648 = 0xD503201F) := by omega
  have e1 : (rd % 32 + 32 * (imm % 65536) + 2097152 * (hw % 4) + 8388608 * 165 + 2147483648) / 8388608 = 0x1A5 := by omega
  rw [if_neg e0, if_pos e1]
  congr 1 <;> omega

theorem decode_movk (imm hw rd : Nat) (hi : imm < 65536) (hh : hw < 4) (hr : rd < 32) :
    decode (movk imm true hw rd) = Instr.movk rd imm hw := by
  rw [movk_val]; unfold decode
  simp only [if_true]
  have e0 : ¬ (rd % 32 + 32 * (imm % 65536) + 2097152 * (hw % 4) + 8388608 * 229 + 2147483648 = 0xD503201F) := by omega
  have e1 : ¬ ((rd % 32 + 32 * (imm % 65536) + 2097152 * (hw % 4) + 8388608 * 229 + 2147483648) / 8388608 = 0x1A5) := by omega
  have e2 : (rd % 32 + 32 * (imm % 65536) + 2097152 * (hw % 4) + 8388608 * 229 + 2147483648) / 8388608 = 0x1E5 := by omega
  rw [if_neg e0, if_neg e1, if_pos e2]
  congr 1 <;> omega

theorem decode_br (rn : Nat) (hr : rn < 32) : decode (br rn) = Instr.br rn := by
  rw [br_val]; unfold decode
  have e0 : ¬ (0xD61F0000 + 32 * (rn % 32) = 0xD503201F) := by omega
  have e1 : ¬ ((0xD61F0000 + 32 * (rn % 32)) / 8388608 = 0x1A5) := by omega
  have e2 : ¬ ((0xD61F0000 + 32 * (rn % 32)) / 8388608 = 0x1E5) := by omega
  have e3 : (0xD61F0000 + 32 * (rn % 32)) / 1024 = 0x3587C0 ∧ (0xD61F0000 + 32 * (rn % 32)) % 32 = 0 := by omega
  rw [if_neg e0, if_neg e1, if_neg e2, if_pos e3]
  congr 1; omega

theorem decode_ret (rn : Nat) (hr : rn < 32) : decode (ret rn) = Instr.ret rn := by
  rw [ret_val]; unfold decode
  have e0 : ¬ (0xD65F0000 + 32 * (rn % 32) = 0xD503201F) := by omega
  have e1 : ¬ ((0xD65F0000 + 32 * (rn % 32)) / 8388608 = 0x1A5) := by omega
  have e2 : ¬ ((0xD65F0000 + 32 * (rn % 32)) / 8388608 = 0x1E5) := by omega
  have e3 : ¬ ((0xD65F0000 + 32 * (rn % 32)) / 1024 = 0x3587C0 ∧ (0xD65F0000 + 32 * (rn % 32)) % 32 = 0) := by omega
  have e4 : (0xD65F0000 + 32 * (rn % 32)) / 1024 = 0x3597C0 ∧ (0xD65F0000 + 32 * (rn % 32)) % 32 = 0 := by omega
  rw [if_neg e0, if_neg e1, if_neg e2, if_neg e3, if_pos e4]
  congr 1; omega

/-- sequential execution of already decoded instructions -/
def execList : List Instr → Cpu → Option Cpu
  | [], c => some c
  | i :: is, c => match exec i c with
    | none => none
    | some c' => execList is c'

theorem chunk_lt (a s : Nat) : chunk a s < 65536 := by unfold chunk; omega

/-- the trampoline words decode to `movz x9,#a0; movk x9,#a1,lsl 16; movk …,lsl 32; movk …,lsl 48; br x9` -/
theorem tramp_decodes (fake : Nat) :
    (tramp fake).map decode =
      [Instr.movz 9 (chunk fake 0) 0, Instr.movk 9 (chunk fake 16) 1, Instr.movk 9 (chunk fake 32) 2,
       Instr.movk 9 (chunk fake 48) 3, Instr.br 9] := by
  unfold tramp
  simp only [a64TrampSeq, List.map, trampWord, a64ScratchReg]
  rw [decode_movz _ _ _ (chunk_lt _ _) (by decide) (by decide),
      decode_movk _ _ _ (chunk_lt _ _) (by decide) (by decide),
      decode_movk _ _ _ (chunk_lt _ _) (by decide) (by decide),
      decode_movk _ _ _ (chunk_lt _ _) (by decide) (by decide),
      decode_br _ (by decide)]

theorem chunks_rebuild (fake : Nat) (h : fake < 18446744073709551616) :
    insert16 (insert16 (insert16 (chunk fake 0 * 2 ^ (16 * 0)) (chunk fake 16) 1) (chunk fake 32) 2) (chunk fake 48) 3 = fake := by
  unfold insert16 chunk
  simp only [Nat.reducePow, Nat.reduceMul]
  omega

@[simp] theorem setX_same (f : Nat → Nat) (r v : Nat) : setX f r v r = v := by simp [setX]
@[simp] theorem setX_setX (f : Nat → Nat) (r a b : Nat) : setX (setX f r a) r b = setX f r b := by
  funext i; unfold setX; split <;> rfl
theorem setX_other (f : Nat → Nat) (r v i : Nat) (h : i ≠ r) : setX f r v i = f i := by simp [setX, h]

theorem exec_seq (a0 a1 a2 a3 : Nat) (c : Cpu) :
    execList [Instr.movz 9 a0 0, Instr.movk 9 a1 1, Instr.movk 9 a2 2, Instr.movk 9 a3 3, Instr.br 9] c =
      some { pc := insert16 (insert16 (insert16 (a0 * 2 ^ (16 * 0)) a1 1) a2 2) a3 3,
             x := setX c.x 9 (insert16 (insert16 (insert16 (a0 * 2 ^ (16 * 0)) a1 1) a2 2) a3 3) } := by
  simp only [execList, exec]
  rw [setX_same, setX_setX, setX_same, setX_setX, setX_same, setX_setX, setX_same, setX_setX]

theorem tramp_exec (fake : Nat) (h : fake < 18446744073709551616) (c : Cpu) :
    execList ((tramp fake).map decode) c = some { pc := fake, x := setX c.x 9 fake } := by
  rw [tramp_decodes, exec_seq, chunks_rebuild fake h]

end Inj.A64

namespace Inj.A64
open Inj Inj.Generated Inj.Generated.Consts

/-- `entryLinux` with the extracted constants substituted by the values the ISA expects -/
def entryLinuxLit (func jit : Nat) : Res (List Nat) :=
  let off : Int := Int.tdiv (toI64 jit - toI64 func) 4
  if -33554432 ≤ off ∧ off ≤ 33554431 then
    Res.ok [335544320 ||| (ofInt32 off &&& 67108863), 3573751839, 3573751839]
  else Res.panic "JIT memory is out of branch range"

theorem entryLinux_eq_lit : entryLinux = entryLinuxLit := rfl

theorem b_word (y : Nat) : 335544320 ||| (y &&& 67108863) = 335544320 + y % 67108864 := by
  have h1 : y &&& 67108863 = y % 67108864 := Nat.and_two_pow_sub_one_eq_mod y 26
  rw [h1]
  have h2 := Nat.two_pow_add_eq_or_of_lt (i := 26) (b := y % 67108864) (by omega) 5
  simp only [Nat.reducePow, Nat.reduceMul] at h2
  exact h2.symm

theorem decode_b (y : Nat) (h : y < 67108864) : decode (335544320 + y) = Instr.b y := by
  unfold decode
  have e0 : ¬ (335544320 + y = 0xD503201F) := by omega
  have e1 : ¬ ((335544320 + y) / 8388608 = 0x1A5) := by omega
  have e2 : ¬ ((335544320 + y) / 8388608 = 0x1E5) := by omega
  have e3 : ¬ ((335544320 + y) / 1024 = 0x3587C0 ∧ (335544320 + y) % 32 = 0) := by omega
  have e4 : ¬ ((335544320 + y) / 1024 = 0x3597C0 ∧ (335544320 + y) % 32 = 0) := by omega
  have e5 : (335544320 + y) / 67108864 = 5 := by omega
  rw [if_neg e0, if_neg e1, if_neg e2, if_neg e3, if_neg e4, if_pos e5]
  congr 1; omega

theorem decode_nop : decode 3573751839 = Instr.nop := by decide

/-- in range and word aligned: `B` whose destination is exactly `jit`, then two NOPs -/
theorem entryLinux_ok (func jit : Nat) (hf : func < 9223372036854775808) (hj : jit < 9223372036854775808)
    (af : func % 4 = 0) (aj : jit % 4 = 0)
    (hr : -134217728 ≤ (jit : Int) - func ∧ (jit : Int) - func < 134217728) :
    ∃ imm26, entryLinux func jit = Res.ok [335544320 + imm26, 3573751839, 3573751839] ∧
      decode (335544320 + imm26) = Instr.b imm26 ∧
      wrap64 ((func : Int) + sext 26 imm26 * 4) = jit := by
  rw [entryLinux_eq_lit]; unfold entryLinuxLit
  have hd : (4 : Int) ∣ (toI64 jit - toI64 func) := by
    unfold toI64; rw [if_pos hj, if_pos hf]; omega
  have ht : Int.tdiv (toI64 jit - toI64 func) 4 = (toI64 jit - toI64 func) / 4 := Int.tdiv_eq_ediv_of_dvd hd
  simp only [ht]
  have hv : toI64 jit - toI64 func = (jit : Int) - func := by unfold toI64; rw [if_pos hj, if_pos hf]
  rw [hv]
  have hin : -33554432 ≤ ((jit : Int) - func) / 4 ∧ ((jit : Int) - func) / 4 ≤ 33554431 := by omega
  rw [if_pos hin, b_word]
  refine ⟨ofInt32 (((jit : Int) - func) / 4) % 67108864, rfl, decode_b _ (by omega), ?_⟩
  unfold wrap64 sext ofInt32
  simp only [Nat.reducePow, Nat.reduceSub]
  split <;> omega

/-- out of range: refused, nothing emitted -/
theorem entryLinux_refuses (func jit : Nat) (hf : func < 9223372036854775808) (hj : jit < 9223372036854775808)
    (af : func % 4 = 0) (aj : jit % 4 = 0)
    (hr : ¬ (-134217728 ≤ (jit : Int) - func ∧ (jit : Int) - func < 134217728)) :
    ∃ why, entryLinux func jit = Res.panic why := by
  rw [entryLinux_eq_lit]; unfold entryLinuxLit
  have hd : (4 : Int) ∣ (toI64 jit - toI64 func) := by
    unfold toI64; rw [if_pos hj, if_pos hf]; omega
  have ht : Int.tdiv (toI64 jit - toI64 func) 4 = (toI64 jit - toI64 func) / 4 := Int.tdiv_eq_ediv_of_dvd hd
  simp only [ht]
  have hv : toI64 jit - toI64 func = (jit : Int) - func := by unfold toI64; rw [if_pos hj, if_pos hf]
  rw [hv]
  have hout : ¬ (-33554432 ≤ ((jit : Int) - func) / 4 ∧ ((jit : Int) - func) / 4 ≤ 33554431) := by omega
  rw [if_neg hout]
  exact ⟨_, rfl⟩

/-- the boolean stub decodes to `movz x0,#v; ret x30` -/
theorem boolStub_decodes (v : Bool) :
    (boolStub v).map decode = [Instr.movz 0 (if v then 1 else 0) 0, Instr.ret 30] := by
  unfold boolStub
  simp only [List.map, a64BoolValueBit, a64BoolSf, a64BoolHw, a64BoolReg, a64RetReg]
  rw [decode_movz _ _ _ (by cases v <;> simp) (by decide) (by decide), decode_ret _ (by decide)]

theorem boolStub_exec (v : Bool) (c : Cpu) :
    execList ((boolStub v).map decode) c = some { pc := c.x 30, x := setX c.x 0 (if v then 1 else 0) } := by
  rw [boolStub_decodes]
  simp only [execList, exec]
  rw [setX_other _ _ _ _ (by decide)]
  simp

end Inj.A64

namespace Inj.A64
open Inj Inj.Generated Inj.Generated.Consts

theorem decode_adrp (immlo immhi rd : Nat) (h1 : immlo < 4) (h2 : immhi < 524288) (h3 : rd < 32) :
    decode (2415919104 + immlo * 536870912 + immhi * 32 + rd) = Instr.adrp rd immlo immhi := by
  unfold decode
  have e0 : ¬ (2415919104 + immlo * 536870912 + immhi * 32 + rd = 0xD503201F) := by omega
  have e1 : ¬ ((2415919104 + immlo * 536870912 + immhi * 32 + rd) / 8388608 = 0x1A5) := by omega
  have e2 : ¬ ((2415919104 + immlo * 536870912 + immhi * 32 + rd) / 8388608 = 0x1E5) := by omega
  have e3 : ¬ ((2415919104 + immlo * 536870912 + immhi * 32 + rd) / 1024 = 0x3587C0 ∧ (2415919104 + immlo * 536870912 + immhi * 32 + rd) % 32 = 0) := by omega
  have e4 : ¬ ((2415919104 + immlo * 536870912 + immhi * 32 + rd) / 1024 = 0x3597C0 ∧ (2415919104 + immlo * 536870912 + immhi * 32 + rd) % 32 = 0) := by omega
  have e5 : ¬ ((2415919104 + immlo * 536870912 + immhi * 32 + rd) / 67108864 = 5) := by omega
  have e6 : (2415919104 + immlo * 536870912 + immhi * 32 + rd) / 2147483648 = 1 ∧ (2415919104 + immlo * 536870912 + immhi * 32 + rd) / 16777216 % 32 = 16 := by omega
  rw [if_neg e0, if_neg e1, if_neg e2, if_neg e3, if_neg e4, if_neg e5, if_pos e6]
  congr 1 <;> omega

theorem decode_add (imm12 rn rd : Nat) (h1 : imm12 < 4096) (h2 : rn < 32) (h3 : rd < 32) :
    decode (2432696320 + imm12 * 1024 + rn * 32 + rd) = Instr.addImm rd rn imm12 0 := by
  unfold decode
  have e0 : ¬ (2432696320 + imm12 * 1024 + rn * 32 + rd = 0xD503201F) := by omega
  have e1 : ¬ ((2432696320 + imm12 * 1024 + rn * 32 + rd) / 8388608 = 0x1A5) := by omega
  have e2 : ¬ ((2432696320 + imm12 * 1024 + rn * 32 + rd) / 8388608 = 0x1E5) := by omega
  have e3 : ¬ ((2432696320 + imm12 * 1024 + rn * 32 + rd) / 1024 = 0x3587C0 ∧ (2432696320 + imm12 * 1024 + rn * 32 + rd) % 32 = 0) := by omega
  have e4 : ¬ ((2432696320 + imm12 * 1024 + rn * 32 + rd) / 1024 = 0x3597C0 ∧ (2432696320 + imm12 * 1024 + rn * 32 + rd) % 32 = 0) := by omega
  have e5 : ¬ ((2432696320 + imm12 * 1024 + rn * 32 + rd) / 67108864 = 5) := by omega
  have e6 : ¬ ((2432696320 + imm12 * 1024 + rn * 32 + rd) / 2147483648 = 1 ∧ (2432696320 + imm12 * 1024 + rn * 32 + rd) / 16777216 % 32 = 16) := by omega
  have e7 : (2432696320 + imm12 * 1024 + rn * 32 + rd) / 8388608 = 0x122 := by omega
  rw [if_neg e0, if_neg e1, if_neg e2, if_neg e3, if_neg e4, if_neg e5, if_neg e6, if_pos e7]
  congr 1 <;> omega

theorem decode_br_lit (rn : Nat) (hr : rn < 32) : decode (3592355840 + rn * 32) = Instr.br rn := by
  have := decode_br rn hr
  rw [br_val] at this
  have e : 3592355840 + rn * 32 = 0xD61F0000 + 32 * (rn % 32) := by omega
  rw [e]; exact this

/-- macOS, direct range: a single `B` whose destination is exactly `target` -/
theorem entryMacos_near (pc target : Nat) (hp : pc < 9223372036854775808) (ht : target < 9223372036854775808)
    (al : ((target : Int) - pc) % 4 = 0)
    (hr : -134217728 ≤ (target : Int) - pc ∧ (target : Int) - pc < 134217728) (c : Cpu) :
    ∃ w, entryMacos pc target = [w, 3573751839, 3573751839] ∧
      exec (decode w) { c with pc := pc } = some { c with pc := target } := by
  unfold entryMacos
  simp only [a64Nop]
  rw [if_pos hr]
  refine ⟨_, rfl, ?_⟩
  rw [decode_b _ (by omega)]
  simp only [exec]
  congr 2
  unfold wrap64 sext ofInt32
  simp only [Nat.reducePow, Nat.reduceSub]
  split <;> omega

theorem toI64_small (n : Nat) (h : n < 9223372036854775808) : toI64 n = (n : Int) := by
  unfold toI64; rw [if_pos h]

theorem wrapI64_small (d : Int) (h1 : -9223372036854775808 ≤ d) (h2 : d < 9223372036854775808) : wrapI64 d = d := by
  unfold wrapI64; simp only; split <;> omega

theorem pageDiff_eq (pc target : Nat) (hp : pc < 9223372036854775808) (ht : target < 9223372036854775808) :
    wrapI64 (toI64 (target / 4096 * 4096) - toI64 (pc / 4096 * 4096)) / 4096 =
      ((target / 4096 : Nat) : Int) - ((pc / 4096 : Nat) : Int) := by
  rw [toI64_small _ (by omega), toI64_small _ (by omega), wrapI64_small _ (by omega) (by omega)]
  omega

theorem imm21_sext (d : Int) (h1 : -1048576 ≤ d) (h2 : d < 1048576) :
    sext 21 (ofInt64 d % 2097152 / 4 % 524288 * 4 + ofInt64 d % 2097152 % 4) = d := by
  unfold sext ofInt64
  simp only [Nat.reducePow, Nat.reduceSub]
  split <;> omega

theorem adrp_add (pc target : Nat) (hp : pc < 9223372036854775808) (ht : target < 9223372036854775808) :
    (wrap64 (((pc / 4096 * 4096 : Nat) : Int) + (((target / 4096 : Nat) : Int) - ((pc / 4096 : Nat) : Int)) * 4096) +
      target % 4096 * 1) % 18446744073709551616 = target := by
  unfold wrap64; omega

/-- macOS, long form: `ADRP x16; ADD x16; BR x16` reaches exactly `target` whenever the page
    distance fits the signed 21-bit immediate (|distance| < 4 GiB); only x16 is written. -/
theorem entryMacos_far (pc target : Nat) (hp : pc < 9223372036854775808) (ht : target < 9223372036854775808)
    (hn : ¬ (-134217728 ≤ (target : Int) - pc ∧ (target : Int) - pc < 134217728))
    (hr : -1048576 ≤ ((target / 4096 : Nat) : Int) - (pc / 4096 : Nat) ∧ ((target / 4096 : Nat) : Int) - (pc / 4096 : Nat) < 1048576)
    (c : Cpu) :
    execList ((entryMacos pc target).map decode) { c with pc := pc } =
      some { pc := target, x := setX c.x 16 target } := by
  unfold entryMacos
  simp only [a64AdrpBase, a64AddBase, a64BrBase, a64LongReg]
  rw [if_neg hn]
  simp only [List.map]
  rw [decode_adrp _ _ 16 (by omega) (by omega) (by decide), decode_add _ 16 16 (by omega) (by decide) (by decide),
      decode_br_lit 16 (by decide)]
  simp only [execList, exec]
  rw [setX_same, setX_setX, setX_same]
  simp only [if_neg (show ¬ (0 = 1) by decide)]
  rw [pageDiff_eq pc target hp ht, imm21_sext _ hr.1 hr.2, adrp_add pc target hp ht]

end Inj.A64
