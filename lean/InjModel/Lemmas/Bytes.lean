import InjModel.Model.Bytes
namespace Inj

theorem de32_le32 (n : Nat) (h : n < 4294967296) :
    de32 (n % 256) (n / 256 % 256) (n / 65536 % 256) (n / 16777216 % 256) = n := by
  unfold de32; omega

theorem de64_le64 (n : Nat) (h : n < 18446744073709551616) :
    de64 (n % 4294967296 % 256) (n % 4294967296 / 256 % 256) (n % 4294967296 / 65536 % 256)
         (n % 4294967296 / 16777216 % 256)
         (n / 4294967296 % 4294967296 % 256) (n / 4294967296 % 4294967296 / 256 % 256)
         (n / 4294967296 % 4294967296 / 65536 % 256) (n / 4294967296 % 4294967296 / 16777216 % 256) = n := by
  unfold de64 de32; omega

theorem ofInt32_lt (i : Int) : ofInt32 i < 4294967296 := by
  unfold ofInt32; omega

theorem sext32_ofInt32 (i : Int) (h1 : -2147483648 ≤ i) (h2 : i ≤ 2147483647) :
    sext32 (ofInt32 i) = i := by
  unfold sext32 ofInt32; split <;> omega

theorem le32_length (n : Nat) : (le32 n).length = 4 := rfl
theorem le64_length (n : Nat) : (le64 n).length = 8 := rfl

end Inj
