import InjModel.Model.Panic
import InjModel.Lemmas.Machine
namespace Inj.Panic
open Inj Inj.Machine Inj.Generated.Layout

/-- the machine state after the body is the machine state after exactly its successful installs -/
theorem runBody_installs (mode : Mode) (ops : List Op) :
    ∀ st : LifeState, installs mode st.ms (reqsOf mode st ops) = some (runBody mode st ops).ms := by
  induction ops with
  | nil => intro st; simp [reqsOf, runBody, installs]
  | cons op ops ih =>
    intro st
    obtain ⟨ms, vs, pk⟩ := st
    cases pk with
    | true => simp [reqsOf, runBody, installs]
    | false =>
      simp only [reqsOf, runBody, Bool.false_eq_true, if_false]
      cases op with
      | install r =>
        cases hi : installX86 mode ms r.func r.payload r.jit with
        | none => simp only [hi, installs]
        | some ms' => simp only [installs, hi]; exact ih { ms := ms', verifs := vs, panicked := false }
      | installCounted r n =>
        cases hi : installX86 mode ms r.func r.payload r.jit with
        | none => simp only [hi, installs]
        | some ms' => simp only [installs, hi]; exact ih { ms := ms', verifs := vs ++ [(n, 0)], panicked := false }
      | refused p => simp [installs]
      | countedCall idx =>
        simp only
        split
        · simp [installs]
        · exact ih { ms := ms, verifs := (bump vs idx).1, panicked := false }
      | rejectedCall => simp [installs]
      | plainCall => exact ih { ms := ms, verifs := vs, panicked := false }
      | userPanic => simp [installs]

def anyMismatch (vs : List Verif) : Bool := vs.any (fun v => decide (v.2 ≠ v.1))

/-- dropping verifiers (which test `panicking()`): never aborts, raises at most one panic and
    none when already unwinding, touches neither memory nor the lock -/
theorem dropVerifs_spec (vs : List Verif) :
    ∀ e : ExitState, e.abort = false →
      (dropVerifs true e vs).abort = false ∧ (dropVerifs true e vs).ms = e.ms ∧
      (dropVerifs true e vs).lockHeld = e.lockHeld ∧ (dropVerifs true e vs).verifs = e.verifs ∧
      (dropVerifs true e vs).newPanics = e.newPanics + (if !e.panicking && anyMismatch vs then 1 else 0) ∧
      (dropVerifs true e vs).panicking = (e.panicking || anyMismatch vs) := by
  induction vs with
  | nil => intro e h; simp [dropVerifs, anyMismatch, h]
  | cons v vs ih =>
    intro e h
    obtain ⟨n, k⟩ := v
    obtain ⟨ems, epk, enp, eab, elh, evf⟩ := e
    simp only at h
    subst h
    simp only [dropVerifs, Bool.false_eq_true, if_false]
    have hany : anyMismatch ((n, k) :: vs) = (decide (k ≠ n) || anyMismatch vs) := by simp [anyMismatch]
    rw [hany]
    by_cases hm : k ≠ n
    · simp only [hm, ne_eq, not_false_eq_true, if_true, decide_true, Bool.true_or]
      cases epk with
      | true =>
        simp only [if_true]
        obtain ⟨a, b, c, d, f, g⟩ := ih { ms := ems, panicking := true, newPanics := enp, abort := false, lockHeld := elh, verifs := evf } rfl
        refine ⟨a, b, c, d, ?_, ?_⟩
        · rw [f]; simp
        · rw [g]; simp
      | false =>
        simp only [Bool.false_eq_true, if_false]
        obtain ⟨a, b, c, d, f, g⟩ := ih { ms := ems, panicking := true, newPanics := enp + 1, abort := false, lockHeld := elh, verifs := evf } rfl
        refine ⟨a, b, c, d, ?_, ?_⟩
        · rw [f]; simp
        · rw [g]; simp
    · have hm' : k = n := by omega
      simp only [hm, if_false, decide_false, Bool.false_or]
      exact ih { ms := ems, panicking := epk, newPanics := enp, abort := false, lockHeld := elh, verifs := evf } rfl

theorem restoreAll_idem (ord : DropOrder) (ms : MState) : restoreAll ord (restoreAll ord ms) = restoreAll ord ms := by
  unfold restoreAll
  cases ord <;> simp [dropGuards]

/-- invariant of the release: no abort, at most one library panic and only if it is now unwinding -/
def ExitOK (e : ExitState) : Prop :=
  e.abort = false ∧ (e.newPanics = 0 ∨ (e.newPanics = 1 ∧ e.panicking = true))

theorem exitSteps_spec (ord : DropOrder) (fs : List Field) :
    ∀ e : ExitState, ExitOK e →
      ExitOK (exitSteps ord true e fs) ∧
      ((exitSteps ord true e fs).lockHeld = (e.lockHeld && !(fs.contains Field.lock))) ∧
      ((exitSteps ord true e fs).ms = if fs.contains Field.guards then restoreAll ord e.ms else e.ms) ∧
      (e.panicking = true → (exitSteps ord true e fs).newPanics = e.newPanics) := by
  induction fs with
  | nil => intro e h; simp [exitSteps, h]
  | cons f fs ih =>
    intro e h
    obtain ⟨ems, epk, enp, eab, elh, evf⟩ := e
    have ha : eab = false := h.1
    subst ha
    have h2 : enp = 0 ∨ (enp = 1 ∧ epk = true) := h.2
    simp only [exitSteps, Bool.false_eq_true, if_false]
    cases f with
    | guards =>
      simp only
      obtain ⟨a, b, c, d⟩ := ih { ms := restoreAll ord ems, panicking := epk, newPanics := enp, abort := false, lockHeld := elh, verifs := evf } ⟨rfl, h2⟩
      refine ⟨a, ?_, ?_, d⟩
      · rw [b]; simp [List.contains_cons]
      · rw [c]
        by_cases hg : fs.contains Field.guards = true
        · simp only [hg, if_true, List.contains_cons, beq_self_eq_true, Bool.true_or]
          exact restoreAll_idem ord ems
        · simp only [hg, Bool.false_eq_true, if_false, List.contains_cons, beq_self_eq_true, Bool.true_or, if_true]
    | verifiers =>
      simp only
      obtain ⟨v1, v2, v3, _, v5, v6⟩ := dropVerifs_spec evf { ms := ems, panicking := epk, newPanics := enp, abort := false, lockHeld := elh, verifs := evf } rfl
      simp only at v2 v3 v5 v6
      generalize dropVerifs true { ms := ems, panicking := epk, newPanics := enp, abort := false, lockHeld := elh, verifs := evf } evf = D at *
      have h' : ExitOK { D with verifs := [] } := by
        refine ⟨v1, ?_⟩
        show D.newPanics = 0 ∨ (D.newPanics = 1 ∧ D.panicking = true)
        rcases h2 with h0 | ⟨h1, hp⟩
        · rw [v5, h0, v6]
          cases epk <;> cases anyMismatch evf <;> simp
        · rw [v5, h1, v6, hp]; simp
      obtain ⟨a, b, c, d⟩ := ih _ h'
      refine ⟨a, ?_, ?_, ?_⟩
      · rw [b]; simp [v3]
      · rw [c]; simp [v2]
      · intro hp
        have hp' : epk = true := hp
        rw [d (by show D.panicking = true; rw [v6, hp']; rfl)]
        show D.newPanics = enp
        rw [v5, hp']; simp
    | lock =>
      simp only
      obtain ⟨a, b, c, d⟩ := ih { ms := ems, panicking := epk, newPanics := enp, abort := false, lockHeld := false, verifs := evf } ⟨rfl, h2⟩
      refine ⟨a, ?_, ?_, d⟩
      · rw [b]; simp [List.contains_cons]
      · rw [c]; simp [List.contains_cons]
    | other =>
      obtain ⟨a, b, c, d⟩ := ih { ms := ems, panicking := epk, newPanics := enp, abort := false, lockHeld := elh, verifs := evf } ⟨rfl, h2⟩
      refine ⟨a, ?_, ?_, d⟩
      · rw [b]; simp [List.contains_cons]
      · rw [c]; simp [List.contains_cons]
    | unknown =>
      obtain ⟨a, b, c, d⟩ := ih { ms := ems, panicking := epk, newPanics := enp, abort := false, lockHeld := elh, verifs := evf } ⟨rfl, h2⟩
      refine ⟨a, ?_, ?_, d⟩
      · rw [b]; simp [List.contains_cons]
      · rw [c]; simp [List.contains_cons]

theorem restoreAll_twice (o1 o2 : DropOrder) (ms : MState) :
    restoreAll o2 (restoreAll o1 ms) = restoreAll o1 ms := by
  unfold restoreAll
  cases o1 <;> cases o2 <;> simp [dropGuards]

/-- the `Drop::drop` body: keeps the release invariant; memory is either untouched or fully
    restored in the body's order; the lock is only let go by a `lock` step; nothing new is
    raised while already unwinding -/
theorem bodySteps_spec (ord : DropOrder) (fs : List Field) :
    ∀ e : ExitState, ExitOK e →
      ExitOK (bodySteps ord true e fs) ∧
      ((bodySteps ord true e fs).ms = e.ms ∨ (bodySteps ord true e fs).ms = restoreAll ord e.ms) ∧
      (fs.contains Field.lock = false → (bodySteps ord true e fs).lockHeld = e.lockHeld) ∧
      (e.panicking = true → (bodySteps ord true e fs).newPanics = e.newPanics ∧
        (bodySteps ord true e fs).panicking = true) := by
  induction fs with
  | nil => intro e h; simp [bodySteps, h]
  | cons f fs ih =>
    intro e h
    obtain ⟨ems, epk, enp, eab, elh, evf⟩ := e
    have ha : eab = false := h.1
    subst ha
    have h2 : enp = 0 ∨ (enp = 1 ∧ epk = true) := h.2
    simp only [bodySteps, Bool.false_eq_true, if_false]
    cases f with
    | guards =>
      simp only
      obtain ⟨a, b, c, d⟩ := ih { ms := restoreAll ord ems, panicking := epk, newPanics := enp, abort := false, lockHeld := elh, verifs := evf } ⟨rfl, h2⟩
      refine ⟨a, ?_, ?_, d⟩
      · right
        rcases b with b | b
        · exact b
        · rw [b]; exact restoreAll_idem ord ems
      · intro hl
        have : fs.contains Field.lock = false := by
          simp only [List.contains_cons, Bool.or_eq_false_iff] at hl; exact hl.2
        exact c this
    | verifiers =>
      simp only
      obtain ⟨v1, v2, v3, _, v5, v6⟩ := dropVerifs_spec evf { ms := ems, panicking := epk, newPanics := enp, abort := false, lockHeld := elh, verifs := evf } rfl
      simp only at v2 v3 v5 v6
      generalize dropVerifs true { ms := ems, panicking := epk, newPanics := enp, abort := false, lockHeld := elh, verifs := evf } evf = D at *
      have h' : ExitOK { D with verifs := [] } := by
        refine ⟨v1, ?_⟩
        show D.newPanics = 0 ∨ (D.newPanics = 1 ∧ D.panicking = true)
        rcases h2 with h0 | ⟨h1, hp⟩
        · rw [v5, h0, v6]
          cases epk <;> cases anyMismatch evf <;> simp
        · rw [v5, h1, v6, hp]; simp
      by_cases hgt : D.newPanics > enp
      · rw [if_pos hgt]
        refine ⟨h', Or.inl v2, fun _ => v3, ?_⟩
        intro hp
        have hp' : epk = true := hp
        exfalso
        rw [v5, hp'] at hgt
        simp at hgt
      · rw [if_neg hgt]
        obtain ⟨a, b, c, d⟩ := ih _ h'
        refine ⟨a, ?_, ?_, ?_⟩
        · rcases b with b | b
          · left; rw [b]; exact v2
          · right; rw [b]; show restoreAll ord D.ms = _; rw [v2]
        · intro hl
          have : fs.contains Field.lock = false := by
            simp only [List.contains_cons, Bool.or_eq_false_iff] at hl; exact hl.2
          rw [c this]; exact v3
        · intro hp
          have hp' : epk = true := hp
          have hDp : D.panicking = true := by rw [v6, hp']; rfl
          obtain ⟨d1, d2⟩ := d hDp
          refine ⟨?_, d2⟩
          rw [d1]
          show D.newPanics = enp
          rw [v5, hp']; simp
    | lock =>
      simp only
      obtain ⟨a, b, c, d⟩ := ih { ms := ems, panicking := epk, newPanics := enp, abort := false, lockHeld := false, verifs := evf } ⟨rfl, h2⟩
      refine ⟨a, b, ?_, d⟩
      intro hl
      simp [List.contains_cons] at hl
    | other =>
      obtain ⟨a, b, c, d⟩ := ih { ms := ems, panicking := epk, newPanics := enp, abort := false, lockHeld := elh, verifs := evf } ⟨rfl, h2⟩
      refine ⟨a, b, ?_, d⟩
      intro hl
      have : fs.contains Field.lock = false := by
        simp only [List.contains_cons, Bool.or_eq_false_iff] at hl; exact hl.2
      exact c this
    | unknown =>
      obtain ⟨a, b, c, d⟩ := ih { ms := ems, panicking := epk, newPanics := enp, abort := false, lockHeld := elh, verifs := evf } ⟨rfl, h2⟩
      refine ⟨a, b, ?_, d⟩
      intro hl
      have : fs.contains Field.lock = false := by
        simp only [List.contains_cons, Bool.or_eq_false_iff] at hl; exact hl.2
      exact c this

/-- **Two-phase release** when the `Drop::drop` body starts with the restore loop: whatever
    follows in the body and whatever the field order, every exit (normal, unwinding, or with a
    verification panic raised on the way) restores in the body's order, never aborts, raises at
    most one panic in total and lets the lock go iff the fields contain it. -/
theorem scopeExit2_spec (ord : DropOrder) (rest fields : List Field) (st : LifeState)
    (hl : rest.contains Field.lock = false) :
    let e := scopeExit2 ord true (Field.guards :: rest) fields st
    e.abort = false ∧ e.ms = restoreAll ord st.ms ∧
    e.lockHeld = !(fields.contains Field.lock) ∧
    (if st.panicked then 1 else 0) + e.newPanics ≤ 1 := by
  intro e
  have h0 : ExitOK { ms := restoreAll ord st.ms, panicking := st.panicked, newPanics := 0, abort := false, lockHeld := true, verifs := st.verifs } :=
    ⟨rfl, Or.inl rfl⟩
  obtain ⟨b1, b2, b3, b4⟩ := bodySteps_spec ord rest _ h0
  have hb : bodySteps ord true { ms := st.ms, panicking := st.panicked, newPanics := 0, abort := false, lockHeld := true, verifs := st.verifs } (Field.guards :: rest)
      = bodySteps ord true { ms := restoreAll ord st.ms, panicking := st.panicked, newPanics := 0, abort := false, lockHeld := true, verifs := st.verifs } rest := by
    simp [bodySteps]
  have he : e = exitSteps DropOrder.oldestFirst true (bodySteps ord true { ms := restoreAll ord st.ms, panicking := st.panicked, newPanics := 0, abort := false, lockHeld := true, verifs := st.verifs } rest) fields := by
    show scopeExit2 ord true (Field.guards :: rest) fields st = _
    unfold scopeExit2
    rw [hb]
  generalize bodySteps ord true { ms := restoreAll ord st.ms, panicking := st.panicked, newPanics := 0, abort := false, lockHeld := true, verifs := st.verifs } rest = B at *
  obtain ⟨x1, x2, x3, x4⟩ := exitSteps_spec DropOrder.oldestFirst fields B b1
  have hms : B.ms = restoreAll ord st.ms := by
    rcases b2 with b | b
    · exact b
    · rw [b]; exact restoreAll_idem ord st.ms
  rw [he]
  refine ⟨x1.1, ?_, ?_, ?_⟩
  · rw [x3, hms]
    split
    · exact restoreAll_twice ord DropOrder.oldestFirst st.ms
    · rfl
  · rw [x2, b3 hl]; simp
  · by_cases hp : st.panicked = true
    · obtain ⟨p1, p2⟩ := b4 hp
      rw [x4 p2, p1, if_pos hp]
      exact Nat.le_refl _
    · rw [if_neg hp]
      rcases x1.2 with h | ⟨h, _⟩ <;> omega

/-! ### how many panics verification raises on the way out (two-phase release) -/

theorem dropVerifs_nil (cp : Bool) (e : ExitState) : dropVerifs cp e [] = e := by
  simp [dropVerifs]

/-- with no expectation pending, the field phase raises nothing and keeps the unwinding flag -/
theorem exitSteps_quiet (ord : DropOrder) (fs : List Field) :
    ∀ e : ExitState, e.verifs = [] →
      (exitSteps ord true e fs).newPanics = e.newPanics ∧ (exitSteps ord true e fs).verifs = [] := by
  induction fs with
  | nil => intro e h; simp [exitSteps, h]
  | cons f fs ih =>
    intro e h
    obtain ⟨ems, epk, enp, eab, elh, evf⟩ := e
    simp only at h
    subst h
    cases eab with
    | true => simp [exitSteps]
    | false =>
      cases f <;> simp only [exitSteps, Bool.false_eq_true, if_false, dropVerifs_nil] <;> exact ih _ rfl

/-- field phase from a state that is not unwinding: the first `verifiers` step reports once iff
    some expectation is unmet; nothing else is raised -/
theorem exitSteps_newPanics (ord : DropOrder) (fs : List Field) :
    ∀ e : ExitState, e.abort = false → e.panicking = false →
      (exitSteps ord true e fs).newPanics =
        e.newPanics + (if fs.contains Field.verifiers && anyMismatch e.verifs then 1 else 0) := by
  induction fs with
  | nil => intro e _ _; simp [exitSteps]
  | cons f fs ih =>
    intro e ha hp
    obtain ⟨ems, epk, enp, eab, elh, evf⟩ := e
    simp only at ha hp
    subst ha; subst hp
    cases f with
    | verifiers =>
      simp only [exitSteps, Bool.false_eq_true, if_false]
      obtain ⟨_, _, _, _, v5, _⟩ := dropVerifs_spec evf { ms := ems, panicking := false, newPanics := enp, abort := false, lockHeld := elh, verifs := evf } rfl
      simp only at v5
      generalize dropVerifs true { ms := ems, panicking := false, newPanics := enp, abort := false, lockHeld := elh, verifs := evf } evf = D at *
      rw [(exitSteps_quiet ord fs { D with verifs := [] } rfl).1]
      show D.newPanics = _
      rw [v5]
      simp [List.contains_cons]
    | guards =>
      simp only [exitSteps, Bool.false_eq_true, if_false]
      rw [ih _ rfl rfl]; simp [List.contains_cons]
    | lock =>
      simp only [exitSteps, Bool.false_eq_true, if_false]
      rw [ih _ rfl rfl]; simp [List.contains_cons]
    | other =>
      simp only [exitSteps, Bool.false_eq_true, if_false]
      rw [ih _ rfl rfl]; simp [List.contains_cons]
    | unknown =>
      simp only [exitSteps, Bool.false_eq_true, if_false]
      rw [ih _ rfl rfl]; simp [List.contains_cons]

/-- the `Drop::drop` body from a state that is not unwinding: either it contains no `verifiers`
    step and leaves the expectations pending and the state quiet, or it has consumed them,
    having reported once iff some expectation is unmet -/
theorem bodySteps_newPanics (ord : DropOrder) (fs : List Field) :
    ∀ e : ExitState, e.abort = false → e.panicking = false →
      let r := bodySteps ord true e fs
      r.abort = false ∧
      (if fs.contains Field.verifiers then
        r.verifs = [] ∧ r.newPanics = e.newPanics + (if anyMismatch e.verifs then 1 else 0)
       else r.verifs = e.verifs ∧ r.newPanics = e.newPanics ∧ r.panicking = false) := by
  induction fs with
  | nil => intro e ha hp; simp [bodySteps, ha, hp]
  | cons f fs ih =>
    intro e ha hp
    obtain ⟨ems, epk, enp, eab, elh, evf⟩ := e
    simp only at ha hp
    subst ha; subst hp
    cases f with
    | verifiers =>
      simp only [bodySteps, Bool.false_eq_true, if_false]
      obtain ⟨v1, _, _, _, v5, _⟩ := dropVerifs_spec evf { ms := ems, panicking := false, newPanics := enp, abort := false, lockHeld := elh, verifs := evf } rfl
      simp only at v5
      generalize dropVerifs true { ms := ems, panicking := false, newPanics := enp, abort := false, lockHeld := elh, verifs := evf } evf = D at *
      have hD : D.newPanics = enp + (if anyMismatch evf then 1 else 0) := by rw [v5]; simp
      simp only [List.contains_cons, beq_self_eq_true, Bool.true_or, if_true]
      by_cases hgt : D.newPanics > enp
      · rw [if_pos hgt]
        exact ⟨v1, rfl, hD⟩
      · rw [if_neg hgt]
        -- nothing was raised: no expectation is unmet, the rest of the body runs with none pending
        have hno : anyMismatch evf = false := by
          cases h : anyMismatch evf with
          | false => rfl
          | true => rw [hD, h] at hgt; simp at hgt
        have hq : ∀ fs' : List Field, ∀ e' : ExitState, e'.verifs = [] → e'.abort = false →
            (bodySteps ord true e' fs').abort = false ∧ (bodySteps ord true e' fs').verifs = [] ∧
            (bodySteps ord true e' fs').newPanics = e'.newPanics := by
          intro fs'
          induction fs' with
          | nil => intro e' h1 h2; simp [bodySteps, h1, h2]
          | cons g gs ihg =>
            intro e' h1 h2
            obtain ⟨a1, a2, a3, a4, a5, a6⟩ := e'
            simp only at h1 h2
            subst h1; subst h2
            cases g <;> simp only [bodySteps, Bool.false_eq_true, if_false, dropVerifs_nil, Nat.lt_irrefl, gt_iff_lt] <;>
              exact ihg _ rfl rfl
        obtain ⟨q1, q2, q3⟩ := hq fs { D with verifs := [] } rfl v1
        refine ⟨q1, q2, ?_⟩
        rw [q3]
        show D.newPanics = _
        rw [hD, hno]
    | guards =>
      simp only [bodySteps, Bool.false_eq_true, if_false]
      have := ih { ms := restoreAll ord ems, panicking := false, newPanics := enp, abort := false, lockHeld := elh, verifs := evf } rfl rfl
      simpa [List.contains_cons] using this
    | lock =>
      simp only [bodySteps, Bool.false_eq_true, if_false]
      have := ih { ms := ems, panicking := false, newPanics := enp, abort := false, lockHeld := false, verifs := evf } rfl rfl
      simpa [List.contains_cons] using this
    | other =>
      simp only [bodySteps, Bool.false_eq_true, if_false]
      have := ih { ms := ems, panicking := false, newPanics := enp, abort := false, lockHeld := elh, verifs := evf } rfl rfl
      simpa [List.contains_cons] using this
    | unknown =>
      simp only [bodySteps, Bool.false_eq_true, if_false]
      have := ih { ms := ems, panicking := false, newPanics := enp, abort := false, lockHeld := elh, verifs := evf } rfl rfl
      simpa [List.contains_cons] using this

/-- **Verification at a normal scope exit, two-phase release**: wherever the verifiers are let
    go — in the `Drop::drop` body or by the field glue — the release raises exactly one panic if
    some expectation is unmet and none otherwise, provided they are let go somewhere. -/
theorem scopeExit2_newPanics (ord : DropOrder) (body fields : List Field) (st : LifeState)
    (hp : st.panicked = false) (hv : (body ++ fields).contains Field.verifiers = true) :
    (scopeExit2 ord true body fields st).newPanics = if anyMismatch st.verifs then 1 else 0 := by
  unfold scopeExit2
  rw [hp]
  have hb := bodySteps_newPanics ord body { ms := st.ms, panicking := false, newPanics := 0, abort := false, lockHeld := true, verifs := st.verifs } rfl rfl
  simp only at hb
  generalize bodySteps ord true { ms := st.ms, panicking := false, newPanics := 0, abort := false, lockHeld := true, verifs := st.verifs } body = B at *
  obtain ⟨hab, hrest⟩ := hb
  by_cases hbv : body.contains Field.verifiers = true
  · rw [if_pos hbv] at hrest
    rw [(exitSteps_quiet DropOrder.oldestFirst fields B hrest.1).1, hrest.2]
    simp
  · rw [if_neg hbv] at hrest
    obtain ⟨h1, h2, h3⟩ := hrest
    have hfv : fields.contains Field.verifiers = true := by
      simp only [List.contains_append, Bool.or_eq_true] at hv
      rcases hv with h | h
      · exact absurd h hbv
      · exact h
    rw [exitSteps_newPanics DropOrder.oldestFirst fields B hab h3, h2, h1, hfv]
    simp

end Inj.Panic
