import InjModel.Model.Panic
import InjModel.Lemmas.Machine
namespace Inj.Panic
open Inj Inj.Machine Inj.Generated.Layout

/-- the machine state after the body is the machine state after exactly its successful installs -/
theorem runBody_installs (mode : Mode) (ops : List Op) :
    ∀ st : LifeState, installs mode st.ms (reqsOf mode st ops) = some (runBody mode st ops).ms := by
  induction ops with
  | nil => intro st; simp [reqsOf, runBody, installs]
  | cons op ops ih =>
    intro st
    obtain ⟨ms, vs, pk⟩ := st
    cases pk with
    | true => simp [reqsOf, runBody, installs]
    | false =>
      simp only [reqsOf, runBody, Bool.false_eq_true, if_false]
      cases op with
      | install r =>
        cases hi : installX86 mode ms r.func r.payload r.jit with
        | none => simp only [hi, installs]
        | some ms' => simp only [installs, hi]; exact ih { ms := ms', verifs := vs, panicked := false }
      | installCounted r n =>
        cases hi : installX86 mode ms r.func r.payload r.jit with
        | none => simp only [hi, installs]
        | some ms' => simp only [installs, hi]; exact ih { ms := ms', verifs := vs ++ [(n, 0)], panicked := false }
      | refused p => simp [installs]
      | countedCall idx =>
        simp only
        split
        · simp [installs]
        · exact ih { ms := ms, verifs := (bump vs idx).1, panicked := false }
      | rejectedCall => simp [installs]
      | plainCall => exact ih { ms := ms, verifs := vs, panicked := false }
      | userPanic => simp [installs]

def anyMismatch (vs : List Verif) : Bool := vs.any (fun v => decide (v.2 ≠ v.1))

/-- dropping verifiers (which test `panicking()`): never aborts, raises at most one panic and
    none when already unwinding, touches neither memory nor the lock -/
theorem dropVerifs_spec (vs : List Verif) :
    ∀ e : ExitState, e.abort = false →
      (dropVerifs true e vs).abort = false ∧ (dropVerifs true e vs).ms = e.ms ∧
      (dropVerifs true e vs).lockHeld = e.lockHeld ∧ (dropVerifs true e vs).verifs = e.verifs ∧
      (dropVerifs true e vs).newPanics = e.newPanics + (if !e.panicking && anyMismatch vs then 1 else 0) ∧
      (dropVerifs true e vs).panicking = (e.panicking || anyMismatch vs) := by
  induction vs with
  | nil => intro e h; simp [dropVerifs, anyMismatch, h]
  | cons v vs ih =>
    intro e h
    obtain ⟨n, k⟩ := v
    obtain ⟨ems, epk, enp, eab, elh, evf⟩ := e
    simp only at h
    subst h
    simp only [dropVerifs, Bool.false_eq_true, if_false]
    have hany : anyMismatch ((n, k) :: vs) = (decide (k ≠ n) || anyMismatch vs) := by simp [anyMismatch]
    rw [hany]
    by_cases hm : k ≠ n
    · simp only [hm, ne_eq, not_false_eq_true, if_true, decide_true, Bool.true_or]
      cases epk with
      | true =>
        simp only [if_true]
        obtain ⟨a, b, c, d, f, g⟩ := ih { ms := ems, panicking := true, newPanics := enp, abort := false, lockHeld := elh, verifs := evf } rfl
        refine ⟨a, b, c, d, ?_, ?_⟩
        · rw [f]; simp
        · rw [g]; simp
      | false =>
        simp only [Bool.false_eq_true, if_false]
        obtain ⟨a, b, c, d, f, g⟩ := ih { ms := ems, panicking := true, newPanics := enp + 1, abort := false, lockHeld := elh, verifs := evf } rfl
        refine ⟨a, b, c, d, ?_, ?_⟩
        · rw [f]; simp
        · rw [g]; simp
    · have hm' : k = n := by omega
      simp only [hm, if_false, decide_false, Bool.false_or]
      exact ih { ms := ems, panicking := epk, newPanics := enp, abort := false, lockHeld := elh, verifs := evf } rfl

theorem restoreAll_idem (ord : DropOrder) (ms : MState) : restoreAll ord (restoreAll ord ms) = restoreAll ord ms := by
  unfold restoreAll
  cases ord <;> simp [dropGuards]

/-- invariant of the release: no abort, at most one library panic and only if it is now unwinding -/
def ExitOK (e : ExitState) : Prop :=
  e.abort = false ∧ (e.newPanics = 0 ∨ (e.newPanics = 1 ∧ e.panicking = true))

theorem exitSteps_spec (ord : DropOrder) (fs : List Field) :
    ∀ e : ExitState, ExitOK e →
      ExitOK (exitSteps ord true e fs) ∧
      ((exitSteps ord true e fs).lockHeld = (e.lockHeld && !(fs.contains Field.lock))) ∧
      ((exitSteps ord true e fs).ms = if fs.contains Field.guards then restoreAll ord e.ms else e.ms) ∧
      (e.panicking = true → (exitSteps ord true e fs).newPanics = e.newPanics) := by
  induction fs with
  | nil => intro e h; simp [exitSteps, h]
  | cons f fs ih =>
    intro e h
    obtain ⟨ems, epk, enp, eab, elh, evf⟩ := e
    have ha : eab = false := h.1
    subst ha
    have h2 : enp = 0 ∨ (enp = 1 ∧ epk = true) := h.2
    simp only [exitSteps, Bool.false_eq_true, if_false]
    cases f with
    | guards =>
      simp only
      obtain ⟨a, b, c, d⟩ := ih { ms := restoreAll ord ems, panicking := epk, newPanics := enp, abort := false, lockHeld := elh, verifs := evf } ⟨rfl, h2⟩
      refine ⟨a, ?_, ?_, d⟩
      · rw [b]; simp [List.contains_cons]
      · rw [c]
        by_cases hg : fs.contains Field.guards = true
        · simp only [hg, if_true, List.contains_cons, beq_self_eq_true, Bool.true_or]
          exact restoreAll_idem ord ems
        · simp only [hg, Bool.false_eq_true, if_false, List.contains_cons, beq_self_eq_true, Bool.true_or, if_true]
    | verifiers =>
      simp only
      obtain ⟨v1, v2, v3, _, v5, v6⟩ := dropVerifs_spec evf { ms := ems, panicking := epk, newPanics := enp, abort := false, lockHeld := elh, verifs := evf } rfl
      simp only at v2 v3 v5 v6
      generalize dropVerifs true { ms := ems, panicking := epk, newPanics := enp, abort := false, lockHeld := elh, verifs := evf } evf = D at *
      have h' : ExitOK { D with verifs := [] } := by
        refine ⟨v1, ?_⟩
        show D.newPanics = 0 ∨ (D.newPanics = 1 ∧ D.panicking = true)
        rcases h2 with h0 | ⟨h1, hp⟩
        · rw [v5, h0, v6]
          cases epk <;> cases anyMismatch evf <;> simp
        · rw [v5, h1, v6, hp]; simp
      obtain ⟨a, b, c, d⟩ := ih _ h'
      refine ⟨a, ?_, ?_, ?_⟩
      · rw [b]; simp [v3]
      · rw [c]; simp [v2]
      · intro hp
        have hp' : epk = true := hp
        rw [d (by show D.panicking = true; rw [v6, hp']; rfl)]
        show D.newPanics = enp
        rw [v5, hp']; simp
    | lock =>
      simp only
      obtain ⟨a, b, c, d⟩ := ih { ms := ems, panicking := epk, newPanics := enp, abort := false, lockHeld := false, verifs := evf } ⟨rfl, h2⟩
      refine ⟨a, ?_, ?_, d⟩
      · rw [b]; simp [List.contains_cons]
      · rw [c]; simp [List.contains_cons]
    | other =>
      obtain ⟨a, b, c, d⟩ := ih { ms := ems, panicking := epk, newPanics := enp, abort := false, lockHeld := elh, verifs := evf } ⟨rfl, h2⟩
      refine ⟨a, ?_, ?_, d⟩
      · rw [b]; simp [List.contains_cons]
      · rw [c]; simp [List.contains_cons]
    | unknown =>
      obtain ⟨a, b, c, d⟩ := ih { ms := ems, panicking := epk, newPanics := enp, abort := false, lockHeld := elh, verifs := evf } ⟨rfl, h2⟩
      refine ⟨a, ?_, ?_, d⟩
      · rw [b]; simp [List.contains_cons]
      · rw [c]; simp [List.contains_cons]

end Inj.Panic
