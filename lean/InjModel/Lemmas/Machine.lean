import InjModel.Model.Machine
import InjModel.Lemmas.Mem
import InjModel.Lemmas.X86
namespace Inj.Machine
open Inj

/-! ## basic facts about the primitive operations -/

theorem allWritable_iff (w : Nat → Bool) (a n : Nat) :
    allWritable w a n = true ↔ ∀ x, a ≤ x → x < a + n → w x = true := by
  induction n generalizing a with
  | zero => simp [allWritable]; intro x h1 h2; omega
  | succ n ih =>
    simp only [allWritable, Bool.and_eq_true, ih]
    constructor
    · intro ⟨h0, h⟩ x h1 h2
      by_cases hx : x = a
      · subst hx; exact h0
      · exact h x (by omega) (by omega)
    · intro h
      exact ⟨h a (by omega) (by omega), fun x h1 h2 => h x (by omega) (by omega)⟩

theorem doWrite_ok (s : MState) (a : Nat) (bs : List Nat)
    (h : ∀ x, a ≤ x → x < a + bs.length → s.writable x = true) :
    doWrite s a bs = { s with mem := writeMem s.mem a bs, log := Event.write a bs :: s.log } := by
  unfold doWrite
  rw [if_pos ((allWritable_iff _ _ _).mpr h)]

/-- after `mprotect` of the span computed for `[func, func+n)`, every byte of that range is writable -/
theorem protect_covers (s : MState) (func n : Nat) (x : Nat) (h1 : func ≤ x) (h2 : x < func + n) :
    (doMprotect s (protectSpan func n).1 (protectSpan func n).2).writable x = true := by
  unfold doMprotect protectSpan
  simp only
  have a1 := pageStart_le func
  have a2 := le_pageUp (func + n)
  have : pageStart func ≤ x ∧ x < pageStart func + (pageUp (func + n) - pageStart func) := by omega
  rw [if_pos this]

/-- `patch_function` always succeeds in the model: the span made writable covers the patch -/
theorem patchFunction_eq (s : MState) (func : Nat) (bs : List Nat) :
    patchFunction s func bs =
      { s with mem := writeMem s.mem func bs,
               writable := (doMprotect s (protectSpan func bs.length).1 (protectSpan func bs.length).2).writable,
               log := Event.flush func (func + bs.length) :: Event.write func bs ::
                      Event.mprotect (protectSpan func bs.length).1 (protectSpan func bs.length).2 :: s.log } := by
  unfold patchFunction injectAsm
  simp only
  rw [doWrite_ok _ _ _ (fun x h1 h2 => protect_covers s func bs.length x h1 h2)]
  simp [logEv, doMprotect]

theorem restoreGuard_mem (s : MState) (g : Guard) :
    (restoreGuard s g).mem = writeMem s.mem g.addr (g.saved.take g.patchLen) := by
  unfold restoreGuard
  simp only [patchFunction_eq, logEv]
  split <;> simp [doMunmap]

theorem restoreGuard_fault (s : MState) (g : Guard) : (restoreGuard s g).fault = s.fault := by
  unfold restoreGuard
  simp only [patchFunction_eq, logEv]
  split <;> simp [doMunmap]

theorem restoreGuard_guards (s : MState) (g : Guard) : (restoreGuard s g).guards = s.guards := by
  unfold restoreGuard
  simp only [patchFunction_eq, logEv]
  split <;> simp [doMunmap]

theorem restoreGuard_maps (s : MState) (g : Guard) :
    (restoreGuard s g).maps = if g.jit ≠ 0 then s.maps.erase (g.jit, g.jitLen) else s.maps := by
  unfold restoreGuard
  simp only [patchFunction_eq, logEv]
  split <;> simp [doMunmap]

theorem dropGuards_append (s : MState) (as bs : List Guard) :
    dropGuards s (as ++ bs) = dropGuards (dropGuards s as) bs := by
  induction as generalizing s with
  | nil => rfl
  | cons a as ih => simp [dropGuards, ih]

theorem dropGuards_fault (s : MState) (gs : List Guard) : (dropGuards s gs).fault = s.fault := by
  induction gs generalizing s with
  | nil => rfl
  | cons g gs ih => simp [dropGuards, ih, restoreGuard_fault]

/-- **frame of a restore**: only the guard's own `[addr, addr+patchLen)` can change -/
theorem restoreGuard_frame (s : MState) (g : Guard) (x : Nat)
    (h : x < g.addr ∨ g.addr + g.patchLen ≤ x) : (restoreGuard s g).mem x = s.mem x := by
  rw [restoreGuard_mem]
  apply writeMem_out
  have : (g.saved.take g.patchLen).length ≤ g.patchLen := by simp [List.length_take]; omega
  omega

/-- the bytes a restore writes do not depend on the memory it writes into -/
theorem restoreGuard_congr (s t : MState) (g : Guard) (x : Nat) (h : s.mem x = t.mem x) :
    (restoreGuard s g).mem x = (restoreGuard t g).mem x := by
  rw [restoreGuard_mem, restoreGuard_mem]
  unfold writeMem
  split <;> simp [h]

theorem dropGuards_congr (s t : MState) (gs : List Guard) (x : Nat) (h : s.mem x = t.mem x) :
    (dropGuards s gs).mem x = (dropGuards t gs).mem x := by
  induction gs generalizing s t with
  | nil => exact h
  | cons g gs ih => exact ih _ _ (restoreGuard_congr s t g x h)

theorem dropGuards_maps_congr (s t : MState) (gs : List Guard) (h : s.maps = t.maps) :
    (dropGuards s gs).maps = (dropGuards t gs).maps := by
  induction gs generalizing s t with
  | nil => exact h
  | cons g gs ih =>
    apply ih
    rw [restoreGuard_maps, restoreGuard_maps, h]

end Inj.Machine

namespace Inj.Machine
open Inj

/-! ## what a successful installation does -/

/-- memory right after the trampoline was mapped and filled -/
def afterJit (m : Mem) (jit size : Nat) (code : List Nat) : Mem :=
  writeMem (fun x => if jit ≤ x ∧ x < jit + pageUp size then 0 else m x) jit code

theorem jitSize_pos (p : Payload) : 0 < p.jitSize ∧ p.jitSize ≤ 4096 := by
  cases p <;> simp [Payload.jitSize, X86.jitSizeExec, X86.jitSizeBool, Generated.Consts.x86JitSizeExec, Generated.Consts.x86JitSizeBool]

theorem payloadCode_len (mode : Mode) (p : Payload) (jit : Nat) (c : List Nat)
    (h : payloadCode mode p jit = some c) : c.length ≤ 12 := by
  cases p with
  | exec fake =>
    simp only [payloadCode] at h
    cases hg : X86.genBranch mode jit fake with
    | ok c' =>
      rw [hg] at h; injection h with h; subst h
      have := X86.genBranch_len mode jit fake c' hg; omega
    | panic w => rw [hg] at h; cases h
  | bool v =>
    simp only [payloadCode] at h; injection h with h; subst h
    rw [X86.boolStub_eq]; simp

/-- **Characterisation of a successful install.** -/
theorem installX86_spec (mode : Mode) (s s' : MState) (func : Nat) (p : Payload) (jit : Nat)
    (h : installX86 mode s func p jit = some s') :
    ∃ code br, payloadCode mode p jit = some code ∧ X86.genBranch mode func jit = Res.ok br ∧
      s'.mem = writeMem (afterJit s.mem jit p.jitSize code) func br ∧
      s'.guards = s.guards ++ [Guard.mk func (readMem (afterJit s.mem jit p.jitSize code) func br.length)
                                 br.length jit p.jitSize] ∧
      s'.maps = s.maps ++ [(jit, p.jitSize)] ∧ s'.fault = s.fault := by
  unfold installX86 at h
  have hw : ∀ code : List Nat, code.length ≤ 12 →
      injectAsm (doMmap s jit p.jitSize) jit code =
        { (doMmap s jit p.jitSize) with
          mem := afterJit s.mem jit p.jitSize code,
          log := Event.flush jit (jit + code.length) :: Event.write jit code :: (doMmap s jit p.jitSize).log } := by
    intro code hl
    unfold injectAsm
    rw [doWrite_ok]
    · simp [logEv, doMmap, afterJit]
    · intro x h1 h2
      have hp := pageUp_small p.jitSize (jitSize_pos p).1 (jitSize_pos p).2
      simp only [doMmap, hp]
      have : jit ≤ x ∧ x < jit + 4096 := by omega
      rw [if_pos this]
  cases hc : payloadCode mode p jit with
  | none => simp [hc] at h
  | some code =>
    have hlen := payloadCode_len mode p jit code hc
    cases hb : X86.genBranch mode func jit with
    | panic w => simp [hc, hb] at h
    | ok br =>
      simp only [hc, hb, hw code hlen] at h
      injection h with h
      subst h
      refine ⟨code, br, rfl, rfl, ?_, ?_, ?_, ?_⟩ <;>
        simp [patchFunction_eq, logEv, doMmap]

end Inj.Machine

namespace Inj.Machine
open Inj

/-! ## undoing installations, newest first -/

def inJit (r : Req) (x : Nat) : Prop := r.jit ≤ x ∧ x < r.jit + 4096
def inSlot (r : Req) (x : Nat) : Prop := r.func ≤ x ∧ x < r.func + 12

/-- freshness of the trampoline mappings as the OS guarantees it, in the order of installation -/
def FreshMaps : List (Nat × Nat) → List Req → Prop
  | _, [] => True
  | maps, r :: rs => (r.jit, r.payload.jitSize) ∉ maps ∧ r.jit ≠ 0 ∧ FreshMaps (maps ++ [(r.jit, r.payload.jitSize)]) rs

theorem afterJit_out (m : Mem) (jit size : Nat) (code : List Nat) (x : Nat)
    (hs : 0 < size ∧ size ≤ 4096) (hl : code.length ≤ 12) (hx : x < jit ∨ jit + 4096 ≤ x) :
    afterJit m jit size code x = m x := by
  unfold afterJit
  rw [writeMem_out _ _ _ _ (by omega)]
  have hp := pageUp_small size hs.1 hs.2
  simp only [hp]
  have : ¬ (jit ≤ x ∧ x < jit + 4096) := by omega
  rw [if_neg this]

theorem erase_append_self {α : Type} [BEq α] [LawfulBEq α] (l : List α) (x : α) (h : x ∉ l) :
    (l ++ [x]).erase x = l := by
  induction l with
  | nil => simp
  | cons a l ih =>
    have ha : a ≠ x := fun e => h (by simp [e])
    have hl : x ∉ l := fun e => h (by simp [e])
    have hb : (a == x) = false := by simp [ha]
    simp [List.erase_cons, hb, ih hl]

/-- one installation followed by the restoration of its guard is the identity outside the
    trampoline page (and on the set of mappings) -/
theorem install_undo (mode : Mode) (s s1 : MState) (r : Req)
    (h : installX86 mode s r.func r.payload r.jit = some s1)
    (hdis : ∀ x, inJit r x → ¬ inSlot r x) (hfresh : (r.jit, r.payload.jitSize) ∉ s.maps) (hnz : r.jit ≠ 0) :
    ∃ g, s1.guards = s.guards ++ [g] ∧ g.addr = r.func ∧ g.patchLen ≤ 12 ∧
      (∀ x, ¬ inJit r x → (restoreGuard s1 g).mem x = s.mem x) ∧
      (restoreGuard s1 g).maps = s.maps ∧ s1.fault = s.fault ∧
      (∀ x, ¬ inJit r x → ¬ inSlot r x → s1.mem x = s.mem x) := by
  obtain ⟨code, br, hc, hb, hmem, hg, hmaps, hf⟩ := installX86_spec mode s s1 r.func r.payload r.jit h
  have hlen := payloadCode_len mode r.payload r.jit code hc
  have hbl := X86.genBranch_len mode r.func r.jit br hb
  have hsz := jitSize_pos r.payload
  refine ⟨_, hg, rfl, by simp only; omega, ?_, ?_, hf, ?_⟩
  · intro x hx
    rw [restoreGuard_mem]
    simp only [take_readMem]
    have hout : x < r.jit ∨ r.jit + 4096 ≤ x := by unfold inJit at hx; omega
    by_cases hin : r.func ≤ x ∧ x < r.func + br.length
    · rw [writeMem_readMem _ _ _ _ _ hin.1 hin.2, afterJit_out _ _ _ _ _ hsz hlen hout]
    · rw [writeMem_out _ _ _ _ (by rw [readMem_length]; omega), hmem, writeMem_out _ _ _ _ (by omega),
          afterJit_out _ _ _ _ _ hsz hlen hout]
  · rw [restoreGuard_maps]
    simp only [hnz, ne_eq, not_false_eq_true, if_true, hmaps]
    exact erase_append_self _ _ hfresh
  · intro x hx hs
    have hout : x < r.jit ∨ r.jit + 4096 ≤ x := by unfold inJit at hx; omega
    rw [hmem, writeMem_out _ _ _ _ (by unfold inSlot at hs; omega), afterJit_out _ _ _ _ _ hsz hlen hout]

/-- **LIFO restoration.**  After any install history, restoring the new guards newest first
    gives back the starting memory everywhere outside the trampoline pages, and the starting
    set of mappings. -/
theorem installs_undo (mode : Mode) (rs : List Req) :
    ∀ (s sf : MState), installs mode s rs = some sf →
      (∀ r ∈ rs, ∀ x, inJit r x → ¬ inSlot r x) → FreshMaps s.maps rs →
      ∃ gs, sf.guards = s.guards ++ gs ∧ gs.length = rs.length ∧
        (∀ x, (∀ r ∈ rs, ¬ inJit r x) → (dropGuards sf gs.reverse).mem x = s.mem x) ∧
        (dropGuards sf gs.reverse).maps = s.maps ∧ sf.fault = s.fault := by
  induction rs with
  | nil =>
    intro s sf h _ _
    simp only [installs] at h; injection h with h; subst h
    exact ⟨[], by simp, rfl, fun x _ => rfl, rfl, rfl⟩
  | cons r rs ih =>
    intro s sf h hdis hfresh
    simp only [installs] at h
    cases h1 : installX86 mode s r.func r.payload r.jit with
    | none => simp [h1] at h
    | some s1 =>
      simp only [h1] at h
      obtain ⟨hf1, hnz, hf2⟩ := hfresh
      obtain ⟨g, hg, _, _, hmem1, hmaps1, hfault1, _⟩ :=
        install_undo mode s s1 r h1 (hdis r (by simp)) hf1 hnz
      have hmaps_s1 : s1.maps = s.maps ++ [(r.jit, r.payload.jitSize)] := by
        obtain ⟨_, _, _, _, _, _, hm, _⟩ := installX86_spec mode s s1 r.func r.payload r.jit h1
        exact hm
      obtain ⟨gs', hgs', hlen', hmem', hmaps', hfault'⟩ :=
        ih s1 sf h (fun r' hr' => hdis r' (by simp [hr'])) (by rw [hmaps_s1]; exact hf2)
      refine ⟨g :: gs', by rw [hgs', hg]; simp, by simp [hlen'], ?_, ?_, by rw [hfault', hfault1]⟩
      · intro x hx
        rw [List.reverse_cons, dropGuards_append]
        simp only [dropGuards]
        rw [restoreGuard_congr _ s1 g x (hmem' x (fun r' hr' => hx r' (by simp [hr'])))]
        exact hmem1 x (hx r (by simp))
      · rw [List.reverse_cons, dropGuards_append]
        simp only [dropGuards]
        rw [restoreGuard_maps, hmaps', ← restoreGuard_maps]
        exact hmaps1

end Inj.Machine

namespace Inj.Machine
open Inj

/-! ## frames -/

/-- installing touches nothing outside the named slots and the trampoline pages -/
theorem installs_frame (mode : Mode) (rs : List Req) :
    ∀ (s sf : MState), installs mode s rs = some sf →
      (∀ r ∈ rs, ∀ x, inJit r x → ¬ inSlot r x) → FreshMaps s.maps rs →
      ∀ x, (∀ r ∈ rs, ¬ inJit r x ∧ ¬ inSlot r x) → sf.mem x = s.mem x := by
  induction rs with
  | nil => intro s sf h _ _ x _; simp only [installs] at h; injection h with h; subst h; rfl
  | cons r rs ih =>
    intro s sf h hdis hfresh x hx
    simp only [installs] at h
    cases h1 : installX86 mode s r.func r.payload r.jit with
    | none => simp [h1] at h
    | some s1 =>
      simp only [h1] at h
      obtain ⟨hf1, hnz, hf2⟩ := hfresh
      obtain ⟨g, _, _, _, _, _, _, hfr⟩ := install_undo mode s s1 r h1 (hdis r (by simp)) hf1 hnz
      have hmaps_s1 : s1.maps = s.maps ++ [(r.jit, r.payload.jitSize)] := by
        obtain ⟨_, _, _, _, _, _, hm, _⟩ := installX86_spec mode s s1 r.func r.payload r.jit h1
        exact hm
      rw [ih s1 sf h (fun r' hr' => hdis r' (by simp [hr'])) (by rw [hmaps_s1]; exact hf2) x
            (fun r' hr' => hx r' (by simp [hr']))]
      exact hfr x (hx r (by simp)).1 (hx r (by simp)).2

/-- restoring touches nothing outside the guards' own entry ranges -/
theorem dropGuards_frame (gs : List Guard) :
    ∀ (s : MState) (x : Nat), (∀ g ∈ gs, x < g.addr ∨ g.addr + g.patchLen ≤ x) →
      (dropGuards s gs).mem x = s.mem x := by
  induction gs with
  | nil => intro s x _; rfl
  | cons g gs ih =>
    intro s x hx
    simp only [dropGuards]
    rw [ih _ x (fun g' hg' => hx g' (by simp [hg'])), restoreGuard_frame s g x (hx g (by simp))]

/-- the guards an install history leaves behind describe exactly its requests -/
theorem installs_guards (mode : Mode) (rs : List Req) :
    ∀ (s sf : MState), installs mode s rs = some sf →
      ∃ gs, sf.guards = s.guards ++ gs ∧
        ∀ g ∈ gs, ∃ r ∈ rs, g.addr = r.func ∧ g.patchLen ≤ 12 ∧ g.jit = r.jit ∧ g.jitLen = r.payload.jitSize := by
  induction rs with
  | nil => intro s sf h; simp only [installs] at h; injection h with h; subst h; exact ⟨[], by simp, by simp⟩
  | cons r rs ih =>
    intro s sf h
    simp only [installs] at h
    cases h1 : installX86 mode s r.func r.payload r.jit with
    | none => simp [h1] at h
    | some s1 =>
      simp only [h1] at h
      obtain ⟨code, br, _, hb, _, hg, _, _⟩ := installX86_spec mode s s1 r.func r.payload r.jit h1
      have hbl := X86.genBranch_len mode r.func r.jit br hb
      obtain ⟨gs', hgs', hall⟩ := ih s1 sf h
      refine ⟨Guard.mk r.func (readMem (afterJit s.mem r.jit r.payload.jitSize code) r.func br.length) br.length r.jit r.payload.jitSize :: gs', by rw [hgs', hg]; simp, ?_⟩
      intro g hgm
      simp only [List.mem_cons] at hgm
      rcases hgm with he | hin
      · subst he; exact ⟨r, by simp, rfl, by show br.length ≤ 12; omega, rfl, rfl⟩
      · obtain ⟨r', hr', hp⟩ := hall g hin
        exact ⟨r', by simp [hr'], hp⟩

end Inj.Machine

namespace Inj.Machine
open Inj

/-! ## event logs -/

theorem installX86_log (mode : Mode) (s s' : MState) (func : Nat) (p : Payload) (jit : Nat)
    (h : installX86 mode s func p jit = some s') :
    ∃ code br, payloadCode mode p jit = some code ∧ X86.genBranch mode func jit = Res.ok br ∧
      s'.log = Event.ret :: Event.flush func (func + br.length) :: Event.write func br ::
               Event.mprotect (protectSpan func br.length).1 (protectSpan func br.length).2 ::
               Event.flush jit (jit + code.length) :: Event.write jit code :: Event.mmap jit p.jitSize :: s.log := by
  unfold installX86 at h
  have hw : ∀ code : List Nat, code.length ≤ 12 →
      injectAsm (doMmap s jit p.jitSize) jit code =
        { (doMmap s jit p.jitSize) with
          mem := afterJit s.mem jit p.jitSize code,
          log := Event.flush jit (jit + code.length) :: Event.write jit code :: (doMmap s jit p.jitSize).log } := by
    intro code hl
    unfold injectAsm
    rw [doWrite_ok]
    · simp [logEv, doMmap, afterJit]
    · intro x h1 h2
      have hp := pageUp_small p.jitSize (jitSize_pos p).1 (jitSize_pos p).2
      simp only [doMmap, hp]
      have : jit ≤ x ∧ x < jit + 4096 := by omega
      rw [if_pos this]
  cases hc : payloadCode mode p jit with
  | none => simp [hc] at h
  | some code =>
    have hlen := payloadCode_len mode p jit code hc
    cases hb : X86.genBranch mode func jit with
    | panic w => simp [hc, hb] at h
    | ok br =>
      simp only [hc, hb, hw code hlen] at h
      injection h with h
      subst h
      exact ⟨code, br, rfl, rfl, by simp [patchFunction_eq, logEv, doMmap]⟩

theorem restoreGuard_log (s : MState) (g : Guard) :
    (restoreGuard s g).log =
      Event.flush g.addr (g.addr + g.patchLen) ::
      (if g.jit ≠ 0 then [Event.munmap g.jit g.jitLen] else []) ++
      [Event.flush g.addr (g.addr + (g.saved.take g.patchLen).length), Event.write g.addr (g.saved.take g.patchLen),
       Event.mprotect (protectSpan g.addr (g.saved.take g.patchLen).length).1 (protectSpan g.addr (g.saved.take g.patchLen).length).2] ++ s.log := by
  unfold restoreGuard
  simp only [patchFunction_eq, logEv]
  split <;> simp [doMunmap]

theorem dirtyAfter_append (d : List Nat) (e1 e2 : List Event) :
    dirtyAfter d (e1 ++ e2) = (dirtyAfter d e1).bind (fun d' => dirtyAfter d' e2) := by
  induction e1 generalizing d with
  | nil => simp [dirtyAfter]
  | cons e es ih =>
    cases e <;> simp only [List.cons_append, dirtyAfter, ih]
    split <;> simp

theorem filter_rangeOf (a n hi : Nat) (h : a + n ≤ hi) :
    (rangeOf a n).filter (fun x => !(decide (a ≤ x) && decide (x < hi))) = [] := by
  rw [List.filter_eq_nil_iff]
  intro x hx
  unfold rangeOf at hx
  simp only [List.mem_map, List.mem_range] at hx
  obtain ⟨i, hi', rfl⟩ := hx
  simp; omega

theorem filter_rangeOf_self (a n : Nat) :
    (rangeOf a n).filter (fun x => !(decide (a ≤ x) && decide (x < a + n))) = [] :=
  filter_rangeOf a n (a + n) (Nat.le_refl _)

/-- write then the matching flush leaves nothing dirty -/
theorem dirty_write_flush (a : Nat) (bs : List Nat) (es : List Event) :
    dirtyAfter [] (Event.write a bs :: Event.flush a (a + bs.length) :: es) = dirtyAfter [] es := by
  simp only [dirtyAfter, List.nil_append]
  rw [filter_rangeOf a bs.length (a + bs.length) (Nat.le_refl _)]

/-- the events of one installation keep the log clean -/
theorem install_flushClean (mode : Mode) (s s' : MState) (func : Nat) (p : Payload) (jit : Nat)
    (h : installX86 mode s func p jit = some s') (hc : flushClean s.log) : flushClean s'.log := by
  obtain ⟨code, br, _, _, hlog⟩ := installX86_log mode s s' func p jit h
  unfold flushClean at *
  rw [hlog]
  simp only [List.reverse_cons, List.append_assoc, List.cons_append, List.nil_append]
  rw [dirtyAfter_append, hc]
  simp only [Option.bind, dirtyAfter, List.nil_append, filter_rangeOf_self, List.filter_nil, List.isEmpty_nil, if_true]

theorem restore_flushClean (s : MState) (g : Guard) (hc : flushClean s.log) :
    dirtyAfter [] (restoreGuard s g).log.reverse = some [] := by
  unfold flushClean at hc
  rw [restoreGuard_log]
  simp only [List.reverse_cons, List.reverse_append, List.append_assoc, List.cons_append, List.nil_append,
    List.reverse_nil]
  rw [dirtyAfter_append, hc]
  simp only [Option.bind, dirtyAfter, List.nil_append, filter_rangeOf_self]
  split <;> simp [dirtyAfter]

theorem dropGuards_flushClean (gs : List Guard) : ∀ s : MState, flushClean s.log → flushClean (dropGuards s gs).log := by
  induction gs with
  | nil => intro s h; exact h
  | cons g gs ih => intro s h; exact ih _ (restore_flushClean s g h)

theorem installs_flushClean (mode : Mode) (rs : List Req) :
    ∀ s sf : MState, installs mode s rs = some sf → flushClean s.log → flushClean sf.log := by
  induction rs with
  | nil => intro s sf h hc; simp only [installs] at h; injection h with h; subst h; exact hc
  | cons r rs ih =>
    intro s sf h hc
    simp only [installs] at h
    cases h1 : installX86 mode s r.func r.payload r.jit with
    | none => simp [h1] at h
    | some s1 =>
      simp only [h1] at h
      exact ih s1 sf h (install_flushClean mode s s1 r.func r.payload r.jit h1 hc)

end Inj.Machine

namespace Inj.Machine
open Inj

theorem munmapsOf_append (a b : List Event) : munmapsOf (a ++ b) = munmapsOf a ++ munmapsOf b := by
  induction a with
  | nil => rfl
  | cons e es ih => cases e <;> simp [munmapsOf, ih]

theorem mmapsOf_append (a b : List Event) : mmapsOf (a ++ b) = mmapsOf a ++ mmapsOf b := by
  induction a with
  | nil => rfl
  | cons e es ih => cases e <;> simp [mmapsOf, ih]

/-- the `munmap` calls made while dropping guards are exactly the guards' own trampolines, each
    once, in the order the guards are dropped -/
theorem dropGuards_munmaps (gs : List Guard) :
    ∀ s : MState, ∃ ev, (dropGuards s gs).log = ev ++ s.log ∧
      munmapsOf ev.reverse = (gs.filter (fun g => g.jit ≠ 0)).map (fun g => (g.jit, g.jitLen)) ∧
      mmapsOf ev.reverse = [] := by
  induction gs with
  | nil => intro s; exact ⟨[], rfl, rfl, rfl⟩
  | cons g gs ih =>
    intro s
    obtain ⟨ev, h1, h2, h3⟩ := ih (restoreGuard s g)
    simp only [dropGuards]
    rw [h1, restoreGuard_log]
    by_cases hj : g.jit ≠ 0
    · refine ⟨ev ++ [Event.flush g.addr (g.addr + g.patchLen), Event.munmap g.jit g.jitLen,
          Event.flush g.addr (g.addr + (g.saved.take g.patchLen).length), Event.write g.addr (g.saved.take g.patchLen),
          Event.mprotect (protectSpan g.addr (g.saved.take g.patchLen).length).1 (protectSpan g.addr (g.saved.take g.patchLen).length).2],
        by simp [hj], ?_, ?_⟩
      · simp [List.reverse_append, munmapsOf_append, munmapsOf, h2, hj, List.filter_cons]
      · simp [List.reverse_append, mmapsOf_append, mmapsOf, h3]
    · refine ⟨ev ++ [Event.flush g.addr (g.addr + g.patchLen),
          Event.flush g.addr (g.addr + (g.saved.take g.patchLen).length), Event.write g.addr (g.saved.take g.patchLen),
          Event.mprotect (protectSpan g.addr (g.saved.take g.patchLen).length).1 (protectSpan g.addr (g.saved.take g.patchLen).length).2],
        by simp [hj], ?_, ?_⟩
      · simp [List.reverse_append, munmapsOf_append, munmapsOf, h2, hj, List.filter_cons]
      · simp [List.reverse_append, mmapsOf_append, mmapsOf, h3]

/-- an install history maps exactly one trampoline per request and unmaps nothing -/
theorem installs_mmaps (mode : Mode) (rs : List Req) :
    ∀ s sf : MState, installs mode s rs = some sf → ∃ ev, sf.log = ev ++ s.log ∧
      mmapsOf ev.reverse = rs.map (fun r => (r.jit, r.payload.jitSize)) ∧ munmapsOf ev.reverse = [] := by
  induction rs with
  | nil => intro s sf h; simp only [installs] at h; injection h with h; subst h; exact ⟨[], rfl, rfl, rfl⟩
  | cons r rs ih =>
    intro s sf h
    simp only [installs] at h
    cases h1 : installX86 mode s r.func r.payload r.jit with
    | none => simp [h1] at h
    | some s1 =>
      simp only [h1] at h
      obtain ⟨code, br, _, _, hlog⟩ := installX86_log mode s s1 r.func r.payload r.jit h1
      obtain ⟨ev, h2, h3, h4⟩ := ih s1 sf h
      refine ⟨ev ++ [Event.ret, Event.flush r.func (r.func + br.length), Event.write r.func br,
               Event.mprotect (protectSpan r.func br.length).1 (protectSpan r.func br.length).2,
               Event.flush r.jit (r.jit + code.length), Event.write r.jit code, Event.mmap r.jit r.payload.jitSize],
        by rw [h2, hlog]; simp, ?_, ?_⟩
      · simp [List.reverse_append, mmapsOf_append, mmapsOf, h3]
      · simp [List.reverse_append, munmapsOf_append, munmapsOf, h4]

end Inj.Machine

namespace Inj.Machine
open Inj

/-! ## reaching the fake (C01 at machine level) -/

theorem run_add (m : Mem) (a b : Nat) (c : X86.Cpu) :
    X86.run m (a + b) c = (X86.run m a c).bind (X86.run m b) := by
  induction a generalizing c with
  | zero => simp [X86.run]
  | succ a ih =>
    rw [Nat.succ_add]
    simp only [X86.run]
    cases X86.step m c with
    | none => simp
    | some c' => simp [ih]

/-- only rip and rax may differ -/
def SameButRax (c c' : X86.Cpu) : Prop :=
  (∀ i, i ≠ 0 → c'.gpr i = c.gpr i) ∧ c'.xmm = c.xmm ∧ c'.flags = c.flags

theorem install_reaches (mode : Mode) (s s1 : MState) (func fake jit : Nat)
    (h : installX86 mode s func (Payload.exec fake) jit = some s1)
    (hdis : ∀ x, (jit ≤ x ∧ x < jit + 4096) → ¬ (func ≤ x ∧ x < func + 12))
    (hf : func < 18446744073709551616) (hj : jit < 18446744073709551616) (hk : fake < 18446744073709551616)
    (c : X86.Cpu) (hc : c.rip = func) :
    ∃ k c', k ≤ 4 ∧ X86.run s1.mem k c = some c' ∧ c'.rip = fake ∧ SameButRax c c' := by
  obtain ⟨code, br, hcode, hbr, hmem, _, _, _⟩ := installX86_spec mode s s1 func (Payload.exec fake) jit h
  have hcode' : X86.genBranch mode jit fake = Res.ok code := by
    simp only [payloadCode] at hcode
    cases hg : X86.genBranch mode jit fake with
    | ok c' => rw [hg] at hcode; injection hcode with hcode; subst hcode; rfl
    | panic w => rw [hg] at hcode; cases hcode
  have hbl := X86.genBranch_len mode func jit br hbr
  have hcl := X86.genBranch_len mode jit fake code hcode'
  have hold1 : X86.Holds s1.mem func br := by
    intro i hi
    rw [hmem, writeMem_in _ _ _ _ (by omega) (by omega)]
    congr 1; omega
  have hold2 : X86.Holds s1.mem jit code := by
    intro i hi
    have hns := hdis (jit + i) ⟨by omega, by omega⟩
    rw [hmem, writeMem_out _ _ _ _ (by omega)]
    unfold afterJit
    rw [writeMem_in _ _ _ _ (by omega) (by omega)]
    congr 1; omega
  have sameRefl : ∀ (c : X86.Cpu) (r : Nat), SameButRax c { c with rip := r } := fun c r => ⟨fun _ _ => rfl, rfl, rfl⟩
  have sameSet : ∀ (c : X86.Cpu) (r v : Nat), SameButRax c { c with rip := r, gpr := X86.setReg c.gpr 0 v } :=
    fun c r v => ⟨fun i hi => by simp [X86.setReg, hi], rfl, rfl⟩
  have trans : ∀ (a b d : X86.Cpu), SameButRax a b → SameButRax b d → SameButRax a d :=
    fun a b d h1 h2 => ⟨fun i hi => by rw [h2.1 i hi, h1.1 i hi], by rw [h2.2.1, h1.2.1], by rw [h2.2.2, h1.2.2]⟩
  rcases X86.genBranch_run mode func jit br hf hj hbr s1.mem hold1 c hc with r1 | r1
  · rcases X86.genBranch_run mode jit fake code hj hk hcode' s1.mem hold2 { c with rip := jit } rfl with r2 | r2
    · exact ⟨1 + 1, _, by omega, by rw [run_add, r1]; exact r2, rfl, trans _ _ _ (sameRefl c jit) (sameRefl _ fake)⟩
    · exact ⟨1 + 2, _, by omega, by rw [run_add, r1]; exact r2, rfl, trans _ _ _ (sameRefl c jit) (sameSet _ fake fake)⟩
  · rcases X86.genBranch_run mode jit fake code hj hk hcode' s1.mem hold2
        { c with rip := jit, gpr := X86.setReg c.gpr 0 jit } rfl with r2 | r2
    · exact ⟨2 + 1, _, by omega, by rw [run_add, r1]; exact r2, rfl, trans _ _ _ (sameSet c jit jit) (sameRefl _ fake)⟩
    · exact ⟨2 + 2, _, by omega, by rw [run_add, r1]; exact r2, rfl, trans _ _ _ (sameSet c jit jit) (sameSet _ fake fake)⟩

end Inj.Machine

namespace Inj.Machine
open Inj

/-! ## the forced-boolean stub (C10) -/

theorem holds8 {m : Nat → Nat} {a b0 b1 b2 b3 b4 b5 b6 b7 : Nat} (h : X86.Holds m a [b0,b1,b2,b3,b4,b5,b6,b7]) :
    m a = b0 ∧ m (a+1) = b1 ∧ m (a+2) = b2 ∧ m (a+3) = b3 ∧ m (a+4) = b4 ∧ m (a+5) = b5 ∧ m (a+6) = b6 ∧ m (a+7) = b7 := by
  have h0 := h 0 (by simp); have h1 := h 1 (by simp); have h2 := h 2 (by simp)
  have h3 := h 3 (by simp); have h4 := h 4 (by simp); have h5 := h 5 (by simp)
  have h6 := h 6 (by simp); have h7 := h 7 (by simp)
  simp at h0 h1 h2 h3 h4 h5 h6 h7
  exact ⟨h0, h1, h2, h3, h4, h5, h6, h7⟩

/-- `mov rax, imm32(v); ret`: rax = v, control returns to the address on top of the stack, the
    stack pointer is popped, nothing else changes -/
theorem boolStub_run (m : Nat → Nat) (a : Nat) (v : Bool) (c : X86.Cpu)
    (hm : X86.Holds m a (X86.boolStub v)) (hc : c.rip = a) :
    X86.run m 2 c = some { c with rip := X86.rd64 m (c.gpr 4),
                                  gpr := X86.setReg (X86.setReg c.gpr 0 (if v then 1 else 0)) 4 ((c.gpr 4 + 8) % 18446744073709551616) } := by
  rw [X86.boolStub_eq] at hm
  obtain ⟨h0, h1, h2, h3, h4, h5, h6, h7⟩ := holds8 hm
  have hdec : X86.decode m c.rip = some (X86.Instr.movRaxSImm32 (if v then 1 else 0)) := by
    unfold X86.decode X86.rd32
    rw [hc]
    simp only [h0, h1, h2, show a + 3 + 1 = a + 4 from rfl, show a + 3 + 2 = a + 5 from rfl, show a + 3 + 3 = a + 6 from rfl, h3, h4, h5, h6]
    cases v <;> simp [de32]
  have hdec2 : X86.decode m (c.rip + 7) = some X86.Instr.ret := by
    unfold X86.decode
    rw [hc]
    simp [h7]
  have hs : X86.wrap64 (sext32 (if v then 1 else 0)) = (if v then 1 else 0) := by
    cases v <;> simp [X86.wrap64, sext32]
  simp only [X86.run, X86.step, hdec, hdec2, hs]
  simp [X86.setReg]

theorem install_bool_returns (mode : Mode) (s s1 : MState) (func jit : Nat) (v : Bool)
    (h : installX86 mode s func (Payload.bool v) jit = some s1)
    (hdis : ∀ x, (jit ≤ x ∧ x < jit + 4096) → ¬ (func ≤ x ∧ x < func + 12))
    (hf : func < 18446744073709551616) (hj : jit < 18446744073709551616)
    (c : X86.Cpu) (hc : c.rip = func) :
    ∃ k c', k ≤ 4 ∧ X86.run s1.mem k c = some c' ∧
      c'.rip = X86.rd64 s1.mem (c.gpr 4) ∧ c'.gpr 0 = (if v then 1 else 0) ∧
      c'.gpr 4 = (c.gpr 4 + 8) % 18446744073709551616 ∧
      (∀ i, i ≠ 0 → i ≠ 4 → c'.gpr i = c.gpr i) ∧ c'.xmm = c.xmm ∧ c'.flags = c.flags := by
  obtain ⟨code, br, hcode, hbr, hmem, _, _, _⟩ := installX86_spec mode s s1 func (Payload.bool v) jit h
  simp only [payloadCode] at hcode
  injection hcode with hcode; subst hcode
  have hbl := X86.genBranch_len mode func jit br hbr
  have hold1 : X86.Holds s1.mem func br := by
    intro i hi
    rw [hmem, writeMem_in _ _ _ _ (by omega) (by omega)]
    congr 1; omega
  have hlen8 : (X86.boolStub v).length = 8 := by rw [X86.boolStub_eq]; rfl
  have hold2 : X86.Holds s1.mem jit (X86.boolStub v) := by
    intro i hi
    have hns := hdis (jit + i) ⟨by omega, by omega⟩
    rw [hmem, writeMem_out _ _ _ _ (by omega)]
    unfold afterJit
    rw [writeMem_in _ _ _ _ (by omega) (by omega)]
    congr 1; omega
  rcases X86.genBranch_run mode func jit br hf hj hbr s1.mem hold1 c hc with r1 | r1
  · have r2 := boolStub_run s1.mem jit v { c with rip := jit } hold2 rfl
    have hrun : X86.run s1.mem (1 + 2) c = some
        { c with rip := X86.rd64 s1.mem (c.gpr 4),
                 gpr := X86.setReg (X86.setReg c.gpr 0 (if v then 1 else 0)) 4 ((c.gpr 4 + 8) % 18446744073709551616) } := by
      rw [run_add, r1]; exact r2
    refine ⟨1 + 2, _, by omega, hrun, rfl, ?_, ?_, ?_, rfl, rfl⟩
    · simp [X86.setReg]
    · simp [X86.setReg]
    · intro i h0 h4; simp [X86.setReg, h0, h4]
  · have r2 := boolStub_run s1.mem jit v { c with rip := jit, gpr := X86.setReg c.gpr 0 jit } hold2 rfl
    have hrun : X86.run s1.mem (2 + 2) c = some
        { c with rip := X86.rd64 s1.mem (X86.setReg c.gpr 0 jit 4),
                 gpr := X86.setReg (X86.setReg (X86.setReg c.gpr 0 jit) 0 (if v then 1 else 0)) 4
                          ((X86.setReg c.gpr 0 jit 4 + 8) % 18446744073709551616) } := by
      rw [run_add, r1]; exact r2
    refine ⟨2 + 2, _, by omega, hrun, ?_, ?_, ?_, ?_, rfl, rfl⟩
    · simp [X86.setReg]
    · simp [X86.setReg]
    · simp [X86.setReg]
    · intro i h0 h4; simp [X86.setReg, h0, h4]

end Inj.Machine

namespace Inj.Machine
open Inj

/-! ## the latest installation is the one in effect -/

/-- memory `m` carries an installed redirection of `func` through `jit` to `fake` -/
def Redirects (mode : Mode) (m : Mem) (func jit fake : Nat) : Prop :=
  ∃ br code, X86.genBranch mode func jit = Res.ok br ∧ X86.genBranch mode jit fake = Res.ok code ∧
    X86.Holds m func br ∧ X86.Holds m jit code

theorem install_redirects (mode : Mode) (s s1 : MState) (func fake jit : Nat)
    (h : installX86 mode s func (Payload.exec fake) jit = some s1)
    (hdis : ∀ x, (jit ≤ x ∧ x < jit + 4096) → ¬ (func ≤ x ∧ x < func + 12)) :
    Redirects mode s1.mem func jit fake := by
  obtain ⟨code, br, hcode, hbr, hmem, _, _, _⟩ := installX86_spec mode s s1 func (Payload.exec fake) jit h
  have hcode' : X86.genBranch mode jit fake = Res.ok code := by
    simp only [payloadCode] at hcode
    cases hg : X86.genBranch mode jit fake with
    | ok c' => rw [hg] at hcode; injection hcode with hcode; subst hcode; rfl
    | panic w => rw [hg] at hcode; cases hcode
  have hbl := X86.genBranch_len mode func jit br hbr
  have hcl := X86.genBranch_len mode jit fake code hcode'
  refine ⟨br, code, hbr, hcode', ?_, ?_⟩
  · intro i hi
    rw [hmem, writeMem_in _ _ _ _ (by omega) (by omega)]
    congr 1; omega
  · intro i hi
    have hns := hdis (jit + i) ⟨by omega, by omega⟩
    rw [hmem, writeMem_out _ _ _ _ (by omega)]
    unfold afterJit
    rw [writeMem_in _ _ _ _ (by omega) (by omega)]
    congr 1; omega

theorem redirects_reaches (mode : Mode) (m : Mem) (func jit fake : Nat)
    (hf : func < 18446744073709551616) (hj : jit < 18446744073709551616) (hk : fake < 18446744073709551616)
    (h : Redirects mode m func jit fake) (c : X86.Cpu) (hc : c.rip = func) :
    ∃ k c', k ≤ 4 ∧ X86.run m k c = some c' ∧ c'.rip = fake ∧ SameButRax c c' := by
  obtain ⟨br, code, hbr, hcode', hold1, hold2⟩ := h
  have sameRefl : ∀ (c : X86.Cpu) (r : Nat), SameButRax c { c with rip := r } := fun c r => ⟨fun _ _ => rfl, rfl, rfl⟩
  have sameSet : ∀ (c : X86.Cpu) (r v : Nat), SameButRax c { c with rip := r, gpr := X86.setReg c.gpr 0 v } :=
    fun c r v => ⟨fun i hi => by simp [X86.setReg, hi], rfl, rfl⟩
  have trans : ∀ (a b d : X86.Cpu), SameButRax a b → SameButRax b d → SameButRax a d :=
    fun a b d h1 h2 => ⟨fun i hi => by rw [h2.1 i hi, h1.1 i hi], by rw [h2.2.1, h1.2.1], by rw [h2.2.2, h1.2.2]⟩
  rcases X86.genBranch_run mode func jit br hf hj hbr m hold1 c hc with r1 | r1
  · rcases X86.genBranch_run mode jit fake code hj hk hcode' m hold2 { c with rip := jit } rfl with r2 | r2
    · exact ⟨1 + 1, _, by omega, by rw [run_add, r1]; exact r2, rfl, trans _ _ _ (sameRefl c jit) (sameRefl _ fake)⟩
    · exact ⟨1 + 2, _, by omega, by rw [run_add, r1]; exact r2, rfl, trans _ _ _ (sameRefl c jit) (sameSet _ fake fake)⟩
  · rcases X86.genBranch_run mode jit fake code hj hk hcode' m hold2
        { c with rip := jit, gpr := X86.setReg c.gpr 0 jit } rfl with r2 | r2
    · exact ⟨2 + 1, _, by omega, by rw [run_add, r1]; exact r2, rfl, trans _ _ _ (sameSet c jit jit) (sameRefl _ fake)⟩
    · exact ⟨2 + 2, _, by omega, by rw [run_add, r1]; exact r2, rfl, trans _ _ _ (sameSet c jit jit) (sameSet _ fake fake)⟩

/-- a redirection survives any change of memory outside its entry range and trampoline page -/
theorem redirects_frame (mode : Mode) (m m' : Mem) (func jit fake : Nat)
    (h : Redirects mode m func jit fake)
    (hsame : ∀ x, (func ≤ x ∧ x < func + 12) ∨ (jit ≤ x ∧ x < jit + 4096) → m' x = m x) :
    Redirects mode m' func jit fake := by
  obtain ⟨br, code, hbr, hcode, h1, h2⟩ := h
  have hbl := X86.genBranch_len mode func jit br hbr
  have hcl := X86.genBranch_len mode jit fake code hcode
  refine ⟨br, code, hbr, hcode, ?_, ?_⟩
  · intro i hi; rw [hsame (func + i) (Or.inl ⟨by omega, by omega⟩)]; exact h1 i hi
  · intro i hi; rw [hsame (jit + i) (Or.inr ⟨by omega, by omega⟩)]; exact h2 i hi

/-- later installations elsewhere do not disturb an installed redirection -/
theorem installs_keep_redirect (mode : Mode) (post : List Req) :
    ∀ (s sf : MState), installs mode s post = some sf →
      (∀ r ∈ post, ∀ x, inJit r x → ¬ inSlot r x) → FreshMaps s.maps post →
      ∀ (func jit fake : Nat), Redirects mode s.mem func jit fake →
        (∀ r ∈ post, ∀ x, (func ≤ x ∧ x < func + 12) ∨ (jit ≤ x ∧ x < jit + 4096) → ¬ inJit r x ∧ ¬ inSlot r x) →
        Redirects mode sf.mem func jit fake := by
  intro s sf h hdis hfresh func jit fake hred hsep
  apply redirects_frame mode s.mem sf.mem func jit fake hred
  intro x hx
  exact installs_frame mode post s sf h hdis hfresh x (fun r hr => hsep r hr x hx)

/-- **Latest wins.**  In a history `pre ++ [r] ++ post` where no later request touches the entry
    range or the trampoline page of `r`, a call of `r.func` after the whole history reaches
    `r`'s fake. -/
theorem latest_wins (mode : Mode) (pre post : List Req) (func fake jit : Nat) (s0 sf : MState)
    (h : installs mode s0 (pre ++ Req.mk func (Payload.exec fake) jit :: post) = some sf)
    (hdis : ∀ r ∈ pre ++ Req.mk func (Payload.exec fake) jit :: post, ∀ x, inJit r x → ¬ inSlot r x)
    (hfresh : FreshMaps s0.maps (pre ++ Req.mk func (Payload.exec fake) jit :: post))
    (hsep : ∀ r ∈ post, ∀ x, (func ≤ x ∧ x < func + 12) ∨ (jit ≤ x ∧ x < jit + 4096) → ¬ inJit r x ∧ ¬ inSlot r x)
    (hf : func < 18446744073709551616) (hj : jit < 18446744073709551616) (hk : fake < 18446744073709551616)
    (c : X86.Cpu) (hc : c.rip = func) :
    ∃ k c', k ≤ 4 ∧ X86.run sf.mem k c = some c' ∧ c'.rip = fake ∧ SameButRax c c' := by
  -- split the run at the request
  have split : ∀ (pre : List Req) (s0 : MState) (rest : List Req) (sf : MState),
      installs mode s0 (pre ++ rest) = some sf → FreshMaps s0.maps (pre ++ rest) →
      ∃ sm, installs mode s0 pre = some sm ∧ installs mode sm rest = some sf ∧ FreshMaps sm.maps rest := by
    intro pre
    induction pre with
    | nil => intro s0 rest sf h hf; exact ⟨s0, rfl, h, hf⟩
    | cons p ps ih =>
      intro s0 rest sf h hf
      simp only [List.cons_append, installs] at h
      cases h1 : installX86 mode s0 p.func p.payload p.jit with
      | none => simp [h1] at h
      | some s1 =>
        simp only [h1] at h
        obtain ⟨_, _, _, _, _, _, hm, _⟩ := installX86_spec mode s0 s1 p.func p.payload p.jit h1
        obtain ⟨hf1, hnz, hf2⟩ := hf
        obtain ⟨sm, a, b, c'⟩ := ih s1 rest sf h (by rw [hm]; exact hf2)
        exact ⟨sm, by simp only [installs, h1]; exact a, b, c'⟩
  obtain ⟨sm, _, hrest, hfm⟩ := split pre s0 _ sf h hfresh
  simp only [installs] at hrest
  cases h1 : installX86 mode sm func (Payload.exec fake) jit with
  | none => simp [h1] at hrest
  | some s1 =>
    simp only [h1] at hrest
    have hself : ∀ x, (jit ≤ x ∧ x < jit + 4096) → ¬ (func ≤ x ∧ x < func + 12) := by
      intro x hx
      exact hdis (Req.mk func (Payload.exec fake) jit) (by simp) x hx
    have hred := install_redirects mode sm s1 func fake jit h1 hself
    obtain ⟨_, _, _, _, _, _, hm, _⟩ := installX86_spec mode sm s1 func (Payload.exec fake) jit h1
    obtain ⟨_, _, hf2⟩ := hfm
    have hkeep := installs_keep_redirect mode post s1 sf hrest
      (fun r hr => hdis r (by simp [hr])) (by rw [hm]; exact hf2) func jit fake hred hsep
    exact redirects_reaches mode sf.mem func jit fake hf hj hk hkeep c hc

end Inj.Machine
