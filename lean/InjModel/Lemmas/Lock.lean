import InjModel.Model.Lock
namespace Inj.Lock
open Inj.Generated.Layout

theorem setPc_same (f : Nat → Pc) (t : Nat) (p : Pc) : setPc f t p t = p := by simp [setPc]
theorem setPc_other (f : Nat → Pc) (t x : Nat) (p : Pc) (h : x ≠ t) : setPc f t p x = f x := by simp [setPc, h]

/-- after the `lock` micro-step neither a `guards` nor another `lock` micro-step remains -/
def okOrder : List Field → Bool
  | [] => true
  | f :: rest =>
    (if f == Field.lock then !(rest.contains Field.guards) && !(rest.contains Field.lock) else true) &&
    (f != Field.unknown) && okOrder rest

def SuffixOK (rest : List Field) : Prop :=
  okOrder rest = true ∧ (rest.contains Field.guards = true → rest.contains Field.lock = true)

theorem not_mem_of_contains_false {l : List Field} {a : Field} (h : l.contains a = false) : a ∉ l := by
  intro hm; rw [List.contains_iff_mem.mpr hm] at h; cases h

theorem SuffixOK_tail (f : Field) (rest : List Field) (h : SuffixOK (f :: rest)) : SuffixOK rest := by
  obtain ⟨h1, h2⟩ := h
  simp only [okOrder, Bool.and_eq_true] at h1
  obtain ⟨⟨h1a, _⟩, h1b⟩ := h1
  have h1 : (if (f == Field.lock) = true then !rest.contains Field.guards && !rest.contains Field.lock else true) = true ∧ okOrder rest = true := ⟨h1a, h1b⟩
  refine ⟨h1.2, ?_⟩
  intro hg
  have hgm : Field.guards ∈ rest := List.contains_iff_mem.mp hg
  have hg' : (f :: rest).contains Field.guards = true := List.contains_iff_mem.mpr (List.mem_cons_of_mem _ hgm)
  have hl := List.contains_iff_mem.mp (h2 hg')
  rcases List.mem_cons.mp hl with hl | hl
  · have hf : (f == Field.lock) = true := by simp [hl]
    have := h1.1
    rw [if_pos hf, hg] at this
    simp at this
  · exact List.contains_iff_mem.mpr hl

theorem SuffixOK_after_lock (rest : List Field) (h : SuffixOK (Field.lock :: rest)) :
    rest.contains Field.guards = false ∧ rest.contains Field.lock = false := by
  have := h.1
  simp only [okOrder, Bool.and_eq_true] at this
  have h1 := this.1.1
  simp at h1
  constructor
  · cases hc : rest.contains Field.guards with
    | false => rfl
    | true => simp only [List.contains_iff_mem] at hc; exact absurd hc h1.1
  · cases hc : rest.contains Field.lock with
    | false => rfl
    | true => simp only [List.contains_iff_mem] at hc; exact absurd hc h1.2

/-- what the protocol needs from the source -/
def GoodParams (p : Params) : Prop :=
  p.newTakesLock = true ∧ p.preventTakesLock = true ∧
  SuffixOK p.injectorRelease ∧ SuffixOK p.preventerRelease ∧
  p.injectorRelease.contains Field.lock = true ∧ p.preventerRelease.contains Field.lock = true ∧
  p.injectorRelease.contains Field.guards = true ∧
  (∀ path ∈ p.injectorPanicPaths, SuffixOK path ∧ path.contains Field.lock = true ∧ path.contains Field.guards = true)

theorem takesLock_good (p : Params) (hp : GoodParams p) (k : Kind) : takesLock p k = true := by
  cases k <;> simp [takesLock, hp.1, hp.2.1]

theorem releaseOrder_ok (p : Params) (hp : GoodParams p) (k : Kind) : SuffixOK (releaseOrder p k) := by
  cases k
  · exact hp.2.2.1
  · exact hp.2.2.2.1

theorem releaseOrder_lock (p : Params) (hp : GoodParams p) (k : Kind) :
    (releaseOrder p k).contains Field.lock = true := by
  cases k
  · exact hp.2.2.2.2.1
  · exact hp.2.2.2.2.2.1

/-- whatever micro-step sequence a release follows, it is well ordered, unlocks, and (for an
    injector) restores -/
theorem chosenOrder_ok (p : Params) (hp : GoodParams p) (k : Kind) (how : How) (alt : Option Nat) (ord : List Field)
    (h : chosenOrder p k how alt = some ord) :
    SuffixOK ord ∧ ord.contains Field.lock = true ∧ (k = Kind.injector → ord.contains Field.guards = true) := by
  cases alt with
  | none =>
    simp only [chosenOrder] at h; injection h with h; subst h
    refine ⟨releaseOrder_ok p hp k, releaseOrder_lock p hp k, ?_⟩
    intro hk; subst hk; exact hp.2.2.2.2.2.2.1
  | some i =>
    simp only [chosenOrder] at h
    split at h
    · have hm : ord ∈ p.injectorPanicPaths := List.mem_of_getElem? h
      obtain ⟨a, b, c⟩ := hp.2.2.2.2.2.2.2 ord hm
      exact ⟨a, b, fun _ => c⟩
    · cases h

/-- the inductive invariant -/
structure Inv (s : LState) : Prop where
  lockOwner : ∀ t, holdsLock (s.pcs t) = true → s.owner = some t
  ownerLock : ∀ t, s.owner = some t → holdsLock (s.pcs t) = true
  fnLive : ∀ t, s.fn = some t → fakeLive (s.pcs t) = true
  liveFn : ∀ t, fakeLive (s.pcs t) = true → s.fn = some t ∧ holdsLock (s.pcs t) = true
  suffix : ∀ t k inst rest how, s.pcs t = Pc.releasing k inst rest how → SuffixOK rest
  instKind : ∀ t k, s.pcs t = Pc.holding k true → k = Kind.injector
  relKind : ∀ t k rest how, s.pcs t = Pc.releasing k true rest how → k = Kind.injector

theorem inv_init : Inv init := by
  constructor <;> intro t <;> simp [init, holdsLock, fakeLive]

/-- nobody else holds anything while `t` owns the mutex -/
theorem others_idle_lock (s : LState) (hi : Inv s) (t x : Nat) (hown : s.owner = some t) (hx : x ≠ t) :
    holdsLock (s.pcs x) = false ∧ fakeLive (s.pcs x) = false := by
  have h1 : holdsLock (s.pcs x) = false := by
    cases h : holdsLock (s.pcs x) with
    | false => rfl
    | true => have := hi.lockOwner x h; rw [hown] at this; injection this with this; exact absurd this.symm hx
  refine ⟨h1, ?_⟩
  cases h : fakeLive (s.pcs x) with
  | false => rfl
  | true => have := (hi.liveFn x h).2; rw [h1] at this; cases this

theorem inv_step (p : Params) (hp : GoodParams p) (s s' : LState) (a : Action)
    (hi : Inv s) (hs : step p s a = some s') : Inv s' := by
  cases a with
  | acquire t k =>
    simp only [step] at hs
    cases hpc : s.pcs t with
    | holding k' i => simp [hpc] at hs
    | releasing k' i r h => simp [hpc] at hs
    | idle =>
      simp only [hpc, takesLock_good p hp k, if_true] at hs
      split at hs
      next hc =>
        injection hs with hs; subst hs
        have hown : s.owner = none := hc.1
        have nolock : ∀ x, holdsLock (s.pcs x) = false := by
          intro x
          cases h : holdsLock (s.pcs x) with
          | false => rfl
          | true => have := hi.lockOwner x h; rw [hown] at this; cases this
        have nolive : ∀ x, fakeLive (s.pcs x) = false := by
          intro x
          cases h : fakeLive (s.pcs x) with
          | false => rfl
          | true => have := (hi.liveFn x h).2; rw [nolock x] at this; cases this
        have nofn : s.fn = none := by
          cases hfn : s.fn with
          | none => rfl
          | some u => have := hi.fnLive u hfn; rw [nolive u] at this; cases this
        constructor
        · intro x hx
          by_cases hxt : x = t
          · subst hxt; rfl
          · simp only [setPc_other _ _ _ _ hxt] at hx; rw [nolock x] at hx; cases hx
        · intro x hx
          simp only at hx; injection hx with hx; subst hx
          simp [setPc_same, holdsLock]
        · intro x hx; simp only at hx; rw [nofn] at hx; cases hx
        · intro x hx
          by_cases hxt : x = t
          · subst hxt; simp [setPc_same, fakeLive] at hx
          · simp only [setPc_other _ _ _ _ hxt] at hx; rw [nolive x] at hx; cases hx
        · intro x k' i r h hx
          by_cases hxt : x = t
          · subst hxt; simp [setPc_same] at hx
          · simp only [setPc_other _ _ _ _ hxt] at hx; exact hi.suffix x k' i r h hx
        · intro x k' hx
          by_cases hxt : x = t
          · subst hxt; simp [setPc_same] at hx
          · simp only [setPc_other _ _ _ _ hxt] at hx; exact hi.instKind x k' hx
        · intro x k' r h hx
          by_cases hxt : x = t
          · subst hxt; simp [setPc_same] at hx
          · simp only [setPc_other _ _ _ _ hxt] at hx; exact hi.relKind x k' r h hx
      next => cases hs
  | install t =>
    simp only [step] at hs
    cases hpc : s.pcs t with
    | idle => simp [hpc] at hs
    | releasing k' i r h => simp [hpc] at hs
    | holding k i =>
      cases k with
      | preventer => simp [hpc] at hs
      | injector =>
        simp only [hpc] at hs
        injection hs with hs; subst hs
        have hlk : holdsLock (s.pcs t) = true := by rw [hpc]; rfl
        have hown := hi.lockOwner t hlk
        constructor
        · intro x hx
          by_cases hxt : x = t
          · subst hxt; exact hown
          · simp only [setPc_other _ _ _ _ hxt] at hx; exact hi.lockOwner x hx
        · intro x hx
          by_cases hxt : x = t
          · subst hxt; simp [setPc_same, holdsLock]
          · simp only [setPc_other _ _ _ _ hxt]; exact hi.ownerLock x hx
        · intro x hx
          simp only at hx; injection hx with hx; subst hx
          simp [setPc_same, fakeLive]
        · intro x hx
          by_cases hxt : x = t
          · subst hxt; exact ⟨rfl, by simp [setPc_same, holdsLock]⟩
          · simp only [setPc_other _ _ _ _ hxt] at hx
            rw [(others_idle_lock s hi t x hown hxt).2] at hx; cases hx
        · intro x k' i' r h hx
          by_cases hxt : x = t
          · subst hxt; simp [setPc_same] at hx
          · simp only [setPc_other _ _ _ _ hxt] at hx; exact hi.suffix x k' i' r h hx
        · intro x k' hx
          by_cases hxt : x = t
          · subst hxt; simp only [setPc_same] at hx; injection hx with h1 _; exact h1.symm
          · simp only [setPc_other _ _ _ _ hxt] at hx; exact hi.instKind x k' hx
        · intro x k' r h hx
          by_cases hxt : x = t
          · subst hxt; simp [setPc_same] at hx
          · simp only [setPc_other _ _ _ _ hxt] at hx; exact hi.relKind x k' r h hx
  | beginRelease t how alt =>
    simp only [step] at hs
    cases hpc : s.pcs t with
    | idle => simp [hpc] at hs
    | releasing k' i r h => simp [hpc] at hs
    | holding k i =>
      simp only [hpc] at hs
      cases hord : chosenOrder p k how alt with
      | none => simp [hord] at hs
      | some ord =>
      simp only [hord] at hs
      injection hs with hs; subst hs
      obtain ⟨hsfx, hordlock, hordguards⟩ := chosenOrder_ok p hp k how alt ord hord
      have hlk : holdsLock (s.pcs t) = true := by rw [hpc]; rfl
      have hown := hi.lockOwner t hlk
      have hnew : holdsLock (Pc.releasing k i ord how) = true := by
        simp only [holdsLock]; exact hordlock
      constructor
      · intro x hx
        by_cases hxt : x = t
        · subst hxt; exact hown
        · simp only [setPc_other _ _ _ _ hxt] at hx; exact hi.lockOwner x hx
      · intro x hx
        by_cases hxt : x = t
        · subst hxt; simp only [setPc_same]; exact hnew
        · simp only [setPc_other _ _ _ _ hxt]; exact hi.ownerLock x hx
      · intro x hx
        by_cases hxt : x = t
        · subst hxt
          have hl := hi.fnLive x hx
          rw [hpc] at hl
          simp only [setPc_same]
          cases i with
          | false => cases k <;> simp [fakeLive] at hl
          | true =>
            have hk := hi.instKind x k hpc; subst hk
            simp only [fakeLive]; exact hordguards rfl
        · simp only [setPc_other _ _ _ _ hxt]; exact hi.fnLive x hx
      · intro x hx
        by_cases hxt : x = t
        · subst hxt
          simp only [setPc_same] at hx ⊢
          cases i with
          | false => simp [fakeLive] at hx
          | true =>
            have hk := hi.instKind x k hpc; subst hk
            have hold : fakeLive (s.pcs x) = true := by rw [hpc]; rfl
            exact ⟨(hi.liveFn x hold).1, hnew⟩
        · simp only [setPc_other _ _ _ _ hxt] at hx ⊢; exact hi.liveFn x hx
      · intro x k' i' r h hx
        by_cases hxt : x = t
        · subst hxt; simp only [setPc_same] at hx; injection hx with h1 h2 h3 h4; subst h1 h3; exact hsfx
        · simp only [setPc_other _ _ _ _ hxt] at hx; exact hi.suffix x k' i' r h hx
      · intro x k' hx
        by_cases hxt : x = t
        · subst hxt; simp [setPc_same] at hx
        · simp only [setPc_other _ _ _ _ hxt] at hx; exact hi.instKind x k' hx
      · intro x k' r h hx
        by_cases hxt : x = t
        · subst hxt; simp only [setPc_same] at hx; injection hx with h1 h2 h3 h4; subst h1 h2
          exact hi.instKind x _ hpc
        · simp only [setPc_other _ _ _ _ hxt] at hx; exact hi.relKind x k' r h hx
  | micro t =>
    simp only [step] at hs
    cases hpc : s.pcs t with
    | idle => simp [hpc] at hs
    | holding k i => simp [hpc] at hs
    | releasing k i rest how =>
      have hsfx := hi.suffix t k i rest how hpc
      cases rest with
      | nil =>
        simp only [hpc] at hs
        injection hs with hs; subst hs
        have hl0 : holdsLock (s.pcs t) = false := by rw [hpc]; rfl
        have hf0 : fakeLive (s.pcs t) = false := by rw [hpc]; cases k <;> cases i <;> rfl
        constructor
        · intro x hx
          by_cases hxt : x = t
          · subst hxt; simp [setPc_same, holdsLock] at hx
          · simp only [setPc_other _ _ _ _ hxt] at hx; exact hi.lockOwner x hx
        · intro x hx
          by_cases hxt : x = t
          · subst hxt; have := hi.ownerLock x hx; rw [hl0] at this; cases this
          · simp only [setPc_other _ _ _ _ hxt]; exact hi.ownerLock x hx
        · intro x hx
          by_cases hxt : x = t
          · subst hxt; have := hi.fnLive x hx; rw [hf0] at this; cases this
          · simp only [setPc_other _ _ _ _ hxt]; exact hi.fnLive x hx
        · intro x hx
          by_cases hxt : x = t
          · subst hxt; simp [setPc_same, fakeLive] at hx
          · simp only [setPc_other _ _ _ _ hxt] at hx ⊢; exact hi.liveFn x hx
        · intro x k' i' r h hx
          by_cases hxt : x = t
          · subst hxt; simp [setPc_same] at hx
          · simp only [setPc_other _ _ _ _ hxt] at hx; exact hi.suffix x k' i' r h hx
        · intro x k' hx
          by_cases hxt : x = t
          · subst hxt; simp [setPc_same] at hx
          · simp only [setPc_other _ _ _ _ hxt] at hx; exact hi.instKind x k' hx
        · intro x k' r h hx
          by_cases hxt : x = t
          · subst hxt; simp [setPc_same] at hx
          · simp only [setPc_other _ _ _ _ hxt] at hx; exact hi.relKind x k' r h hx
      | cons f r =>
        have hsfx' := SuffixOK_tail f r hsfx
        cases f with
        | guards =>
          simp only [hpc] at hs
          injection hs with hs; subst hs
          have hlsame : holdsLock (Pc.releasing k false r how) = holdsLock (s.pcs t) := by
            rw [hpc]; simp [holdsLock, List.contains_cons]
          constructor
          · intro x hx
            by_cases hxt : x = t
            · subst hxt; simp only [setPc_same] at hx; rw [hlsame] at hx; exact hi.lockOwner x hx
            · simp only [setPc_other _ _ _ _ hxt] at hx; exact hi.lockOwner x hx
          · intro x hx
            by_cases hxt : x = t
            · subst hxt; simp only [setPc_same]; rw [hlsame]; exact hi.ownerLock x hx
            · simp only [setPc_other _ _ _ _ hxt]; exact hi.ownerLock x hx
          · intro x hx
            simp only at hx
            cases i with
            | true => simp at hx
            | false =>
              simp only [Bool.false_eq_true, if_false] at hx
              by_cases hxt : x = t
              · subst hxt; have := hi.fnLive x hx; rw [hpc] at this; simp [fakeLive] at this
              · simp only [setPc_other _ _ _ _ hxt]; exact hi.fnLive x hx
          · intro x hx
            by_cases hxt : x = t
            · subst hxt; simp [setPc_same, fakeLive] at hx
            · simp only [setPc_other _ _ _ _ hxt] at hx ⊢
              have hold := hi.liveFn x hx
              cases i with
              | false => simp only [Bool.false_eq_true, if_false]; exact hold
              | true =>
                -- t itself has a live fake, so nobody else can
                have ht : fakeLive (s.pcs t) = true := by rw [hpc]; simp [fakeLive, List.contains_cons]
                have h1 := (hi.liveFn t ht).1
                rw [hold.1] at h1; injection h1 with h1; exact absurd h1 hxt
          · intro x k' i' r' h hx
            by_cases hxt : x = t
            · subst hxt; simp only [setPc_same] at hx; injection hx with h1 h2 h3 h4; subst h3; exact hsfx'
            · simp only [setPc_other _ _ _ _ hxt] at hx; exact hi.suffix x k' i' r' h hx
          · intro x k' hx
            by_cases hxt : x = t
            · subst hxt; simp [setPc_same] at hx
            · simp only [setPc_other _ _ _ _ hxt] at hx; exact hi.instKind x k' hx
          · intro x k' r' h hx
            by_cases hxt : x = t
            · subst hxt; simp [setPc_same] at hx
            · simp only [setPc_other _ _ _ _ hxt] at hx; exact hi.relKind x k' r' h hx
        | lock =>
          simp only [hpc, takesLock_good p hp k, if_true] at hs
          injection hs with hs; subst hs
          obtain ⟨hng, hnl⟩ := SuffixOK_after_lock r hsfx
          have hl0 : holdsLock (s.pcs t) = true := by rw [hpc]; simp [holdsLock, List.contains_cons]
          have hown := hi.lockOwner t hl0
          have hngm : Field.guards ∉ r := not_mem_of_contains_false hng
          have hf0 : fakeLive (s.pcs t) = false := by
            rw [hpc]; cases i <;> simp [fakeLive, hngm]
          have nofn : s.fn = none := by
            cases hfn : s.fn with
            | none => rfl
            | some u =>
              have h1 := hi.fnLive u hfn
              by_cases hut : u = t
              · subst hut; rw [hf0] at h1; cases h1
              · rw [(others_idle_lock s hi t u hown hut).2] at h1; cases h1
          constructor
          · intro x hx
            by_cases hxt : x = t
            · subst hxt; simp only [setPc_same, holdsLock, hnl] at hx; cases hx
            · simp only [setPc_other _ _ _ _ hxt] at hx
              rw [(others_idle_lock s hi t x hown hxt).1] at hx; cases hx
          · intro x hx; simp at hx
          · intro x hx; simp only at hx; rw [nofn] at hx; cases hx
          · intro x hx
            by_cases hxt : x = t
            · subst hxt; simp only [setPc_same] at hx; cases i <;> simp [fakeLive, hngm] at hx
            · simp only [setPc_other _ _ _ _ hxt] at hx
              rw [(others_idle_lock s hi t x hown hxt).2] at hx; cases hx
          · intro x k' i' r' h hx
            by_cases hxt : x = t
            · subst hxt; simp only [setPc_same] at hx; injection hx with h1 h2 h3 h4; subst h3; exact hsfx'
            · simp only [setPc_other _ _ _ _ hxt] at hx; exact hi.suffix x k' i' r' h hx
          · intro x k' hx
            by_cases hxt : x = t
            · subst hxt; simp [setPc_same] at hx
            · simp only [setPc_other _ _ _ _ hxt] at hx; exact hi.instKind x k' hx
          · intro x k' r' h hx
            by_cases hxt : x = t
            · subst hxt; simp only [setPc_same] at hx; injection hx with h1 h2 h3 h4; subst h1 h2
              exact hi.relKind x _ (Field.lock :: r) how hpc
            · simp only [setPc_other _ _ _ _ hxt] at hx; exact hi.relKind x k' r' h hx
        | verifiers =>
          simp only [hpc] at hs
          injection hs with hs; subst hs
          have hlsame : holdsLock (Pc.releasing k i r how) = holdsLock (s.pcs t) := by
            rw [hpc]; simp [holdsLock, List.contains_cons]
          have hfsame : fakeLive (Pc.releasing k i r how) = fakeLive (s.pcs t) := by
            rw [hpc]; cases i <;> simp [fakeLive, List.contains_cons]
          constructor
          · intro x hx
            by_cases hxt : x = t
            · subst hxt; simp only [setPc_same] at hx; rw [hlsame] at hx; exact hi.lockOwner x hx
            · simp only [setPc_other _ _ _ _ hxt] at hx; exact hi.lockOwner x hx
          · intro x hx
            by_cases hxt : x = t
            · subst hxt; simp only [setPc_same]; rw [hlsame]; exact hi.ownerLock x hx
            · simp only [setPc_other _ _ _ _ hxt]; exact hi.ownerLock x hx
          · intro x hx
            by_cases hxt : x = t
            · subst hxt; simp only [setPc_same]; rw [hfsame]; exact hi.fnLive x hx
            · simp only [setPc_other _ _ _ _ hxt]; exact hi.fnLive x hx
          · intro x hx
            by_cases hxt : x = t
            · subst hxt; simp only [setPc_same] at hx ⊢; rw [hfsame] at hx; rw [hlsame]; exact hi.liveFn x hx
            · simp only [setPc_other _ _ _ _ hxt] at hx ⊢; exact hi.liveFn x hx
          · intro x k' i' r' h hx
            by_cases hxt : x = t
            · subst hxt; simp only [setPc_same] at hx; injection hx with h1 h2 h3 h4; subst h3; exact hsfx'
            · simp only [setPc_other _ _ _ _ hxt] at hx; exact hi.suffix x k' i' r' h hx
          · intro x k' hx
            by_cases hxt : x = t
            · subst hxt; simp [setPc_same] at hx
            · simp only [setPc_other _ _ _ _ hxt] at hx; exact hi.instKind x k' hx
          · intro x k' r' h hx
            by_cases hxt : x = t
            · subst hxt; simp only [setPc_same] at hx; injection hx with h1 h2 h3 h4; subst h1 h2
              exact hi.relKind x _ (Field.verifiers :: r) how hpc
            · simp only [setPc_other _ _ _ _ hxt] at hx; exact hi.relKind x k' r' h hx
        | other =>
          simp only [hpc] at hs
          injection hs with hs; subst hs
          have hlsame : holdsLock (Pc.releasing k i r how) = holdsLock (s.pcs t) := by
            rw [hpc]; simp [holdsLock, List.contains_cons]
          have hfsame : fakeLive (Pc.releasing k i r how) = fakeLive (s.pcs t) := by
            rw [hpc]; cases i <;> simp [fakeLive, List.contains_cons]
          constructor
          · intro x hx
            by_cases hxt : x = t
            · subst hxt; simp only [setPc_same] at hx; rw [hlsame] at hx; exact hi.lockOwner x hx
            · simp only [setPc_other _ _ _ _ hxt] at hx; exact hi.lockOwner x hx
          · intro x hx
            by_cases hxt : x = t
            · subst hxt; simp only [setPc_same]; rw [hlsame]; exact hi.ownerLock x hx
            · simp only [setPc_other _ _ _ _ hxt]; exact hi.ownerLock x hx
          · intro x hx
            by_cases hxt : x = t
            · subst hxt; simp only [setPc_same]; rw [hfsame]; exact hi.fnLive x hx
            · simp only [setPc_other _ _ _ _ hxt]; exact hi.fnLive x hx
          · intro x hx
            by_cases hxt : x = t
            · subst hxt; simp only [setPc_same] at hx ⊢; rw [hfsame] at hx; rw [hlsame]; exact hi.liveFn x hx
            · simp only [setPc_other _ _ _ _ hxt] at hx ⊢; exact hi.liveFn x hx
          · intro x k' i' r' h hx
            by_cases hxt : x = t
            · subst hxt; simp only [setPc_same] at hx; injection hx with h1 h2 h3 h4; subst h3; exact hsfx'
            · simp only [setPc_other _ _ _ _ hxt] at hx; exact hi.suffix x k' i' r' h hx
          · intro x k' hx
            by_cases hxt : x = t
            · subst hxt; simp [setPc_same] at hx
            · simp only [setPc_other _ _ _ _ hxt] at hx; exact hi.instKind x k' hx
          · intro x k' r' h hx
            by_cases hxt : x = t
            · subst hxt; simp only [setPc_same] at hx; injection hx with h1 h2 h3 h4; subst h1 h2
              exact hi.relKind x _ (Field.other :: r) how hpc
            · simp only [setPc_other _ _ _ _ hxt] at hx; exact hi.relKind x k' r' h hx
        | unknown =>
          simp only [hpc] at hs
          injection hs with hs; subst hs
          have hlsame : holdsLock (Pc.releasing k i r how) = holdsLock (s.pcs t) := by
            rw [hpc]; simp [holdsLock, List.contains_cons]
          have hfsame : fakeLive (Pc.releasing k i r how) = fakeLive (s.pcs t) := by
            rw [hpc]; cases i <;> simp [fakeLive, List.contains_cons]
          constructor
          · intro x hx
            by_cases hxt : x = t
            · subst hxt; simp only [setPc_same] at hx; rw [hlsame] at hx; exact hi.lockOwner x hx
            · simp only [setPc_other _ _ _ _ hxt] at hx; exact hi.lockOwner x hx
          · intro x hx
            by_cases hxt : x = t
            · subst hxt; simp only [setPc_same]; rw [hlsame]; exact hi.ownerLock x hx
            · simp only [setPc_other _ _ _ _ hxt]; exact hi.ownerLock x hx
          · intro x hx
            by_cases hxt : x = t
            · subst hxt; simp only [setPc_same]; rw [hfsame]; exact hi.fnLive x hx
            · simp only [setPc_other _ _ _ _ hxt]; exact hi.fnLive x hx
          · intro x hx
            by_cases hxt : x = t
            · subst hxt; simp only [setPc_same] at hx ⊢; rw [hfsame] at hx; rw [hlsame]; exact hi.liveFn x hx
            · simp only [setPc_other _ _ _ _ hxt] at hx ⊢; exact hi.liveFn x hx
          · intro x k' i' r' h hx
            by_cases hxt : x = t
            · subst hxt; simp only [setPc_same] at hx; injection hx with h1 h2 h3 h4; subst h3; exact hsfx'
            · simp only [setPc_other _ _ _ _ hxt] at hx; exact hi.suffix x k' i' r' h hx
          · intro x k' hx
            by_cases hxt : x = t
            · subst hxt; simp [setPc_same] at hx
            · simp only [setPc_other _ _ _ _ hxt] at hx; exact hi.instKind x k' hx
          · intro x k' r' h hx
            by_cases hxt : x = t
            · subst hxt; simp only [setPc_same] at hx; injection hx with h1 h2 h3 h4; subst h1 h2
              exact hi.relKind x _ (Field.unknown :: r) how hpc
            · simp only [setPc_other _ _ _ _ hxt] at hx; exact hi.relKind x k' r' h hx

theorem run_cons_some (p : Params) (s s' : LState) (a : Action) (as : List Action)
    (h : step p s a = some s') : run p s (a :: as) = run p s' as := by
  simp only [run, h]

theorem reach_inv (p : Params) (hp : GoodParams p) (s : LState) (h : Reach p s) : Inv s := by
  induction h with
  | init => exact inv_init
  | step s s' a _ hs ih => exact inv_step p hp s s' a ih hs

end Inj.Lock
