import InjModel.Model.X86
import InjModel.Lemmas.Bytes
namespace Inj.X86
open Inj Inj.Generated

/-- `genBranch` with the constants extracted from the source substituted by the values the
    ISA fragment expects (E9 / 48 B8 / FF E0, bias 5).  If the source constants change, this
    `rfl` — and with it every theorem below — stops checking. -/
def genBranchLit (mode : Mode) (ori target : Nat) : Res (List Nat) :=
  let s : Int := toI64 ori + 5
  let d : Int := toI64 target - wrapI64 s
  if mode = Mode.debug ∧ (s ≥ 9223372036854775808 ∨ d < -9223372036854775808 ∨ d ≥ 9223372036854775808) then
    Res.panic "arith-overflow"
  else
    let off := wrapI64 d
    if -2147483648 ≤ off ∧ off ≤ 2147483647 then
      Res.ok (0xE9 :: le32 (ofInt32 off))
    else
      Res.ok ([0x48, 0xB8] ++ le64 target ++ [0xFF, 0xE0])

theorem genBranch_eq_lit : genBranch = genBranchLit := rfl

theorem boolStub_eq (v : Bool) :
    boolStub v = [0x48, 0xC7, 0xC0, (if v then 1 else 0), 0x00, 0x00, 0x00, 0xC3] := by
  cases v <;> rfl

/-- both encodings have length 5 or 12 -/
theorem genBranch_len (mode : Mode) (ori target : Nat) (bs : List Nat)
    (h : genBranch mode ori target = Res.ok bs) : bs.length = 5 ∨ bs.length = 12 := by
  rw [genBranch_eq_lit] at h
  unfold genBranchLit at h
  simp only at h
  split at h
  · cases h
  · split at h
    · injection h with h; subst h; left; simp [le32]
    · injection h with h; subst h; right; simp [le64, le32]

theorem holds5 {m : Nat → Nat} {a b0 b1 b2 b3 b4 : Nat} (h : Holds m a [b0,b1,b2,b3,b4]) :
    m a = b0 ∧ m (a+1) = b1 ∧ m (a+2) = b2 ∧ m (a+3) = b3 ∧ m (a+4) = b4 := by
  have h0 := h 0 (by simp); have h1 := h 1 (by simp); have h2 := h 2 (by simp)
  have h3 := h 3 (by simp); have h4 := h 4 (by simp)
  simp at h0 h1 h2 h3 h4
  exact ⟨h0, h1, h2, h3, h4⟩

theorem holds12 {m : Nat → Nat} {a b0 b1 b2 b3 b4 b5 b6 b7 b8 b9 b10 b11 : Nat}
    (h : Holds m a [b0,b1,b2,b3,b4,b5,b6,b7,b8,b9,b10,b11]) :
    m a = b0 ∧ m (a+1) = b1 ∧ m (a+2) = b2 ∧ m (a+3) = b3 ∧ m (a+4) = b4 ∧ m (a+5) = b5 ∧
    m (a+6) = b6 ∧ m (a+7) = b7 ∧ m (a+8) = b8 ∧ m (a+9) = b9 ∧ m (a+10) = b10 ∧ m (a+11) = b11 := by
  have h0 := h 0 (by simp); have h1 := h 1 (by simp); have h2 := h 2 (by simp)
  have h3 := h 3 (by simp); have h4 := h 4 (by simp); have h5 := h 5 (by simp)
  have h6 := h 6 (by simp); have h7 := h 7 (by simp); have h8 := h 8 (by simp)
  have h9 := h 9 (by simp); have h10 := h 10 (by simp); have h11 := h 11 (by simp)
  simp at h0 h1 h2 h3 h4 h5 h6 h7 h8 h9 h10 h11
  exact ⟨h0, h1, h2, h3, h4, h5, h6, h7, h8, h9, h10, h11⟩

/-- The displacement arithmetic: with wrapping (release) semantics the rel32 form lands on target. -/
theorem rel32_lands (ori target : Nat) (ho : ori < 18446744073709551616) (ht : target < 18446744073709551616)
    (off : Int) (hoff : off = wrapI64 (toI64 target - wrapI64 (toI64 ori + 5))) :
    wrap64 ((ori : Int) + 5 + off) = target := by
  subst hoff
  unfold wrap64 wrapI64 toI64
  simp only
  split <;> split <;> split <;> split <;> omega

end Inj.X86

namespace Inj.X86
open Inj Inj.Generated

/-- Any state whose memory holds a generated branch at `ori` and whose rip is `ori`
    reaches exactly `target` in at most two steps; only rip and (long form) rax change. -/
theorem genBranch_run (mode : Mode) (ori target : Nat) (bs : List Nat)
    (ho : ori < 18446744073709551616) (ht : target < 18446744073709551616)
    (h : genBranch mode ori target = Res.ok bs)
    (m : Nat → Nat) (hm : Holds m ori bs) (c : Cpu) (hc : c.rip = ori) :
    (run m 1 c = some { c with rip := target }) ∨
    (run m 2 c = some { c with rip := target, gpr := setReg c.gpr 0 target }) := by
  rw [genBranch_eq_lit] at h
  unfold genBranchLit at h
  simp only at h
  split at h
  · cases h
  · split at h
    next hfit =>
      injection h with h; subst h
      left
      have hb := holds5 (by simpa [le32] using hm)
      obtain ⟨h0, h1, h2, h3, h4⟩ := hb
      have hdec : decode m c.rip = some (Instr.jmpRel32 (ofInt32 (wrapI64 (toI64 target - wrapI64 (toI64 ori + 5))))) := by
        unfold decode rd32
        rw [hc]
        simp only [h0, if_true]
        rw [show ori + 1 + 1 = ori + 2 from rfl, show ori + 1 + 2 = ori + 3 from rfl,
            show ori + 1 + 3 = ori + 4 from rfl, h1, h2, h3, h4]
        rw [de32_le32 _ (ofInt32_lt _)]
      simp only [run, step, hdec]
      rw [sext32_ofInt32 _ hfit.1 hfit.2, hc, rel32_lands ori target ho ht _ rfl]
    next hfit =>
      injection h with h; subst h
      right
      have hb := holds12 (by simpa [le64, le32] using hm)
      obtain ⟨h0, h1, h2, h3, h4, h5, h6, h7, h8, h9, h10, h11⟩ := hb
      have hdec : decode m c.rip = some (Instr.movRaxImm64 target) := by
        unfold decode rd64
        rw [hc]
        simp only [show ori + 2 + 1 = ori + 3 from rfl, show ori + 2 + 2 = ori + 4 from rfl,
            show ori + 2 + 3 = ori + 5 from rfl, show ori + 2 + 4 = ori + 6 from rfl,
            show ori + 2 + 5 = ori + 7 from rfl, show ori + 2 + 6 = ori + 8 from rfl,
            show ori + 2 + 7 = ori + 9 from rfl, h0, h1, h2, h3, h4, h5, h6, h7, h8, h9]
        simp only [show ¬ ((72:Nat) = 233) by decide, if_false, true_and, if_true]
        congr 2
        unfold de64 de32; omega
      have hdec2 : decode m (c.rip + 10) = some Instr.jmpRax := by
        unfold decode
        rw [hc]
        simp only [h10, show ori + 10 + 1 = ori + 11 from rfl, h11]
        simp
      simp only [run, step, hdec, hdec2]
      simp [setReg]

end Inj.X86
