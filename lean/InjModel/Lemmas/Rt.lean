/-
  Lemmas/Rt.lean — facts about the vocabulary of translated functions (Model/Rt.lean) that the
  bridge theorems of InjModel/Tie use: how the width-indexed operations specialise to the
  literal-modulus forms of Model/Bytes.lean.
-/
import InjModel.Model.Rt
import InjModel.Lemmas.Bytes
namespace Inj.Rt
open Inj

theorem leBytes4 (x : Nat) : leBytes 4 x = le32 x := by
  simp only [leBytes, le32, Nat.div_div_eq_div_mul]

theorem leBytes8 (x : Nat) (h : x < 18446744073709551616) : leBytes 8 x = le64 x := by
  simp only [leBytes, le64, le32, Nat.div_div_eq_div_mul, List.cons_append, List.nil_append]
  simp only [Nat.reduceMul]
  have e0 : x % 4294967296 % 256 = x % 256 := by omega
  have e1 : x % 4294967296 / 256 % 256 = x / 256 % 256 := by omega
  have e2 : x % 4294967296 / 65536 % 256 = x / 65536 % 256 := by omega
  have e3 : x % 4294967296 / 16777216 % 256 = x / 16777216 % 256 := by omega
  have f0 : x / 4294967296 % 4294967296 % 256 = x / 4294967296 % 256 := by omega
  have f1 : x / 4294967296 % 4294967296 / 256 % 256 = x / 1099511627776 % 256 := by omega
  have f2 : x / 4294967296 % 4294967296 / 65536 % 256 = x / 281474976710656 % 256 := by omega
  have f3 : x / 4294967296 % 4294967296 / 16777216 % 256 = x / 72057594037927936 % 256 := by omega
  rw [e0, e1, e2, e3, f0, f1, f2, f3]

theorem wrapS64 (i : Int) : wrapS 64 i = wrapI64 i := by
  unfold wrapS wrapI64; simp

theorem castUS64 (n : Nat) (h : n < 18446744073709551616) : castUS 64 n = toI64 n := by
  unfold castUS wrapS toI64; simp; omega

theorem toI64_bounds (n : Nat) (h : n < 18446744073709551616) :
    -9223372036854775808 ≤ toI64 n ∧ toI64 n < 9223372036854775808 := by
  unfold toI64; split <;> omega

theorem castSU32_SS32 (x : Int) : castSU 32 (castSS 32 x) = ofInt32 x := by
  unfold castSU castSS wrapS ofInt32; simp only; split <;> congr 1 <;> omega

theorem chkS64 (mode : Mode) (r : Int) :
    chkS 64 mode r = if -9223372036854775808 ≤ r ∧ r < 9223372036854775808 then Res.ok r
      else if mode = Mode.debug then Res.panic "arith-overflow" else Res.ok (wrapI64 r) := by
  unfold chkS inS; simp only [wrapS64]
  by_cases h : -9223372036854775808 ≤ r ∧ r < 9223372036854775808
  · rw [if_pos h, if_pos]; simp only [decide_eq_true_eq]; omega
  · rw [if_neg h, if_neg]; simp only [decide_eq_true_eq]; omega

theorem wrapI64_id (x : Int) (h1 : -9223372036854775808 ≤ x) (h2 : x < 9223372036854775808) : wrapI64 x = x := by
  unfold wrapI64; simp only; split <;> omega

/-- unsigned checked operations when the mathematical result is in range -/
theorem chkU_ok (bits : Nat) (mode : Mode) (r : Int) (h0 : 0 ≤ r) (h1 : r < (2 ^ bits : Int)) :
    chkU bits mode r = Res.ok r.toNat := by
  unfold chkU; rw [if_pos ⟨h0, h1⟩]

/-! ### running effectful translated code -/

theorem run_bind {α β : Type} (m : M α) (f : α → M β) (os : Os) :
    run (m >>= f) os = match run m os with
      | (Res.ok v, os') => run (f v) os'
      | (Res.panic w, os') => (Res.panic w, os') := rfl
theorem run_pure {α : Type} (v : α) (os : Os) : run (pure v : M α) os = (Res.ok v, os) := rfl
theorem run_lift {α : Type} (r : Res α) (os : Os) : run (MonadLiftT.monadLift r : M α) os = (r, os) := rfl
theorem run_extU (name : String) (args : List Val) (os : Os) :
    run (extU name args) os = (Res.ok (), { os with log := os.log ++ [(name, args)] }) := rfl
theorem run_panicNow {α : Type} (msg : String) (os : Os) : run (panicNow msg : M α) os = (Res.panic msg, os) := rfl
theorem run_extI_cons (name : String) (args : List Val) (i : Int) (rest : List Val) (log : List (String × List Val)) :
    run (extI name args) { answers := Val.n i :: rest, log := log } =
      (Res.ok i, { answers := rest, log := log ++ [(name, args)] }) := rfl
theorem run_extN_cons (name : String) (args : List Val) (i : Int) (rest : List Val) (log : List (String × List Val)) :
    run (extN name args) { answers := Val.n i :: rest, log := log } =
      (Res.ok i.toNat, { answers := rest, log := log ++ [(name, args)] }) := rfl
theorem run_extB_cons (name : String) (args : List Val) (l : List Nat) (rest : List Val) (log : List (String × List Val)) :
    run (extB name args) { answers := Val.bs l :: rest, log := log } =
      (Res.ok l, { answers := rest, log := log ++ [(name, args)] }) := rfl

theorem run_extO_cons (name : String) (args : List Val) (i : Int) (rest : List Val) (log : List (String × List Val)) :
    run (extO name args) { answers := Val.n i :: rest, log := log } =
      (Res.ok (if i = 0 then none else some ()), { answers := rest, log := log ++ [(name, args)] }) := rfl

/-- sequencing lemmas in conditional form (rewriting under the `match` of `run_bind` makes the
    kernel's type check of the motive blow up; these do not) -/
theorem run_bind_ok {α β : Type} (m : M α) (f : α → M β) (os os' : Os) (v : α) (h : run m os = (Res.ok v, os')) :
    run (m >>= f) os = run (f v) os' := by
  rw [run_bind, h]
theorem run_bind_panic {α β : Type} (m : M α) (f : α → M β) (os os' : Os) (w : String) (h : run m os = (Res.panic w, os')) :
    run (m >>= f) os = (Res.panic w, os') := by
  rw [run_bind, h]
theorem run_bind_lift_ok {α β : Type} (r : Res α) (f : α → M β) (os : Os) (v : α) (h : r = Res.ok v) :
    run ((MonadLiftT.monadLift r : M α) >>= f) os = run (f v) os := by
  rw [run_bind, run_lift, h]
theorem run_bind_lift_panic {α β : Type} (r : Res α) (f : α → M β) (os : Os) (w : String) (h : r = Res.panic w) :
    run ((MonadLiftT.monadLift r : M α) >>= f) os = (Res.panic w, os) := by
  rw [run_bind, run_lift, h]

theorem uadd64_ok (mode : Mode) (a b : Nat) (h : a + b < 18446744073709551616) : uadd 64 mode a b = Res.ok (a + b) := by
  unfold uadd chkU
  have e : (((2:Nat)^64 : Nat) : Int) = 18446744073709551616 := by decide
  rw [e, if_pos (by omega)]
  congr 1
theorem usub64_ok (mode : Mode) (a b : Nat) (h : b ≤ a) (ha : a < 18446744073709551616) : usub 64 mode a b = Res.ok (a - b) := by
  unfold usub chkU
  have e : (((2:Nat)^64 : Nat) : Int) = 18446744073709551616 := by decide
  rw [e, if_pos (by omega)]
  congr 1; omega

/-- `x & !(4096 - 1)` on 64-bit values is rounding down to a page -/
theorem and_pagemask (a : Nat) (h : a < 18446744073709551616) :
    a &&& (18446744073709551615 - 4095) = a / 4096 * 4096 := by
  apply Nat.eq_of_testBit_eq
  intro i
  have hm : (18446744073709551615 - 4095 : Nat) = (2 ^ 52 - 1) * 2 ^ 12 := by decide
  rw [Nat.testBit_and, hm, Nat.testBit_mul_two_pow, Nat.testBit_two_pow_sub_one]
  have h4 : (4096 : Nat) = 2 ^ 12 := by decide
  rw [h4, Nat.testBit_mul_two_pow, Nat.testBit_div_two_pow]
  by_cases c : 12 ≤ i
  · simp only [c, decide_true, Bool.true_and]
    have : i - 12 + 12 = i := by omega
    rw [this]
    by_cases d : i - 12 < 52
    · simp [d]
    · have : a < 2 ^ i := by
        have : 2 ^ 64 ≤ 2 ^ i := Nat.pow_le_pow_right (by decide) (by omega)
        omega
      simp [Nat.testBit_lt_two_pow this]
  · simp [c]


end Inj.Rt
