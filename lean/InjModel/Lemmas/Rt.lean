/-
  Lemmas/Rt.lean — facts about the vocabulary of translated functions (Model/Rt.lean) that the
  bridge theorems of InjModel/Tie use: how the width-indexed operations specialise to the
  literal-modulus forms of Model/Bytes.lean.
-/
import InjModel.Model.Rt
import InjModel.Lemmas.Bytes
namespace Inj.Rt
open Inj

theorem leBytes4 (x : Nat) : leBytes 4 x = le32 x := by
  simp only [leBytes, le32, Nat.div_div_eq_div_mul]

theorem leBytes8 (x : Nat) (h : x < 18446744073709551616) : leBytes 8 x = le64 x := by
  simp only [leBytes, le64, le32, Nat.div_div_eq_div_mul, List.cons_append, List.nil_append]
  simp only [Nat.reduceMul]
  have e0 : x % 4294967296 % 256 = x % 256 := by omega
  have e1 : x % 4294967296 / 256 % 256 = x / 256 % 256 := by omega
  have e2 : x % 4294967296 / 65536 % 256 = x / 65536 % 256 := by omega
  have e3 : x % 4294967296 / 16777216 % 256 = x / 16777216 % 256 := by omega
  have f0 : x / 4294967296 % 4294967296 % 256 = x / 4294967296 % 256 := by omega
  have f1 : x / 4294967296 % 4294967296 / 256 % 256 = x / 1099511627776 % 256 := by omega
  have f2 : x / 4294967296 % 4294967296 / 65536 % 256 = x / 281474976710656 % 256 := by omega
  have f3 : x / 4294967296 % 4294967296 / 16777216 % 256 = x / 72057594037927936 % 256 := by omega
  rw [e0, e1, e2, e3, f0, f1, f2, f3]

theorem wrapS64 (i : Int) : wrapS 64 i = wrapI64 i := by
  unfold wrapS wrapI64; simp

theorem castUS64 (n : Nat) (h : n < 18446744073709551616) : castUS 64 n = toI64 n := by
  unfold castUS wrapS toI64; simp; omega

theorem toI64_bounds (n : Nat) (h : n < 18446744073709551616) :
    -9223372036854775808 ≤ toI64 n ∧ toI64 n < 9223372036854775808 := by
  unfold toI64; split <;> omega

theorem castSU32_SS32 (x : Int) : castSU 32 (castSS 32 x) = ofInt32 x := by
  unfold castSU castSS wrapS ofInt32; simp only; split <;> congr 1 <;> omega

theorem chkS64 (mode : Mode) (r : Int) :
    chkS 64 mode r = if -9223372036854775808 ≤ r ∧ r < 9223372036854775808 then Res.ok r
      else if mode = Mode.debug then Res.panic "arith-overflow" else Res.ok (wrapI64 r) := by
  unfold chkS inS; simp only [wrapS64]
  by_cases h : -9223372036854775808 ≤ r ∧ r < 9223372036854775808
  · rw [if_pos h, if_pos]; simp only [decide_eq_true_eq]; omega
  · rw [if_neg h, if_neg]; simp only [decide_eq_true_eq]; omega

theorem wrapI64_id (x : Int) (h1 : -9223372036854775808 ≤ x) (h2 : x < 9223372036854775808) : wrapI64 x = x := by
  unfold wrapI64; simp only; split <;> omega

/-- unsigned checked operations when the mathematical result is in range -/
theorem chkU_ok (bits : Nat) (mode : Mode) (r : Int) (h0 : 0 ≤ r) (h1 : r < (2 ^ bits : Int)) :
    chkU bits mode r = Res.ok r.toNat := by
  unfold chkU; rw [if_pos ⟨h0, h1⟩]

end Inj.Rt
