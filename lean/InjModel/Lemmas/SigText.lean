/-
  Lemmas/SigText.lean — the char-level scan of `Sig.returnsBoolText` on the spelled text of a token
  list is the token-level scan of `Sig.boolGateTopLevel` (helper lemmas for Props/C10.C10_gate_text).
-/
import InjModel.Model.SigText
import InjModel.Lemmas.Sig
namespace Inj.Sig
open Inj.Rt

def plain (l : List Char) : Prop := ∀ c ∈ l, c ≠ '(' ∧ c ≠ ')'

theorem afterCloseC_plain (d : Nat) (l y : List Char) (h : plain l) : afterCloseC d (l ++ y) = afterCloseC d y := by
  induction l with
  | nil => rfl
  | cons c cs ih =>
    have hc := h c (by simp)
    have : afterCloseC d (c :: (cs ++ y)) = afterCloseC d (cs ++ y) := by
      simp [afterCloseC, hc.1, hc.2]
    rw [List.cons_append, this]
    exact ih (fun c hc => h c (by simp [hc]))

theorem afterParamsC_plain (l y : List Char) (h : plain l) : afterParamsC (l ++ y) = afterParamsC y := by
  induction l with
  | nil => rfl
  | cons c cs ih =>
    have hc := h c (by simp)
    have : afterParamsC (c :: (cs ++ y)) = afterParamsC (cs ++ y) := by
      simp [afterParamsC, hc.1]
    rw [List.cons_append, this]
    exact ih (fun c hc => h c (by simp [hc]))

theorem tokText_plain (nm : Names) (ok : NamesOK nm) (t : Tok) (next : List Tok)
    (h1 : t ≠ Tok.lp) (h2 : t ≠ Tok.rp) : plain (tokText nm t next) := by
  intro c hc
  cases t with
  | id n => have := ok.id_plain n c hc; exact ⟨this.1, this.2.1⟩
  | num n => exact ok.num_plain n c hc
  | lp => exact absurd rfl h1
  | rp => exact absurd rfl h2
  | comma =>
    simp only [tokText] at hc
    split at hc <;> simp at hc <;> (rcases hc with rfl | rfl) <;> decide
  | extern_ a =>
    simp only [tokText, List.mem_append] at hc
    rcases hc with (hc | hc) | hc
    · simp at hc; rcases hc with rfl | rfl | rfl | rfl | rfl | rfl | rfl | rfl <;> decide
    · exact ok.abi_plain a c hc
    · simp at hc; rcases hc with rfl | rfl <;> decide
  | _ =>
    simp only [tokText] at hc
    simp at hc
    (try rcases hc with rfl | rfl | rfl | rfl | rfl | rfl | rfl) <;> (try subst hc) <;> decide

theorem afterCloseC_spell (nm : Names) (ok : NamesOK nm) :
    ∀ (toks : List Tok) (d : Nat), afterCloseC d (spellC nm toks) = (afterClose d toks).map (spellC nm) := by
  intro toks
  induction toks with
  | nil => intro d; simp [spellC, afterCloseC, afterClose]
  | cons t rest ih =>
    intro d
    by_cases h1 : t = Tok.lp
    · subst h1
      simp [spellC, tokText, afterCloseC, afterClose, ih]
    · by_cases h2 : t = Tok.rp
      · subst h2
        simp only [spellC, tokText, List.singleton_append, afterCloseC, afterClose]
        have : ((')' : Char) = '(') = False := by decide
        simp only [this, if_false, if_true]
        by_cases hd1 : d = 1
        · simp [hd1]
        · by_cases hd0 : d = 0
          · simp [hd0]
          · simp [hd1, hd0, ih]
      · simp only [spellC]
        rw [afterCloseC_plain d _ _ (tokText_plain nm ok t rest h1 h2), ih]
        cases t <;> first | rfl | exact absurd rfl h1 | exact absurd rfl h2

theorem afterParamsC_spell (nm : Names) (ok : NamesOK nm) :
    ∀ (toks : List Tok), afterParamsC (spellC nm toks) = (afterParams toks).map (spellC nm) := by
  intro toks
  induction toks with
  | nil => simp [spellC, afterParamsC, afterParams]
  | cons t rest ih =>
    by_cases h1 : t = Tok.lp
    · subst h1
      simp [spellC, tokText, afterParamsC, afterParams, afterCloseC_spell nm ok]
    · simp only [spellC]
      by_cases h2 : t = Tok.rp
      · subst h2
        have : ((')' : Char) = '(') = False := by decide
        simp [tokText, afterParamsC, afterParams, this, ih]
      · rw [afterParamsC_plain _ _ (tokText_plain nm ok t rest h1 h2), ih]
        cases t <;> first | rfl | exact absurd rfl h1 | exact absurd rfl h2

/-- the text-level gate on a spelled token list, in terms of the token-level scan -/
theorem returnsBoolText_spell (nm : Names) (ok : NamesOK nm) (toks : List Tok) :
    returnsBoolText (spellC nm toks) =
      (match afterParams toks with
       | some rest => strTrim (spellC nm rest) == arrowBool
       | none => false) := by
  unfold returnsBoolText
  rw [afterParamsC_spell nm ok]
  cases afterParams toks <;> rfl

/-! ## the trimmed return part -/

def allWs (w : List Char) : Prop := ∀ c ∈ w, isWs c = true

theorem dropWhile_allWs (a b : List Char) (ha : allWs a) (hb : ∀ c, b.head? = some c → isWs c = false) :
    (a ++ b).dropWhile isWs = b := by
  induction a with
  | nil =>
    cases b with
    | nil => rfl
    | cons c cs => simp [hb c rfl]
  | cons c cs ih =>
    have hc := ha c (by simp)
    simp only [List.cons_append, List.dropWhile, hc]
    exact ih (fun c hc => ha c (by simp [hc]))

theorem dropWhile_split (l : List Char) : ∃ a, l = a ++ l.dropWhile isWs ∧ allWs a := by
  induction l with
  | nil => exact ⟨[], rfl, by intro c hc; cases hc⟩
  | cons c cs ih =>
    by_cases hc : isWs c = true
    · obtain ⟨a, e, ha⟩ := ih
      refine ⟨c :: a, ?_, ?_⟩
      · simp only [List.dropWhile, hc, List.cons_append]; rw [← e]
      · intro x hx; simp at hx; rcases hx with rfl | hx
        · exact hc
        · exact ha x hx
    · refine ⟨[], ?_, by intro c hc; cases hc⟩
      simp [List.dropWhile, hc]

/-- `trim_end` gives `z` (which ends in a non-blank) exactly on `z` followed by blanks -/
theorem strTrimEnd_eq_iff (y z : List Char) (hz : ∀ c, z.reverse.head? = some c → isWs c = false) :
    strTrimEnd y = z ↔ ∃ w, y = z ++ w ∧ allWs w := by
  unfold strTrimEnd
  constructor
  · intro h
    obtain ⟨a, e, ha⟩ := dropWhile_split y.reverse
    have h' : y.reverse.dropWhile isWs = z.reverse := by rw [← h]; simp
    refine ⟨a.reverse, ?_, ?_⟩
    · have : y = (a ++ z.reverse).reverse := by rw [← h', ← e]; simp
      rw [this]; simp
    · intro c hc; exact ha c (by simpa using hc)
  · rintro ⟨w, e, hw⟩
    subst e
    have : (z ++ w).reverse = w.reverse ++ z.reverse := by simp
    rw [this, dropWhile_allWs _ _ (fun c hc => hw c (by simpa using hc)) hz]
    simp

def special (c : Char) : Prop := c = '&' ∨ c = '*' ∨ c = '(' ∨ c = '[' ∨ c = '<'

theorem special_not (c : Char) (h : special c) : c ∉ ['b', 'o', 'o', 'l'] ∧ isWs c = false := by
  rcases h with rfl | rfl | rfl | rfl | rfl <;> decide

theorem mem_spellC (nm : Names) (t : Tok) (c : Char) (h : ∀ next, tokText nm t next = [c]) :
    ∀ toks : List Tok, t ∈ toks → c ∈ spellC nm toks := by
  intro toks
  induction toks with
  | nil => intro h; cases h
  | cons u rest ih =>
    intro hm
    simp only [spellC, List.mem_append]
    rcases List.mem_cons.mp hm with rfl | hm
    · left; rw [h]; simp
    · right; exact ih hm

theorem special_mem_render (nm : Names) (r : Ty) (hr : ∀ n, r ≠ Ty.prim n) :
    ∃ c, special c ∧ c ∈ spellC nm (render r) := by
  cases r with
  | prim n => exact absurd rfl (hr n)
  | ref m t => exact ⟨'&', by simp [special], mem_spellC nm Tok.amp '&' (fun _ => rfl) _ (by simp [render])⟩
  | ptr m t => exact ⟨'*', by simp [special], mem_spellC nm Tok.star '*' (fun _ => rfl) _ (by simp [render])⟩
  | tuple ts => exact ⟨'(', by simp [special], mem_spellC nm Tok.lp '(' (fun _ => rfl) _ (by simp [render])⟩
  | slice t => exact ⟨'[', by simp [special], mem_spellC nm Tok.lb '[' (fun _ => rfl) _ (by simp [render])⟩
  | array t n => exact ⟨'[', by simp [special], mem_spellC nm Tok.lb '[' (fun _ => rfl) _ (by simp [render])⟩
  | app n args => exact ⟨'<', by simp [special], mem_spellC nm Tok.lt '<' (fun _ => rfl) _ (by simp [render])⟩
  | fn_ f =>
    cases f with
    | mk u abi ps r =>
      exact ⟨'(', by simp [special], mem_spellC nm Tok.lp '(' (fun _ => rfl) _ (by simp [render, renderFn])⟩
  | dynfn ps r => exact ⟨'(', by simp [special], mem_spellC nm Tok.lp '(' (fun _ => rfl) _ (by simp [render])⟩

/-- the spelled rendering of a type is `bool` followed by blanks only for the type `bool` -/
theorem spell_render_bool (nm : Names) (ok : NamesOK nm) (r : Ty) :
    (∃ w, spellC nm (render r) = ['b', 'o', 'o', 'l'] ++ w ∧ allWs w) ↔ r = Ty.prim boolId := by
  constructor
  · rintro ⟨w, e, hw⟩
    by_cases hp : ∃ n, r = Ty.prim n
    · obtain ⟨n, rfl⟩ := hp
      simp only [render, spellC, tokText, List.append_nil] at e
      have hwn : w = [] := by
        cases w with
        | nil => rfl
        | cons c cs =>
          have h1 := hw c (by simp)
          have h2 := (ok.id_plain n c (by rw [e]; simp)).2.2
          rw [h1] at h2; cases h2
      subst hwn
      have := (ok.id_bool n).mp (by simpa using e)
      rw [this]
    · obtain ⟨c, hs, hc⟩ := special_mem_render nm r (fun n h => hp ⟨n, h⟩)
      rw [e] at hc
      have hn := special_not c hs
      rcases List.mem_append.mp hc with h | h
      · exact absurd h hn.1
      · have := hw c h; rw [hn.2] at this; cases this
  · rintro rfl
    exact ⟨[], by simp [render, spellC, tokText, (ok.id_bool boolId).mpr rfl], by intro c hc; cases hc⟩

/-- trimmed text of the return part is `-> bool` exactly when the return part is the tokens `-> bool` -/
theorem trim_renderRet (nm : Names) (ok : NamesOK nm) (r : Ty) :
    (strTrim (spellC nm (renderRet r)) == arrowBool) = (renderRet r == [Tok.arrow, Tok.id boolId]) := by
  by_cases hu : r = Ty.tuple TyList.nil
  · subst hu
    simp [renderRet, spellC, strTrim, strTrimStart, strTrimEnd, arrowBool]
  · have hret : renderRet r = Tok.arrow :: render r := by
      cases r with
      | tuple ts => cases ts with
        | nil => exact absurd rfl hu
        | cons t ts => simp [renderRet]
      | _ => simp [renderRet]
    rw [hret]
    have hsp : spellC nm (Tok.arrow :: render r) = ' ' :: '-' :: '>' :: ' ' :: spellC nm (render r) := by
      simp [spellC, tokText]
    have hts : strTrimStart (' ' :: '-' :: '>' :: ' ' :: spellC nm (render r)) = '-' :: '>' :: ' ' :: spellC nm (render r) := by
      have h1 : isWs ' ' = true := by decide
      have h2 : isWs '-' = false := by decide
      simp [strTrimStart, List.dropWhile, h1, h2]
    rw [hsp]
    unfold strTrim
    rw [hts]
    rw [Bool.eq_iff_iff, beq_iff_eq, beq_iff_eq]
    have hz : ∀ c, arrowBool.reverse.head? = some c → isWs c = false := by
      intro c hc; simp [arrowBool] at hc; subst hc; decide
    rw [strTrimEnd_eq_iff _ _ hz]
    constructor
    · rintro ⟨w, e, hw⟩
      have : spellC nm (render r) = ['b', 'o', 'o', 'l'] ++ w := by
        simp [arrowBool] at e; simp [e]
      have hr := (spell_render_bool nm ok r).mp ⟨w, this, hw⟩
      rw [hr]; simp [render]
    · intro h
      have hr : render r = [Tok.id boolId] := by simpa using h
      have hr' := (render_eq_bool r).mp hr
      obtain ⟨w, e, hw⟩ := (spell_render_bool nm ok r).mpr hr'
      exact ⟨w, by rw [e]; simp [arrowBool], hw⟩

/-- token level: the top-level-return-type scan accepts the rendering of `f` iff `f` returns `bool` -/
theorem topLevel_renderFn (f : FnTy) : boolGateTopLevel (renderFn f) = true ↔ f.ret = Ty.prim boolId := by
  unfold boolGateTopLevel
  rw [afterParams_renderFn]
  simp only [beq_iff_eq]
  cases hr : f.ret with
  | tuple ts =>
    cases ts with
    | nil => simp [renderRet]
    | cons t ts =>
      simp only [renderRet, List.cons.injEq, true_and]
      exact render_eq_bool _
  | prim n => simp only [renderRet, List.cons.injEq, true_and]; exact render_eq_bool _
  | ref m t => simp only [renderRet, List.cons.injEq, true_and]; exact render_eq_bool _
  | ptr m t => simp only [renderRet, List.cons.injEq, true_and]; exact render_eq_bool _
  | slice t => simp only [renderRet, List.cons.injEq, true_and]; exact render_eq_bool _
  | array t n => simp only [renderRet, List.cons.injEq, true_and]; exact render_eq_bool _
  | app n args => simp only [renderRet, List.cons.injEq, true_and]; exact render_eq_bool _
  | fn_ g => simp only [renderRet, List.cons.injEq, true_and]; exact render_eq_bool _
  | dynfn ps r => simp only [renderRet, List.cons.injEq, true_and]; exact render_eq_bool _

/-- char level = token level on every spelled rendering -/
theorem returnsBoolText_eq_topLevel (nm : Names) (ok : NamesOK nm) (f : FnTy) :
    returnsBoolText (spellC nm (renderFn f)) = boolGateTopLevel (renderFn f) := by
  rw [returnsBoolText_spell nm ok]
  unfold boolGateTopLevel
  rw [afterParams_renderFn]
  exact trim_renderRet nm ok f.ret

theorem returnsBoolText_renderFn (nm : Names) (ok : NamesOK nm) (f : FnTy) :
    returnsBoolText (spellC nm (renderFn f)) = true ↔ f.ret = Ty.prim boolId := by
  rw [returnsBoolText_eq_topLevel nm ok]; exact topLevel_renderFn f

end Inj.Sig
