import InjModel.Model.Alloc
namespace Inj.Alloc
open Inj

/-- mappings obtained during the search and not given back -/
def leaked : List AEvent → List Nat → List Nat
  | [], acc => acc
  | AEvent.mmap _ _ (some a) :: es, acc => leaked es (acc ++ [a])
  | AEvent.mmap _ _ none :: es, acc => leaked es acc
  | AEvent.munmap a _ :: es, acc => leaked es (acc.erase a)

theorem loop_sound (src range page size : Nat) (answers : List (Option Nat)) :
    ∀ start acc, (∀ a ∈ answers, ∀ x, a = some x → x ∉ acc) →
      (∀ a, (loop src range page size answers start).1 = AResult.ok a →
        absDiff a src < range ∧ leaked (loop src range page size answers start).2 acc = acc ++ [a]) ∧
      ((loop src range page size answers start).1 = AResult.panic →
        leaked (loop src range page size answers start).2 acc = acc) := by
  induction answers with
  | nil =>
    intro start acc _
    simp only [loop]
    split <;> simp [leaked]
  | cons ans rest ih =>
    intro start acc hfresh
    cases ans with
    | none =>
      simp only [loop]
      split
      · have := ih (start + page) acc (fun a ha x hx => hfresh a (by simp [ha]) x hx)
        simp only [leaked]
        exact this
      · simp [leaked]
    | some a =>
      simp only [loop]
      split
      · split
        · constructor
          · intro a' h; simp only at h; injection h with h; subst h
            exact ⟨by assumption, by simp [leaked]⟩
          · intro h; simp at h
        · have hna : a ∉ acc := hfresh (some a) (by simp) a rfl
          have hera : (acc ++ [a]).erase a = acc := by
            clear ih hfresh
            induction acc with
            | nil => simp
            | cons b bs ihb =>
              have hb : b ≠ a := fun e => hna (by simp [e])
              have hbs : a ∉ bs := fun e => hna (by simp [e])
              have hbeq : (b == a) = false := by simp [hb]
              simp [List.erase_cons, hbeq, ihb hbs]
          have := ih (start + page) acc (fun a' ha' x hx => hfresh a' (by simp [ha']) x hx)
          simp only [leaked, hera]
          exact this
      · simp [leaked]

/-- the loop makes at most one probe per page of the window: once `start` has passed the upper
    bound it stops, and each iteration advances `start` by `page` -/
theorem loop_terminates (src range page size : Nat) (hp : 0 < page) (answers : List (Option Nat)) :
    ∀ start, (src + range - start) / page + 1 ≤ answers.length ∨ src + range < start →
      (loop src range page size answers start).1 ≠ AResult.stuck := by
  induction answers with
  | nil =>
    intro start h
    simp only [loop]
    rcases h with h | h
    · simp at h
    · have : ¬ (start ≤ src + range) := by omega
      simp [this]
  | cons ans rest ih =>
    intro start h
    by_cases hs : start ≤ src + range
    · have hnext : (src + range - (start + page)) / page + 1 ≤ rest.length ∨ src + range < start + page := by
        rcases h with h | h
        · simp only [List.length_cons] at h
          by_cases hlt : src + range < start + page
          · right; exact hlt
          · left
            have e : src + range - start = (src + range - (start + page)) + page := by omega
            rw [e, Nat.add_div_right _ hp] at h
            omega
        · omega
      cases ans with
      | none => simp only [loop, hs, if_true]; exact ih _ hnext
      | some a =>
        simp only [loop, hs, if_true]
        split
        · simp
        · exact ih _ hnext
    · cases ans <;> simp [loop, hs]

end Inj.Alloc
