/-
  Model/Panic.lean — a lifetime of an injector as a script with a panic at any point, and what
  letting go does when it happens during unwinding (C05).  Builds on Model/Machine (restoration),
  Model/Lock (release order as extracted from the source) and Model/Counter (verifier).
  Import-free apart from the other model files.
-/
import InjModel.Model.Machine
import InjModel.Model.Lock
import InjModel.Model.Counter
namespace Inj.Panic
open Inj Inj.Machine Inj.Generated.Layout

/-- a pending call-count expectation: (expected N, calls counted so far) -/
abbrev Verif := Nat × Nat

inductive Op where
  /-- a successful installation (raw / closure / boolean / async: no verifier) -/
  | install (r : Req)
  /-- a successful `will_execute(fake!(…, times: N))`: verifier pushed, then installed -/
  | installCounted (r : Req) (n : Nat)
  /-- an installation that is refused (signature mismatch, null pointer, no memory): panics before
      anything is written; `pushed` = a verifier had already been stored (the `will_execute` path) -/
  | refused (pushed : Option Nat)
  /-- a call that the `idx`-th pending expectation counts; panics when over budget -/
  | countedCall (idx : Nat)
  /-- a call whose arguments the fake rejects: panics, counts nothing -/
  | rejectedCall
  /-- a call of a fake without budget: no effect on the model state -/
  | plainCall
  /-- user code panics -/
  | userPanic
  deriving Repr

structure LifeState where
  ms : MState
  verifs : List Verif
  /-- a panic has been raised (unwinding has begun) -/
  panicked : Bool

def bump (vs : List Verif) (idx : Nat) : List Verif × Bool :=
  match vs[idx]? with
  | some (n, k) => (vs.set idx (n, k + 1), decide (k ≥ n))      -- fetch_add, then `prev >= N` panics
  | none => (vs, false)

/-- run the body of the scope until it ends or the first panic -/
def runBody (mode : Mode) : LifeState → List Op → LifeState
  | st, [] => st
  | st, op :: ops =>
    if st.panicked then st else
    match op with
    | Op.install r =>
      match installX86 mode st.ms r.func r.payload r.jit with
      | some ms' => runBody mode { st with ms := ms' } ops
      | none => { st with panicked := true }
    | Op.installCounted r n =>
      match installX86 mode st.ms r.func r.payload r.jit with
      | some ms' => runBody mode { st with ms := ms', verifs := st.verifs ++ [(n, 0)] } ops
      | none => { st with verifs := st.verifs ++ [(n, 0)], panicked := true }
    | Op.refused pushed =>
      { st with verifs := st.verifs ++ (match pushed with | some n => [(n, 0)] | none => []), panicked := true }
    | Op.countedCall idx =>
      let r := bump st.verifs idx
      if r.2 then { st with verifs := r.1, panicked := true } else runBody mode { st with verifs := r.1 } ops
    | Op.rejectedCall => { st with panicked := true }
    | Op.plainCall => runBody mode st ops
    | Op.userPanic => { st with panicked := true }

structure ExitState where
  ms : MState
  /-- currently unwinding -/
  panicking : Bool
  /-- panics raised by the library while letting go -/
  newPanics : Nat
  /-- a panic was raised while already unwinding: the process aborts -/
  abort : Bool
  lockHeld : Bool
  verifs : List Verif

/-- dropping the pending verifiers, first to last -/
def dropVerifs (checksPanicking : Bool) : ExitState → List Verif → ExitState
  | e, [] => e
  | e, (n, k) :: vs =>
    if e.abort then e else
    if k ≠ n then
      if e.panicking then
        if checksPanicking then dropVerifs checksPanicking e vs
        else { e with abort := true }
      else dropVerifs checksPanicking { e with panicking := true, newPanics := e.newPanics + 1 } vs
    else dropVerifs checksPanicking e vs

/-- restore every guard (in the injector's drop order) and forget them -/
def restoreAll (ord : DropOrder) (ms : MState) : MState :=
  { (dropGuards ms (match ord with
      | DropOrder.newestFirst => ms.guards.reverse
      | DropOrder.oldestFirst => ms.guards)) with guards := [] }

/-- letting go of the injector: the micro-steps in the order the source prescribes -/
def exitSteps (ord : DropOrder) (checksPanicking : Bool) : ExitState → List Field → ExitState
  | e, [] => e
  | e, f :: fs =>
    if e.abort then e else
    match f with
    | Field.guards =>
      exitSteps ord checksPanicking { e with ms := restoreAll ord e.ms } fs
    | Field.verifiers =>
      let e' := dropVerifs checksPanicking e e.verifs
      exitSteps ord checksPanicking { e' with verifs := [] } fs
    | Field.lock => exitSteps ord checksPanicking { e with lockHeld := false } fs
    | Field.other => exitSteps ord checksPanicking e fs
    | Field.unknown => exitSteps ord checksPanicking e fs

def scopeExit (ord : DropOrder) (checksPanicking : Bool) (order : List Field) (st : LifeState) : ExitState :=
  exitSteps ord checksPanicking
    { ms := st.ms, panicking := st.panicked, newPanics := 0, abort := false, lockHeld := true, verifs := st.verifs } order

/-- The statements of `Drop::drop` itself, in order.  A panic raised by one of them (a verifier
    with an unmet expectation dropped inside the body) unwinds out of `drop`: the remaining
    statements are skipped, and what they would have let go of is left to the field glue. -/
def bodySteps (ord : DropOrder) (checksPanicking : Bool) : ExitState → List Field → ExitState
  | e, [] => e
  | e, f :: fs =>
    if e.abort then e else
    match f with
    | Field.guards => bodySteps ord checksPanicking { e with ms := restoreAll ord e.ms } fs
    | Field.verifiers =>
      let e' := dropVerifs checksPanicking e e.verifs
      if e'.newPanics > e.newPanics then { e' with verifs := [] }
      else bodySteps ord checksPanicking { e' with verifs := [] } fs
    | Field.lock => bodySteps ord checksPanicking { e with lockHeld := false } fs
    | Field.other => bodySteps ord checksPanicking e fs
    | Field.unknown => bodySteps ord checksPanicking e fs

/-- Letting go of the injector in two phases, as the language prescribes: the `Drop::drop` body
    (guards restored in the order the body implements), then the fields in declaration order,
    where a `Vec<PatchGuard>` that still has elements drops them front to back (oldest first). -/
def scopeExit2 (bodyOrd : DropOrder) (checksPanicking : Bool) (body fields : List Field) (st : LifeState) : ExitState :=
  exitSteps DropOrder.oldestFirst checksPanicking
    (bodySteps bodyOrd checksPanicking
      { ms := st.ms, panicking := st.panicked, newPanics := 0, abort := false, lockHeld := true, verifs := st.verifs } body)
    fields

/-- the successful installations of a body, in order, up to the first panic -/
def reqsOf (mode : Mode) : LifeState → List Op → List Req
  | _, [] => []
  | st, op :: ops =>
    if st.panicked then [] else
    match op with
    | Op.install r =>
      match installX86 mode st.ms r.func r.payload r.jit with
      | some ms' => r :: reqsOf mode { st with ms := ms' } ops
      | none => []
    | Op.installCounted r n =>
      match installX86 mode st.ms r.func r.payload r.jit with
      | some ms' => r :: reqsOf mode { st with ms := ms', verifs := st.verifs ++ [(n, 0)] } ops
      | none => []
    | Op.refused _ => []
    | Op.countedCall idx =>
      let r := bump st.verifs idx
      if r.2 then [] else reqsOf mode { st with verifs := r.1 } ops
    | Op.rejectedCall => []
    | Op.plainCall => reqsOf mode st ops
    | Op.userPanic => []

end Inj.Panic
