/-
  Model/FakeArm.lean — meaning of one `fake!` arm, read off the IR the translator extracted
  (Generated/FakeArms.lean), and the one common meaning every arm is supposed to have.
  Import-free.
-/
import InjModel.Generated.FakeArms
namespace Inj.FakeArm
open Inj.Generated.FakeArms

/-- what a call sees: value of the `when` condition for its arguments, the call-site counter
    before the call, the budget N -/
structure Env where
  cond : Bool
  cnt : Nat
  n : Nat
  deriving Repr, DecidableEq

/-- ordered, observable effects of a call -/
inductive Eff where
  | bump        -- counter incremented
  | assign      -- the `assign` block ran
  | evalRet     -- the `returns` expression was evaluated
  deriving Repr, DecidableEq

inductive Out where
  | retVal | retUnit | panicOver | panicUnexpected | unreachable | stuck
  deriving Repr, DecidableEq

structure Res where
  trace : List Eff
  out : Out
  cnt : Nat
  deriving Repr, DecidableEq

/-- interpret the statements of the then-branch in order -/
def runStmts : List Stmt → (prev : Option Nat) → (cnt n : Nat) → (trace : List Eff) → Res
  | [], _, cnt, _, tr => { trace := tr, out := Out.retUnit, cnt := cnt }      -- block value `()`
  | Stmt.fetchAddPrev :: ss, _, cnt, n, tr => runStmts ss (some cnt) (cnt + 1) n (tr ++ [Eff.bump])
  | Stmt.ifPrevGeExpectedPanicOver :: ss, prev, cnt, n, tr =>
    match prev with
    | some p => if p ≥ n then { trace := tr, out := Out.panicOver, cnt := cnt } else runStmts ss prev cnt n tr
    | none => { trace := tr, out := Out.stuck, cnt := cnt }
  | Stmt.assign :: ss, prev, cnt, n, tr => runStmts ss prev cnt n (tr ++ [Eff.assign])
  | Stmt.retVal :: _, _, cnt, _, tr => { trace := tr ++ [Eff.evalRet], out := Out.retVal, cnt := cnt }
  | Stmt.retUnit :: _, _, cnt, _, tr => { trace := tr, out := Out.retUnit, cnt := cnt }
  | Stmt.unknown :: _, _, cnt, _, tr => { trace := tr, out := Out.stuck, cnt := cnt }

def semParts (cond : Cond) (stmts : List Stmt) (elseBr : ElseBr) (e : Env) : Res :=
  let c : Option Bool := match cond with
    | Cond.whenCond => some e.cond
    | Cond.constTrue => some true
    | Cond.unknown => none
  match c with
  | none => { trace := [], out := Out.stuck, cnt := e.cnt }
  | some true => runStmts stmts none e.cnt e.n []
  | some false =>
    match elseBr with
    | ElseBr.panicUnexpected => { trace := [], out := Out.panicUnexpected, cnt := e.cnt }
    | ElseBr.unreachable => { trace := [], out := Out.unreachable, cnt := e.cnt }
    | ElseBr.unknown => { trace := [], out := Out.stuck, cnt := e.cnt }

def sem (a : Arm) (e : Env) : Res := semParts a.cond a.thenStmts a.elseBr e

/-- the options a use of the macro can give -/
structure Opts where
  when_ : Bool
  assign : Bool
  returns : Bool
  times : Bool
  deriving Repr, DecidableEq

def optsOf (a : Arm) : Opts := { when_ := a.optWhen, assign := a.optAssign, returns := a.optReturns, times := a.optTimes }

/-- **The one common meaning**: `when` guards the call; a rejected call has no effects;
    `times` is checked (and counted) before any side effect; `assign` runs before the result
    is produced; `returns` is evaluated on every admitted call. -/
def refSem (o : Opts) (e : Env) : Res :=
  if o.when_ && !e.cond then { trace := [], out := Out.panicUnexpected, cnt := e.cnt }
  else if o.times && e.cnt ≥ e.n then { trace := [Eff.bump], out := Out.panicOver, cnt := e.cnt + 1 }
  else
    { trace := (if o.times then [Eff.bump] else []) ++ (if o.assign then [Eff.assign] else []) ++
               (if o.returns then [Eff.evalRet] else []),
      out := if o.returns then Out.retVal else Out.retUnit,
      cnt := if o.times then e.cnt + 1 else e.cnt }

/-- the statement list an arm with options `o` must have (up to the optional trailing `()`) -/
def canonStmts (o : Opts) : List Stmt :=
  (if o.times then [Stmt.fetchAddPrev, Stmt.ifPrevGeExpectedPanicOver] else []) ++
  (if o.assign then [Stmt.assign] else []) ++
  (if o.returns then [Stmt.retVal] else [])

/-- the (condition, then-branch, else-branch) skeletons allowed for options `o`: the canonical
    statement list with or without an explicit trailing `()` for unit arms; without `when` the
    condition is the literal `true` and the dead else-branch may be either macro call -/
def allowed (o : Opts) : List (Cond × List Stmt × ElseBr) :=
  let stmts := if o.returns then [canonStmts o] else [canonStmts o, canonStmts o ++ [Stmt.retUnit]]
  if o.when_ then stmts.map (fun s => (Cond.whenCond, s, ElseBr.panicUnexpected))
  else stmts.flatMap (fun s => [(Cond.constTrue, s, ElseBr.unreachable), (Cond.constTrue, s, ElseBr.panicUnexpected)])

/-- decidable well-formedness of an extracted arm -/
def shapeOK (a : Arm) : Bool :=
  a.parsed && a.optOrderOk && a.tailOk && (allowed (optsOf a)).contains (a.cond, a.thenStmts, a.elseBr)

/-- how a use site is written, as far as arm selection is concerned -/
structure Use where
  kind : FnKind
  unitRet : Bool         -- the return type is written `()`
  opts : Opts
  deriving Repr, DecidableEq

def matchesUse (a : Arm) (u : Use) : Bool :=
  a.kind == u.kind && optsOf a == u.opts &&
  (match a.matcherRet with
   | RetTy.retVar => true            -- `$ret:ty` also matches `()`
   | RetTy.unit => u.unitRet
   | RetTy.unknown => false)

def canonicalUse (a : Arm) : Use := { kind := a.kind, unitRet := a.matcherRet == RetTy.unit, opts := optsOf a }

def firstMatch (arms : List Arm) (u : Use) : Option Nat :=
  let rec go : List Arm → Nat → Option Nat
    | [], _ => none
    | a :: as, i => if matchesUse a u then some i else go as (i + 1)
  go arms 0

end Inj.FakeArm
