/-
  Model/A64.lean — (1) the AArch64 emitters of `arm64_codegenerator.rs` / `patch_arm64.rs`,
  built from the bit-source sequences and constants the translator extracted;
  (2) an independent A64 ISA fragment (decode by the field layout of the Arm ARM, step).
  Import-free (core only).
-/
import InjModel.Model.Bytes
import InjModel.Generated.Consts
namespace Inj.A64
open Inj Inj.Generated Inj.Generated.Consts

/-! ## Emitters -/

/-- `bool_array_to_u32`: bit i has weight 2^i -/
def bitsToNat : List Bool → Nat
  | [] => 0
  | b :: bs => (if b then 1 else 0) + 2 * bitsToNat bs

/-- `u8_to_bits::<N>` / `u64_to_bits` restricted to `w` bits, LSB first -/
def natToBits (n : Nat) : Nat → List Bool
  | 0 => []
  | w+1 => (n % 2 == 1) :: natToBits (n / 2) w

structure Fields where
  reg : Nat
  imm : Nat
  hw : Nat
  sf : Bool

def srcBits (f : Fields) : BitSrc → List Bool
  | BitSrc.lit b => [b]
  | BitSrc.field Fld.reg => natToBits f.reg 5
  | BitSrc.field Fld.imm => natToBits f.imm 16
  | BitSrc.field Fld.hw => natToBits f.hw 2
  | BitSrc.field Fld.sf => [f.sf]
  | BitSrc.unknown => []

def emitBits (f : Fields) : List BitSrc → List Bool
  | [] => []
  | s :: ss => srcBits f s ++ emitBits f ss

def emitWord (seq : List BitSrc) (f : Fields) : Nat := bitsToNat (emitBits f seq)

def movz (imm : Nat) (sf : Bool) (hw rd : Nat) : Nat := emitWord emitMovz { reg := rd, imm := imm, hw := hw, sf := sf }
def movk (imm : Nat) (sf : Bool) (hw rd : Nat) : Nat := emitWord emitMovk { reg := rd, imm := imm, hw := hw, sf := sf }
def br (rn : Nat) : Nat := emitWord emitBr { reg := rn, imm := 0, hw := 0, sf := false }
def ret (rn : Nat) : Nat := emitWord emitRet { reg := rn, imm := 0, hw := 0, sf := false }

/-- 16 bits of `addr` starting at bit `start` (`emit_mov?_from_address`) -/
def chunk (addr start : Nat) : Nat := addr / 2 ^ start % 65536

def trampWord (fake : Nat) : TrampIns → Nat
  | TrampIns.movz st sf hw => movz (chunk fake st) sf hw a64ScratchReg
  | TrampIns.movk st sf hw => movk (chunk fake st) sf hw a64ScratchReg
  | TrampIns.br => br a64ScratchReg
  | TrampIns.unknown => 0

/-- `generate_will_execute_jit_code_abs`: the instruction words written to the trampoline -/
def tramp (fake : Nat) : List Nat := a64TrampSeq.map (trampWord fake)

/-- `generate_will_return_boolean_jit_code` -/
def boolStub (v : Bool) : List Nat :=
  [movz (if v then 2 ^ a64BoolValueBit else 0) a64BoolSf a64BoolHw a64BoolReg, ret a64RetReg]

def wordsToBytes (ws : List Nat) : List Nat := ws.flatMap le32

/-- Linux `apply_branch_patch`: `B imm26; NOP; NOP`, or a panic when the word offset is outside
    BRANCH_RANGE.  `(jit as isize - func as isize) / 4` truncates toward zero. -/
def entryLinux (func jit : Nat) : Res (List Nat) :=
  let off : Int := Int.tdiv (toI64 jit - toI64 func) (a64BDiv : Int)
  if a64BranchLo ≤ off ∧ off ≤ a64BranchHi then
    Res.ok [a64BOpcode ||| (ofInt32 off &&& a64BMask), a64Nop, a64Nop]
  else Res.panic "JIT memory is out of branch range"

/-- macOS `maybe_emit_long_jump` followed by the NOP padding of `apply_branch_patch` -/
def entryMacos (pc target : Nat) : List Nat :=
  let disp : Int := (target : Int) - (pc : Int)
  if -134217728 ≤ disp ∧ disp < 134217728 then
    [335544320 + ofInt32 (disp / 4) % 67108864, a64Nop, a64Nop]
  else
    let pageDiff : Int := wrapI64 (toI64 (target / 4096 * 4096) - toI64 (pc / 4096 * 4096)) / 4096
    let imm21 := ofInt64 pageDiff % 2097152
    let immlo := imm21 % 4
    let immhi := imm21 / 4 % 524288
    [a64AdrpBase + immlo * 536870912 + immhi * 32 + a64LongReg,
     a64AddBase + (target % 4096) * 1024 + a64LongReg * 32 + a64LongReg,
     a64BrBase + a64LongReg * 32]

/-! ## ISA fragment (Arm ARM C6.2; independent of the emitters) -/

inductive Instr where
  | movz (rd imm hw : Nat)          -- sf=1 opc=10 100101 hw imm16 Rd
  | movk (rd imm hw : Nat)          -- sf=1 opc=11 100101 hw imm16 Rd
  | br (rn : Nat)                   -- 1101011 0000 11111 000000 Rn 00000
  | ret (rn : Nat)                  -- 1101011 0010 11111 000000 Rn 00000
  | b (imm26 : Nat)                 -- 0 00101 imm26
  | nop                             -- D503201F
  | adrp (rd immlo immhi : Nat)     -- 1 immlo 10000 immhi Rd
  | addImm (rd rn imm12 sh : Nat)   -- sf=1 0 0 100010 sh imm12 Rn Rd
  | unknown
  deriving Repr, DecidableEq

def decode (w : Nat) : Instr :=
  if w = 0xD503201F then Instr.nop
  else if w / 8388608 = 0x1A5 then Instr.movz (w % 32) (w / 32 % 65536) (w / 2097152 % 4)
  else if w / 8388608 = 0x1E5 then Instr.movk (w % 32) (w / 32 % 65536) (w / 2097152 % 4)
  else if w / 1024 = 0x3587C0 ∧ w % 32 = 0 then Instr.br (w / 32 % 32)
  else if w / 1024 = 0x3597C0 ∧ w % 32 = 0 then Instr.ret (w / 32 % 32)
  else if w / 67108864 = 5 then Instr.b (w % 67108864)
  else if w / 2147483648 = 1 ∧ w / 16777216 % 32 = 16 then Instr.adrp (w % 32) (w / 536870912 % 4) (w / 32 % 524288)
  else if w / 8388608 = 0x122 then Instr.addImm (w % 32) (w / 32 % 32) (w / 1024 % 4096) (w / 4194304 % 2)
  else Instr.unknown

structure Cpu where
  pc : Nat
  x : Nat → Nat          -- x0 … x30 (31 = xzr/sp is never used by the fragment)

def setX (f : Nat → Nat) (r v : Nat) : Nat → Nat := fun i => if i = r then v else f i

def sext (bits n : Nat) : Int := if n < 2 ^ (bits - 1) then (n : Int) else (n : Int) - (2 ^ bits : Nat)

def wrap64 (i : Int) : Nat := (i % 18446744073709551616).toNat

/-- MOVK: replace the 16-bit field at position 16*hw -/
def insert16 (old imm hw : Nat) : Nat :=
  let sh := 2 ^ (16 * hw)
  old % sh + imm * sh + old / (sh * 65536) * (sh * 65536)

def exec (i : Instr) (c : Cpu) : Option Cpu :=
  match i with
  | Instr.movz rd imm hw => some { pc := c.pc + 4, x := setX c.x rd (imm * 2 ^ (16 * hw)) }
  | Instr.movk rd imm hw => some { pc := c.pc + 4, x := setX c.x rd (insert16 (c.x rd) imm hw) }
  | Instr.br rn => some { c with pc := c.x rn }
  | Instr.ret rn => some { c with pc := c.x rn }
  | Instr.b imm26 => some { c with pc := wrap64 ((c.pc : Int) + sext 26 imm26 * 4) }
  | Instr.nop => some { c with pc := c.pc + 4 }
  | Instr.adrp rd immlo immhi =>
      some { pc := c.pc + 4, x := setX c.x rd (wrap64 ((c.pc / 4096 * 4096 : Nat) + sext 21 (immhi * 4 + immlo) * 4096)) }
  | Instr.addImm rd rn imm12 sh =>
      some { pc := c.pc + 4, x := setX c.x rd ((c.x rn + imm12 * (if sh = 1 then 4096 else 1)) % 18446744073709551616) }
  | Instr.unknown => none

/-- run the instruction words `ws` placed at `base` until control leaves them (or fuel ends) -/
def runSeq (ws : List Nat) (base : Nat) : Nat → Cpu → Option Cpu
  | 0, c => some c
  | fuel+1, c =>
    if base ≤ c.pc ∧ c.pc < base + 4 * ws.length ∧ (c.pc - base) % 4 = 0 then
      match exec (decode (ws.getD ((c.pc - base) / 4) 0)) c with
      | none => none
      | some c' => runSeq ws base fuel c'
    else some c

/-- registers written by an instruction (for the "only x9…x17" clause) -/
def writes : Instr → List Nat
  | Instr.movz rd _ _ => [rd]
  | Instr.movk rd _ _ => [rd]
  | Instr.adrp rd _ _ => [rd]
  | Instr.addImm rd _ _ _ => [rd]
  | _ => []

end Inj.A64
