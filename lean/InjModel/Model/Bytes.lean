/-
  Model/Bytes.lean — numbers, little-endian bytes, two's-complement views.

  Conventions (DESIGN.md §4): machine words are `Nat` with literal moduli exactly
  where Rust wraps, `Int` where Rust casts to a signed type.  Import-free.
-/
namespace Inj

/-- Result of a library operation: normal value, or a Rust panic (never defaulted). -/
inductive Res (α : Type) where
  | ok (v : α)
  | panic (why : String)
  deriving Repr, DecidableEq

/-- Rust build profile: decides whether signed overflow panics or wraps. -/
inductive Mode where
  | debug
  | release
  deriving Repr, DecidableEq

/-- `u32::to_le_bytes`. -/
def le32 (n : Nat) : List Nat :=
  [n % 256, n / 256 % 256, n / 65536 % 256, n / 16777216 % 256]

/-- `u64::to_le_bytes`. -/
def le64 (n : Nat) : List Nat :=
  le32 (n % 4294967296) ++ le32 (n / 4294967296 % 4294967296)

/-- little-endian decode of four bytes -/
def de32 (b0 b1 b2 b3 : Nat) : Nat := b0 + 256 * b1 + 65536 * b2 + 16777216 * b3

/-- little-endian decode of eight bytes -/
def de64 (b0 b1 b2 b3 b4 b5 b6 b7 : Nat) : Nat :=
  de32 b0 b1 b2 b3 + 4294967296 * de32 b4 b5 b6 b7

/-- sign-extension of a 32-bit pattern -/
def sext32 (n : Nat) : Int := if n < 2147483648 then (n : Int) else (n : Int) - 4294967296

/-- `u64 as i64` / `usize as isize` -/
def toI64 (n : Nat) : Int :=
  if n < 9223372036854775808 then (n : Int) else (n : Int) - 18446744073709551616

/-- wrap a mathematical integer into the i64 range (two's complement). -/
def wrapI64 (i : Int) : Int :=
  let r := i % 18446744073709551616
  if r < 9223372036854775808 then r else r - 18446744073709551616

/-- the 64-bit pattern of an integer -/
def ofInt64 (i : Int) : Nat := (i % 18446744073709551616).toNat

/-- the 32-bit pattern of an integer (`as i32` then `to_le_bytes` / `as u32`) -/
def ofInt32 (i : Int) : Nat := (i % 4294967296).toNat

def hexDigit (n : Nat) : Char :=
  if n < 10 then Char.ofNat (48 + n) else Char.ofNat (87 + n)

def hexByte (b : Nat) : String :=
  String.ofList [hexDigit (b / 16 % 16), hexDigit (b % 16)]

def hexBytes (bs : List Nat) : String := String.join (bs.map hexByte)

end Inj
