/-
  Model/Async.lean — the abstract behaviour of faked async functions: a family of async fns, each
  with its own `<F as Future>::poll` entry; `fake i site` installs a `fn() -> Poll<T>` returning
  `Poll::Ready(value)` at that entry through the ordinary machine (Model/Machine); an await polls
  until Ready.  Import-free.
-/
namespace Inj.Async

inductive Op where
  | fake (i site : Nat)      -- `when_called_async(async_func!(f_i(..), T)).will_return_async(async_return!(v_site, T))`
  | await (i arg : Nat)
  | drop                     -- the injector goes out of scope (a new one is created)
  deriving Repr, DecidableEq

/-- what one await shows -/
structure Obs where
  polls : Nat
  /-- `some site` = completed with the value of that fake; `none` = the original ran -/
  fakedBy : Option Nat
  bodyRuns : Nat
  valueEvals : Nat
  deriving Repr, DecidableEq

/-- fakes in effect, newest first -/
abbrev State := List (Nat × Nat)

def lookup (s : State) (i : Nat) : Option Nat := (s.find? (·.1 == i)).map (·.2)

/-- `origPolls i` = polls the original future of function i needs -/
def awaitObs (origPolls : Nat → Nat) (s : State) (i : Nat) : Obs :=
  match lookup s i with
  | some site => { polls := 1, fakedBy := some site, bodyRuns := 0, valueEvals := 1 }
  | none => { polls := origPolls i, fakedBy := none, bodyRuns := 1, valueEvals := 0 }

def step (origPolls : Nat → Nat) (s : State) : Op → State × Option Obs
  | Op.fake i site => ((i, site) :: s, none)
  | Op.await i _ => (s, some (awaitObs origPolls s i))
  | Op.drop => ([], none)

def run (origPolls : Nat → Nat) : State → List Op → List (Option Obs)
  | _, [] => []
  | s, op :: ops => let r := step origPolls s op; r.2 :: run origPolls r.1 ops

end Inj.Async
