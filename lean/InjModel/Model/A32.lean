/-
  Model/A32.lean — (1) the 12-byte entry patch of `patch_arm.rs` (ARM and Thumb), from the
  instruction words the translator extracted; (2) an independent fragment of the A32/T32 ISA
  (LDR literal, BX, Thumb NOP) with `Align(PC,4)` semantics.  Import-free.
-/
import InjModel.Model.Mem
import InjModel.Generated.Consts
namespace Inj.A32
open Inj Inj.Generated Inj.Generated.Consts

/-! ## Encoder -/

def wordOf (target : Nat) : ArmWord → Nat
  | ArmWord.lit w => w
  | ArmWord.target => target % 4294967296          -- `target.as_ptr() as u32`
  | ArmWord.unknown => 0

/-- `slice::rotate_right(k)` -/
def rotateRight (l : List Nat) (k : Nat) : List Nat :=
  l.drop (l.length - k) ++ l.take (l.length - k)

structure Patch where
  /-- address actually written (Thumb bit stripped) -/
  addr : Nat
  bytes : List Nat
  thumb : Bool
  deriving Repr, DecidableEq

/-- `PatchArm::replace_function_with_other_function(src, target)` up to the bytes it writes -/
def patch (src target : Nat) : Patch :=
  let thumb := src % 2 == 1
  let addr := if thumb then src - 1 else src
  let words := (if thumb then armThumbWords else armArmWords).map (wordOf target)
  let raw := words.flatMap le32
  let bytes :=
    if thumb && addr % armAlignMod != 0 then
      ((rotateRight raw armRotate).set 0 armNop0).set 1 armNop1
    else raw
  { addr := addr, bytes := bytes, thumb := thumb }

/-! ## ISA fragment -/

structure Cpu where
  pc : Nat
  thumb : Bool
  r : Nat → Nat        -- r0 … r14

def setR (f : Nat → Nat) (i v : Nat) : Nat → Nat := fun k => if k = i then v else f k

def rd16 (m : Mem) (a : Nat) : Nat := m a + 256 * m (a + 1)
def rd32 (m : Mem) (a : Nat) : Nat := de32 (m a) (m (a+1)) (m (a+2)) (m (a+3))

inductive Instr where
  | ldrLit (rt : Nat) (up : Bool) (imm : Nat)   -- LDR Rt, [PC, #+/-imm]
  | bx (rm : Nat)
  | nop                                          -- Thumb `mov r8, r8` (46C0)
  | unknown
  deriving Repr, DecidableEq

/-- A32: cond=AL only -/
def decodeArm (w : Nat) : Instr :=
  if w / 1048576 = 0xE51 ∧ w / 65536 % 16 = 15 then Instr.ldrLit (w / 4096 % 16) false (w % 4096)
  else if w / 1048576 = 0xE59 ∧ w / 65536 % 16 = 15 then Instr.ldrLit (w / 4096 % 16) true (w % 4096)
  else if w / 16 = 0xE12FFF1 then Instr.bx (w % 16)
  else Instr.unknown

/-- T32, 16-bit encodings only -/
def decodeThumb (h : Nat) : Instr :=
  if h / 2048 = 9 then Instr.ldrLit (h / 256 % 8) true (h % 256 * 4)
  else if h / 128 = 0x8E ∧ h % 8 = 0 then Instr.bx (h / 8 % 16)
  else if h = 0x46C0 then Instr.nop
  else Instr.unknown

def step (m : Mem) (c : Cpu) : Option Cpu :=
  let ins := if c.thumb then decodeThumb (rd16 m c.pc) else decodeArm (rd32 m c.pc)
  let len := if c.thumb then 2 else 4
  let pcRead := c.pc + (if c.thumb then 4 else 8)
  match ins with
  | Instr.ldrLit rt up imm =>
    let base := pcRead / 4 * 4
    let a := if up then base + imm else base - imm
    if rt = 15 then none else some { c with pc := c.pc + len, r := setR c.r rt (rd32 m a) }
  | Instr.bx rm =>
    if rm = 15 then none else
    let v := c.r rm
    some { c with pc := v / 2 * 2, thumb := v % 2 == 1 }
  | Instr.nop => some { c with pc := c.pc + len }
  | Instr.unknown => none

def run (m : Mem) : Nat → Cpu → Option Cpu
  | 0, c => some c
  | n+1, c => match step m c with
    | none => none
    | some c' => run m n c'

/-- registers written when executing the patch placed at `p.addr` (up to 3 instructions) -/
def writtenRegs (m : Mem) (c : Cpu) : Nat → List Nat
  | 0 => []
  | n+1 =>
    let ins := if c.thumb then decodeThumb (rd16 m c.pc) else decodeArm (rd32 m c.pc)
    match ins, step m c with
    | Instr.ldrLit rt _ _, some c' => rt :: writtenRegs m c' n
    | Instr.nop, some c' => writtenRegs m c' n
    | _, _ => []

/-- AAPCS32 callee-saved core registers: r4–r11 and sp (r13) -/
def calleeSaved (r : Nat) : Bool := (4 ≤ r && r ≤ 11) || r == 13

end Inj.A32
