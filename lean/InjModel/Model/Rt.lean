/-
  Model/Rt.lean — the vocabulary in which `translate/rs2lean.py` writes Rust function bodies
  (`Generated/Fns.lean`).  One definition per Rust primitive the translated functions use:
  fixed-width arithmetic whose overflow behaviour depends on the build profile (debug: panic,
  release: wrap), `as` casts, bit operations, shifts, `to_le_bytes`, slices.  Unsigned integers
  are `Nat`, signed integers `Int`, `Vec<u8>`/arrays are `List`.  Import-free (the compiled driver
  executes the generated functions).
-/
import InjModel.Model.Bytes
namespace Inj

def Res.bind {α β : Type} : Res α → (α → Res β) → Res β
  | Res.ok v, f => f v
  | Res.panic w, _ => Res.panic w

instance : Monad Res where
  pure := Res.ok
  bind := Res.bind

@[simp] theorem Res.bind_ok {α β : Type} (v : α) (f : α → Res β) : (Res.ok v >>= f) = f v := rfl
@[simp] theorem Res.bind_panic {α β : Type} (w : String) (f : α → Res β) :
    ((Res.panic w : Res α) >>= f) = Res.panic w := rfl
@[simp] theorem Res.pure_eq {α : Type} (v : α) : (pure v : Res α) = Res.ok v := rfl

namespace Rt

/-- two's-complement wrap of a mathematical integer into `bits`-bit signed range -/
def wrapS (bits : Nat) (i : Int) : Int :=
  let r := i % ((2 ^ bits : Nat) : Int)
  if r < ((2 ^ (bits - 1) : Nat) : Int) then r else r - ((2 ^ bits : Nat) : Int)

def inS (bits : Nat) (i : Int) : Bool := -((2 ^ (bits - 1) : Nat) : Int) ≤ i ∧ i < ((2 ^ (bits - 1) : Nat) : Int)

/-- result of a signed operation whose mathematical value is `r` -/
def chkS (bits : Nat) (mode : Mode) (r : Int) : Res Int :=
  if inS bits r then Res.ok r
  else if mode = Mode.debug then Res.panic "arith-overflow" else Res.ok (wrapS bits r)

def sadd (bits : Nat) (mode : Mode) (a b : Int) : Res Int := chkS bits mode (a + b)
def ssub (bits : Nat) (mode : Mode) (a b : Int) : Res Int := chkS bits mode (a - b)
def smul (bits : Nat) (mode : Mode) (a b : Int) : Res Int := chkS bits mode (a * b)
def sneg (bits : Nat) (mode : Mode) (a : Int) : Res Int := chkS bits mode (-a)
/-- `/` on signed integers truncates toward zero; division by zero and MIN / -1 panic in every profile -/
def sdiv (bits : Nat) (a b : Int) : Res Int :=
  if b = 0 then Res.panic "div-by-zero"
  else if inS bits (Int.tdiv a b) then Res.ok (Int.tdiv a b) else Res.panic "arith-overflow"
def srem (bits : Nat) (a b : Int) : Res Int :=
  if b = 0 then Res.panic "div-by-zero"
  else if inS bits (Int.tdiv a b) then Res.ok (Int.tmod a b) else Res.panic "arith-overflow"

/-- result of an unsigned operation whose mathematical value is `r` (an `Int`: it may be negative) -/
def chkU (bits : Nat) (mode : Mode) (r : Int) : Res Nat :=
  if 0 ≤ r ∧ r < ((2 ^ bits : Nat) : Int) then Res.ok r.toNat
  else if mode = Mode.debug then Res.panic "arith-overflow" else Res.ok (r % ((2 ^ bits : Nat) : Int)).toNat

def uadd (bits : Nat) (mode : Mode) (a b : Nat) : Res Nat := chkU bits mode ((a : Int) + b)
def usub (bits : Nat) (mode : Mode) (a b : Nat) : Res Nat := chkU bits mode ((a : Int) - b)
def umul (bits : Nat) (mode : Mode) (a b : Nat) : Res Nat := chkU bits mode ((a : Int) * b)
def udiv (a b : Nat) : Res Nat := if b = 0 then Res.panic "div-by-zero" else Res.ok (a / b)
def urem (a b : Nat) : Res Nat := if b = 0 then Res.panic "div-by-zero" else Res.ok (a % b)

/-- `as` casts never panic: they truncate / reinterpret -/
def castUU (bits : Nat) (x : Nat) : Nat := x % 2 ^ bits
def castSU (bits : Nat) (x : Int) : Nat := (x % ((2 ^ bits : Nat) : Int)).toNat
def castUS (bits : Nat) (x : Nat) : Int := wrapS bits (x : Int)
def castSS (bits : Nat) (x : Int) : Int := wrapS bits x
def ofBool (b : Bool) : Nat := if b then 1 else 0

/-- shifts: the amount must be below the width (debug: panic, release: amount masked) -/
def ushl (bits : Nat) (mode : Mode) (a k : Nat) : Res Nat :=
  if k < bits then Res.ok (a * 2 ^ k % 2 ^ bits)
  else if mode = Mode.debug then Res.panic "shift-overflow" else Res.ok (a * 2 ^ (k % bits) % 2 ^ bits)
def ushr (bits : Nat) (mode : Mode) (a k : Nat) : Res Nat :=
  if k < bits then Res.ok (a / 2 ^ k)
  else if mode = Mode.debug then Res.panic "shift-overflow" else Res.ok (a / 2 ^ (k % bits))
def sshl (bits : Nat) (mode : Mode) (a : Int) (k : Nat) : Res Int :=
  if k < bits then Res.ok (wrapS bits (a * ((2 ^ k : Nat) : Int)))
  else if mode = Mode.debug then Res.panic "shift-overflow" else Res.ok (wrapS bits (a * ((2 ^ (k % bits) : Nat) : Int)))
/-- arithmetic shift right = floor division -/
def sshr (bits : Nat) (mode : Mode) (a : Int) (k : Nat) : Res Int :=
  if k < bits then Res.ok (a / ((2 ^ k : Nat) : Int))
  else if mode = Mode.debug then Res.panic "shift-overflow" else Res.ok (a / ((2 ^ (k % bits) : Nat) : Int))

def band (a b : Nat) : Nat := a &&& b
def bor (a b : Nat) : Nat := a ||| b
def bxor (a b : Nat) : Nat := a ^^^ b
def unot (bits : Nat) (a : Nat) : Nat := 2 ^ bits - 1 - a % 2 ^ bits
/-- bit operations on signed values go through the two's-complement pattern -/
def sband (bits : Nat) (a b : Int) : Int := wrapS bits ((castSU bits a &&& castSU bits b : Nat) : Int)
def sbor (bits : Nat) (a b : Int) : Int := wrapS bits ((castSU bits a ||| castSU bits b : Nat) : Int)
def snot (a : Int) : Int := -a - 1

def absDiff (a b : Nat) : Nat := if a ≤ b then b - a else a - b
def satSub (a b : Nat) : Nat := a - b
def satAddU (bits : Nat) (a b : Nat) : Nat := if a + b < 2 ^ bits then a + b else 2 ^ bits - 1
def wrapSubS (bits : Nat) (a b : Int) : Int := wrapS bits (a - b)
def wrapAddS (bits : Nat) (a b : Int) : Int := wrapS bits (a + b)
def wrapSubU (bits : Nat) (a b : Nat) : Nat := castSU bits ((a : Int) - b)
def wrapAddU (bits : Nat) (a b : Nat) : Nat := (a + b) % 2 ^ bits

/-- `to_le_bytes` of an unsigned pattern of `n` bytes -/
def leBytes : Nat → Nat → List Nat
  | 0, _ => []
  | n + 1, x => x % 256 :: leBytes n (x / 256)

/-- indexing panics out of bounds in every profile -/
def idx {α : Type} (l : List α) (i : Nat) : Res α :=
  match l[i]? with
  | some v => Res.ok v
  | none => Res.panic "index-out-of-bounds"
def setIdx {α : Type} (l : List α) (i : Nat) (v : α) : Res (List α) :=
  if i < l.length then Res.ok (l.set i v) else Res.panic "index-out-of-bounds"
/-- `l[lo..hi].copy_from_slice(src)`: bounds and length mismatch panic -/
def copyInto {α : Type} (l : List α) (lo hi : Nat) (src : List α) : Res (List α) :=
  if lo ≤ hi ∧ hi ≤ l.length ∧ src.length = hi - lo then Res.ok (l.take lo ++ src ++ l.drop hi)
  else Res.panic "slice-bounds"
def slice {α : Type} (l : List α) (lo hi : Nat) : Res (List α) :=
  if lo ≤ hi ∧ hi ≤ l.length then Res.ok ((l.drop lo).take (hi - lo)) else Res.panic "slice-bounds"
/-- `rotate_right(k)` on a slice -/
def rotateRight {α : Type} (l : List α) (k : Nat) : Res (List α) :=
  if k ≤ l.length then Res.ok (l.drop (l.length - k) ++ l.take (l.length - k)) else Res.panic "rotate-bounds"

/-- fold over a list threading a `Res` state (the body of a `for` loop without early exit) -/
def forM' {α σ : Type} : List α → σ → (α → σ → Res σ) → Res σ
  | [], s, _ => Res.ok s
  | x :: xs, s, f => (f x s) >>= fun s' => forM' xs s' f

/-! ## Effects: calls that leave the translated code (libc, raw memory) are logged; a call whose
     result is used takes it from the oracle script (what the OS answered). -/

inductive Val where
  | n (i : Int)
  | bs (l : List Nat)
  deriving Repr, DecidableEq

structure Os where
  answers : List Val
  log : List (String × List Val)
  deriving Repr

/-- effectful translated code: a function of the OS state (a structure, so that nothing unfolds it) -/
structure M (α : Type) where
  fn : Os → Res α × Os

/-- run an effectful translated function from an OS state (oracle answers + log so far) -/
def run {α : Type} (m : M α) (os : Os) : Res α × Os := m.fn os

def M.bind {α β : Type} (m : M α) (f : α → M β) : M β :=
  ⟨fun os => match m.fn os with
    | (Res.ok v, os') => (f v).fn os'
    | (Res.panic w, os') => (Res.panic w, os')⟩

instance : Monad M where
  pure v := ⟨fun os => (Res.ok v, os)⟩
  bind := M.bind

instance : MonadLift Res M where
  monadLift r := ⟨fun os => (r, os)⟩

def logCall (name : String) (args : List Val) (os : Os) : Os := { os with log := os.log ++ [(name, args)] }

def extU (name : String) (args : List Val) : M Unit := ⟨fun os => (Res.ok (), logCall name args os)⟩
def extI (name : String) (args : List Val) : M Int := ⟨fun os =>
  match os.answers with
  | Val.n i :: rest => (Res.ok i, { logCall name args os with answers := rest })
  | _ => (Res.panic "oracle-exhausted", logCall name args os)⟩
def extN (name : String) (args : List Val) : M Nat := ⟨fun os =>
  match os.answers with
  | Val.n i :: rest => (Res.ok i.toNat, { logCall name args os with answers := rest })
  | _ => (Res.panic "oracle-exhausted", logCall name args os)⟩
def extB (name : String) (args : List Val) : M (List Nat) := ⟨fun os =>
  match os.answers with
  | Val.bs l :: rest => (Res.ok l, { logCall name args os with answers := rest })
  | _ => (Res.panic "oracle-exhausted", logCall name args os)⟩
/-- a call whose result is an `Option` of something the translated code only passes on (`pop()`):
    the oracle says whether there was one (non-zero) -/
def extO (name : String) (args : List Val) : M (Option Unit) := ⟨fun os =>
  match os.answers with
  | Val.n i :: rest => (Res.ok (if i = 0 then none else some ()), { logCall name args os with answers := rest })
  | _ => (Res.panic "oracle-exhausted", logCall name args os)⟩
def panicNow {α : Type} (msg : String) : M α := ⟨fun os => (Res.panic msg, os)⟩

def sabs (bits : Nat) (mode : Mode) (a : Int) : Res Int := chkS bits mode (if a < 0 then -a else a)

/-! ## strings: a `&str` is the list of its chars; offsets are byte offsets of the UTF-8 encoding,
     as `str::find`, `char_indices` and slicing count them -/

def utf8Len (c : Char) : Nat :=
  if c.toNat < 128 then 1 else if c.toNat < 2048 then 2 else if c.toNat < 65536 then 3 else 4

def strLen : List Char → Nat
  | [] => 0
  | c :: cs => utf8Len c + strLen cs

def charIndicesFrom : Nat → List Char → List (Nat × Char)
  | _, [] => []
  | off, c :: cs => (off, c) :: charIndicesFrom (off + utf8Len c) cs
/-- `s.char_indices()` -/
def charIndices (s : List Char) : List (Nat × Char) := charIndicesFrom 0 s

def strFindFrom : Nat → List Char → Char → Option Nat
  | _, [], _ => none
  | off, x :: xs, c => if x == c then some off else strFindFrom (off + utf8Len x) xs c
/-- `s.find(c)`: byte offset of the first occurrence -/
def strFind (s : List Char) (c : Char) : Option Nat := strFindFrom 0 s c

def strRfindFrom : Nat → List Char → Char → Option Nat → Option Nat
  | _, [], _, acc => acc
  | off, x :: xs, c, acc => strRfindFrom (off + utf8Len x) xs c (if x == c then some off else acc)
def strRfind (s : List Char) (c : Char) : Option Nat := strRfindFrom 0 s c none

/-- `&s[lo..]`: panics unless `lo` is a char boundary of `s` (its end included) -/
def strFrom : List Char → Nat → Res (List Char)
  | s, 0 => Res.ok s
  | [], _ + 1 => Res.panic "str-index"
  | c :: cs, n + 1 => if utf8Len c ≤ n + 1 then strFrom cs (n + 1 - utf8Len c) else Res.panic "str-index"

/-- `&s[..n]` -/
def strTake : List Char → Nat → Res (List Char)
  | _, 0 => Res.ok []
  | [], _ + 1 => Res.panic "str-index"
  | c :: cs, n + 1 =>
    if utf8Len c ≤ n + 1 then (match strTake cs (n + 1 - utf8Len c) with | Res.ok r => Res.ok (c :: r) | Res.panic w => Res.panic w)
    else Res.panic "str-index"

def strSlice (s : List Char) (lo hi : Nat) : Res (List Char) :=
  if lo ≤ hi then (match strFrom s lo with | Res.ok r => strTake r (hi - lo) | Res.panic w => Res.panic w)
  else Res.panic "str-index"

/-- `char::is_whitespace` (the Unicode White_Space property) -/
def isWs (c : Char) : Bool :=
  let n := c.toNat
  (9 ≤ n && n ≤ 13) || n == 32 || n == 0x85 || n == 0xA0 || n == 0x1680 || (0x2000 ≤ n && n ≤ 0x200A) ||
  n == 0x2028 || n == 0x2029 || n == 0x202F || n == 0x205F || n == 0x3000

def strTrimStart (s : List Char) : List Char := s.dropWhile isWs
def strTrimEnd (s : List Char) : List Char := (s.reverse.dropWhile isWs).reverse
def strTrim (s : List Char) : List Char := strTrimEnd (strTrimStart s)

def strStartsWith (s p : List Char) : Bool := p.isPrefixOf s
def strEndsWith (s p : List Char) : Bool := p.reverse.isPrefixOf s.reverse
def strContains : List Char → List Char → Bool
  | [], p => p.isEmpty
  | c :: cs, p => p.isPrefixOf (c :: cs) || strContains cs p


end Rt
end Inj
