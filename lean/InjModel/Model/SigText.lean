/-
  Model/SigText.lean — the forced-boolean gate on the recorded signature *text* (chars, byte offsets):
  the hand-written counterpart of `signature_returns_bool`, which the translated function is proved
  equal to (Tie/SigText) and which the token-level gate of Model/Sig is related to (Props/C10).
  Import-free.
-/
import InjModel.Model.Rt
namespace Inj.Sig
open Inj.Rt

/-- what follows the parenthesis that closes the one already opened (`d` open ones), char level -/
def afterCloseC : Nat → List Char → Option (List Char)
  | _, [] => none
  | d, c :: ts =>
    if c = '(' then afterCloseC (d + 1) ts
    else if c = ')' then (if d = 1 then some ts else if d = 0 then none else afterCloseC (d - 1) ts)
    else afterCloseC d ts

/-- everything after the first `(` … its matching `)` -/
def afterParamsC : List Char → Option (List Char)
  | [] => none
  | c :: ts => if c = '(' then afterCloseC 1 ts else afterParamsC ts

def arrowBool : List Char := ['-', '>', ' ', 'b', 'o', 'o', 'l']

/-- `signature_returns_bool` on the text itself: the text after the parameter list, trimmed, is `-> bool` -/
def returnsBoolText (s : List Char) : Bool :=
  match afterParamsC s with
  | some rest => strTrim rest == arrowBool
  | none => false

end Inj.Sig
