/-
  Model/SigText.lean — the forced-boolean gate on the recorded signature *text* (chars, byte offsets):
  the hand-written counterpart of `signature_returns_bool`, which the translated function is proved
  equal to (Tie/SigText) and which the token-level gate of Model/Sig is related to (Props/C10).
  Import-free.
-/
import InjModel.Model.Rt
import InjModel.Model.Sig
namespace Inj.Sig
open Inj.Rt

/-- what follows the parenthesis that closes the one already opened (`d` open ones), char level -/
def afterCloseC : Nat → List Char → Option (List Char)
  | _, [] => none
  | d, c :: ts =>
    if c = '(' then afterCloseC (d + 1) ts
    else if c = ')' then (if d = 1 then some ts else if d = 0 then none else afterCloseC (d - 1) ts)
    else afterCloseC d ts

/-- everything after the first `(` … its matching `)` -/
def afterParamsC : List Char → Option (List Char)
  | [] => none
  | c :: ts => if c = '(' then afterCloseC 1 ts else afterParamsC ts

def arrowBool : List Char := ['-', '>', ' ', 'b', 'o', 'o', 'l']

/-- `signature_returns_bool` on the text itself: the text after the parameter list, trimmed, is `-> bool` -/
def returnsBoolText (s : List Char) : Bool :=
  match afterParamsC s with
  | some rest => strTrim rest == arrowBool
  | none => false

/-! ## the text of a token list, as `type_name` spaces it (validated against rustc on every run: `sigty` lines) -/

/-- the spelling of identifiers (paths), integer constants and ABI names -/
structure Names where
  id : Nat → List Char
  num : Nat → List Char
  abi : Nat → List Char

def tokText (nm : Names) (t : Tok) (next : List Tok) : List Char :=
  match t with
  | Tok.id n => nm.id n
  | Tok.num n => nm.num n
  | Tok.amp => ['&']
  | Tok.mut_ => ['m', 'u', 't', ' ']
  | Tok.star => ['*']
  | Tok.const_ => ['c', 'o', 'n', 's', 't', ' ']
  | Tok.dyn_ => ['d', 'y', 'n', ' ']
  | Tok.lp => ['(']
  | Tok.rp => [')']
  | Tok.lb => ['[']
  | Tok.rb => [']']
  | Tok.lt => ['<']
  | Tok.gt => ['>']
  | Tok.comma => (match next with | Tok.rp :: _ => [','] | _ => [',', ' '])
  | Tok.semi => [';', ' ']
  | Tok.arrow => [' ', '-', '>', ' ']
  | Tok.fn_ => ['f', 'n']
  | Tok.unsafe_ => ['u', 'n', 's', 'a', 'f', 'e', ' ']
  | Tok.extern_ a => ['e', 'x', 't', 'e', 'r', 'n', ' ', '"'] ++ nm.abi a ++ ['"', ' ']

def spellC (nm : Names) : List Tok → List Char
  | [] => []
  | t :: rest => tokText nm t rest ++ spellC nm rest

/-- what the text-level theorem assumes of the spelling of names: identifiers contain neither
    parentheses nor white space, `bool` is spelled `bool` and nothing else is; constants and ABI
    names contain no parentheses -/
structure NamesOK (nm : Names) : Prop where
  id_plain : ∀ n c, c ∈ nm.id n → c ≠ '(' ∧ c ≠ ')' ∧ isWs c = false
  id_bool : ∀ n, nm.id n = ['b', 'o', 'o', 'l'] ↔ n = boolId
  num_plain : ∀ n c, c ∈ nm.num n → c ≠ '(' ∧ c ≠ ')'
  abi_plain : ∀ a c, c ∈ nm.abi a → c ≠ '(' ∧ c ≠ ')'

end Inj.Sig
