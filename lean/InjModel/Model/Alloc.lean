/-
  Model/Alloc.lean — `allocate_jit_memory_unix` (common.rs) as a function of the sequence of
  answers the kernel gives to the hinted `mmap` calls (the oracle script).  Import-free.
-/
import InjModel.Model.Mem
namespace Inj.Alloc
open Inj

/-- OS events the allocator performs. -/
inductive AEvent where
  | mmap (hint len : Nat) (ret : Option Nat)
  | munmap (addr len : Nat)
  deriving Repr, DecidableEq

inductive AResult where
  | ok (addr : Nat)
  | panic                 -- "Failed to allocate JIT memory within ±range"
  | stuck                 -- the oracle script ended before the loop did (not a behaviour of the code)
  deriving Repr, DecidableEq

def absDiff (a b : Nat) : Nat := if a ≤ b then b - a else a - b

/-- The search loop.  `start` is the current hint; one oracle answer is consumed per iteration
    (`none` = MAP_FAILED).  Structural recursion on the script. -/
def loop (src range page size : Nat) : List (Option Nat) → Nat → AResult × List AEvent
  | [], start => if start ≤ src + range then (AResult.stuck, []) else (AResult.panic, [])
  | none :: rest, start =>
    if start ≤ src + range then
      let r := loop src range page size rest (start + page)
      (r.1, AEvent.mmap start size none :: r.2)
    else (AResult.panic, [])
  | some a :: rest, start =>
    if start ≤ src + range then
      if absDiff a src < range then (AResult.ok a, [AEvent.mmap start size (some a)])
      else
        let r := loop src range page size rest (start + page)
        (r.1, AEvent.mmap start size (some a) :: AEvent.munmap a size :: r.2)
    else (AResult.panic, [])

/-- `allocate_jit_memory_unix(src, size)`; `range` = 0x8000000 on Linux. -/
def search (src range page size : Nat) (answers : List (Option Nat)) : AResult × List AEvent :=
  loop src range page size answers (src - range)

def linuxRange : Nat := 0x8000000

end Inj.Alloc
