/-
  Model/Counter.lean — the call-count accounting of `fake!(…, times: N)` (macros.rs) and
  `CallCountVerifier::drop` (verifier.rs).  Import-free.

  The counter update is one atomic `fetch_add`, so every interleaving of calls from any number
  of threads is a linearisation: a schedule is just the list of calls in the order their
  `fetch_add` (or their `when` test, for non-matching calls) takes effect.
-/
namespace Inj.Counter

inductive CallOut where
  | ok                 -- returned normally
  | panicOver          -- "called more times than expected"
  | panicUnexpected    -- "called with unexpected arguments"
  deriving Repr, DecidableEq

/-- one call: `matches` = the `when` condition holds for its arguments.
    Returns the outcome and the new counter value. -/
def call (n cnt : Nat) (matching : Bool) : CallOut × Nat :=
  if matching then
    let prev := cnt            -- fetch_add(1) returns the previous value …
    let cnt' := cnt + 1        -- … and increments
    if prev ≥ n then (CallOut.panicOver, cnt') else (CallOut.ok, cnt')
  else (CallOut.panicUnexpected, cnt)

/-- run a schedule (list of calls, in linearisation order) -/
def runCalls (n : Nat) : Nat → List Bool → List CallOut × Nat
  | cnt, [] => ([], cnt)
  | cnt, m :: ms =>
    let r := call n cnt m
    let rest := runCalls n r.2 ms
    (r.1 :: rest.1, rest.2)

inductive ExitOut where
  | ok
  | panicMismatch (expected actual : Nat)
  deriving Repr, DecidableEq

/-- `CallCountVerifier::WithCount { counter, expected }` dropped with the counter at `cnt` -/
def verifierDrop (checksPanicking : Bool) (expected cnt : Nat) (panicking : Bool) : ExitOut :=
  if cnt ≠ expected then
    if panicking && checksPanicking then ExitOut.ok else ExitOut.panicMismatch expected cnt
  else ExitOut.ok

/-- A lifetime evaluating one `fake!(…, times: N)` call site: the counter is a static of the
    call site; `resetOnInstall` says whether installation stores 0 into it. -/
def lifetime (resetOnInstall : Bool) (n : Nat) (cntBefore : Nat) (calls : List Bool) : List CallOut × Nat :=
  runCalls n (if resetOnInstall then 0 else cntBefore) calls

/-- consecutive lifetimes of the same call site, each `(N, calls, unwinding)`: `unwinding` says
    the scope is left by a panic raised in the body (the verifier is then dropped while
    `thread::panicking()`); returns each lifetime's call outcomes and exit verdict -/
def lifetimes (resetOnInstall checksPanicking : Bool) : Nat → List (Nat × List Bool × Bool) → List (List CallOut × ExitOut)
  | _, [] => []
  | cnt, (n, calls, unw) :: rest =>
    let r := lifetime resetOnInstall n cnt calls
    (r.1, verifierDrop checksPanicking n r.2 unw) :: lifetimes resetOnInstall checksPanicking r.2 rest

end Inj.Counter
