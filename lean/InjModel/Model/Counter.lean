/-
  Model/Counter.lean — the call-count accounting of `fake!(…, times: N)` (macros.rs) and
  `CallCountVerifier::drop` (verifier.rs).  Import-free.

  The counter update is one atomic `fetch_add`, so every interleaving of calls from any number
  of threads is a linearisation: a schedule is just the list of calls in the order their
  `fetch_add` (or their `when` test, for non-matching calls) takes effect.
-/
namespace Inj.Counter

inductive CallOut where
  | ok                 -- returned normally
  | panicOver          -- "called more times than expected"
  | panicUnexpected    -- "called with unexpected arguments"
  deriving Repr, DecidableEq

/-- one call: `matches` = the `when` condition holds for its arguments.
    Returns the outcome and the new counter value. -/
def call (n cnt : Nat) (matching : Bool) : CallOut × Nat :=
  if matching then
    let prev := cnt            -- fetch_add(1) returns the previous value …
    let cnt' := cnt + 1        -- … and increments
    if prev ≥ n then (CallOut.panicOver, cnt') else (CallOut.ok, cnt')
  else (CallOut.panicUnexpected, cnt)

/-- run a schedule (list of calls, in linearisation order) -/
def runCalls (n : Nat) : Nat → List Bool → List CallOut × Nat
  | cnt, [] => ([], cnt)
  | cnt, m :: ms =>
    let r := call n cnt m
    let rest := runCalls n r.2 ms
    (r.1 :: rest.1, rest.2)

inductive ExitOut where
  | ok
  | panicMismatch (expected actual : Nat)
  deriving Repr, DecidableEq

/-- `CallCountVerifier::WithCount { counter, expected }` dropped with the counter at `cnt` -/
def verifierDrop (checksPanicking : Bool) (expected cnt : Nat) (panicking : Bool) : ExitOut :=
  if cnt ≠ expected then
    if panicking && checksPanicking then ExitOut.ok else ExitOut.panicMismatch expected cnt
  else ExitOut.ok

/-- Successive installations built by one `fake!(…, times: N)` call site within one lifetime
    (a helper or a loop installing it on one function after another): the counter is a static
    of the call site shared by all of them; `resetOnInstall` says whether each installation
    stores 0 into it.  `installs` = for each installation, the calls made before the next one. -/
def runInstalls (resetOnInstall : Bool) (n : Nat) : Nat → List (List Bool) → List (List CallOut) × Nat
  | cnt, [] => ([], cnt)
  | cnt, calls :: rest =>
    let r := runCalls n (if resetOnInstall then 0 else cnt) calls
    let rs := runInstalls resetOnInstall n r.2 rest
    (r.1 :: rs.1, rs.2)

/-- scope-exit verdict of a lifetime: nothing to verify when nothing was installed -/
def exitVerdict (checksPanicking : Bool) (n : Nat) (installs : List (List Bool)) (cnt : Nat) (unw : Bool) : ExitOut :=
  if installs.isEmpty then ExitOut.ok else verifierDrop checksPanicking n cnt unw

/-- consecutive lifetimes of the same call site, each `(N, installs, unwinding)`: `unwinding`
    says the scope is left by a panic raised in the body (the verifiers are then dropped while
    `thread::panicking()`); returns each lifetime's call outcomes per installation and its
    exit verdict -/
def lifetimes (resetOnInstall checksPanicking : Bool) : Nat → List (Nat × List (List Bool) × Bool) → List (List (List CallOut) × ExitOut)
  | _, [] => []
  | cnt, (n, installs, unw) :: rest =>
    let r := runInstalls resetOnInstall n cnt installs
    (r.1, exitVerdict checksPanicking n installs r.2 unw) :: lifetimes resetOnInstall checksPanicking r.2 rest

end Inj.Counter
