/-
  Model/X86.lean — (1) the x86-64 encoders of `patch_amd64.rs` as pure functions,
  (2) an independent ISA fragment (decoder + step) written from the Intel SDM for
  the five instruction forms the library emits.  Import-free.
-/
import InjModel.Model.Bytes
import InjModel.Generated.Consts
namespace Inj.X86
open Inj Inj.Generated

/-! ## Encoders (model of `patch_amd64.rs`) -/

/-- `generate_branch_to_target_function(ori_func, target_func)`.
    Rust: `let offset = target as isize - (ori as isize + 5);` then rel32 if it fits in i32,
    else `mov rax, imm64; jmp rax`.  In a debug build the two signed operations panic on
    overflow; in a release build they wrap. -/
def genBranch (mode : Mode) (ori target : Nat) : Res (List Nat) :=
  let s : Int := toI64 ori + Consts.x86RelBias
  let d : Int := toI64 target - wrapI64 s
  if mode = Mode.debug ∧ (s ≥ 9223372036854775808 ∨ d < -9223372036854775808 ∨ d ≥ 9223372036854775808) then
    Res.panic "arith-overflow"
  else
    let off := wrapI64 d
    if -2147483648 ≤ off ∧ off ≤ 2147483647 then
      Res.ok (Consts.jmpRelOpcode :: le32 (ofInt32 off))
    else
      Res.ok (Consts.movRaxOpcode ++ le64 target ++ Consts.jmpRaxOpcode)

/-- `generate_will_return_boolean_jit_code`: `mov rax, imm32(value); ret`. -/
def boolStub (v : Bool) : List Nat :=
  Consts.x86BoolStubTemplate.set Consts.x86BoolStubValueIndex (if v then 1 else 0)

/-- JIT_SIZE constants of `replace_function_with_other_function` / `_return_boolean`. -/
def jitSizeExec : Nat := Consts.x86JitSizeExec
def jitSizeBool : Nat := Consts.x86JitSizeBool

/-! ## ISA fragment (independent of the encoders) -/

/-- Architectural state visible to the properties: rip, 16 general registers
    (0 = rax, 4 = rsp), 16 vector registers, flags. -/
structure Cpu where
  rip : Nat
  gpr : Nat → Nat
  xmm : Nat → Nat
  flags : Nat

def setReg (f : Nat → Nat) (r v : Nat) : Nat → Nat := fun x => if x = r then v else f x

inductive Instr where
  | jmpRel32 (imm : Nat)       -- E9 cd            JMP rel32
  | movRaxImm64 (imm : Nat)    -- REX.W B8 io      MOV rax, imm64
  | jmpRax                     -- FF /4 (modrm E0) JMP rax
  | movRaxSImm32 (imm : Nat)   -- REX.W C7 /0 id   MOV rax, sign-extended imm32 (modrm C0)
  | ret                        -- C3               RET (near)
  deriving Repr, DecidableEq

def rd32 (m : Nat → Nat) (a : Nat) : Nat := de32 (m a) (m (a+1)) (m (a+2)) (m (a+3))
def rd64 (m : Nat → Nat) (a : Nat) : Nat :=
  de64 (m a) (m (a+1)) (m (a+2)) (m (a+3)) (m (a+4)) (m (a+5)) (m (a+6)) (m (a+7))

/-- decode the instruction at address `a` -/
def decode (m : Nat → Nat) (a : Nat) : Option Instr :=
  if m a = 0xE9 then some (Instr.jmpRel32 (rd32 m (a+1)))
  else if m a = 0x48 ∧ m (a+1) = 0xB8 then some (Instr.movRaxImm64 (rd64 m (a+2)))
  else if m a = 0xFF ∧ m (a+1) = 0xE0 then some Instr.jmpRax
  else if m a = 0x48 ∧ m (a+1) = 0xC7 ∧ m (a+2) = 0xC0 then some (Instr.movRaxSImm32 (rd32 m (a+3)))
  else if m a = 0xC3 then some Instr.ret
  else none

def wrap64 (i : Int) : Nat := (i % 18446744073709551616).toNat

/-- one instruction; `none` = not one of the five forms -/
def step (m : Nat → Nat) (c : Cpu) : Option Cpu :=
  match decode m c.rip with
  | none => none
  | some (Instr.jmpRel32 imm) => some { c with rip := wrap64 ((c.rip : Int) + 5 + sext32 imm) }
  | some (Instr.movRaxImm64 imm) => some { c with rip := c.rip + 10, gpr := setReg c.gpr 0 imm }
  | some Instr.jmpRax => some { c with rip := c.gpr 0 }
  | some (Instr.movRaxSImm32 imm) =>
      some { c with rip := c.rip + 7, gpr := setReg c.gpr 0 (wrap64 (sext32 imm)) }
  | some Instr.ret =>
      some { c with rip := rd64 m (c.gpr 4), gpr := setReg c.gpr 4 ((c.gpr 4 + 8) % 18446744073709551616) }

def run (m : Nat → Nat) : Nat → Cpu → Option Cpu
  | 0, c => some c
  | n+1, c => match step m c with
    | none => none
    | some c' => run m n c'

/-- `m` holds the bytes `bs` at address `a` -/
def Holds (m : Nat → Nat) (a : Nat) (bs : List Nat) : Prop :=
  ∀ i, i < bs.length → m (a + i) = bs.getD i 0

/-! ## Byte-list view used by the driver: follow a freshly generated branch placed at `at`. -/

def memOfBytes (a : Nat) (bs : List Nat) : Nat → Nat :=
  fun x => if a ≤ x ∧ x < a + bs.length then bs.getD (x - a) 0xCC else 0xCC

/-- Execute the (at most two-instruction) sequence `bs` placed at `a` from its first byte and
    report where control goes, together with rax: a `jmp rel32` leaves after one step, a
    `mov rax, imm64` must be followed by an instruction that leaves. -/
def follow (a : Nat) (bs : List Nat) (rax : Nat) : Option (Nat × Nat) :=
  let m := memOfBytes a bs
  let c0 : Cpu := { rip := a, gpr := setReg (fun _ => 0) 0 rax, xmm := fun _ => 0, flags := 0 }
  match decode m a with
  | some (Instr.jmpRel32 _) => (step m c0).map (fun c => (c.rip, c.gpr 0))
  | some (Instr.movRaxImm64 _) =>
    match step m c0 with
    | none => none
    | some c1 =>
      match decode m c1.rip with
      | some Instr.jmpRax => (step m c1).map (fun c => (c.rip, c.gpr 0))
      | some (Instr.jmpRel32 _) => (step m c1).map (fun c => (c.rip, c.gpr 0))
      | _ => none
  | _ => none

end Inj.X86
