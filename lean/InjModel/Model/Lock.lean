/-
  Model/Lock.lean — the one-mutex ownership protocol of `InjectorPP::new` / `InjectorPP::prevent`
  (injector.rs) as a labelled transition system over any number of threads.  Import-free.

  What the source contributes (extracted by translate/layout.py):
    * whether `new` / `prevent` take LOCK_FUNCTION and keep the guard in a field,
    * whether poisoning is recovered,
    * the order in which an injector lets go: `Drop::drop` body first (if it restores the
      guards), then the struct fields in declaration order.
-/
import InjModel.Generated.Layout
namespace Inj.Lock
open Inj.Generated.Layout

inductive Kind where
  | injector
  | preventer
  deriving Repr, DecidableEq

inductive How where
  | drop      -- normal scope exit
  | panic     -- unwinding
  deriving Repr, DecidableEq

/-- what a thread is doing -/
inductive Pc where
  | idle
  | holding (k : Kind) (installed : Bool)
  | releasing (k : Kind) (installed : Bool) (rest : List Field) (how : How)
  deriving Repr, DecidableEq

structure LState where
  /-- thread that owns the mutex -/
  owner : Option Nat
  /-- what a call of the shared function executes: `none` = the original, `some t` = t's fake -/
  fn : Option Nat
  poisoned : Bool
  pcs : Nat → Pc

def setPc (f : Nat → Pc) (t : Nat) (p : Pc) : Nat → Pc := fun x => if x = t then p else f x

/-- source-dependent parameters of the protocol -/
structure Params where
  newTakesLock : Bool
  preventTakesLock : Bool
  poisonRecovered : Bool
  /-- micro-steps of letting go of an injector, in order -/
  injectorRelease : List Field
  /-- micro-steps of letting go of a preventer -/
  preventerRelease : List Field
  /-- alternative micro-step sequences of an injector whose `Drop::drop` body is cut short by a
      panic of a call-count verifier dropped inside it (the rest of the body is skipped, the
      fields are still dropped in order) -/
  injectorPanicPaths : List (List Field)
  deriving Repr, DecidableEq

def takesLock (p : Params) : Kind → Bool
  | Kind.injector => p.newTakesLock
  | Kind.preventer => p.preventTakesLock

def releaseOrder (p : Params) : Kind → List Field
  | Kind.injector => p.injectorRelease
  | Kind.preventer => p.preventerRelease

/-- the micro-step sequence a release follows: the normal one, or (injector, not already
    unwinding) one of the panic paths -/
def chosenOrder (p : Params) (k : Kind) (how : How) : Option Nat → Option (List Field)
  | none => some (releaseOrder p k)
  | some i => if k = Kind.injector ∧ how = How.drop then p.injectorPanicPaths[i]? else none

inductive Action where
  | acquire (t : Nat) (k : Kind)          -- `InjectorPP::new()` / `InjectorPP::prevent()` returns
  | install (t : Nat)                     -- `when_called(shared).will_execute(fake_t)`
  | beginRelease (t : Nat) (how : How) (alt : Option Nat)   -- scope exit or unwinding starts; `alt` picks a panic path
  | micro (t : Nat)                       -- next micro-step of the release
  deriving Repr, DecidableEq

/-- `none` = the action is not enabled in this state -/
def step (p : Params) (s : LState) : Action → Option LState
  | Action.acquire t k =>
    match s.pcs t with
    | Pc.idle =>
      if takesLock p k then
        if s.owner = none ∧ (s.poisoned = false ∨ p.poisonRecovered = true) then
          some { s with owner := some t, poisoned := false, pcs := setPc s.pcs t (Pc.holding k false) }
        else none
      else some { s with pcs := setPc s.pcs t (Pc.holding k false) }
    | _ => none
  | Action.install t =>
    match s.pcs t with
    | Pc.holding Kind.injector _ => some { s with fn := some t, pcs := setPc s.pcs t (Pc.holding Kind.injector true) }
    | _ => none
  | Action.beginRelease t how alt =>
    match s.pcs t with
    | Pc.holding k inst =>
      match chosenOrder p k how alt with
      | some ord => some { s with pcs := setPc s.pcs t (Pc.releasing k inst ord how) }
      | none => none
    | _ => none
  | Action.micro t =>
    match s.pcs t with
    | Pc.releasing k inst [] _ => some { s with pcs := setPc s.pcs t Pc.idle }
    | Pc.releasing k inst (Field.guards :: rest) how =>
      -- PatchGuard::drop of every guard: the function gets its original code back
      some { s with fn := if inst then none else s.fn, pcs := setPc s.pcs t (Pc.releasing k false rest how) }
    | Pc.releasing k inst (Field.lock :: rest) how =>
      -- MutexGuard::drop: unlock (poisons when unwinding)
      some { s with owner := if takesLock p k then none else s.owner,
                    poisoned := if takesLock p k then (how == How.panic) else s.poisoned,
                    pcs := setPc s.pcs t (Pc.releasing k inst rest how) }
    | Pc.releasing k inst (_ :: rest) how => some { s with pcs := setPc s.pcs t (Pc.releasing k inst rest how) }
    | _ => none

def init : LState := { owner := none, fn := none, poisoned := false, pcs := fun _ => Pc.idle }

/-- run a schedule; disabled actions are skipped (a blocked thread simply does not move) -/
def run (p : Params) : LState → List Action → LState
  | s, [] => s
  | s, a :: as => match step p s a with
    | some s' => run p s' as
    | none => run p s as

/-- reachable by some interleaving -/
inductive Reach (p : Params) : LState → Prop where
  | init : Reach p init
  | step (s s' : LState) (a : Action) : Reach p s → step p s a = some s' → Reach p s'

/-- does this thread hold the mutex (from acquisition until the `lock` micro-step)? -/
def holdsLock : Pc → Bool
  | Pc.idle => false
  | Pc.holding _ _ => true
  | Pc.releasing _ _ rest _ => rest.contains Field.lock

/-- is this thread's fake the code of the shared function? -/
def fakeLive : Pc → Bool
  | Pc.holding Kind.injector true => true
  | Pc.releasing _ true rest _ => rest.contains Field.guards
  | _ => false

/-- panic paths of a `Drop::drop` body followed by the field drops -/
def panicPathsOf (body fields : List Field) : List (List Field) :=
  (List.range body.length).filterMap fun i =>
    if body[i]? = some Field.verifiers then some (body.take (i + 1) ++ fields) else none

/-- the parameters as the source has them -/
def srcParams : Params :=
  { newTakesLock := Generated.Layout.newTakesLock && Generated.Layout.sameLockStatic,
    preventTakesLock := Generated.Layout.preventTakesLock && Generated.Layout.sameLockStatic && Generated.Layout.preventerHoldsGuard,
    poisonRecovered := Generated.Layout.poisonRecovered,
    -- `Drop::drop` runs before any field is dropped
    injectorRelease := Generated.Layout.injectorDropBody ++ Generated.Layout.injectorFields,
    preventerRelease := [Field.lock],
    injectorPanicPaths := panicPathsOf Generated.Layout.injectorDropBody Generated.Layout.injectorFields }

end Inj.Lock
