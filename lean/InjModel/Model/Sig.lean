/-
  Model/Sig.lean — function-pointer types as `std::any::type_name` renders them (token level),
  the signature gates of injector.rs (string equality; the top-level-return-type test of
  `will_return_boolean`).  Import-free.
-/
import InjModel.Generated.Layout
namespace Inj.Sig

/-- tokens of a rendered type; identifiers (paths such as `i32`, `core::option::Option`) are
    numbered, lifetimes are not rendered -/
inductive Tok where
  | id (n : Nat) | num (n : Nat)
  | amp | mut_ | star | const_ | dyn_
  | lp | rp | lb | rb | lt | gt | comma | semi | arrow
  | fn_ | unsafe_ | extern_ (abi : Nat)
  deriving Repr, DecidableEq

mutual
inductive Ty where
  | prim (id : Nat)                          -- `i32`, `bool`, `alloc::string::String`, a user path
  | ref (m : Bool) (t : Ty)                  -- `&T`, `&mut T`
  | ptr (m : Bool) (t : Ty)                  -- `*const T`, `*mut T`
  | tuple (ts : TyList)                      -- `()`, `(T,)`, `(T, U)`
  | slice (t : Ty)                           -- `[T]`
  | array (t : Ty) (n : Nat)                 -- `[T; n]`
  | app (id : Nat) (args : TyList)           -- `Option<T>`
  | fn_ (f : FnTy)                           -- a function pointer
  | dynfn (params : TyList) (ret : Ty)       -- `dyn Fn(P) -> R`
inductive TyList where
  | nil
  | cons (t : Ty) (ts : TyList)
inductive FnTy where
  | mk (unsafe_ : Bool) (abi : Nat) (params : TyList) (ret : Ty)     -- abi 0 = "Rust"
end

def unitTy : Ty := Ty.tuple TyList.nil

def isUnit : Ty → Bool
  | Ty.tuple TyList.nil => true
  | _ => false

mutual
def render : Ty → List Tok
  | Ty.prim n => [Tok.id n]
  | Ty.ref m t => Tok.amp :: (if m then [Tok.mut_] else []) ++ render t
  | Ty.ptr m t => Tok.star :: (if m then Tok.mut_ else Tok.const_) :: render t
  | Ty.tuple ts => Tok.lp :: renderTuple ts ++ [Tok.rp]
  | Ty.slice t => Tok.lb :: render t ++ [Tok.rb]
  | Ty.array t n => Tok.lb :: render t ++ [Tok.semi, Tok.num n, Tok.rb]
  | Ty.app n args => Tok.id n :: Tok.lt :: renderArgs args ++ [Tok.gt]
  | Ty.fn_ f => renderFn f
  | Ty.dynfn ps r => Tok.dyn_ :: Tok.id 9999 :: Tok.lp :: renderArgs ps ++ [Tok.rp] ++ renderRet r
/-- comma separated -/
def renderArgs : TyList → List Tok
  | TyList.nil => []
  | TyList.cons t TyList.nil => render t
  | TyList.cons t ts => render t ++ [Tok.comma] ++ renderArgs ts
/-- tuple fields: only a 1-tuple has a trailing comma -/
def renderTuple : TyList → List Tok
  | TyList.nil => []
  | TyList.cons t TyList.nil => render t ++ [Tok.comma]
  | TyList.cons t ts => render t ++ [Tok.comma] ++ renderArgs ts
def renderRet : Ty → List Tok
  | Ty.tuple TyList.nil => []                -- `-> ()` is not printed
  | t => Tok.arrow :: render t
def renderFn : FnTy → List Tok
  | FnTy.mk u abi ps r =>
    (if u then [Tok.unsafe_] else []) ++ (if abi = 0 then [] else [Tok.extern_ abi]) ++
    [Tok.fn_, Tok.lp] ++ renderArgs ps ++ [Tok.rp] ++ renderRet r
end

/-- the identifier number of `bool` -/
def boolId : Nat := 0

/-- `target.signature != self.expected_signature` → panic; the empty list stands for `""`
    (the unchecked macros) -/
def gate (expected got : List Tok) : Bool := expected == got

/-- scan for the parenthesis closing the one already opened (`depth` open ones) and return what
    follows it -/
def afterClose : Nat → List Tok → Option (List Tok)
  | _, [] => none
  | d, Tok.lp :: ts => afterClose (d + 1) ts
  | d, Tok.rp :: ts => if d = 1 then some ts else if d = 0 then none else afterClose (d - 1) ts
  | d, _ :: ts => afterClose d ts

/-- everything after the first `(` … its matching `)` -/
def afterParams : List Tok → Option (List Tok)
  | [] => none
  | Tok.lp :: ts => afterClose 1 ts
  | _ :: ts => afterParams ts

/-- `signature_returns_bool` (post-fix `will_return_boolean` gate) -/
def boolGateTopLevel (sig : List Tok) : Bool :=
  match afterParams sig with
  | some rest => rest == [Tok.arrow, Tok.id boolId]
  | none => false

/-- the pinned tree's test: the text ends with `-> bool` -/
def boolGateEndsWith (sig : List Tok) : Bool :=
  sig.length ≥ 2 && sig.drop (sig.length - 2) == [Tok.arrow, Tok.id boolId]

/-- the gate the source implements, per the translator -/
def boolGate (sig : List Tok) : Bool :=
  match Generated.Layout.boolGate with
  | Generated.Layout.BoolGateSrc.topLevelReturnType => boolGateTopLevel sig
  | Generated.Layout.BoolGateSrc.endsWithArrowBool => boolGateEndsWith sig
  | Generated.Layout.BoolGateSrc.unknown => false

def FnTy.ret : FnTy → Ty
  | FnTy.mk _ _ _ r => r

end Inj.Sig
