/-
  Model/Machine.lean — the save / patch / restore discipline of `common.rs`, `patch_amd64.rs`
  and `injector.rs` over a byte memory, with the OS-visible event log.  Import-free.

  State is immutable; every Rust `&mut`/raw-pointer write becomes a function returning the new
  state.  The trampoline address of each installation is a *parameter* (the oracle's answer,
  see Model/Alloc.lean).
-/
import InjModel.Model.Mem
import InjModel.Model.X86
namespace Inj.Machine
open Inj

/-- `PatchGuard` -/
structure Guard where
  addr : Nat
  saved : List Nat
  patchLen : Nat
  jit : Nat
  jitLen : Nat
  deriving Repr, DecidableEq

inductive Event where
  | mmap (a n : Nat)
  | munmap (a n : Nat)
  | mprotect (a n : Nat)
  | write (a : Nat) (bs : List Nat)
  | flush (lo hi : Nat)
  | ret                      -- control returns to the user
  deriving Repr, DecidableEq

structure MState where
  mem : Mem
  /-- which byte addresses are currently writable -/
  writable : Nat → Bool
  /-- trampoline mappings created by the library and still mapped -/
  maps : List (Nat × Nat)
  /-- `InjectorPP.guards`, oldest first -/
  guards : List Guard
  /-- newest first -/
  log : List Event
  /-- a write hit a non-writable byte (SIGSEGV in the real process) -/
  fault : Bool

/-- `make_memory_writable_and_executable_linux(func, len)`: the byte range handed to `mprotect`.
    (start, size). -/
def protectSpan (func len : Nat) : Nat × Nat :=
  let s := pageStart func
  (s, pageUp (func + len) - s)

def allWritable (w : Nat → Bool) (a : Nat) : Nat → Bool
  | 0 => true
  | n+1 => w a && allWritable w (a+1) n

def logEv (s : MState) (e : Event) : MState := { s with log := e :: s.log }

/-- the kernel maps a fresh, zero-filled rwx region (answer of the oracle) -/
def doMmap (s : MState) (a n : Nat) : MState :=
  { s with mem := fun x => if a ≤ x ∧ x < a + pageUp n then 0 else s.mem x,
           maps := s.maps ++ [(a, n)],
           writable := fun x => if a ≤ x ∧ x < a + pageUp n then true else s.writable x,
           log := Event.mmap a n :: s.log }

def doMunmap (s : MState) (a n : Nat) : MState :=
  { s with maps := s.maps.erase (a, n),
           writable := fun x => if a ≤ x ∧ x < a + pageUp n then false else s.writable x,
           log := Event.munmap a n :: s.log }

def doMprotect (s : MState) (a n : Nat) : MState :=
  { s with writable := fun x => if a ≤ x ∧ x < a + n then true else s.writable x,
           log := Event.mprotect a n :: s.log }

/-- raw copy; faults when some destination byte is not writable -/
def doWrite (s : MState) (a : Nat) (bs : List Nat) : MState :=
  if allWritable s.writable a bs.length then
    { s with mem := writeMem s.mem a bs, log := Event.write a bs :: s.log }
  else { s with fault := true }

/-- `inject_asm_code(bs, a)`: copy then `clear_cache(a, a+len)` -/
def injectAsm (s : MState) (a : Nat) (bs : List Nat) : MState :=
  logEv (doWrite s a bs) (Event.flush a (a + bs.length))

/-- `patch_function(func, bs)` (non-macOS): mprotect the span, then `inject_asm_code` -/
def patchFunction (s : MState) (func : Nat) (bs : List Nat) : MState :=
  let sp := protectSpan func bs.length
  injectAsm (doMprotect s sp.1 sp.2) func bs

/-- What gets written into the trampoline. -/
inductive Payload where
  | exec (fake : Nat)      -- `replace_function_with_other_function`
  | bool (v : Bool)        -- `replace_function_return_boolean`
  deriving Repr, DecidableEq

def Payload.jitSize : Payload → Nat
  | Payload.exec _ => X86.jitSizeExec
  | Payload.bool _ => X86.jitSizeBool

/-- bytes written into the trampoline; `none` = the encoder panicked (debug-build overflow) -/
def payloadCode (mode : Mode) (p : Payload) (jit : Nat) : Option (List Nat) :=
  match p with
  | Payload.exec fake => match X86.genBranch mode jit fake with
    | Res.ok c => some c
    | Res.panic _ => none
  | Payload.bool v => some (X86.boolStub v)

/-- x86-64 installation, given the trampoline address `jit` the allocator obtained.
    `none` = the library panicked (debug-build arithmetic overflow in an encoder) before writing
    anything at `func`. -/
def installX86 (mode : Mode) (s : MState) (func : Nat) (p : Payload) (jit : Nat) : Option MState :=
  match payloadCode mode p jit, X86.genBranch mode func jit with
  | some code, Res.ok br =>
    let s2 := injectAsm (doMmap s jit p.jitSize) jit code
    let saved := readMem s2.mem func br.length
    let s3 := patchFunction s2 func br
    some (logEv { s3 with guards := s3.guards ++ [Guard.mk func saved br.length jit p.jitSize] } Event.ret)
  | _, _ => none

/-- `PatchGuard::drop` -/
def restoreGuard (s : MState) (g : Guard) : MState :=
  let s1 := patchFunction s g.addr (g.saved.take g.patchLen)
  let s2 := if g.jit ≠ 0 then doMunmap s1 g.jit g.jitLen else s1
  logEv s2 (Event.flush g.addr (g.addr + g.patchLen))

/-- Order in which `InjectorPP` drops its guards. -/
inductive DropOrder where
  | oldestFirst            -- plain `Vec<PatchGuard>` field drop
  | newestFirst            -- explicit reverse / pop loop
  deriving Repr, DecidableEq

def dropGuards (s : MState) : List Guard → MState
  | [] => s
  | g :: gs => dropGuards (restoreGuard s g) gs

/-- the injector goes out of scope -/
def dropInjector (ord : DropOrder) (s : MState) : MState :=
  let gs := match ord with
    | DropOrder.oldestFirst => s.guards
    | DropOrder.newestFirst => s.guards.reverse
  logEv { (dropGuards s gs) with guards := [] } Event.ret

/-! ### instruction-cache discipline over the event log (C17) -/

def rangeOf (a n : Nat) : List Nat := (List.range n).map (a + ·)

/-- Process events oldest first, tracking the bytes written and not yet flushed.
    `none` = control returned to the user (`ret`) while some written byte was unflushed. -/
def dirtyAfter : List Nat → List Event → Option (List Nat)
  | d, [] => some d
  | d, Event.write a bs :: es => dirtyAfter (d ++ rangeOf a bs.length) es
  | d, Event.flush lo hi :: es => dirtyAfter (d.filter (fun x => !(decide (lo ≤ x) && decide (x < hi)))) es
  | d, Event.munmap a n :: es => dirtyAfter (d.filter (fun x => !(decide (a ≤ x) && decide (x < a + pageUp n)))) es
  | d, Event.ret :: es => if d.isEmpty then dirtyAfter d es else none
  | d, Event.mmap _ _ :: es => dirtyAfter d es
  | d, Event.mprotect _ _ :: es => dirtyAfter d es

/-- the log (newest first) never lets control return with an unflushed written byte -/
def flushClean (log : List Event) : Prop := dirtyAfter [] log.reverse = some []

/-- `munmap` calls in a list of events, in order -/
def munmapsOf : List Event → List (Nat × Nat)
  | [] => []
  | Event.munmap a n :: es => (a, n) :: munmapsOf es
  | _ :: es => munmapsOf es

def mmapsOf : List Event → List (Nat × Nat)
  | [] => []
  | Event.mmap a n :: es => (a, n) :: mmapsOf es
  | _ :: es => mmapsOf es

/-- one installation request: target, payload, and where the OS put the trampoline -/
structure Req where
  func : Nat
  payload : Payload
  jit : Nat
  deriving Repr, DecidableEq

/-- a whole install history through one injector; `none` = some installation panicked -/
def installs (mode : Mode) (s : MState) : List Req → Option MState
  | [] => some s
  | r :: rs =>
    match installX86 mode s r.func r.payload r.jit with
    | none => none
    | some s1 => installs mode s1 rs

end Inj.Machine
