/-
  Model/Mem.lean — byte memory as a total function, block read/write.  Import-free.
-/
import InjModel.Model.Bytes
namespace Inj

abbrev Mem := Nat → Nat

/-- `ptr::copy_nonoverlapping(bs, a, bs.len())` -/
def writeMem (m : Mem) (a : Nat) (bs : List Nat) : Mem :=
  fun x => if a ≤ x ∧ x < a + bs.length then bs.getD (x - a) 0 else m x

/-- `read_bytes(a, n)` -/
def readMem (m : Mem) (a : Nat) : Nat → List Nat
  | 0 => []
  | n+1 => m a :: readMem m (a+1) n

def pageSize : Nat := 4096

def pageStart (a : Nat) : Nat := a / pageSize * pageSize

/-- round `a` up to a page boundary -/
def pageUp (a : Nat) : Nat := (a + (pageSize - 1)) / pageSize * pageSize

end Inj
