/-
  C08 — every `fake!` option combination compiles and means the same thing.
  `Generated.FakeArms.arms` is the table of arms as found in macros.rs at check time.
-/
import InjModel.Model.FakeArm
namespace Inj.Props
open Inj Inj.FakeArm Inj.Generated.FakeArms

/-- the general part: every allowed skeleton has the common meaning for *every* environment
    (every value of the condition, of the counter and of N) -/
theorem allowed_meaning (o : Opts) (t : Cond × List Stmt × ElseBr) (ht : t ∈ allowed o) (e : Env) :
    semParts t.1 t.2.1 t.2.2 e = refSem o e := by
  obtain ⟨w, a, r, tm⟩ := o
  obtain ⟨cnd, cnt, n⟩ := e
  cases w <;> cases a <;> cases r <;> cases tm <;>
    simp [allowed, canonStmts] at ht <;>
    rcases ht with h | h | h | h <;> (try subst h) <;>
    cases cnd <;> simp [semParts, runStmts, refSem] <;>
    (try (split <;> simp_all)) <;> (try omega)

theorem shape_meaning (a : Arm) (h : shapeOK a = true) (e : Env) : sem a e = refSem (optsOf a) e := by
  unfold shapeOK at h
  simp only [Bool.and_eq_true, List.contains_iff_mem] at h
  exact allowed_meaning (optsOf a) _ h.2 e

/-- the macro was found and every arm was understood by the translator -/
theorem C08_parsed : macroFound = true ∧ arms.all (fun a => a.parsed) = true := by decide

/-- **Compiles (scoping)**: every arm uses only metavariables its own pattern binds. -/
theorem C08_scoped : arms.all (fun a => a.unboundVars == 0) = true := by decide

/-- **Kind**: the generated `fn fake` and the function-pointer coercion carry exactly the
    qualifiers (safe / unsafe / extern "C" / extern "system") and return type of the pattern. -/
theorem C08_kind : arms.all (fun a => a.fakeKind == a.kind && a.coerceKind == a.kind &&
    a.fakeRet == a.matcherRet && a.coerceRet == a.matcherRet && a.kind != FnKind.unknown) = true := by decide

/-- the finite part: every arm in the table has the right shape -/
theorem C08_shapes : arms.all shapeOK = true := by decide

/-- **One meaning**: for every arm found in the source and every call environment, the arm
    means what its options say. -/
theorem C08_meaning (a : Arm) (ha : a ∈ arms) (e : Env) : sem a e = refSem (optsOf a) e :=
  shape_meaning a (List.all_eq_true.mp C08_shapes a ha) e

/-- **Budget**: an arm takes a `times` option iff it creates the call-site counter and hands a
    counting verifier to the injector. -/
theorem C08_verifier : arms.all (fun a =>
    (a.optTimes && a.verifier == VerifierK.withCount && a.counterStatic) ||
    (!a.optTimes && a.verifier == VerifierK.dummy)) = true := by decide

/-- **Reachable**: no arm is shadowed by an earlier one — the canonical use of the i-th arm
    selects the i-th arm. -/
theorem C08_reach : (List.range arms.length).all (fun i =>
    match arms[i]? with
    | some a => firstMatch arms (canonicalUse a) == some i
    | none => false) = true := by decide

/-- unit arms never take `returns`, value arms always do -/
theorem C08_returns : arms.all (fun a => (a.matcherRet == RetTy.unit) != a.optReturns) = true := by decide

end Inj.Props

#print axioms Inj.Props.C08_parsed
#print axioms Inj.Props.C08_scoped
#print axioms Inj.Props.C08_kind
#print axioms Inj.Props.C08_shapes
#print axioms Inj.Props.C08_meaning
#print axioms Inj.Props.C08_verifier
#print axioms Inj.Props.C08_reach
#print axioms Inj.Props.C08_returns
#print axioms Inj.Props.allowed_meaning
#print axioms Inj.Props.shape_meaning
