/-
  C11 — the trampoline is placed within reach or installation fails cleanly.
  `Alloc.search` is `allocate_jit_memory_unix` as a function of the kernel's answers to the
  hinted mmap calls (the oracle script); the theorems quantify over *all* scripts.
-/
import InjModel.Generated.Layout
import InjModel.Lemmas.Alloc
import InjModel.Props.C01
import InjModel.Props.C15
namespace Inj.Props
open Inj Inj.Alloc

theorem C11_consts_found : Generated.Consts.missing = [] ∧ Generated.Consts.linuxMaxRange = 134217728 := by decide

/-- **Sound, and gives back what it rejects** — for every target address (including those below
    the range, where the window is clipped at 0), every page size, and every sequence of kernel
    answers: if the search returns `a` then `|a − src| < range`, and `a` is the only mapping
    obtained and not unmapped; if it panics, *nothing* it obtained is left mapped. -/
theorem C11_sound (src range page size : Nat) (answers : List (Option Nat)) :
    (∀ a, (search src range page size answers).1 = AResult.ok a →
      absDiff a src < range ∧ leaked (search src range page size answers).2 [] = [a]) ∧
    ((search src range page size answers).1 = AResult.panic →
      leaked (search src range page size answers).2 [] = []) := by
  have := loop_sound src range page size answers (src - range) [] (by simp)
  simpa [search] using this

/-- **Terminates**: the loop probes at most once per page of the (possibly clipped) window —
    given that many answers it always finishes (returns or panics). -/
theorem C11_terminates (src range page size : Nat) (hp : 0 < page) (answers : List (Option Nat))
    (h : (src + range - (src - range)) / page + 1 ≤ answers.length) :
    (search src range page size answers).1 ≠ AResult.stuck :=
  loop_terminates src range page size hp answers (src - range) (Or.inl h)

/-- at most `2·range/page + 1` probes, whatever the target -/
theorem C11_probe_bound (src range page : Nat) (hp : 0 < page) :
    (src + range - (src - range)) / page + 1 ≤ 2 * range / page + 1 := by
  have : src + range - (src - range) ≤ 2 * range := by omega
  have := Nat.div_le_div_right (c := page) this
  omega

/-- **Within reach, x86-64**: whatever address the search returns, the entry branch written for
    it lands exactly on it (C01_branch_lands needs no range hypothesis at all). -/
theorem C11_reach_x86 (mode : Mode) (func a : Nat)
    (hf : func < 18446744073709551616) (ha : a < 18446744073709551616) :
    (∃ why, X86.genBranch mode func a = Res.panic why) ∨
    (∃ bs, X86.genBranch mode func a = Res.ok bs ∧ (bs.length = 5 ∨ bs.length = 12)) := by
  rcases C01_branch_lands mode func a hf ha with h | ⟨bs, h1, h2, _⟩
  · left; exact h
  · right; exact ⟨bs, h1, h2⟩

/-- **Within reach, AArch64**: every placement the search accepts (strictly inside ±128 MiB) is
    encodable by the `B` written at the entry — the installation cannot be refused after the
    mapping was made. -/
theorem C11_reach_a64 (func a : Nat) (hf : func < 9223372036854775808) (ha : a < 9223372036854775808)
    (af : func % 4 = 0) (aa : a % 4 = 0) (h : absDiff a func < 134217728) :
    ∃ imm26, A64.entryLinux func a = Res.ok [335544320 + imm26, 3573751839, 3573751839] := by
  have hr : -134217728 ≤ (a : Int) - func ∧ (a : Int) - func < 134217728 := by
    unfold absDiff at h; split at h <;> omega
  obtain ⟨i, h1, _⟩ := (C15_entry_linux func a hf ha af aa).1 hr
  exact ⟨i, h1⟩

/-- non-vacuity: a script that first answers far away, then fails, then honours -/
example : search 0x500000000000 134217728 4096 12 [some 0x7f0000000000, none, some 0x4ffff8002000] =
    (AResult.ok 0x4ffff8002000,
      [AEvent.mmap 0x4ffff8000000 12 (some 0x7f0000000000), AEvent.munmap 0x7f0000000000 12,
       AEvent.mmap 0x4ffff8001000 12 none, AEvent.mmap 0x4ffff8002000 12 (some 0x4ffff8002000)]) := by decide
/-- exactly +range is rejected and given back -/
example : (search 0x500000000000 134217728 4096 12 [some 0x500008000000]).2 =
    [AEvent.mmap 0x4ffff8000000 12 (some 0x500008000000), AEvent.munmap 0x500008000000 12] := by decide

/-- the model's state is complete for the back ends: `injector_core` declares no process-wide or
    thread-local mutable state (regenerated from the source on every run) -/
theorem C11_state_modelled : Generated.Layout.coreStatics = [] := by decide

end Inj.Props

#print axioms Inj.Props.C11_consts_found
#print axioms Inj.Props.C11_sound
#print axioms Inj.Props.C11_terminates
#print axioms Inj.Props.C11_probe_bound
#print axioms Inj.Props.C11_reach_x86
#print axioms Inj.Props.C11_reach_a64
#print axioms Inj.Props.C11_state_modelled
