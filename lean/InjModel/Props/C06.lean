/-
  C06 — `times: N` admits exactly N matching calls and is verified at scope exit.
  A schedule is the linearisation order of the calls (the counter update is one atomic
  fetch_add), so "every interleaving over any number of threads" = "every list of calls".
  The link from each macro arm to this counter model is C08 (`FakeArm.sem` of every `times`
  arm is `fetchAddPrev; ifPrevGeExpectedPanicOver; …`).
-/
import InjModel.Lemmas.Counter
import InjModel.Generated.Layout
import InjModel.Generated.FakeArms
namespace Inj.Props
open Inj Inj.Counter

/-- **Admission**: in every schedule, a matching call returns normally iff fewer than N matching
    calls precede it, and panics "called more times" otherwise. -/
theorem C06_admit (n : Nat) (pre post : List Bool) :
    (runCalls n 0 (pre ++ true :: post)).1.getD pre.length CallOut.ok =
      (if countTrue pre < n then CallOut.ok else CallOut.panicOver) := by
  rw [runCalls_at]
  simp only [call, Nat.zero_add, if_true]
  by_cases h : countTrue pre < n
  · have : ¬ (countTrue pre ≥ n) := by omega
    simp [h, this]
  · have : countTrue pre ≥ n := by omega
    simp [h, this]

/-- **Rejection**: a call whose arguments fail `when` always panics "unexpected arguments" … -/
theorem C06_reject (n : Nat) (pre post : List Bool) :
    (runCalls n 0 (pre ++ false :: post)).1.getD pre.length CallOut.ok = CallOut.panicUnexpected := by
  rw [runCalls_at]; rfl

/-- … and is not counted: the counter ends at the number of matching calls, whatever the
    interleaving with non-matching ones. -/
theorem C06_final (n : Nat) (sched : List Bool) : (runCalls n 0 sched).2 = countTrue sched := by
  rw [runCalls_cnt]; omega

/-- **Exactness under any split**: the numbers of admitted / over-budget / rejected calls depend
    only on how many matching (k) and non-matching calls there are, not on their order —
    hence not on how they are spread over threads. -/
theorem C06_split (n : Nat) (sched : List Bool) :
    countOut CallOut.ok (runCalls n 0 sched).1 = min (countTrue sched) n ∧
    countOut CallOut.panicOver (runCalls n 0 sched).1 = countTrue sched - min (countTrue sched) n ∧
    countOut CallOut.panicUnexpected (runCalls n 0 sched).1 = sched.length - countTrue sched := by
  have := runCalls_counts n sched 0
  simpa using this

/-- the verifier as written in verifier.rs tests `panicking()` before it panics -/
theorem C06_source_verifier : Generated.Layout.verifierChecksPanicking = true ∧
    Generated.Layout.verifierComparesNe = true ∧ Generated.Layout.verifierLoadsCounter = true := by decide

/-- **Tie to the source, every arm**: each `fake!` arm that takes `times` starts its admitted
    branch with the single atomic `fetch_add` followed by the `prev >= N` test — nothing is read
    or written between taking the previous value and incrementing (a load-then-store update
    would be extracted as unknown statements and fail here). -/
theorem C06_arms_atomic : Generated.FakeArms.arms.all (fun a =>
    !a.optTimes || (a.thenStmts.take 2 == [Generated.FakeArms.Stmt.fetchAddPrev, Generated.FakeArms.Stmt.ifPrevGeExpectedPanicOver]
      && a.verifier == Generated.FakeArms.VerifierK.withCount && a.counterStatic)) = true := by decide

/-- **Scope exit**: not unwinding — panics iff the count differs from N, naming both numbers;
    already unwinding — never panics. -/
theorem C06_exit (n k : Nat) :
    (verifierDrop Generated.Layout.verifierChecksPanicking n k false = ExitOut.panicMismatch n k ↔ k ≠ n) ∧
    (verifierDrop Generated.Layout.verifierChecksPanicking n k false = ExitOut.ok ↔ k = n) ∧
    verifierDrop Generated.Layout.verifierChecksPanicking n k true = ExitOut.ok := by
  have hs : Generated.Layout.verifierChecksPanicking = true := by decide
  rw [hs]
  unfold verifierDrop
  by_cases h : k = n
  · simp [h]
  · simp [h]

/-- non-vacuity -/
example : (runCalls 2 0 [true, false, true, true]).1 =
    [CallOut.ok, CallOut.panicUnexpected, CallOut.ok, CallOut.panicOver] := by decide

end Inj.Props

#print axioms Inj.Props.C06_admit
#print axioms Inj.Props.C06_reject
#print axioms Inj.Props.C06_final
#print axioms Inj.Props.C06_split
#print axioms Inj.Props.C06_source_verifier
#print axioms Inj.Props.C06_exit
#print axioms Inj.Props.C06_arms_atomic
