/-
  C04 — injector and preventer guards are mutually exclusive across threads.
  The protocol is the transition system of Model/Lock.lean over *any* number of threads and
  *any* interleaving (`Reach`); what the source contributes — which constructors take the lock,
  poison recovery, and the order in which an injector lets go (Drop::drop body, then fields in
  declaration order) — is read from injector.rs by the translator (`srcParams`).
-/
import InjModel.Lemmas.Lock
namespace Inj.Props
open Inj Inj.Lock Inj.Generated.Layout

/-- **Tie to the source.**  Both constructors take the same process-wide mutex and keep its guard;
    when an injector lets go, the functions are restored before the mutex is released, and the
    mutex is released exactly once. -/
theorem C04_source_good : GoodParams srcParams := by
  unfold GoodParams SuffixOK
  refine ⟨by decide, by decide, by decide, by decide, by decide, by decide, by decide, ?_⟩
  intro path hpath
  have : srcParams.injectorPanicPaths = [] := by decide
  rw [this] at hpath
  cases hpath

theorem C04_source_poison_recovered : srcParams.poisonRecovered = true := by decide

/-- **Mutual exclusion**: in every reachable state at most one thread holds a live injector or
    preventer (from the moment `new`/`prevent` returns until its mutex guard is dropped). -/
theorem C04_excl (s : LState) (h : Reach srcParams s) (t1 t2 : Nat)
    (h1 : holdsLock (s.pcs t1) = true) (h2 : holdsLock (s.pcs t2) = true) : t1 = t2 := by
  have hi := reach_inv srcParams C04_source_good s h
  have a := hi.lockOwner t1 h1
  have b := hi.lockOwner t2 h2
  rw [a] at b; injection b

/-- **A preventer holder observes the original** for as long as it holds, whatever other threads
    attempt meanwhile. -/
theorem C04_preventer_sees_original (s : LState) (h : Reach srcParams s) (t : Nat) (i : Bool)
    (hp : s.pcs t = Pc.holding Kind.preventer i) : s.fn = none := by
  have hi := reach_inv srcParams C04_source_good s h
  have hl : holdsLock (s.pcs t) = true := by rw [hp]; rfl
  have hown := hi.lockOwner t hl
  cases hfn : s.fn with
  | none => rfl
  | some u =>
    have h1 := hi.fnLive u hfn
    by_cases hut : u = t
    · subst hut; rw [hp] at h1; cases i <;> simp [fakeLive] at h1
    · rw [(others_idle_lock s hi t u hown hut).2] at h1; cases h1

/-- **An injector holder observes exactly its own fakes**: after it installed, the shared function
    is its fake; before, it is the original — never another thread's fake. -/
theorem C04_injector_sees_own (s : LState) (h : Reach srcParams s) (t : Nat) (i : Bool)
    (hp : s.pcs t = Pc.holding Kind.injector i) : s.fn = if i then some t else none := by
  have hi := reach_inv srcParams C04_source_good s h
  have hl : holdsLock (s.pcs t) = true := by rw [hp]; rfl
  have hown := hi.lockOwner t hl
  cases i with
  | true =>
    have : fakeLive (s.pcs t) = true := by rw [hp]; rfl
    simpa using (hi.liveFn t this).1
  | false =>
    simp only [Bool.false_eq_true, if_false]
    cases hfn : s.fn with
    | none => rfl
    | some u =>
      have h1 := hi.fnLive u hfn
      by_cases hut : u = t
      · subst hut; rw [hp] at h1; simp [fakeLive] at h1
      · rw [(others_idle_lock s hi t u hown hut).2] at h1; cases h1

/-- **No fake outlives its lock**: whenever nobody holds the mutex, the function is the original
    (so whoever gets the mutex next starts from original behaviour). -/
theorem C04_free_means_original (s : LState) (h : Reach srcParams s) (hfree : s.owner = none) : s.fn = none := by
  have hi := reach_inv srcParams C04_source_good s h
  cases hfn : s.fn with
  | none => rfl
  | some u =>
    have := hi.lockOwner u (hi.liveFn u (hi.fnLive u hfn)).2
    rw [hfree] at this; cases this

/-- **Hand-over**: once the mutex is free — whether the previous holder let go by scope exit or
    by unwinding (poisoned) — every idle thread's `new()` / `prevent()` is enabled. -/
theorem C04_handover (s : LState) (hfree : s.owner = none) (u : Nat) (k : Kind) (hidle : s.pcs u = Pc.idle) :
    ∃ s', step srcParams s (Action.acquire u k) = some s' ∧ s'.owner = some u := by
  simp only [step, hidle, takesLock_good srcParams C04_source_good k, if_true]
  have : s.owner = none ∧ (s.poisoned = false ∨ srcParams.poisonRecovered = true) :=
    ⟨hfree, Or.inr C04_source_poison_recovered⟩
  rw [if_pos this]
  exact ⟨_, rfl, rfl⟩

/-- a holder that starts letting go reaches the idle state after finitely many of its own
    micro-steps (one per entry of the release order, plus one) -/
theorem C04_release_completes : ∀ (rest : List Field) (s : LState) (t : Nat) (k : Kind) (i : Bool) (how : How),
    s.pcs t = Pc.releasing k i rest how →
    (run srcParams s (List.replicate (rest.length + 1) (Action.micro t))).pcs t = Pc.idle := by
  intro rest
  induction rest with
  | nil =>
    intro s t k i how hp
    have hstep : step srcParams s (Action.micro t) = some { s with pcs := setPc s.pcs t Pc.idle } := by
      simp only [step, hp]
    simp only [List.length_nil, Nat.zero_add, List.replicate_succ, List.replicate_zero]
    rw [run_cons_some _ _ _ _ _ hstep]
    simp [run, setPc]
  | cons f r ih =>
    intro s t k i how hp
    simp only [List.length_cons, List.replicate_succ]
    cases f with
    | guards =>
      have hstep : step srcParams s (Action.micro t) = some { s with fn := if i then none else s.fn, pcs := setPc s.pcs t (Pc.releasing k false r how) } := by
        simp only [step, hp]
      rw [run_cons_some _ _ _ _ _ hstep]
      exact ih _ t k false how (setPc_same _ _ _)
    | verifiers =>
      have hstep : step srcParams s (Action.micro t) = some { s with pcs := setPc s.pcs t (Pc.releasing k i r how) } := by
        simp only [step, hp]
      rw [run_cons_some _ _ _ _ _ hstep]
      exact ih _ t k i how (setPc_same _ _ _)
    | lock =>
      have hstep : step srcParams s (Action.micro t) = some { s with
          owner := if takesLock srcParams k then none else s.owner,
          poisoned := if takesLock srcParams k then (how == How.panic) else s.poisoned,
          pcs := setPc s.pcs t (Pc.releasing k i r how) } := by
        simp only [step, hp]
      rw [run_cons_some _ _ _ _ _ hstep]
      exact ih _ t k i how (setPc_same _ _ _)
    | other =>
      have hstep : step srcParams s (Action.micro t) = some { s with pcs := setPc s.pcs t (Pc.releasing k i r how) } := by
        simp only [step, hp]
      rw [run_cons_some _ _ _ _ _ hstep]
      exact ih _ t k i how (setPc_same _ _ _)
    | unknown =>
      have hstep : step srcParams s (Action.micro t) = some { s with pcs := setPc s.pcs t (Pc.releasing k i r how) } := by
        simp only [step, hp]
      rw [run_cons_some _ _ _ _ _ hstep]
      exact ih _ t k i how (setPc_same _ _ _)

/-- non-vacuity: a two-thread schedule in which thread 1 waits for thread 0 -/
example : (run srcParams init [Action.acquire 0 Kind.injector, Action.install 0, Action.acquire 1 Kind.preventer,
    Action.beginRelease 0 How.panic none, Action.micro 0, Action.micro 0, Action.micro 0, Action.micro 0,
    Action.acquire 1 Kind.preventer]).owner = some 1 := by decide

end Inj.Props

#print axioms Inj.Props.C04_source_good
#print axioms Inj.Props.C04_source_poison_recovered
#print axioms Inj.Props.C04_excl
#print axioms Inj.Props.C04_preventer_sees_original
#print axioms Inj.Props.C04_injector_sees_own
#print axioms Inj.Props.C04_free_means_original
#print axioms Inj.Props.C04_handover
#print axioms Inj.Props.C04_release_completes
