/-
  C02 — dropping the injector restores every faked function, for any install history.
  Machine model: Model/Machine.lean (save / patch / restore of common.rs + patch_amd64.rs +
  injector.rs).  The order in which the guards are dropped is read from the source by the
  translator (Generated.Layout.guardDropOrder).
-/
import InjModel.Lemmas.Machine
import InjModel.Lemmas.Panic
import InjModel.Generated.Layout
namespace Inj.Props
open Inj Inj.Machine Inj.Generated

/-- the drop order the source implements, as extracted -/
def srcDropOrder : DropOrder :=
  match Layout.guardDropOrder with
  | Layout.DropOrderSrc.explicitNewestFirst => DropOrder.newestFirst
  | _ => DropOrder.oldestFirst

/-- **Tie to the source**: `InjectorPP` restores its guards newest first. -/
theorem C02_source_restores_newest_first : srcDropOrder = DropOrder.newestFirst := by decide

/-- **Restoration, any history.**  For every install history `rs` (targets with repetition, any
    payload kinds, overlapping entry ranges allowed) through one injector created in a state
    with no guards, dropping the injector gives back: every byte of memory outside the
    trampoline pages (which are unmapped), the original set of mappings, an empty guard list,
    and no fault.  Hypotheses are only what the OS guarantees: each trampoline page is fresh
    and does not overlap the entry range it serves. -/
theorem C02_restores (mode : Mode) (rs : List Req) (s0 sf : MState)
    (hg : s0.guards = []) (h : installs mode s0 rs = some sf)
    (hdis : ∀ r ∈ rs, ∀ x, inJit r x → ¬ inSlot r x) (hfresh : FreshMaps s0.maps rs) :
    let s' := dropInjector srcDropOrder sf
    (∀ x, (∀ r ∈ rs, ¬ inJit r x) → s'.mem x = s0.mem x) ∧ s'.maps = s0.maps ∧ s'.guards = [] ∧
      s'.fault = s0.fault := by
  obtain ⟨gs, hgs, _, hmem, hmaps, hfault⟩ := installs_undo mode rs s0 sf h hdis hfresh
  rw [hg, List.nil_append] at hgs
  simp only [C02_source_restores_newest_first, dropInjector, logEv, hgs]
  refine ⟨hmem, hmaps, trivial, ?_⟩
  rw [dropGuards_fault, hfault]

/-- corollary: every entry range that lies outside the trampoline pages is byte-for-byte what
    it was -/
theorem C02_entry_bytes (mode : Mode) (rs : List Req) (s0 sf : MState)
    (hg : s0.guards = []) (h : installs mode s0 rs = some sf)
    (hdis : ∀ r ∈ rs, ∀ r' ∈ rs, ∀ x, inJit r x → ¬ inSlot r' x) (hfresh : FreshMaps s0.maps rs) :
    ∀ r ∈ rs, readMem (dropInjector srcDropOrder sf).mem r.func 12 = readMem s0.mem r.func 12 := by
  intro r hr
  apply readMem_congr
  intro x h1 h2
  exact (C02_restores mode rs s0 sf hg h (fun r hr x hx => hdis r hr r hr x hx) hfresh).1 x
    (fun r' hr' hj => hdis r' hr' r hr x hj ⟨h1, h2⟩)

/-- consecutive lifetimes: a second history run from the restored state sees the same memory
    outside trampoline pages (so the theorem applies again, any number of times) -/
theorem C02_lifetimes (mode : Mode) (rs : List Req) (s0 sf : MState)
    (hg : s0.guards = []) (h : installs mode s0 rs = some sf)
    (hdis : ∀ r ∈ rs, ∀ x, inJit r x → ¬ inSlot r x) (hfresh : FreshMaps s0.maps rs) :
    (dropInjector srcDropOrder sf).guards = [] ∧ (dropInjector srcDropOrder sf).maps = s0.maps :=
  ⟨(C02_restores mode rs s0 sf hg h hdis hfresh).2.2.1, (C02_restores mode rs s0 sf hg h hdis hfresh).2.1⟩

/-- **While the injector lives, the most recent installation for a function is the one in
    effect**: in any history `pre ++ [r] ++ post` in which no later request touches `r`'s entry
    range or trampoline page, a call of `r.func` after the whole history reaches `r`'s fake. -/
theorem C02_latest_wins (mode : Mode) (pre post : List Req) (func fake jit : Nat) (s0 sf : MState)
    (h : installs mode s0 (pre ++ Req.mk func (Payload.exec fake) jit :: post) = some sf)
    (hdis : ∀ r ∈ pre ++ Req.mk func (Payload.exec fake) jit :: post, ∀ x, inJit r x → ¬ inSlot r x)
    (hfresh : FreshMaps s0.maps (pre ++ Req.mk func (Payload.exec fake) jit :: post))
    (hsep : ∀ r ∈ post, ∀ x, (func ≤ x ∧ x < func + 12) ∨ (jit ≤ x ∧ x < jit + 4096) → ¬ inJit r x ∧ ¬ inSlot r x)
    (hf : func < 18446744073709551616) (hj : jit < 18446744073709551616) (hk : fake < 18446744073709551616)
    (c : X86.Cpu) (hc : c.rip = func) :
    ∃ k c', k ≤ 4 ∧ X86.run sf.mem k c = some c' ∧ c'.rip = fake ∧ SameButRax c c' :=
  latest_wins mode pre post func fake jit s0 sf h hdis hfresh hsep hf hj hk c hc

/-- **Tie to the source (exit paths)**: the body of `Drop::drop` for `InjectorPP` begins with the
    newest-first restore loop — nothing that can panic (a verifier) or let the lock go runs
    before or instead of it — and the verifier stays silent while unwinding. -/
theorem C02_source_exit :
    Layout.injectorDropBody = Layout.Field.guards :: Layout.injectorDropBody.tail ∧
    Layout.injectorDropBody.tail.contains Layout.Field.lock = false ∧
    Layout.verifierChecksPanicking = true := by decide

/-- **Restoration on every kind of scope exit.**  However the scope is left — normally, by
    unwinding from a panic in the body (`panicking = true`), or with call-count verification
    raising its own panic on the way out (any pending expectations `verifs`, satisfied or not) —
    the two-phase release the language prescribes (the `Drop::drop` body as extracted, then the
    fields in declaration order, a non-empty `Vec<PatchGuard>` dropping oldest first) never
    aborts and gives back memory, mappings and guards exactly as `C02_restores` states. -/
theorem C02_any_exit (mode : Mode) (rs : List Req) (s0 sf : MState)
    (hg : s0.guards = []) (h : installs mode s0 rs = some sf)
    (hdis : ∀ r ∈ rs, ∀ x, inJit r x → ¬ inSlot r x) (hfresh : FreshMaps s0.maps rs)
    (verifs : List Panic.Verif) (panicking : Bool) :
    let e := Panic.scopeExit2 srcDropOrder Layout.verifierChecksPanicking Layout.injectorDropBody
      Layout.injectorFields ⟨sf, verifs, panicking⟩
    e.abort = false ∧ (∀ x, (∀ r ∈ rs, ¬ inJit r x) → e.ms.mem x = s0.mem x) ∧
      e.ms.maps = s0.maps ∧ e.ms.guards = [] := by
  intro e
  obtain ⟨hb, hl, hcp⟩ := C02_source_exit
  have hspec := Panic.scopeExit2_spec srcDropOrder Layout.injectorDropBody.tail Layout.injectorFields
    ⟨sf, verifs, panicking⟩ hl
  simp only at hspec
  have he : e = Panic.scopeExit2 srcDropOrder true (Layout.Field.guards :: Layout.injectorDropBody.tail)
      Layout.injectorFields ⟨sf, verifs, panicking⟩ := by
    show Panic.scopeExit2 srcDropOrder Layout.verifierChecksPanicking Layout.injectorDropBody _ _ = _
    rw [hcp, ← hb]
  obtain ⟨h1, h2, _, _⟩ := hspec
  have hrest := C02_restores mode rs s0 sf hg h hdis hfresh
  simp only at hrest
  have hra : Panic.restoreAll srcDropOrder sf =
      { (dropInjector srcDropOrder sf) with log := (Panic.restoreAll srcDropOrder sf).log } := by
    simp only [Panic.restoreAll, dropInjector, logEv, C02_source_restores_newest_first]
  rw [he]
  refine ⟨h1, ?_, ?_, ?_⟩
  · intro x hx; rw [h2, hra]; exact hrest.1 x hx
  · rw [h2, hra]; exact hrest.2.1
  · rw [h2, hra]; exact hrest.2.2.1

/-- the exit-path theorem is about something: with the verifier dropped *before* the restore
    loop, a pending unmet expectation cuts the body short and the field glue restores oldest
    first — a function faked twice is then left patched (the model exhibits it) -/
example :
    let g1 : Guard := Guard.mk 100 [1] 1 0 0
    let g2 : Guard := Guard.mk 100 [2] 1 0 0
    let s : MState := { mem := fun _ => 3, writable := fun _ => true, maps := [], guards := [g1, g2], log := [], fault := false }
    (Panic.scopeExit2 DropOrder.newestFirst true [Layout.Field.verifiers, Layout.Field.guards]
      [Layout.Field.guards, Layout.Field.verifiers, Layout.Field.lock] ⟨s, [(1, 0)], false⟩).ms.mem 100 = 2 := by
  decide

/-- the model's state is complete for the back ends: `injector_core` declares no process-wide or
    thread-local mutable state (regenerated from the source on every run) -/
theorem C02_state_modelled : Generated.Layout.coreStatics = [] := by decide

end Inj.Props

#print axioms Inj.Props.C02_latest_wins
#print axioms Inj.Props.C02_source_restores_newest_first
#print axioms Inj.Props.C02_restores
#print axioms Inj.Props.C02_entry_bytes
#print axioms Inj.Props.C02_lifetimes
#print axioms Inj.Props.C02_source_exit
#print axioms Inj.Props.C02_any_exit
#print axioms Inj.Props.C02_state_modelled
