/-
  C17 — every code modification is followed by an instruction-cache flush covering it.
  Stated on the event log of the machine model: `flushClean log` says that, processing the
  events in order, every byte written is covered by a later flush (or unmapped) before control
  returns to the user (`ret`).
-/
import InjModel.Generated.Layout
import InjModel.Props.C02
namespace Inj.Props
open Inj Inj.Machine

/-- **Every history, every lifetime.**  Starting from a clean log, the events of any install
    history followed by the drop of the injector (either drop order) keep the log clean:
    at every `ret` no written byte is unflushed. -/
theorem C17_covers (mode : Mode) (rs : List Req) (s0 sf : MState) (ord : DropOrder)
    (hc : flushClean s0.log) (h : installs mode s0 rs = some sf) :
    flushClean sf.log ∧ flushClean (dropInjector ord sf).log := by
  have h1 := installs_flushClean mode rs s0 sf h hc
  refine ⟨h1, ?_⟩
  have h2 : ∀ gs, flushClean (logEv { (dropGuards sf gs) with guards := [] } Event.ret).log := by
    intro gs
    have := dropGuards_flushClean gs sf h1
    unfold flushClean at *
    simp only [logEv, List.reverse_cons]
    rw [dirtyAfter_append, this]
    simp [dirtyAfter]
  cases ord <;> exact h2 _

/-- each single installation and each single restoration flushes what it wrote (so the
    property also holds between any two operations, not only at the end) -/
theorem C17_each_install (mode : Mode) (s s' : MState) (func : Nat) (p : Payload) (jit : Nat)
    (h : installX86 mode s func p jit = some s') (hc : flushClean s.log) : flushClean s'.log :=
  install_flushClean mode s s' func p jit h hc

theorem C17_each_restore (s : MState) (g : Guard) (hc : flushClean s.log) : flushClean (restoreGuard s g).log :=
  restore_flushClean s g hc

/-- the predicate is not vacuous: a write with no flush before `ret` is rejected, the same
    write followed by a covering flush is accepted -/
example : dirtyAfter [] [Event.write 100 [1, 2, 3], Event.ret] = none := by decide
example : dirtyAfter [] [Event.write 100 [1, 2, 3], Event.flush 100 102, Event.ret] = none := by decide
example : dirtyAfter [] [Event.write 100 [1, 2, 3], Event.flush 100 103, Event.ret] = some [] := by decide

/-- the model's state is complete for the back ends: `injector_core` declares no process-wide or
    thread-local mutable state (regenerated from the source on every run) -/
theorem C17_state_modelled : Generated.Layout.coreStatics = [] := by decide

end Inj.Props

#print axioms Inj.Props.C17_covers
#print axioms Inj.Props.C17_each_install
#print axioms Inj.Props.C17_each_restore
#print axioms Inj.Props.C17_state_modelled
