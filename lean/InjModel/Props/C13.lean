/-
  C13 — redirection is transparent to the calling convention.
  x86-64: Model/X86 + Model/Machine (the only instructions between caller and fake are `jmp`s and,
  in the long form, `mov rax, imm64`; the ISA fragment has no store).  AArch64: Model/A64.
  32-bit ARM: see C16 (the scratch register of the literal load is callee-saved: finding F6).
-/
import InjModel.Generated.Layout
import InjModel.Props.C01
import InjModel.Props.C15
import InjModel.Props.C16
namespace Inj.Props
open Inj

/-- System V x86-64 register numbers: rdi 7, rsi 6, rdx 2, rcx 1, r8, r9 (integer arguments;
    rdi also carries the hidden return slot), rbx 3, rbp 5, r12–r15 (callee-saved), rsp 4. -/
def sysvArgRegs : List Nat := [7, 6, 2, 1, 8, 9]
def sysvCalleeSaved : List Nat := [3, 5, 12, 13, 14, 15]

/-- **x86-64.**  After a successful installation, for every placement (short or long form at
    either hop) and every CPU state at the call: when control arrives at the fake, all six integer
    argument registers (hence the hidden return slot), all vector registers, the callee-saved set,
    the stack pointer and the flags are exactly as the caller left them.  No instruction on the
    path writes memory, so stack arguments and the return address are intact and the fake's `ret`
    returns straight to the caller, its result registers untouched by the library. -/
theorem C13_x86 (mode : Mode) (s s1 : Machine.MState) (func fake jit : Nat)
    (h : Machine.installX86 mode s func (Machine.Payload.exec fake) jit = some s1)
    (hdis : ∀ x, (jit ≤ x ∧ x < jit + 4096) → ¬ (func ≤ x ∧ x < func + 12))
    (hf : func < 18446744073709551616) (hj : jit < 18446744073709551616) (hk : fake < 18446744073709551616)
    (c : X86.Cpu) (hc : c.rip = func) :
    ∃ k c', k ≤ 4 ∧ X86.run s1.mem k c = some c' ∧ c'.rip = fake ∧
      (∀ r ∈ sysvArgRegs, c'.gpr r = c.gpr r) ∧ (∀ r ∈ sysvCalleeSaved, c'.gpr r = c.gpr r) ∧
      c'.gpr 4 = c.gpr 4 ∧ c'.xmm = c.xmm ∧ c'.flags = c.flags ∧
      X86.rd64 s1.mem (c'.gpr 4) = X86.rd64 s1.mem (c.gpr 4) := by
  obtain ⟨⟨k, c', hk4, hrun, hrip, hsame⟩, _⟩ := C01_reach mode s s1 func fake jit h hdis hf hj hk c hc
  refine ⟨k, c', hk4, hrun, hrip, ?_, ?_, hsame.1 4 (by decide), hsame.2.1, hsame.2.2, ?_⟩
  · intro r hr
    have : r ≠ 0 := by simp [sysvArgRegs] at hr; omega
    exact hsame.1 r this
  · intro r hr
    have : r ≠ 0 := by simp [sysvCalleeSaved] at hr; omega
    exact hsame.1 r this
  · rw [hsame.1 4 (by decide)]

/-- **AArch64 trampoline**: only x9 is written — not an argument register (x0–x7), not the
    indirect-result register (x8), not callee-saved (x19–x28), not fp/lr (x29, x30). -/
theorem C13_a64_tramp (fake : Nat) (h : fake < 18446744073709551616) (c : A64.Cpu) :
    ∃ c', A64.execList ((A64.tramp fake).map A64.decode) c = some c' ∧ c'.pc = fake ∧
      ∀ r, r ≠ 9 → c'.x r = c.x r := by
  refine ⟨_, A64.tramp_exec fake h c, rfl, ?_⟩
  intro r hr
  simp [A64.setX, hr]

/-- **AArch64 entry** (Linux `B`, macOS direct `B`): the branch writes no register at all. -/
theorem C13_a64_entry (imm26 : Nat) (c : A64.Cpu) :
    ∃ c', A64.exec (A64.Instr.b imm26) c = some c' ∧ c'.x = c.x := ⟨_, rfl, rfl⟩

/-- **AArch64 macOS long entry**: only x16 (IP0, reserved for veneers) is written. -/
theorem C13_a64_long (pc target : Nat) (hp : pc < 9223372036854775808) (ht : target < 9223372036854775808)
    (hn : ¬ (-134217728 ≤ (target : Int) - pc ∧ (target : Int) - pc < 134217728))
    (hr : -1048576 ≤ ((target / 4096 : Nat) : Int) - (pc / 4096 : Nat) ∧ ((target / 4096 : Nat) : Int) - (pc / 4096 : Nat) < 1048576)
    (c : A64.Cpu) :
    ∃ c', A64.execList ((A64.entryMacos pc target).map A64.decode) { c with pc := pc } = some c' ∧ c'.pc = target ∧
      ∀ r, r ≠ 16 → c'.x r = c.x r := by
  refine ⟨_, A64.entryMacos_far pc target hp ht hn hr c, rfl, ?_⟩
  intro r hr'
  simp [A64.setX, hr']

/-- **32-bit ARM**: transparency fails for the callee-saved set (finding F6, proved in C16). -/
theorem C13_a32_callee_saved_false : ¬ C16_callee_full := C16_callee_full_false

/-- the model's state is complete for the back ends: `injector_core` declares no process-wide or
    thread-local mutable state (regenerated from the source on every run) -/
theorem C13_state_modelled : Generated.Layout.coreStatics = [] := by decide

end Inj.Props

#print axioms Inj.Props.C13_x86
#print axioms Inj.Props.C13_a64_tramp
#print axioms Inj.Props.C13_a64_entry
#print axioms Inj.Props.C13_a64_long
#print axioms Inj.Props.C13_a32_callee_saved_false
#print axioms Inj.Props.C13_state_modelled
