/-
  C16 — 32-bit ARM patches (ARM and Thumb) load and branch to exactly the fake.
  Encoder from the instruction words the translator read out of patch_arm.rs; the LDR-literal /
  BX / NOP semantics (`Align(PC,4)`, PC read-ahead 8 / 4, interworking) is the independent
  fragment in Model/A32.lean.
-/
import InjModel.Generated.Layout
import InjModel.Lemmas.A32
namespace Inj.Props
open Inj Inj.A32 Inj.Generated

theorem C16_consts_found : Consts.missing = [] := by decide

/-- number of instructions executed before control leaves the patch -/
def a32Steps (src : Nat) : Nat := if src % 4 = 3 then 3 else 2

/-- address the patch is written to (Thumb bit stripped) -/
def a32Entry (src : Nat) : Nat := if src % 2 = 1 then src - 1 else src

/-- **ARM state** (entry ≡ 0 mod 4): for every memory, entry and fake address, the word the load
    actually reads is the one holding the fake's address (Thumb bit included) and `bx` goes to
    fake & ~1 in the state given by fake & 1; only r9 is written. -/
theorem C16_arm (m0 : Mem) (src target : Nat) (h : src % 4 = 0) (r : Nat → Nat) :
    run (writeMem m0 src (patch src target).bytes) 2 { pc := src, thumb := false, r := r } =
      some { pc := target % 4294967296 / 2 * 2, thumb := target % 4294967296 % 2 == 1,
             r := setR r 9 (target % 4294967296) } :=
  run_arm m0 src target h r

/-- **Thumb state, entry ≡ 0 mod 4.** -/
theorem C16_thumb0 (m0 : Mem) (src target : Nat) (h : src % 4 = 1) (r : Nat → Nat) :
    run (writeMem m0 (src - 1) (patch src target).bytes) 2 { pc := src - 1, thumb := true, r := r } =
      some { pc := target % 4294967296 / 2 * 2, thumb := target % 4294967296 % 2 == 1,
             r := setR r 7 (target % 4294967296) } :=
  run_thumb0 m0 src target h r

/-- **Thumb state, entry ≡ 2 mod 4** (NOP first, literal one halfword later). -/
theorem C16_thumb2 (m0 : Mem) (src target : Nat) (h : src % 4 = 3) (r : Nat → Nat) :
    run (writeMem m0 (src - 1) (patch src target).bytes) 3 { pc := src - 1, thumb := true, r := r } =
      some { pc := target % 4294967296 / 2 * 2, thumb := target % 4294967296 % 2 == 1,
             r := setR r 7 (target % 4294967296) } :=
  run_thumb2 m0 src target h r

/-- **Extent.**  In all three cases exactly 12 bytes are written, at the entry with the Thumb bit
    stripped — the same range `read_bytes(src_ptr, patch_size)` saved. -/
theorem C16_saved (src target : Nat) (h : src % 4 ≠ 2) :
    (patch src target).bytes.length = Consts.armPatchSize ∧ (patch src target).addr = a32Entry src := by
  have hc : src % 4 = 0 ∨ src % 4 = 1 ∨ src % 4 = 3 := by omega
  unfold a32Entry
  rcases hc with h0 | h1 | h3
  · rw [patch_arm src target h0]; simp [le32, Consts.armPatchSize]; omega
  · rw [patch_thumb0 src target h1]; simp [le32, Consts.armPatchSize]; omega
  · rw [patch_thumb2 src target h3]; simp [le32, Consts.armPatchSize]; omega

/-- **Callee-saved registers, full statement** (as C16 words it): executing the patch leaves every
    register the AAPCS makes a callee preserve (r4–r11, sp) as it was. -/
def C16_callee_full : Prop :=
  ∀ (m0 : Mem) (src target : Nat) (r : Nat → Nat) (c' : Cpu), src % 4 ≠ 2 →
    run (writeMem m0 (a32Entry src) (patch src target).bytes) (a32Steps src)
      { pc := a32Entry src, thumb := src % 2 == 1, r := r } = some c' →
    ∀ i, calleeSaved i = true → c'.r i = r i

/-- The full statement is **false** of the code (finding F6): the scratch register of the ARM
    sequence is r9, callee-saved.  Witness: entry 0x10000, fake 0x8000, all registers 0. -/
theorem C16_callee_full_false : ¬ C16_callee_full := by
  intro hfull
  have hrun := run_arm (fun _ => 0) 0x10000 0x8000 (by decide) (fun _ => 0)
  have := hfull (fun _ => 0) 0x10000 0x8000 (fun _ => 0) _ (by decide) (by
    simpa [a32Entry, a32Steps] using hrun) 9 (by decide)
  simp [setR] at this

/-- What does hold (partial): the only register written is the scratch register of the literal
    load — r9 in ARM state, r7 in Thumb state (both callee-saved: the defect) — never sp, never
    another register. -/
theorem C16_callee_partial (m0 : Mem) (src target : Nat) (r : Nat → Nat) (c' : Cpu) (h : src % 4 ≠ 2)
    (hrun : run (writeMem m0 (a32Entry src) (patch src target).bytes) (a32Steps src)
      { pc := a32Entry src, thumb := src % 2 == 1, r := r } = some c') :
    ∀ i, i ≠ (if src % 2 = 1 then 7 else 9) → c'.r i = r i := by
  have hc : src % 4 = 0 ∨ src % 4 = 1 ∨ src % 4 = 3 := by omega
  intro i hi
  rcases hc with h0 | h1 | h3
  · have e2 : src % 2 = 0 := by omega
    have hr := run_arm m0 src target h0 r
    simp only [a32Entry, a32Steps, e2, show ¬ (0 = 1) by decide, if_false, show ¬ (src % 4 = 3) by omega] at hrun hi
    have eb : (0 == 1) = false := by decide
    rw [eb, hr] at hrun
    injection hrun with hrun; subst hrun
    simp [setR, hi]
  · have e2 : src % 2 = 1 := by omega
    have hr := run_thumb0 m0 src target h1 r
    simp only [a32Entry, a32Steps, e2, if_true, show ¬ (src % 4 = 3) by omega, if_false] at hrun hi
    have eb : (1 == 1) = true := by decide
    rw [eb, hr] at hrun
    injection hrun with hrun; subst hrun
    simp [setR, hi]
  · have e2 : src % 2 = 1 := by omega
    have hr := run_thumb2 m0 src target h3 r
    simp only [a32Entry, a32Steps, e2, if_true, h3] at hrun hi
    have eb : (1 == 1) = true := by decide
    rw [eb, hr] at hrun
    injection hrun with hrun; subst hrun
    simp [setR, hi]

/-- non-vacuity -/
example : (patch 0x10003 0x8001).bytes = [0xC0, 0x46, 0x00, 0x4F, 0x38, 0x47, 0x01, 0x80, 0, 0, 0, 0] := by decide
example : (patch 0x10001 0x8001).addr = 0x10000 := by decide

/-- the model's state is complete for the back ends: `injector_core` declares no process-wide or
    thread-local mutable state (regenerated from the source on every run) -/
theorem C16_state_modelled : Generated.Layout.coreStatics = [] := by decide

end Inj.Props

#print axioms Inj.Props.C16_consts_found
#print axioms Inj.Props.C16_arm
#print axioms Inj.Props.C16_thumb0
#print axioms Inj.Props.C16_thumb2
#print axioms Inj.Props.C16_saved
#print axioms Inj.Props.C16_callee_full_false
#print axioms Inj.Props.C16_callee_partial
#print axioms Inj.Props.C16_state_modelled
