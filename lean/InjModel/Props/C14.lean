/-
  C14 — faked async functions complete at once with the value; others are untouched.
  Faking an async function is an ordinary installation at the entry of the concrete future's
  `poll` (injector.rs `when_called_async`), so the machine-level theorems apply with
  func := poll entry, fake := the generated `fn() -> Poll<T>`.  What the model cannot exhibit is
  stated in DESIGN.md (monomorphisation gives every future type its own `poll`; ABI
  compatibility of `fn() -> Poll<T>` with `poll(Pin<&mut F>, &mut Context)`).
-/
import InjModel.Model.Async
import InjModel.Props.C02
import InjModel.Props.C03
import InjModel.Props.C09
namespace Inj.Props
open Inj Inj.Machine Inj.Async

/-- **First poll reaches the generated ready-function.**  In any install history through one
    injector, if the last request on the poll entry `p` installs ready-function `f` (re-fakes and
    fakes of sibling async functions before it are arbitrary; later requests touch neither `p`'s
    entry bytes nor its trampoline), then a poll of that future — a call of `p` in any CPU state —
    transfers control to `f` within four instructions, before any byte of the original body
    runs, with every argument register unchanged. -/
theorem C14_first_poll_reaches_value (mode : Mode) (pre post : List Req) (p f jit : Nat) (s0 sf : MState)
    (h : installs mode s0 (pre ++ Req.mk p (Payload.exec f) jit :: post) = some sf)
    (hdis : ∀ r ∈ pre ++ Req.mk p (Payload.exec f) jit :: post, ∀ x, inJit r x → ¬ inSlot r x)
    (hfresh : FreshMaps s0.maps (pre ++ Req.mk p (Payload.exec f) jit :: post))
    (hsep : ∀ r ∈ post, ∀ x, (p ≤ x ∧ x < p + 12) ∨ (jit ≤ x ∧ x < jit + 4096) → ¬ inJit r x ∧ ¬ inSlot r x)
    (hp : p < 18446744073709551616) (hj : jit < 18446744073709551616) (hf : f < 18446744073709551616)
    (c : X86.Cpu) (hc : c.rip = p) :
    ∃ k c', k ≤ 4 ∧ X86.run sf.mem k c = some c' ∧ c'.rip = f ∧ SameButRax c c' :=
  latest_wins mode pre post p f jit s0 sf h hdis hfresh hsep hp hj hf c hc

/-- **Siblings are untouched**: the `poll` entry of an async function that no request names
    (same output type or not) keeps every one of its bytes through the whole history. -/
theorem C14_siblings_untouched (mode : Mode) (rs : List Req) (s0 sf : MState) (q : Nat)
    (h : installs mode s0 rs = some sf)
    (hdis : ∀ r ∈ rs, ∀ x, inJit r x → ¬ inSlot r x) (hfresh : FreshMaps s0.maps rs)
    (hq : ∀ r ∈ rs, ∀ x, q ≤ x → x < q + 16 → ¬ inJit r x ∧ ¬ inSlot r x) :
    readMem sf.mem q 16 = readMem s0.mem q 16 := by
  apply readMem_congr
  intro x h1 h2
  exact C03_frame_install mode rs s0 sf h hdis hfresh x (fun r hr => hq r hr x h1 h2)

/-- **Back to the original once the injector is gone**, for every poll entry that was faked. -/
theorem C14_after_drop (mode : Mode) (rs : List Req) (s0 sf : MState)
    (hg : s0.guards = []) (h : installs mode s0 rs = some sf)
    (hdis : ∀ r ∈ rs, ∀ r' ∈ rs, ∀ x, inJit r x → ¬ inSlot r' x) (hfresh : FreshMaps s0.maps rs) :
    ∀ r ∈ rs, readMem (dropInjector srcDropOrder sf).mem r.func 12 = readMem s0.mem r.func 12 :=
  C02_entry_bytes mode rs s0 sf hg h hdis hfresh

/-- **Async gate**: `fn() -> Poll<T>` against `fn() -> Poll<U>` is accepted exactly when the
    two output types render identically. -/
theorem C14_gate (pollId : Nat) (t u : Sig.Ty) :
    Sig.gate (Sig.renderFn (Sig.FnTy.mk false 0 Sig.TyList.nil (Sig.Ty.app pollId (Sig.TyList.cons t Sig.TyList.nil))))
             (Sig.renderFn (Sig.FnTy.mk false 0 Sig.TyList.nil (Sig.Ty.app pollId (Sig.TyList.cons u Sig.TyList.nil)))) = true
      ↔ Sig.render t = Sig.render u := by
  rw [C09_gate]
  simp [Sig.renderFn, Sig.renderRet, Sig.render, Sig.renderArgs]

/-- **Abstract behaviour**: in the await-level model an await of a function faked since the last
    drop completes on poll 1 with the latest value and never runs the body; otherwise it is the
    original — for every history. -/
theorem C14_await_spec (origPolls : Nat → Nat) (s : State) (i : Nat) :
    (∀ site, lookup s i = some site →
        awaitObs origPolls s i = { polls := 1, fakedBy := some site, bodyRuns := 0, valueEvals := 1 }) ∧
    (lookup s i = none →
        awaitObs origPolls s i = { polls := origPolls i, fakedBy := none, bodyRuns := 1, valueEvals := 0 }) := by
  constructor
  · intro site h; simp [awaitObs, h]
  · intro h; simp [awaitObs, h]

/-- the latest fake wins and a drop clears everything -/
theorem C14_latest_and_drop (origPolls : Nat → Nat) (s : State) (i a b : Nat) :
    lookup ((step origPolls ((step origPolls s (Op.fake i a)).1) (Op.fake i b)).1) i = some b ∧
    lookup ((step origPolls s Op.drop).1) i = none := by
  simp [step, lookup]

end Inj.Props

#print axioms Inj.Props.C14_first_poll_reaches_value
#print axioms Inj.Props.C14_siblings_untouched
#print axioms Inj.Props.C14_after_drop
#print axioms Inj.Props.C14_gate
#print axioms Inj.Props.C14_await_spec
#print axioms Inj.Props.C14_latest_and_drop
