/-
  C10 — forced boolean result: only for bool functions, exactly the value, nothing else.
  Gate: Model/Sig.lean (`signature_returns_bool`, over the token rendering of every
  function-pointer type).  Stub: Model/X86.lean + Model/Machine.lean.
-/
import InjModel.Generated.Layout
import InjModel.Lemmas.Sig
import InjModel.Lemmas.SigText
import InjModel.Lemmas.Machine
namespace Inj.Props
open Inj Inj.Sig

/-- **Tie to the source**: `will_return_boolean` tests the top-level return type, before it
    patches anything. -/
theorem C10_source : Generated.Layout.boolGate = Generated.Layout.BoolGateSrc.topLevelReturnType ∧
    Generated.Layout.boolGateBeforeGuard = true := by decide

/-- **Gate, all signatures.**  For every function-pointer type (any qualifiers, any ABI, any
    parameter list, any return type — including return types that merely *end* in `-> bool`
    such as `fn() -> bool`, `*const fn() -> bool`, `&dyn Fn() -> bool`) the gate accepts
    exactly when the return type is `bool`. -/
theorem C10_gate (f : FnTy) : boolGate (renderFn f) = true ↔ f.ret = Ty.prim boolId := by
  have hsrc : boolGate (renderFn f) = boolGateTopLevel (renderFn f) := by
    unfold boolGate; rw [C10_source.1]
  rw [hsrc]
  exact topLevel_renderFn f

/-- **Gate on the recorded text itself (chars, byte offsets, `trim`).**  For every function-pointer
    type, spelled the way `type_name` spaces it with any spelling of identifiers that contains neither
    parentheses nor white space (and spells only `bool` as `bool`), the char-level scan
    `Sig.returnsBoolText` accepts exactly when the return type is `bool`.  `Tie/SigText.T_sig_returns_bool`
    proves the *translated* `signature_returns_bool` equal to `returnsBoolText` on every text, so this is
    the gate clause of C10 for the code as translated on this run (`T_c10_gate_translated`). -/
theorem C10_gate_text (nm : Names) (ok : NamesOK nm) (f : FnTy) :
    returnsBoolText (spellC nm (renderFn f)) = true ↔ f.ret = Ty.prim boolId :=
  returnsBoolText_renderFn nm ok f

/-- the hypotheses of `C10_gate_text` are satisfiable: a spelling of names that meets `NamesOK` -/
def exampleNames : Names :=
  { id := fun n => if n = boolId then ['b', 'o', 'o', 'l'] else 'T' :: List.replicate n 'x',
    num := fun n => List.replicate (n + 1) '1',
    abi := fun _ => ['C'] }

theorem exampleNames_ok : NamesOK exampleNames := by
  refine ⟨?_, ?_, ?_, ?_⟩
  · intro n c hc
    simp only [exampleNames] at hc
    split at hc
    · simp at hc; rcases hc with rfl | rfl | rfl <;> decide
    · simp at hc
      rcases hc with rfl | ⟨_, rfl⟩ <;> decide
  · intro n
    simp only [exampleNames]
    constructor
    · intro h
      split at h
      · assumption
      · simp at h
    · intro h; simp [h]
  · intro n c hc
    simp only [exampleNames] at hc
    simp at hc
    rcases hc with ⟨_, rfl⟩
    decide
  · intro a c hc
    simp only [exampleNames] at hc
    simp at hc; subst hc; decide

/-- the unchecked entry point carries the empty signature: always refused -/
theorem C10_gate_unchecked : boolGate [] = false := by
  unfold boolGate; rw [C10_source.1]; rfl

/-- The pinned tree's test (`ends_with("-> bool")`) is *not* equivalent (finding F5):
    `fn() -> fn() -> bool` is accepted although it returns a function pointer. -/
theorem C10_endsWith_false :
    ∃ f : FnTy, boolGateEndsWith (renderFn f) = true ∧ f.ret ≠ Ty.prim boolId :=
  ⟨FnTy.mk false 0 TyList.nil (Ty.fn_ (FnTy.mk false 0 TyList.nil (Ty.prim boolId))),
    by simp [boolGateEndsWith, renderFn, renderRet, renderArgs, render, boolId], by simp [FnTy.ret]⟩

/-- **Stub, all caller states (x86-64).**  After the boolean installation for `func`, executing
    from `func` in *any* CPU state whose stack top holds a return address: control is back at
    that address, rax holds exactly the requested value, rsp is popped by 8 as after a normal
    `ret`, every other general register, all vector registers and the flags are unchanged —
    and no instruction of the path writes memory (the ISA fragment has no store). -/
theorem C10_stub (mode : Mode) (s s1 : Machine.MState) (func jit : Nat) (v : Bool)
    (h : Machine.installX86 mode s func (Machine.Payload.bool v) jit = some s1)
    (hdis : ∀ x, (jit ≤ x ∧ x < jit + 4096) → ¬ (func ≤ x ∧ x < func + 12))
    (hf : func < 18446744073709551616) (hj : jit < 18446744073709551616)
    (c : X86.Cpu) (hc : c.rip = func) :
    ∃ k c', k ≤ 4 ∧ X86.run s1.mem k c = some c' ∧
      c'.rip = X86.rd64 s1.mem (c.gpr 4) ∧ c'.gpr 0 = (if v then 1 else 0) ∧
      c'.gpr 4 = (c.gpr 4 + 8) % 18446744073709551616 ∧
      (∀ i, i ≠ 0 → i ≠ 4 → c'.gpr i = c.gpr i) ∧ c'.xmm = c.xmm ∧ c'.flags = c.flags :=
  Machine.install_bool_returns mode s s1 func jit v h hdis hf hj c hc

/-- the stub itself: the eight bytes, as extracted from the source -/
theorem C10_stub_bytes (v : Bool) :
    X86.boolStub v = [0x48, 0xC7, 0xC0, (if v then 1 else 0), 0x00, 0x00, 0x00, 0xC3] := X86.boolStub_eq v

/-- non-vacuity: `fn(i32) -> bool` is accepted, `fn(i32) -> &dyn Fn() -> bool` is not -/
example : boolGate (renderFn (FnTy.mk false 0 (TyList.cons (Ty.prim 1) TyList.nil) (Ty.prim boolId))) = true :=
  (C10_gate _).mpr rfl
example : boolGate (renderFn (FnTy.mk false 0 (TyList.cons (Ty.prim 1) TyList.nil)
    (Ty.ref false (Ty.dynfn TyList.nil (Ty.prim boolId))))) = false := by
  cases h : boolGate (renderFn (FnTy.mk false 0 (TyList.cons (Ty.prim 1) TyList.nil) (Ty.ref false (Ty.dynfn TyList.nil (Ty.prim boolId))))) with
  | false => rfl
  | true => have := (C10_gate _).mp h; simp [FnTy.ret] at this

/-- non-vacuity on the text: the spelled `fn(T1) -> bool` is accepted, the spelled `fn() -> fn() -> bool` is not -/
example : returnsBoolText (spellC exampleNames (renderFn (FnTy.mk false 0 (TyList.cons (Ty.prim 1) TyList.nil) (Ty.prim boolId)))) = true :=
  (C10_gate_text exampleNames exampleNames_ok _).mpr rfl
example : returnsBoolText (spellC exampleNames (renderFn (FnTy.mk false 0 TyList.nil
    (Ty.fn_ (FnTy.mk false 0 TyList.nil (Ty.prim boolId)))))) = false := by
  cases h : returnsBoolText (spellC exampleNames (renderFn (FnTy.mk false 0 TyList.nil (Ty.fn_ (FnTy.mk false 0 TyList.nil (Ty.prim boolId)))))) with
  | false => rfl
  | true => have := (C10_gate_text exampleNames exampleNames_ok _).mp h; simp [FnTy.ret] at this

/-- the model's state is complete for the back ends: `injector_core` declares no process-wide or
    thread-local mutable state (regenerated from the source on every run) -/
theorem C10_state_modelled : Generated.Layout.coreStatics = [] := by decide

end Inj.Props

#print axioms Inj.Props.C10_source
#print axioms Inj.Props.C10_gate
#print axioms Inj.Props.C10_gate_unchecked
#print axioms Inj.Props.C10_gate_text
#print axioms Inj.Props.exampleNames_ok
#print axioms Inj.Props.C10_endsWith_false
#print axioms Inj.Props.C10_stub
#print axioms Inj.Props.C10_stub_bytes
#print axioms Inj.Props.C10_state_modelled
