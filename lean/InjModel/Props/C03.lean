/-
  C03 — installing and removing fakes touches nothing but the designated entries.
-/
import InjModel.Generated.Layout
import InjModel.Lemmas.Machine
namespace Inj.Props
open Inj Inj.Machine

/-- **Frame of installation**, every history and hence every prefix of it: a byte that is
    neither in a named entry range `[func, func+12)` nor in a trampoline page the run itself
    mapped is never changed. -/
theorem C03_frame_install (mode : Mode) (rs : List Req) (s0 sf : MState)
    (h : installs mode s0 rs = some sf)
    (hdis : ∀ r ∈ rs, ∀ x, inJit r x → ¬ inSlot r x) (hfresh : FreshMaps s0.maps rs) :
    ∀ x, (∀ r ∈ rs, ¬ inJit r x ∧ ¬ inSlot r x) → sf.mem x = s0.mem x :=
  installs_frame mode rs s0 sf h hdis hfresh

/-- **Frame of removal**, for any list of guards restored in any order (so also for every
    state inside the drop of an injector): only `[addr, addr+patchLen)` of those guards. -/
theorem C03_frame_drop (gs : List Guard) (s : MState) (x : Nat)
    (hx : ∀ g ∈ gs, x < g.addr ∨ g.addr + g.patchLen ≤ x) : (dropGuards s gs).mem x = s.mem x :=
  dropGuards_frame gs s x hx

/-- **Extent of an entry patch**: every guard an install history creates covers at most the
    first 12 bytes (5 or 12 on x86-64) of the function it names — inside the 16-byte slot. -/
theorem C03_slot (mode : Mode) (rs : List Req) (s0 sf : MState) (h : installs mode s0 rs = some sf) :
    ∃ gs, sf.guards = s0.guards ++ gs ∧ ∀ g ∈ gs, ∃ r ∈ rs, g.addr = r.func ∧ g.patchLen ≤ 12 := by
  obtain ⟨gs, h1, h2⟩ := installs_guards mode rs s0 sf h
  exact ⟨gs, h1, fun g hg => by obtain ⟨r, hr, a, b, _⟩ := h2 g hg; exact ⟨r, hr, a, b⟩⟩

/-- whole lifetime: install history then drop — bytes outside the named slots and outside the
    run's own trampoline pages are the same in the final state -/
theorem C03_frame_lifetime (mode : Mode) (rs : List Req) (s0 sf : MState) (ord : DropOrder)
    (hg : s0.guards = []) (h : installs mode s0 rs = some sf)
    (hdis : ∀ r ∈ rs, ∀ x, inJit r x → ¬ inSlot r x) (hfresh : FreshMaps s0.maps rs) :
    ∀ x, (∀ r ∈ rs, ¬ inJit r x ∧ ¬ inSlot r x) → (dropInjector ord sf).mem x = s0.mem x := by
  intro x hx
  obtain ⟨gs, h1, h2⟩ := installs_guards mode rs s0 sf h
  rw [hg, List.nil_append] at h1
  have hfr : ∀ g ∈ gs, x < g.addr ∨ g.addr + g.patchLen ≤ x := by
    intro g hgm
    obtain ⟨r, hr, ha, hp, _⟩ := h2 g hgm
    have := (hx r hr).2
    unfold inSlot at this
    omega
  have hi := installs_frame mode rs s0 sf h hdis hfresh x hx
  cases ord with
  | oldestFirst =>
    simp only [dropInjector, logEv, h1]
    rw [dropGuards_frame gs sf x hfr, hi]
  | newestFirst =>
    simp only [dropInjector, logEv, h1]
    rw [dropGuards_frame gs.reverse sf x (fun g hg => hfr g (by simpa using hg)), hi]

/-- the model's state is complete for the back ends: `injector_core` declares no process-wide or
    thread-local mutable state (regenerated from the source on every run) -/
theorem C03_state_modelled : Generated.Layout.coreStatics = [] := by decide

end Inj.Props

#print axioms Inj.Props.C03_frame_install
#print axioms Inj.Props.C03_frame_drop
#print axioms Inj.Props.C03_slot
#print axioms Inj.Props.C03_frame_lifetime
#print axioms Inj.Props.C03_state_modelled
