/-
  C12 — no trampoline mapping is leaked or freed twice over any number of cycles.
-/
import InjModel.Generated.Layout
import InjModel.Props.C02
namespace Inj.Props
open Inj Inj.Machine

/-- one whole lifetime: create, install the history, drop -/
def lifetime (mode : Mode) (s : MState) (rs : List Req) : Option MState :=
  (installs mode s rs).map (dropInjector srcDropOrder)

/-- any number of consecutive lifetimes -/
def lifetimes (mode : Mode) : MState → List (List Req) → Option MState
  | s, [] => some s
  | s, rs :: rest => match lifetime mode s rs with
    | none => none
    | some s' => lifetimes mode s' rest

/-- **Balance over any number of cycles**: after any list of create / install / drop cycles
    (each history any length, repeated targets, any payload kinds) the set of trampoline
    mappings is exactly what it was, and no guard is left. -/
theorem C12_balance (mode : Mode) (hs : List (List Req)) :
    ∀ (s0 s : MState), s0.guards = [] → lifetimes mode s0 hs = some s →
      (∀ rs ∈ hs, (∀ r ∈ rs, ∀ x, inJit r x → ¬ inSlot r x) ∧ FreshMaps s0.maps rs) →
      s.maps = s0.maps ∧ s.guards = [] := by
  induction hs with
  | nil => intro s0 s hg h _; simp only [lifetimes] at h; injection h with h; subst h; exact ⟨rfl, hg⟩
  | cons rs rest ih =>
    intro s0 s hg h hwp
    simp only [lifetimes] at h
    cases hl : lifetime mode s0 rs with
    | none => simp [hl] at h
    | some s1 =>
      simp only [hl] at h
      unfold lifetime at hl
      cases hi : installs mode s0 rs with
      | none => simp [hi] at hl
      | some sf =>
        simp only [hi, Option.map] at hl
        injection hl with hl
        have hr := C02_restores mode rs s0 sf hg hi (hwp rs (by simp)).1 (hwp rs (by simp)).2
        simp only at hr
        rw [hl] at hr
        have := ih s1 s hr.2.2.1 h (fun rs' hrs' => by rw [hr.2.1]; exact hwp rs' (by simp [hrs']))
        rw [hr.2.1] at this
        exact this

/-- **Exactly once, only its own.**  Within one lifetime the `munmap` calls made by the drop
    are precisely the `mmap`s made by the installs — same (address, length) pairs, each once,
    newest first — and the installs themselves unmap nothing. -/
theorem C12_once (mode : Mode) (rs : List Req) (s0 sf : MState)
    (hg : s0.guards = []) (h : installs mode s0 rs = some sf) (hnz : ∀ r ∈ rs, r.jit ≠ 0) :
    ∃ evI evD, sf.log = evI ++ s0.log ∧ (dropGuards sf sf.guards.reverse).log = evD ++ sf.log ∧
      munmapsOf evI.reverse = [] ∧ mmapsOf evD.reverse = [] ∧
      munmapsOf evD.reverse = (mmapsOf evI.reverse).reverse := by
  obtain ⟨evI, hI1, hI2, hI3⟩ := installs_mmaps mode rs s0 sf h
  obtain ⟨evD, hD1, hD2, hD3⟩ := dropGuards_munmaps sf.guards.reverse sf
  refine ⟨evI, evD, hI1, hD1, hI3, hD3, ?_⟩
  rw [hD2, hI2]
  -- the guards describe the requests, in order
  have key : ∀ (rs : List Req) (s sf : MState), installs mode s rs = some sf → (∀ r ∈ rs, r.jit ≠ 0) →
      ∃ gs, sf.guards = s.guards ++ gs ∧
        gs.map (fun g => (g.jit, g.jitLen)) = rs.map (fun r => (r.jit, r.payload.jitSize)) ∧
        ∀ g ∈ gs, g.jit ≠ 0 := by
    intro rs
    induction rs with
    | nil => intro s sf h _; simp only [installs] at h; injection h with h; subst h; exact ⟨[], by simp, rfl, by simp⟩
    | cons r rs ih =>
      intro s sf h hnz
      simp only [installs] at h
      cases h1 : installX86 mode s r.func r.payload r.jit with
      | none => simp [h1] at h
      | some s1 =>
        simp only [h1] at h
        obtain ⟨code, br, _, _, _, hgd, _, _⟩ := installX86_spec mode s s1 r.func r.payload r.jit h1
        obtain ⟨gs', e1, e2, e3⟩ := ih s1 sf h (fun r' hr' => hnz r' (by simp [hr']))
        refine ⟨Guard.mk r.func (readMem (afterJit s.mem r.jit r.payload.jitSize code) r.func br.length) br.length r.jit r.payload.jitSize :: gs',
          by rw [e1, hgd]; simp, by simp [e2], ?_⟩
        intro g hgm
        simp only [List.mem_cons] at hgm
        rcases hgm with e | e
        · subst e; exact hnz r (by simp)
        · exact e3 g e
  obtain ⟨gs, e1, e2, e3⟩ := key rs s0 sf h hnz
  rw [hg, List.nil_append] at e1
  rw [e1]
  have hf : (gs.reverse.filter (fun g => g.jit ≠ 0)) = gs.reverse := by
    rw [List.filter_eq_self]; intro g hgm; simp [e3 g (by simpa using hgm)]
  rw [hf, ← e2, List.map_reverse]

/-- the model's state is complete for the back ends: `injector_core` declares no process-wide or
    thread-local mutable state (regenerated from the source on every run) -/
theorem C12_state_modelled : Generated.Layout.coreStatics = [] := by decide

end Inj.Props

#print axioms Inj.Props.C12_balance
#print axioms Inj.Props.C12_once
#print axioms Inj.Props.C12_state_modelled
