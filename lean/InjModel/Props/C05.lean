/-
  C05 — a panic while fakes are installed still restores, unlocks and never aborts.
  A lifetime is a body script (`Panic.Op`) in which a panic may happen at any position and of any
  library-raised kind, followed by the release of the injector in the order the source
  prescribes (Lock.srcParams.injectorRelease), with the verifier behaving as verifier.rs says.
-/
import InjModel.Lemmas.Panic
import InjModel.Props.C02
import InjModel.Props.C04
namespace Inj.Props
open Inj Inj.Machine Inj.Panic Inj.Generated.Layout

/-- the release order and verifier behaviour read from the source -/
def srcOrder : List Field := Lock.srcParams.injectorRelease

theorem C05_source : Generated.Layout.verifierChecksPanicking = true ∧
    srcOrder.contains Field.guards = true ∧ srcOrder.contains Field.lock = true ∧
    Generated.Layout.rawGateBeforeGuard = true ∧ Generated.Layout.asyncGateBeforeGuard = true ∧
    Generated.Layout.boolGateBeforeGuard = true ∧ Generated.Layout.funcPtrRejectsNull = true := by decide

/-- **Any body, any panic point, any pending expectations.**  For every body script — any
    installs, counted / rejected / plain calls, refused installations and a user panic, in any
    order, the first panic ending the body wherever it occurs (or none) — letting go of the
    injector:
      * never aborts the process and raises at most one panic in total
        (none of its own when the body already panicked, at most one otherwise);
      * releases the process-wide guard;
      * restores every byte outside the (unmapped) trampoline pages, the set of mappings, and
        leaves no guard — i.e. the next lifetime starts from the original state. -/
theorem C05_safe (mode : Mode) (ops : List Op) (s0 : MState) (hg : s0.guards = [])
    (hdis : ∀ r ∈ reqsOf mode ⟨s0, [], false⟩ ops, ∀ x, inJit r x → ¬ inSlot r x)
    (hfresh : FreshMaps s0.maps (reqsOf mode ⟨s0, [], false⟩ ops)) :
    let st := runBody mode ⟨s0, [], false⟩ ops
    let e := scopeExit srcDropOrder Generated.Layout.verifierChecksPanicking srcOrder st
    e.abort = false ∧
    (if st.panicked then 1 else 0) + e.newPanics ≤ 1 ∧
    e.lockHeld = false ∧
    (∀ x, (∀ r ∈ reqsOf mode ⟨s0, [], false⟩ ops, ¬ inJit r x) → e.ms.mem x = s0.mem x) ∧
    e.ms.maps = s0.maps ∧ e.ms.guards = [] := by
  intro st e
  have hcp : Generated.Layout.verifierChecksPanicking = true := C05_source.1
  have hinst := runBody_installs mode ops ⟨s0, [], false⟩
  have hinit : ExitOK { ms := st.ms, panicking := st.panicked, newPanics := 0, abort := false, lockHeld := true, verifs := st.verifs } :=
    ⟨rfl, Or.inl rfl⟩
  have hspec := exitSteps_spec srcDropOrder srcOrder _ hinit
  obtain ⟨⟨hab, hnp⟩, hlock, hms, hpan⟩ := hspec
  have he : e = exitSteps srcDropOrder true { ms := st.ms, panicking := st.panicked, newPanics := 0, abort := false, lockHeld := true, verifs := st.verifs } srcOrder := by
    show scopeExit srcDropOrder Generated.Layout.verifierChecksPanicking srcOrder st = _
    rw [hcp]; rfl
  have hrest := C02_restores mode (reqsOf mode ⟨s0, [], false⟩ ops) s0 st.ms hg hinst hdis hfresh
  simp only at hrest
  have hra : restoreAll srcDropOrder st.ms = { (dropInjector srcDropOrder st.ms) with log := (restoreAll srcDropOrder st.ms).log } := by
    simp only [restoreAll, dropInjector, logEv, C02_source_restores_newest_first]
  rw [he]
  refine ⟨hab, ?_, ?_, ?_, ?_, ?_⟩
  · by_cases hp : st.panicked = true
    · have h0 := hpan hp
      simp only at h0
      rw [h0, if_pos hp]
      exact Nat.le_refl _
    · rw [if_neg hp]
      rcases hnp with h0 | ⟨h1, _⟩ <;> omega
  · rw [hlock, C05_source.2.2.1]; rfl
  · intro x hx
    rw [hms, C05_source.2.1, if_pos rfl, hra]
    exact hrest.1 x hx
  · rw [hms, C05_source.2.1, if_pos rfl, hra]; exact hrest.2.1
  · rw [hms, C05_source.2.1, if_pos rfl, hra]; exact hrest.2.2.1

/-- **A refused installation modifies nothing**: signature mismatch, null pointer and allocation
    failure raise their panic before any byte of the function or any mapping changes (the gates
    precede the patching call in the source: `C05_source`). -/
theorem C05_refused (mode : Mode) (st : LifeState) (hp : st.panicked = false) (pushed : Option Nat) :
    (runBody mode st [Op.refused pushed]).ms = st.ms ∧ (runBody mode st [Op.refused pushed]).panicked = true := by
  simp [runBody, hp]

/-- **Verification at normal scope exit**: the injector panics iff some pending expectation is
    unsatisfied — and then exactly once, however many are unsatisfied. -/
theorem C05_exit_once (st : LifeState) (hp : st.panicked = false) :
    (scopeExit srcDropOrder true srcOrder st).newPanics = if anyMismatch st.verifs then 1 else 0 := by
  have horder : srcOrder = [Field.guards, Field.guards, Field.verifiers, Field.lock] := by decide
  unfold scopeExit
  rw [horder]
  simp only [exitSteps, Bool.false_eq_true, if_false]
  obtain ⟨v1, _, _, _, v5, _⟩ := dropVerifs_spec st.verifs
    { ms := restoreAll srcDropOrder (restoreAll srcDropOrder st.ms), panicking := st.panicked, newPanics := 0, abort := false, lockHeld := true, verifs := st.verifs } rfl
  simp only [v1, Bool.false_eq_true, if_false]
  rw [v5, hp]; simp

/-- non-vacuity: two unsatisfied expectations and no body panic give exactly one panic -/
example : anyMismatch [(1, 0), (2, 0)] = true := by decide

end Inj.Props

#print axioms Inj.Props.C05_source
#print axioms Inj.Props.C05_safe
#print axioms Inj.Props.C05_refused
#print axioms Inj.Props.C05_exit_once
