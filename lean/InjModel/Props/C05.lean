/-
  C05 — a panic while fakes are installed still restores, unlocks and never aborts.
  A lifetime is a body script (`Panic.Op`) in which a panic may happen at any position and of any
  library-raised kind, followed by the release of the injector in the order the source
  prescribes (two phases: the `Drop::drop` body, then the fields), with the verifier behaving as
  verifier.rs says.
-/
import InjModel.Lemmas.Panic
import InjModel.Props.C02
import InjModel.Props.C04
namespace Inj.Props
open Inj Inj.Machine Inj.Panic Inj.Generated.Layout

/-- the `Drop::drop` body and the field order read from the source -/
def srcBody : List Field := Generated.Layout.injectorDropBody
def srcFields : List Field := Generated.Layout.injectorFields

theorem C05_source : Generated.Layout.verifierChecksPanicking = true ∧
    srcBody = Field.guards :: srcBody.tail ∧ srcBody.tail.contains Field.lock = false ∧
    srcFields.contains Field.lock = true ∧ (srcBody ++ srcFields).contains Field.verifiers = true ∧
    Generated.Layout.rawGateBeforeGuard = true ∧ Generated.Layout.asyncGateBeforeGuard = true ∧
    Generated.Layout.boolGateBeforeGuard = true ∧ Generated.Layout.funcPtrRejectsNull = true := by decide

/-- **Any body, any panic point, any pending expectations.**  For every body script — any
    installs, counted / rejected / plain calls, refused installations and a user panic, in any
    order, the first panic ending the body wherever it occurs (or none) — letting go of the
    injector in two phases as the language prescribes (the `Drop::drop` body as extracted, a
    panic raised inside it skipping the rest; then the fields in declaration order, a non-empty
    guard vector dropping oldest first):
      * never aborts the process and raises at most one panic in total
        (none of its own when the body already panicked, at most one otherwise);
      * releases the process-wide guard;
      * restores every byte outside the (unmapped) trampoline pages, the set of mappings, and
        leaves no guard — i.e. the next lifetime starts from the original state. -/
theorem C05_safe (mode : Mode) (ops : List Op) (s0 : MState) (hg : s0.guards = [])
    (hdis : ∀ r ∈ reqsOf mode ⟨s0, [], false⟩ ops, ∀ x, inJit r x → ¬ inSlot r x)
    (hfresh : FreshMaps s0.maps (reqsOf mode ⟨s0, [], false⟩ ops)) :
    let st := runBody mode ⟨s0, [], false⟩ ops
    let e := scopeExit2 srcDropOrder Generated.Layout.verifierChecksPanicking srcBody srcFields st
    e.abort = false ∧
    (if st.panicked then 1 else 0) + e.newPanics ≤ 1 ∧
    e.lockHeld = false ∧
    (∀ x, (∀ r ∈ reqsOf mode ⟨s0, [], false⟩ ops, ¬ inJit r x) → e.ms.mem x = s0.mem x) ∧
    e.ms.maps = s0.maps ∧ e.ms.guards = [] := by
  intro st e
  obtain ⟨hcp, hb, hl, hfl, _, _⟩ := C05_source
  have hinst := runBody_installs mode ops ⟨s0, [], false⟩
  have hspec := scopeExit2_spec srcDropOrder srcBody.tail srcFields st hl
  simp only at hspec
  have he : e = scopeExit2 srcDropOrder true (Field.guards :: srcBody.tail) srcFields st := by
    show scopeExit2 srcDropOrder Generated.Layout.verifierChecksPanicking srcBody srcFields st = _
    rw [hcp, ← hb]
  obtain ⟨h1, h2, h3, h4⟩ := hspec
  have hrest := C02_restores mode (reqsOf mode ⟨s0, [], false⟩ ops) s0 st.ms hg hinst hdis hfresh
  simp only at hrest
  have hra : restoreAll srcDropOrder st.ms = { (dropInjector srcDropOrder st.ms) with log := (restoreAll srcDropOrder st.ms).log } := by
    simp only [restoreAll, dropInjector, logEv, C02_source_restores_newest_first]
  rw [he]
  refine ⟨h1, h4, ?_, ?_, ?_, ?_⟩
  · rw [h3, hfl]; rfl
  · intro x hx; rw [h2, hra]; exact hrest.1 x hx
  · rw [h2, hra]; exact hrest.2.1
  · rw [h2, hra]; exact hrest.2.2.1

/-- **A refused installation modifies nothing**: signature mismatch, null pointer and allocation
    failure raise their panic before any byte of the function or any mapping changes (the gates
    precede the patching call in the source: `C05_source`). -/
theorem C05_refused (mode : Mode) (st : LifeState) (hp : st.panicked = false) (pushed : Option Nat) :
    (runBody mode st [Op.refused pushed]).ms = st.ms ∧ (runBody mode st [Op.refused pushed]).panicked = true := by
  simp [runBody, hp]

/-- **Verification at normal scope exit**: the injector panics iff some pending expectation is
    unsatisfied — and then exactly once, however many are unsatisfied (wherever the source lets
    the verifiers go: `scopeExit2_newPanics` holds for any body and field order that drops them). -/
theorem C05_exit_once (st : LifeState) (hp : st.panicked = false) :
    (scopeExit2 srcDropOrder true srcBody srcFields st).newPanics = if anyMismatch st.verifs then 1 else 0 :=
  scopeExit2_newPanics srcDropOrder srcBody srcFields st hp C05_source.2.2.2.2.1

/-- non-vacuity: two unsatisfied expectations and no body panic give exactly one panic -/
example : anyMismatch [(1, 0), (2, 0)] = true := by decide

end Inj.Props

#print axioms Inj.Props.C05_source
#print axioms Inj.Props.C05_safe
#print axioms Inj.Props.C05_refused
#print axioms Inj.Props.C05_exit_once
