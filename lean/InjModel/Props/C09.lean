/-
  C09 — type-checked installation refuses every structurally different signature.
  The gate is string equality of the `type_name` renderings recorded by `func!`/`closure!`/
  `fake!`/`async_*!` (Model/Sig.lean: token level, lifetimes not rendered).
-/
import InjModel.Lemmas.Sig
import InjModel.Lemmas.SigInj
namespace Inj.Props
open Inj Inj.Sig

/-- **Tie to the source**: both type-checked entry points compare the two recorded signatures
    before they patch; `will_execute` goes through the same gate; the unchecked entry points
    carry the empty signature; `FuncPtr::new` rejects null. -/
theorem C09_source : Generated.Layout.rawGateBeforeGuard = true ∧ Generated.Layout.asyncGateBeforeGuard = true ∧
    Generated.Layout.willExecuteGoesThroughRaw = true ∧ Generated.Layout.uncheckedCarriesEmptySig = true ∧
    Generated.Layout.funcPtrRejectsNull = true := by decide

/-- **The gate is exactly equality of the recorded renderings.** -/
theorem C09_gate (a b : List Tok) : gate a b = true ↔ a = b := by
  unfold gate; exact beq_iff_eq

/-- **The rendering is injective on the whole grammar** (primitive/path types, references and raw
    pointers of either mutability, tuples incl. 1-tuples, slices, arrays, generic applications,
    `dyn Fn(..) -> ..`, nested function pointers of any unsafety and ABI): two function-pointer
    types print the same token list only if they are the same type. -/
theorem C09_render_injective (a b : FnTy) (h : renderFn a = renderFn b) : a = b :=
  renderFn_injective a b h

/-- **Accept iff structurally identical** — for all function-pointer types of the grammar. -/
theorem C09_gate_iff (a b : FnTy) : gate (renderFn a) (renderFn b) = true ↔ a = b := by
  rw [C09_gate]
  exact ⟨C09_render_injective a b, fun h => by rw [h]⟩

/-- every rendered function-pointer type contains the `fn` keyword: it is never the empty text -/
theorem renderFn_ne_nil (f : FnTy) : renderFn f ≠ [] := by
  cases f with
  | mk u abi ps r =>
    simp only [renderFn]
    cases u <;> by_cases h : abi = 0 <;> simp [h]

/-- **Typed paired with unchecked is always refused**, whichever side carries the type: the
    unchecked macros record `""`, which no rendered type equals. -/
theorem C09_unchecked_mix (f : FnTy) : gate (renderFn f) [] = false ∧ gate [] (renderFn f) = false := by
  have h := renderFn_ne_nil f
  constructor
  · cases hg : gate (renderFn f) [] with
    | false => rfl
    | true => exact absurd ((C09_gate _ _).mp hg) h
  · cases hg : gate [] (renderFn f) with
    | false => rfl
    | true => exact absurd ((C09_gate _ _).mp hg).symm h

/-- **Identical writing is accepted** -/
theorem C09_same_accepted (f : FnTy) : gate (renderFn f) (renderFn f) = true := (C09_gate _ _).mpr rfl

/-- **Differences the property names are visible in the rendering** (so the gate refuses them):
    unsafety, ABI, and the presence of a return type each change the token list. -/
theorem C09_unsafety_visible (abi : Nat) (ps : TyList) (r : Ty) :
    renderFn (FnTy.mk true abi ps r) ≠ renderFn (FnTy.mk false abi ps r) := by
  simp only [renderFn]
  by_cases h : abi = 0 <;> simp [h]

theorem C09_abi_visible (u : Bool) (abi : Nat) (ps : TyList) (r : Ty) (h : abi ≠ 0) :
    renderFn (FnTy.mk u abi ps r) ≠ renderFn (FnTy.mk u 0 ps r) := by
  simp only [renderFn]
  cases u <;> simp [h]

/-- reference mutability is visible -/
theorem C09_mutability_visible (t : Ty) : render (Ty.ref true t) ≠ render (Ty.ref false t) := by
  simp only [render, if_true, Bool.false_eq_true, if_false, List.cons_append, List.nil_append, List.append_nil]
  intro h
  injection h with _ h2
  -- `mut` followed by render t  vs  render t: lengths differ by one
  have := congrArg List.length h2
  simp at this

end Inj.Props

#print axioms Inj.Props.C09_source
#print axioms Inj.Props.C09_gate
#print axioms Inj.Props.C09_render_injective
#print axioms Inj.Props.C09_gate_iff
#print axioms Inj.Props.renderFn_ne_nil
#print axioms Inj.Props.C09_unchecked_mix
#print axioms Inj.Props.C09_same_accepted
#print axioms Inj.Props.C09_unsafety_visible
#print axioms Inj.Props.C09_abi_visible
#print axioms Inj.Props.C09_mutability_visible
