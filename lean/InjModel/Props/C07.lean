/-
  C07 — call counting starts from zero for every installation.
-/
import InjModel.Lemmas.Counter
import InjModel.Generated.Layout
namespace Inj.Props
open Inj Inj.Counter

/-- **Tie to the source**: `will_execute` stores 0 into the call-site counter before installing. -/
theorem C07_source_resets : Generated.Layout.counterResetOnInstall = true := by decide

/-- verdict of one lifetime taken alone (counter starting at zero) -/
def aloneVerdict (cp : Bool) (l : Nat × List Bool × Bool) : List CallOut × ExitOut :=
  ((runCalls l.1 0 l.2.1).1, verifierDrop cp l.1 (runCalls l.1 0 l.2.1).2 l.2.2)

/-- **Locality**: for every sequence of lifetimes evaluating the same `fake!(…, times: N)`
    expression, with any calls in each, each ending normally or by unwinding from a panic in its
    body, whatever the counter held before, every lifetime's call outcomes and exit verdict are
    those it would have alone. -/
theorem C07_local (cp : Bool) (hist : List (Nat × List Bool × Bool)) :
    ∀ cnt0, lifetimes Generated.Layout.counterResetOnInstall cp cnt0 hist = hist.map (aloneVerdict cp) := by
  rw [C07_source_resets]
  induction hist with
  | nil => intro _; rfl
  | cons l rest ih =>
    intro cnt0
    obtain ⟨n, calls, unw⟩ := l
    simp only [lifetimes, lifetime, if_true, List.map, aloneVerdict, ih]

/-- same set-up, same verdict: two lifetimes with the same (N, calls) get the same result -/
theorem C07_repeatable (cp : Bool) (l : Nat × List Bool × Bool) (before after : List (Nat × List Bool × Bool)) (cnt0 : Nat) :
    (lifetimes Generated.Layout.counterResetOnInstall cp cnt0 (before ++ l :: after)).getD before.length ([], ExitOut.ok) =
      aloneVerdict cp l := by
  rw [C07_local]
  simp [List.getD_eq_getElem?_getD]

/-- Without the reset the property is false (finding F3 on the pinned tree): second lifetime,
    first call. -/
theorem C07_without_reset_false :
    lifetimes false true 0 [(1, [true], false), (1, [true], false)] ≠
      [(1, [true], false), (1, [true], false)].map (aloneVerdict true) := by
  decide

/-- the same after a lifetime that ended by unwinding: the silent verifier must not leave its
    count behind either -/
theorem C07_without_reset_false_after_unwind :
    lifetimes false true 0 [(2, [true], true), (2, [true, true], false)] ≠
      [(2, [true], true), (2, [true, true], false)].map (aloneVerdict true) := by
  decide

end Inj.Props

#print axioms Inj.Props.C07_source_resets
#print axioms Inj.Props.C07_local
#print axioms Inj.Props.C07_repeatable
#print axioms Inj.Props.C07_without_reset_false
#print axioms Inj.Props.C07_without_reset_false_after_unwind
