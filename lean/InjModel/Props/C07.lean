/-
  C07 — call counting starts from zero for every installation.
-/
import InjModel.Lemmas.Counter
import InjModel.Generated.Layout
namespace Inj.Props
open Inj Inj.Counter

/-- **Tie to the source**: `will_execute` stores 0 into the call-site counter before installing. -/
theorem C07_source_resets : Generated.Layout.counterResetOnInstall = true := by decide

/-- verdict of one lifetime taken alone: every installation counts from zero -/
def aloneVerdict (cp : Bool) (l : Nat × List (List Bool) × Bool) : List (List CallOut) × ExitOut :=
  ((runInstalls true l.1 0 l.2.1).1, exitVerdict cp l.1 l.2.1 (runInstalls true l.1 0 l.2.1).2 l.2.2)

/-- with the reset, what a sequence of installations does is independent of what the counter
    held before, provided at least one installation happens -/
theorem runInstalls_reset_indep (n : Nat) (installs : List (List Bool)) (c1 c2 : Nat) :
    (runInstalls true n c1 installs).1 = (runInstalls true n c2 installs).1 ∧
    (installs ≠ [] → (runInstalls true n c1 installs).2 = (runInstalls true n c2 installs).2) := by
  cases installs with
  | nil => simp [runInstalls]
  | cons calls rest => simp [runInstalls]

/-- **Locality**: for every sequence of lifetimes evaluating the same `fake!(…, times: N)`
    expression — any number of installations of it within a lifetime (a helper or a loop), any
    calls after each, each lifetime ending normally or by unwinding from a panic in its body —
    whatever the counter held before, every installation's call outcomes and every lifetime's
    exit verdict are those it would have with each installation counting from zero. -/
theorem C07_local (cp : Bool) (hist : List (Nat × List (List Bool) × Bool)) :
    ∀ cnt0, lifetimes Generated.Layout.counterResetOnInstall cp cnt0 hist = hist.map (aloneVerdict cp) := by
  rw [C07_source_resets]
  induction hist with
  | nil => intro _; rfl
  | cons l rest ih =>
    intro cnt0
    obtain ⟨n, installs, unw⟩ := l
    obtain ⟨h1, h2⟩ := runInstalls_reset_indep n installs cnt0 0
    simp only [lifetimes, List.map, aloneVerdict, ih]
    congr 1
    cases installs with
    | nil => simp [runInstalls, exitVerdict]
    | cons c r =>
      have := h2 (by simp)
      rw [h1, this]

/-- same set-up, same verdict: two lifetimes with the same (N, installs, exit) get the same result -/
theorem C07_repeatable (cp : Bool) (l : Nat × List (List Bool) × Bool) (before after : List (Nat × List (List Bool) × Bool)) (cnt0 : Nat) :
    (lifetimes Generated.Layout.counterResetOnInstall cp cnt0 (before ++ l :: after)).getD before.length ([], ExitOut.ok) =
      aloneVerdict cp l := by
  rw [C07_local]
  simp [List.getD_eq_getElem?_getD]

/-- Without the reset the property is false (finding F3 on the pinned tree): second lifetime,
    first call. -/
theorem C07_without_reset_false :
    lifetimes false true 0 [(1, [[true]], false), (1, [[true]], false)] ≠
      [(1, [[true]], false), (1, [[true]], false)].map (aloneVerdict true) := by
  decide

/-- the same after a lifetime that ended by unwinding: the silent verifier must not leave its
    count behind either -/
theorem C07_without_reset_false_after_unwind :
    lifetimes false true 0 [(2, [[true]], true), (2, [[true, true]], false)] ≠
      [(2, [[true]], true), (2, [[true, true]], false)].map (aloneVerdict true) := by
  decide

/-- and within one lifetime: a second installation built by the same line must not inherit what
    the first one absorbed -/
theorem C07_without_reset_false_within_lifetime :
    lifetimes false true 0 [(1, [[true], [true]], false)] ≠ [(1, [[true], [true]], false)].map (aloneVerdict true) := by
  decide

end Inj.Props

#print axioms Inj.Props.C07_source_resets
#print axioms Inj.Props.C07_local
#print axioms Inj.Props.C07_repeatable
#print axioms Inj.Props.C07_without_reset_false
#print axioms Inj.Props.C07_without_reset_false_after_unwind
#print axioms Inj.Props.C07_without_reset_false_within_lifetime
#print axioms Inj.Props.runInstalls_reset_indep
