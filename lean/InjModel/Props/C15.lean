/-
  C15 — AArch64 patches decode to a branch to exactly the fake, for all addresses.
  The emitters are built from the bit-source sequences and constants the translator read from
  arm64_codegenerator.rs / patch_arm64.rs (Generated/Consts.lean); `decode`/`exec` are the
  independent ISA fragment of Model/A64.lean.
-/
import InjModel.Generated.Layout
import InjModel.Lemmas.A64
namespace Inj.Props
open Inj Inj.A64 Inj.Generated

/-- every constant the model needs was found in the source -/
theorem C15_consts_found : Consts.missing = [] := by decide

/-- **Trampoline.**  For every 64-bit fake address the five words decode to
    `movz x9,#a0; movk x9,#a1,lsl 16; movk x9,#a2,lsl 32; movk x9,#a3,lsl 48; br x9`, and executing
    them from any state ends with pc = fake, x9 = fake and every other register unchanged. -/
theorem C15_tramp (fake : Nat) (h : fake < 18446744073709551616) (c : Cpu) :
    (tramp fake).map decode =
      [Instr.movz 9 (chunk fake 0) 0, Instr.movk 9 (chunk fake 16) 1, Instr.movk 9 (chunk fake 32) 2,
       Instr.movk 9 (chunk fake 48) 3, Instr.br 9] ∧
    execList ((tramp fake).map decode) c = some { pc := fake, x := setX c.x 9 fake } :=
  ⟨tramp_decodes fake, tramp_exec fake h c⟩

/-- **Registers.**  The only register the trampoline writes is x9, a caller-saved temporary
    that carries no argument (x9 … x17). -/
theorem C15_tramp_regs (fake : Nat) :
    ∀ r ∈ ((tramp fake).map decode).flatMap writes, 9 ≤ r ∧ r ≤ 17 := by
  rw [tramp_decodes]; intro r hr; simp [writes] at hr; omega

/-- **Forced boolean.**  `movz x0,#v; ret`: x0 = v, pc = x30, nothing else written. -/
theorem C15_bool (v : Bool) (c : Cpu) :
    execList ((boolStub v).map decode) c = some { pc := c.x 30, x := setX c.x 0 (if v then 1 else 0) } :=
  boolStub_exec v c

/-- **Entry, Linux.**  For word-aligned user-space addresses: within ±128 MiB (B's reach,
    [-2^27, 2^27-4]) the first word decodes to `B` whose destination is exactly the trampoline
    and the two following words are NOP; outside it the installation is refused (panic), never
    wrapped. -/
theorem C15_entry_linux (func jit : Nat) (hf : func < 9223372036854775808) (hj : jit < 9223372036854775808)
    (af : func % 4 = 0) (aj : jit % 4 = 0) :
    ((-134217728 ≤ (jit : Int) - func ∧ (jit : Int) - func < 134217728) →
      ∃ imm26, entryLinux func jit = Res.ok [335544320 + imm26, 3573751839, 3573751839] ∧
        decode (335544320 + imm26) = Instr.b imm26 ∧ decode 3573751839 = Instr.nop ∧
        wrap64 ((func : Int) + sext 26 imm26 * 4) = jit) ∧
    (¬ (-134217728 ≤ (jit : Int) - func ∧ (jit : Int) - func < 134217728) →
      ∃ why, entryLinux func jit = Res.panic why) := by
  constructor
  · intro hr
    obtain ⟨i, h1, h2, h3⟩ := entryLinux_ok func jit hf hj af aj hr
    exact ⟨i, h1, h2, decode_nop, h3⟩
  · intro hr; exact entryLinux_refuses func jit hf hj af aj hr

/-- **Entry, macOS, direct form.** -/
theorem C15_entry_macos_near (pc target : Nat) (hp : pc < 9223372036854775808) (ht : target < 9223372036854775808)
    (al : ((target : Int) - pc) % 4 = 0)
    (hr : -134217728 ≤ (target : Int) - pc ∧ (target : Int) - pc < 134217728) (c : Cpu) :
    ∃ w, entryMacos pc target = [w, 3573751839, 3573751839] ∧
      exec (decode w) { c with pc := pc } = some { c with pc := target } :=
  entryMacos_near pc target hp ht al hr c

/-- **Entry, macOS, long form.**  `ADRP x16; ADD x16,x16,#lo12; BR x16` reaches exactly the
    target for every pair whose page distance fits ADRP's signed 21 bits (±4 GiB); x16 only. -/
theorem C15_entry_macos_far (pc target : Nat) (hp : pc < 9223372036854775808) (ht : target < 9223372036854775808)
    (hn : ¬ (-134217728 ≤ (target : Int) - pc ∧ (target : Int) - pc < 134217728))
    (hr : -1048576 ≤ ((target / 4096 : Nat) : Int) - (pc / 4096 : Nat) ∧ ((target / 4096 : Nat) : Int) - (pc / 4096 : Nat) < 1048576)
    (c : Cpu) :
    execList ((entryMacos pc target).map decode) { c with pc := pc } =
      some { pc := target, x := setX c.x 16 target } :=
  entryMacos_far pc target hp ht hn hr c

/-- corollary for what the macOS allocator can return (±2 GiB): always inside the long form's reach -/
theorem C15_macos_alloc_range (pc target : Nat)
    (h : -2147483648 ≤ (target : Int) - pc ∧ (target : Int) - pc ≤ 2147483648) :
    -1048576 ≤ ((target / 4096 : Nat) : Int) - (pc / 4096 : Nat) ∧ ((target / 4096 : Nat) : Int) - (pc / 4096 : Nat) < 1048576 := by
  omega

/-- non-vacuity: concrete instances of the hypotheses -/
example : entryLinux 0x200000000 0x207FFFFFC = Res.ok [0x15FFFFFF, 3573751839, 3573751839] := by decide
example : entryLinux 0x200000000 0x208000000 = Res.panic "JIT memory is out of branch range" := by decide
example : (tramp 0x1122334455667788).map decode =
    [Instr.movz 9 0x7788 0, Instr.movk 9 0x5566 1, Instr.movk 9 0x3344 2, Instr.movk 9 0x1122 3, Instr.br 9] := by decide

/-- the model's state is complete for the back ends: `injector_core` declares no process-wide or
    thread-local mutable state (regenerated from the source on every run) -/
theorem C15_state_modelled : Generated.Layout.coreStatics = [] := by decide

end Inj.Props

#print axioms Inj.Props.C15_consts_found
#print axioms Inj.Props.C15_tramp
#print axioms Inj.Props.C15_tramp_regs
#print axioms Inj.Props.C15_bool
#print axioms Inj.Props.C15_entry_linux
#print axioms Inj.Props.C15_entry_macos_near
#print axioms Inj.Props.C15_entry_macos_far
#print axioms Inj.Props.C15_macos_alloc_range
#print axioms Inj.Props.C15_state_modelled
