/-
  C01 — a call to a faked function reaches the fake from every address placement.
  Property theorems only (helper lemmas live in InjModel/Lemmas).
-/
import InjModel.Generated.Layout
import InjModel.Lemmas.X86
import InjModel.Lemmas.Machine
namespace Inj.Props
open Inj Inj.X86 Inj.Generated

/-- **Encoder + ISA.**  For every pair of 64-bit addresses, in either build profile, the bytes
    `generate_branch_to_target_function` returns, placed at `ori` in any memory and executed by
    the independent ISA fragment from any CPU state, transfer control to exactly `target` in at
    most two instructions, changing nothing but rip (and rax in the long form).  When the
    function does not return bytes it panicked (nothing is emitted). -/
theorem C01_branch_lands (mode : Mode) (ori target : Nat)
    (ho : ori < 18446744073709551616) (ht : target < 18446744073709551616) :
    (∃ why, genBranch mode ori target = Res.panic why) ∨
    (∃ bs, genBranch mode ori target = Res.ok bs ∧ (bs.length = 5 ∨ bs.length = 12) ∧
      ∀ (m : Nat → Nat) (c : Cpu), Holds m ori bs → c.rip = ori →
        (run m 1 c = some { c with rip := target }) ∨
        (run m 2 c = some { c with rip := target, gpr := setReg c.gpr 0 target })) := by
  cases h : genBranch mode ori target with
  | panic why => left; exact ⟨why, rfl⟩
  | ok bs =>
    right
    refine ⟨bs, rfl, genBranch_len mode ori target bs h, ?_⟩
    intro m c hm hc
    exact genBranch_run mode ori target bs ho ht h m hm c hc

/-- A release build never refuses: every address pair gets a branch. -/
theorem C01_release_total (ori target : Nat) :
    ∃ bs, genBranch Mode.release ori target = Res.ok bs := by
  rw [genBranch_eq_lit]; unfold genBranchLit
  simp only [show ¬ (Mode.release = Mode.debug) by decide, false_and, if_false]
  split
  · exact ⟨_, rfl⟩
  · exact ⟨_, rfl⟩

/-- **Installed state, any placement.**  After a successful installation of a fake for `func`
    with the trampoline at `jit` — for *every* function address (any in-page offset, including
    entries that span two pages), every trampoline address and every fake address, the only
    layout assumption being that the fresh trampoline page does not overlap the entry bytes —
    executing from `func` in any CPU state reaches exactly `fake` within four instructions,
    nothing but rip and rax having changed; and the installation itself did not fault. -/
theorem C01_reach (mode : Mode) (s s1 : Machine.MState) (func fake jit : Nat)
    (h : Machine.installX86 mode s func (Machine.Payload.exec fake) jit = some s1)
    (hdis : ∀ x, (jit ≤ x ∧ x < jit + 4096) → ¬ (func ≤ x ∧ x < func + 12))
    (hf : func < 18446744073709551616) (hj : jit < 18446744073709551616) (hk : fake < 18446744073709551616)
    (c : Cpu) (hc : c.rip = func) :
    (∃ k c', k ≤ 4 ∧ run s1.mem k c = some c' ∧ c'.rip = fake ∧ Machine.SameButRax c c') ∧
    s1.fault = s.fault := by
  refine ⟨Machine.install_reaches mode s s1 func fake jit h hdis hf hj hk c hc, ?_⟩
  obtain ⟨_, _, _, _, _, _, _, hfault⟩ := Machine.installX86_spec mode s s1 func _ jit h
  exact hfault

/-- **Loud or done.**  A release build never refuses an installation once the trampoline is
    allocated; a debug build refuses only by a panic of an encoder (signed overflow), in which
    case the model has no successor state: nothing was written at `func`. -/
theorem C01_install_total_release (s : Machine.MState) (func jit : Nat) (p : Machine.Payload) :
    ∃ s1, Machine.installX86 Mode.release s func p jit = some s1 := by
  unfold Machine.installX86
  obtain ⟨br, hbr⟩ := C01_release_total func jit
  cases p with
  | exec fake =>
    obtain ⟨code, hcode⟩ := C01_release_total jit fake
    simp only [Machine.payloadCode, hcode, hbr]
    exact ⟨_, rfl⟩
  | bool v =>
    simp only [Machine.payloadCode, hbr]
    exact ⟨_, rfl⟩

/-- non-vacuity: a short, a long and a boundary placement -/
example : genBranch Mode.debug 0x1000 0x2000 = Res.ok [0xE9, 0xFB, 0x0F, 0, 0] := by decide
example : genBranch Mode.debug 0x1000 0x80001005 = Res.ok [0x48, 0xB8, 5, 0x10, 0, 0x80, 0, 0, 0, 0, 0xFF, 0xE0] := by decide
example : genBranch Mode.debug 0x1000 0x80001004 = Res.ok [0xE9, 0xFF, 0xFF, 0xFF, 0x7F] := by decide

/-- the model's state is complete for the back ends: `injector_core` declares no process-wide or
    thread-local mutable state (regenerated from the source on every run) -/
theorem C01_state_modelled : Generated.Layout.coreStatics = [] := by decide

end Inj.Props

#print axioms Inj.Props.C01_branch_lands
#print axioms Inj.Props.C01_release_total
#print axioms Inj.Props.C01_reach
#print axioms Inj.Props.C01_install_total_release
#print axioms Inj.Props.C01_state_modelled
