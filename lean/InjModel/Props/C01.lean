/-
  C01 — a call to a faked function reaches the fake from every address placement.
  Property theorems only (helper lemmas live in InjModel/Lemmas).
-/
import InjModel.Lemmas.X86
namespace Inj.Props
open Inj Inj.X86 Inj.Generated

/-- **Encoder + ISA.**  For every pair of 64-bit addresses, in either build profile, the bytes
    `generate_branch_to_target_function` returns, placed at `ori` in any memory and executed by
    the independent ISA fragment from any CPU state, transfer control to exactly `target` in at
    most two instructions, changing nothing but rip (and rax in the long form).  When the
    function does not return bytes it panicked (nothing is emitted). -/
theorem C01_branch_lands (mode : Mode) (ori target : Nat)
    (ho : ori < 18446744073709551616) (ht : target < 18446744073709551616) :
    (∃ why, genBranch mode ori target = Res.panic why) ∨
    (∃ bs, genBranch mode ori target = Res.ok bs ∧ (bs.length = 5 ∨ bs.length = 12) ∧
      ∀ (m : Nat → Nat) (c : Cpu), Holds m ori bs → c.rip = ori →
        (run m 1 c = some { c with rip := target }) ∨
        (run m 2 c = some { c with rip := target, gpr := setReg c.gpr 0 target })) := by
  cases h : genBranch mode ori target with
  | panic why => left; exact ⟨why, rfl⟩
  | ok bs =>
    right
    refine ⟨bs, rfl, genBranch_len mode ori target bs h, ?_⟩
    intro m c hm hc
    exact genBranch_run mode ori target bs ho ht h m hm c hc

/-- A release build never refuses: every address pair gets a branch. -/
theorem C01_release_total (ori target : Nat) :
    ∃ bs, genBranch Mode.release ori target = Res.ok bs := by
  rw [genBranch_eq_lit]; unfold genBranchLit
  simp only [show ¬ (Mode.release = Mode.debug) by decide, false_and, if_false]
  split
  · exact ⟨_, rfl⟩
  · exact ⟨_, rfl⟩

/-- non-vacuity: a short, a long and a boundary placement -/
example : genBranch Mode.debug 0x1000 0x2000 = Res.ok [0xE9, 0xFB, 0x0F, 0, 0] := by decide
example : genBranch Mode.debug 0x1000 0x80001005 = Res.ok [0x48, 0xB8, 5, 0x10, 0, 0x80, 0, 0, 0, 0, 0xFF, 0xE0] := by decide
example : genBranch Mode.debug 0x1000 0x80001004 = Res.ok [0xE9, 0xFF, 0xFF, 0xFF, 0x7F] := by decide

end Inj.Props

#print axioms Inj.Props.C01_branch_lands
#print axioms Inj.Props.C01_release_total
