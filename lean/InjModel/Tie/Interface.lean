/-
  Tie/Interface.lean — the interface layer (`injector.rs`, `verifier.rs`, `func_ptr.rs`, `internal.rs`) as
  translated: each function is its sequence of effects on the object graph (the lock, the guard and verifier
  vectors, the per-site counter, the back end), with the real control flow on the signature texts.  The
  theorems state, for every input and oracle script, what each function does and in which order — the facts
  the models of C02 / C04 / C05 / C06 / C07 / C09 / C10 take from the source.
-/
import InjModel.Generated.Fns
import InjModel.Generated.Layout
import InjModel.Lemmas.Rt
import InjModel.Tie.SigText
open Inj Inj.Rt Inj.Sig

namespace Inj.Tie

abbrev Lib := (List Unit) × (List Unit) × Unit

/-- append to the log -/
def logs (os : Os) (l : List (String × List Val)) : Os := { os with log := os.log ++ l }

theorem logs_logs (os : Os) (a b : List (String × List Val)) : logs (logs os a) b = logs os (a ++ b) := by
  simp [logs, List.append_assoc]

theorem run_extU' (name : String) (args : List Val) (os : Os) :
    run (extU name args) os = (Res.ok (), logs os [(name, args)]) := rfl

def installEffects (func target : Nat) : List (String × List Val) :=
  [("replace_function_with_other_function", [Val.n (Int.ofNat func), Val.n (Int.ofNat target)]),
   ("self.lib.guards.push", [Val.n 0])]

theorem T_if_execute_guard (mode : Mode) (func target : Nat) (os : Os) :
    run (GenIf.WhenCalled_will_execute_guard mode func target) os =
      (Res.ok (), logs os [("replace_function_with_other_function", [Val.n (Int.ofNat func), Val.n (Int.ofNat target)])]) := by
  rw [GenIf.WhenCalled_will_execute_guard, run_bind_ok _ _ _ _ _ (run_extU' _ _ _), run_pure]

/-- **the gate precedes the patch** (`will_execute_raw`): a replacement whose recorded signature differs
    from the target's is refused by a panic before any effect; otherwise the back end is called once and the
    guard is kept -/
theorem T_if_will_execute_raw (mode : Mode) (lib : Lib) (func : Nat) (expected : List Char)
    (target : Nat × List Char) (os : Os) :
    run (GenIf.WhenCalledBuilder_will_execute_raw mode lib func expected target) os =
      if target.2 != expected then (Res.panic "Signature mismatch: expected :? but go", os)
      else (Res.ok (), logs os (installEffects func target.1)) := by
  rw [GenIf.WhenCalledBuilder_will_execute_raw]
  by_cases h : (target.2 != expected) = true
  · rw [if_pos h, if_pos h, run_panicNow]
  · rw [if_neg h, if_neg h]
    rw [run_bind_ok _ _ _ _ _ (T_if_execute_guard mode func target.1 os)]
    dsimp only
    rw [run_bind_ok _ _ _ _ _ (run_extU' _ _ _), run_pure, logs_logs]
    rfl

theorem T_if_will_execute_raw_unchecked (mode : Mode) (lib : Lib) (func : Nat) (expected : List Char)
    (target : Nat × List Char) (os : Os) :
    run (GenIf.WhenCalledBuilder_will_execute_raw_unchecked mode lib func expected target) os =
      (Res.ok (), logs os (installEffects func target.1)) := by
  rw [GenIf.WhenCalledBuilder_will_execute_raw_unchecked]
  rw [run_bind_ok _ _ _ _ _ (T_if_execute_guard mode func target.1 os)]
  dsimp only
  rw [run_bind_ok _ _ _ _ _ (run_extU' _ _ _), run_pure, logs_logs]
  rfl

theorem T_if_will_return_async (mode : Mode) (lib : Lib) (func : Nat) (expected : List Char)
    (target : Nat × List Char) (os : Os) :
    run (GenIf.WhenCalledBuilderAsync_will_return_async mode lib func expected target) os =
      if target.2 != expected then (Res.panic "Signature mismatch: expected :? but go", os)
      else (Res.ok (), logs os (installEffects func target.1)) := by
  rw [GenIf.WhenCalledBuilderAsync_will_return_async]
  by_cases h : (target.2 != expected) = true
  · rw [if_pos h, if_pos h, run_panicNow]
  · rw [if_neg h, if_neg h]
    rw [run_bind_ok _ _ _ _ _ (T_if_execute_guard mode func target.1 os)]
    dsimp only
    rw [run_bind_ok _ _ _ _ _ (run_extU' _ _ _), run_pure, logs_logs]
    rfl

theorem T_if_will_return_async_unchecked (mode : Mode) (lib : Lib) (func : Nat) (expected : List Char)
    (target : Nat × List Char) (os : Os) :
    run (GenIf.WhenCalledBuilderAsync_will_return_async_unchecked mode lib func expected target) os =
      (Res.ok (), logs os (installEffects func target.1)) := by
  rw [GenIf.WhenCalledBuilderAsync_will_return_async_unchecked]
  rw [run_bind_ok _ _ _ _ _ (T_if_execute_guard mode func target.1 os)]
  dsimp only
  rw [run_bind_ok _ _ _ _ _ (run_extU' _ _ _), run_pure, logs_logs]
  rfl

/-- **`will_execute`**: whether the verifier counts is asked first; a counting verifier's counter is reset to
    zero; the verifier is registered; only then comes `will_execute_raw` (gate, back end, guard).  So the reset
    precedes the installation (C07), the expectation is registered even when the gate then refuses (C05 /
    C06), and nothing of the back end happens before the gate (C09). -/
theorem T_if_will_execute (mode : Mode) (lib : Lib) (func : Nat) (expected : List Char)
    (fake : (Nat × List Char) × Unit) (k : Int) (rest : List Val) (log : List (String × List Val)) :
    run (GenIf.WhenCalledBuilder_will_execute mode lib func expected fake) { answers := Val.n k :: rest, log := log } =
      let pre : List (String × List Val) :=
        [("matches CallCountVerifier::WithCount", [])] ++
        (if k.toNat != 0 then [("counter.store", [Val.n 0, Val.n 0])] else []) ++
        [("self.lib.verifiers.push", [Val.n 0])]
      if fake.1.2 != expected then (Res.panic "Signature mismatch: expected :? but go", { answers := rest, log := log ++ pre })
      else (Res.ok (), { answers := rest, log := log ++ pre ++ installEffects func fake.1.1 }) := by
  rw [GenIf.WhenCalledBuilder_will_execute]
  dsimp only
  rw [run_bind_ok _ _ _ _ _ (run_extN_cons _ _ _ _ _)]
  by_cases hk : (k.toNat != 0) = true
  · rw [if_pos hk]
    have h1 : run (do
          extU "counter.store" [Val.n (0), Val.n 0]
          (pure () : M Unit)) { answers := rest, log := log ++ [("matches CallCountVerifier::WithCount", [])] } =
        (Res.ok (), { answers := rest, log := log ++ [("matches CallCountVerifier::WithCount", [])] ++ [("counter.store", [Val.n 0, Val.n 0])] }) := by
      rw [run_bind_ok _ _ _ _ _ (run_extU' _ _ _), run_pure]; rfl
    rw [run_bind_ok _ _ _ _ _ h1, run_bind_ok _ _ _ _ _ (run_extU' _ _ _)]
    have h2 := T_if_will_execute_raw mode lib func expected fake.1
      (logs { answers := rest, log := log ++ [("matches CallCountVerifier::WithCount", [])] ++ [("counter.store", [Val.n 0, Val.n 0])] } [("self.lib.verifiers.push", [Val.n 0])])
    by_cases hg : (fake.1.2 != expected) = true
    · rw [if_pos hg] at h2
      rw [run_bind_panic _ _ _ _ _ h2, if_pos hg]
      simp [logs, hk]
    · rw [if_neg hg] at h2
      rw [run_bind_ok _ _ _ _ _ h2, run_pure, if_neg hg]
      simp [logs, hk]
  · rw [if_neg hk]
    rw [run_bind_ok _ _ _ _ _ (run_pure _ _), run_bind_ok _ _ _ _ _ (run_extU' _ _ _)]
    have h2 := T_if_will_execute_raw mode lib func expected fake.1
      (logs { answers := rest, log := log ++ [("matches CallCountVerifier::WithCount", [])] } [("self.lib.verifiers.push", [Val.n 0])])
    by_cases hg : (fake.1.2 != expected) = true
    · rw [if_pos hg] at h2
      rw [run_bind_panic _ _ _ _ _ h2, if_pos hg]
      simp [logs, hk]
    · rw [if_neg hg] at h2
      rw [run_bind_ok _ _ _ _ _ h2, run_pure, if_neg hg]
      simp [logs, hk]

def boolEffects (func : Nat) (v : Bool) : List (String × List Val) :=
  [("replace_function_return_boolean", [Val.n (Int.ofNat func), Val.n (Int.ofNat (ofBool v))]),
   ("self.lib.guards.push", [Val.n 0])]

/-- **`will_return_boolean`**: the recorded text is scanned by the translated `signature_returns_bool`
    (= `Sig.returnsBoolText`); a text that does not return `bool` is refused before any effect -/
theorem T_if_will_return_boolean (mode : Mode) (lib : Lib) (func : Nat) (expected : List Char) (v : Bool) (os : Os)
    (hs : strLen expected < 9223372036854775808) :
    run (GenIf.WhenCalledBuilder_will_return_boolean mode lib func expected v) os =
      if returnsBoolText expected then (Res.ok (), logs os (boolEffects func v))
      else (Res.panic "Signature mismatch: will_return_boolean ", os) := by
  rw [GenIf.WhenCalledBuilder_will_return_boolean]
  rw [run_bind_lift_ok _ _ _ _ (T_sig_returns_bool mode expected hs)]
  by_cases h : returnsBoolText expected = true
  · have hn : (!returnsBoolText expected) = false := by simp [h]
    rw [hn, if_pos h]
    simp only [Bool.false_eq_true, if_false]
    have hg : run (GenIf.WhenCalled_will_return_boolean_guard mode func v) os =
        (Res.ok (), logs os [("replace_function_return_boolean", [Val.n (Int.ofNat func), Val.n (Int.ofNat (ofBool v))])]) := by
      rw [GenIf.WhenCalled_will_return_boolean_guard, run_bind_ok _ _ _ _ _ (run_extU' _ _ _), run_pure]
    rw [run_bind_ok _ _ _ _ _ hg]
    rw [run_bind_ok _ _ _ _ _ (run_extU' _ _ _), run_pure, logs_logs]
    rfl
  · have hn : (!returnsBoolText expected) = true := by simp [h]
    rw [hn, if_neg h]
    simp only [if_true]
    rw [run_panicNow]

/-- **the lock**: `new` and `prevent` name the same static, take it through the same `lock`, which recovers
    from poisoning (`into_inner`) instead of failing -/
theorem T_if_lock (mode : Mode) (k : Int) (rest : List Val) (log : List (String × List Val)) :
    run (GenIf.NoPoisonMutex_lock mode ()) { answers := Val.n k :: rest, log := log } =
      (Res.ok (), { answers := rest, log := log ++ [("self.inner.lock", []), ("matches Ok", [])] ++
        (if k.toNat != 0 then [] else [("poisoned.into_inner", [])]) }) := by
  rw [GenIf.NoPoisonMutex_lock]
  rw [run_bind_ok _ _ _ _ _ (run_extU' _ _ _)]
  unfold logs
  rw [run_bind_ok _ _ _ _ _ (run_extN_cons _ _ _ _ _)]
  by_cases hk : (k.toNat != 0) = true
  · rw [if_pos hk, if_pos hk]
    rw [run_pure]
    simp
  · rw [if_neg hk, if_neg hk]
    dsimp only
    rw [run_bind_ok _ _ _ _ _ (run_extU' _ _ _), run_pure]
    simp [logs]

theorem T_if_new (mode : Mode) (k : Int) (rest : List Val) (log : List (String × List Val)) :
    run (GenIf.InjectorPP_new mode) { answers := Val.n k :: rest, log := log } =
      (Res.ok (([] : List Unit), ([] : List Unit), ()), { answers := rest, log := log ++ [("static LOCK_FUNCTION", []), ("self.inner.lock", []), ("matches Ok", [])] ++
        (if k.toNat != 0 then [] else [("poisoned.into_inner", [])]) }) := by
  rw [GenIf.InjectorPP_new]
  rw [run_bind_ok _ _ _ _ _ (run_extU' _ _ _)]
  unfold logs
  rw [run_bind_ok _ _ _ _ _ (T_if_lock mode k rest _)]
  dsimp only
  rw [run_pure]
  simp

theorem T_if_prevent (mode : Mode) (k : Int) (rest : List Val) (log : List (String × List Val)) :
    run (GenIf.InjectorPP_prevent mode) { answers := Val.n k :: rest, log := log } =
      (Res.ok (), { answers := rest, log := log ++ [("static LOCK_FUNCTION", []), ("self.inner.lock", []), ("matches Ok", [])] ++
        (if k.toNat != 0 then [] else [("poisoned.into_inner", [])]) }) := by
  rw [GenIf.InjectorPP_prevent]
  rw [run_bind_ok _ _ _ _ _ (run_extU' _ _ _)]
  unfold logs
  rw [run_bind_ok _ _ _ _ _ (T_if_lock mode k rest _)]
  dsimp only
  rw [run_pure]
  simp

/-- what the restore loop logs for `n` guards: pop, drop the popped guard at once, …, the final empty pop -/
def popDrop : Nat → List (String × List Val)
  | 0 => [("self.guards.pop", [])]
  | n + 1 => [("self.guards.pop", []), ("drop", [Val.n 0])] ++ popDrop n

theorem T_if_drop_loop (mode : Mode) : ∀ (n fuel : Nat) (rest : List Val) (log : List (String × List Val)), n < fuel →
    run (GenIf.InjectorPP_Drop_drop_loop1 mode fuel ()) { answers := List.replicate n (Val.n 1) ++ Val.n 0 :: rest, log := log } =
      (Res.ok (none, ()), { answers := rest, log := log ++ popDrop n }) := by
  intro n
  induction n with
  | zero =>
    intro fuel rest log h
    cases fuel with
    | zero => omega
    | succ f =>
      rw [GenIf.InjectorPP_Drop_drop_loop1]
      simp only [List.replicate, List.nil_append]
      rw [run_bind_ok _ _ _ _ _ (run_extO_cons _ _ _ _ _)]
      simp only [if_true]
      rw [run_pure]; rfl
  | succ n ih =>
    intro fuel rest log h
    cases fuel with
    | zero => omega
    | succ f =>
      rw [GenIf.InjectorPP_Drop_drop_loop1]
      simp only [List.replicate, List.cons_append]
      rw [run_bind_ok _ _ _ _ _ (run_extO_cons _ _ _ _ _)]
      have h1 : ((1 : Int) = 0) = False := by decide
      simp only [h1, if_false]
      rw [run_bind_ok _ _ _ _ _ (run_extU' _ _ _)]
      unfold logs
      rw [ih f rest _ (by omega)]
      simp [popDrop]

/-- **`Drop for InjectorPP`**: with `n` guards alive it pops and drops them one at a time until the vector is
    empty, and does nothing else: nothing touches the verifiers, and each guard is dropped as soon as it is
    popped (`Vec::pop` takes the newest) -/
theorem T_if_drop (mode : Mode) (n fuel : Nat) (g v : List Unit) (rest : List Val) (log : List (String × List Val))
    (h : n < fuel) :
    run (GenIf.InjectorPP_Drop_drop mode fuel g v ()) { answers := List.replicate n (Val.n 1) ++ Val.n 0 :: rest, log := log } =
      (Res.ok (), { answers := rest, log := log ++ popDrop n }) := by
  rw [GenIf.InjectorPP_Drop_drop]
  rw [run_bind_ok _ _ _ _ _ (T_if_drop_loop mode n fuel rest log h)]
  dsimp only
  rw [run_pure]

/-- **`Drop for CallCountVerifier`**: a dummy does nothing; a counting verifier loads the counter, is
    silent when it equals the expectation, and otherwise asks `panicking()`: it panics only on a thread that
    is not already unwinding (never a double panic) -/
theorem T_if_verifier_drop (mode : Mode) (m e c p : Int) (rest : List Val) (log : List (String × List Val)) :
    run (GenIf.CallCountVerifier_Drop_drop mode) { answers := [Val.n m, Val.n e, Val.n c, Val.n p] ++ rest, log := log } =
      if m.toNat = 0 then
        (Res.ok (), { answers := [Val.n e, Val.n c, Val.n p] ++ rest, log := log ++ [("matches CallCountVerifier::WithCount", [])] })
      else if c.toNat = e.toNat then
        (Res.ok (), { answers := [Val.n p] ++ rest, log := log ++ [("matches CallCountVerifier::WithCount", []), ("field expected", []), ("counter.load", [Val.n 0])] })
      else if p.toNat ≠ 0 then
        (Res.ok (), { answers := rest, log := log ++ [("matches CallCountVerifier::WithCount", []), ("field expected", []), ("counter.load", [Val.n 0]), ("panicking", [])] })
      else
        (Res.panic "Fake function was expected to be called ", { answers := rest, log := log ++ [("matches CallCountVerifier::WithCount", []), ("field expected", []), ("counter.load", [Val.n 0]), ("panicking", [])] }) := by
  rw [GenIf.CallCountVerifier_Drop_drop]
  simp only [List.cons_append, List.nil_append]
  rw [run_bind_ok _ _ _ _ _ (run_extN_cons _ _ _ _ _)]
  by_cases hm : m.toNat = 0
  · have : (m.toNat != 0) = false := by simp [hm]
    rw [this, if_pos hm]
    simp only [Bool.false_eq_true, if_false]
    rw [run_pure]
  · have : (m.toNat != 0) = true := by simp [hm]
    rw [this, if_neg hm]
    simp only [if_true]
    rw [run_bind_ok _ _ _ _ _ (run_extN_cons _ _ _ _ _), run_bind_ok _ _ _ _ _ (run_extN_cons _ _ _ _ _)]
    by_cases hc : c.toNat = e.toNat
    · have : (c.toNat != e.toNat) = false := by simp [hc]
      rw [this, if_pos hc]
      simp only [Bool.false_eq_true, if_false]
      rw [run_pure]; simp
    · have : (c.toNat != e.toNat) = true := by simp [hc]
      rw [this, if_neg hc]
      simp only [if_true]
      rw [run_bind_ok _ _ _ _ _ (run_extN_cons _ _ _ _ _)]
      by_cases hp : p.toNat = 0
      · have : (p.toNat != 0) = false := by simp [hp]
        rw [this]
        simp only [Bool.false_eq_true, if_false]
        rw [run_panicNow]; simp [hp]
      · have : (p.toNat != 0) = true := by simp [hp]
        rw [this]
        simp only [if_true]
        rw [run_pure]; simp [hp]

/-- **`FuncPtr::new`** refuses the null pointer by a panic and otherwise keeps pointer and signature -/
theorem T_if_funcptr_new (mode : Mode) (ptr : Nat) (sig : List Char) :
    GenIf.FuncPtr_new mode ptr sig =
      if ptr = 0 then Res.panic "Pointer must not be null" else Res.ok (ptr, sig) := by
  rw [GenIf.FuncPtr_new]
  by_cases h : ptr = 0
  · subst h; rfl
  · have : (ptr == 0) = false := by simp [h]
    simp only [this, Bool.false_eq_true, if_false, if_neg h]
    rfl

/-- **`when_called` / `when_called_unchecked`**: the builder carries the target's recorded signature, or the
    empty text for the unchecked entry point (which `will_return_boolean` then always refuses and the
    signature gate compares like any other text) -/
theorem T_if_when_called (mode : Mode) (g v : List Unit) (func : Nat × List Char) :
    GenIf.InjectorPP_when_called mode g v () func = Res.ok ((g, v, ()), func.1, func.2) ∧
    GenIf.InjectorPP_when_called_unchecked mode g v () func = Res.ok ((g, v, ()), func.1, []) := by
  constructor <;> rfl

theorem T_if_unchecked_bool_refused : returnsBoolText [] = false := rfl

/-! ## the two readers agree: each structural fact `translate/layout.py` reads off the text (regular expressions;
     `Generated.Layout`) equals the same fact computed by *running* the translated function -/

def lib0 : Lib := ([], [], ())
def os1 (a : List Val) : Os := { answers := a, log := [] }
def names (r : Res Unit × Os) : List String := r.2.log.map (·.1)
def isPanic {α : Type} (r : Res α × Os) : Bool := match r.1 with | Res.panic _ => true | Res.ok _ => false
def idxOf (l : List String) (x : String) : Nat := (l.findIdx? (· == x)).getD l.length

/-- refused with nothing done, on two texts that differ -/
def skelRawGate : Bool :=
  let r := run (GenIf.WhenCalledBuilder_will_execute_raw Mode.debug lib0 1 ['a'] (2, ['b'])) (os1 [])
  isPanic r && (names r).isEmpty
def skelAsyncGate : Bool :=
  let r := run (GenIf.WhenCalledBuilderAsync_will_return_async Mode.debug lib0 1 ['a'] (2, ['b'])) (os1 [])
  isPanic r && (names r).isEmpty
def skelBoolGate : Bool :=
  let r := run (GenIf.WhenCalledBuilder_will_return_boolean Mode.debug lib0 1 ['f', 'n', '(', ')'] true) (os1 [])
  isPanic r && (names r).isEmpty
/-- on a refused `will_execute` the verifier is already registered -/
def skelVerifierFirst : Bool :=
  let r := run (GenIf.WhenCalledBuilder_will_execute Mode.debug lib0 1 ['a'] ((2, ['b']), ())) (os1 [Val.n 1])
  isPanic r && (names r).contains "self.lib.verifiers.push"
/-- on an accepted `will_execute` of a counting fake the counter is reset before the back end is called -/
def skelResetFirst : Bool :=
  let r := run (GenIf.WhenCalledBuilder_will_execute Mode.debug lib0 1 ['a'] ((2, ['a']), ())) (os1 [Val.n 1])
  !isPanic r && idxOf (names r) "counter.store" < idxOf (names r) "replace_function_with_other_function"
def skelUncheckedEmpty : Bool :=
  match GenIf.InjectorPP_when_called_unchecked Mode.debug [] [] () (1, ['x']) with
  | Res.ok b => b.2.2.isEmpty
  | Res.panic _ => false
def skelNullRefused : Bool :=
  match GenIf.FuncPtr_new Mode.debug 0 ['x'] with | Res.panic _ => true | Res.ok _ => false
def skelSameLock : Bool :=
  let a := run (GenIf.InjectorPP_new Mode.debug) (os1 [Val.n 1])
  let b := run (GenIf.InjectorPP_prevent Mode.debug) (os1 [Val.n 1])
  a.2.log == b.2.log && (a.2.log.map (·.1)).contains "self.inner.lock" && (a.2.log.map (·.1)).contains "static LOCK_FUNCTION"
def skelPoisonRecovered : Bool :=
  let a := run (GenIf.InjectorPP_new Mode.debug) (os1 [Val.n 0])
  !isPanic a && (a.2.log.map (·.1)).contains "poisoned.into_inner"
def skelVerifierPanicking : Bool :=
  !isPanic (run (GenIf.CallCountVerifier_Drop_drop Mode.debug) (os1 [Val.n 1, Val.n 1, Val.n 2, Val.n 1])) &&
  isPanic (run (GenIf.CallCountVerifier_Drop_drop Mode.debug) (os1 [Val.n 1, Val.n 1, Val.n 2, Val.n 0])) &&
  !isPanic (run (GenIf.CallCountVerifier_Drop_drop Mode.debug) (os1 [Val.n 1, Val.n 2, Val.n 2, Val.n 0]))
/-- the injector's own `drop` touches the guards only, one pop / one drop at a time -/
def skelDropGuardsOnly : Bool :=
  names (run (GenIf.InjectorPP_Drop_drop Mode.debug 8 [] [] ()) (os1 [Val.n 1, Val.n 1, Val.n 0])) ==
    ["self.guards.pop", "drop", "self.guards.pop", "drop", "self.guards.pop"]

open Generated.Layout in
theorem T_layout_agrees :
    rawGateBeforeGuard = skelRawGate ∧ asyncGateBeforeGuard = skelAsyncGate ∧ boolGateBeforeGuard = skelBoolGate ∧
    verifierPushedBeforeGate = skelVerifierFirst ∧ counterResetOnInstall = skelResetFirst ∧
    uncheckedCarriesEmptySig = skelUncheckedEmpty ∧ funcPtrRejectsNull = skelNullRefused ∧
    (newTakesLock && preventTakesLock && sameLockStatic) = skelSameLock ∧ poisonRecovered = skelPoisonRecovered ∧
    verifierChecksPanicking = skelVerifierPanicking ∧
    (injectorHasDropImpl && decide (injectorDropBody = [Field.guards]) && decide (guardDropOrder = DropOrderSrc.explicitNewestFirst)) = skelDropGuardsOnly := by
  refine ⟨?_, ?_, ?_, ?_, ?_, ?_, ?_, ?_, ?_, ?_, ?_⟩ <;> rfl

/-! ## the same facts in the properties' own words -/

/-- C09: a replacement whose recorded type differs from the target's is refused by a "Signature mismatch"
    panic and the refusal leaves the whole state as it was (no back-end call, no guard) — sync and async -/
theorem T_c09_refusal_precedes_everything (mode : Mode) (lib : Lib) (func : Nat) (expected : List Char)
    (target : Nat × List Char) (os : Os) (h : target.2 ≠ expected) :
    run (GenIf.WhenCalledBuilder_will_execute_raw mode lib func expected target) os =
      (Res.panic "Signature mismatch: expected :? but go", os) ∧
    run (GenIf.WhenCalledBuilderAsync_will_return_async mode lib func expected target) os =
      (Res.panic "Signature mismatch: expected :? but go", os) := by
  have hb : (target.2 != expected) = true := by simp [h]
  constructor
  · rw [T_if_will_execute_raw, if_pos hb]
  · rw [T_if_will_return_async, if_pos hb]

/-- C09: identically written types are accepted, with exactly one back-end call for (function, replacement) -/
theorem T_c09_identical_accepted (mode : Mode) (lib : Lib) (func : Nat) (sig : List Char) (fake : Nat) (os : Os) :
    run (GenIf.WhenCalledBuilder_will_execute_raw mode lib func sig (fake, sig)) os =
      (Res.ok (), logs os (installEffects func fake)) := by
  rw [T_if_will_execute_raw]
  rw [if_neg (by simp)]

/-- C07: in an accepted `will_execute` of a counting fake, the counter is set to zero before the back end is
    asked to patch anything; C05 / C06: the expectation is registered before the gate can refuse -/
theorem T_c07_reset_precedes_install (mode : Mode) (lib : Lib) (func : Nat) (sig : List Char) (fake : Nat)
    (rest : List Val) (log : List (String × List Val)) :
    (run (GenIf.WhenCalledBuilder_will_execute mode lib func sig ((fake, sig), ())) { answers := Val.n 1 :: rest, log := log }).2.log =
      log ++ [("matches CallCountVerifier::WithCount", []), ("counter.store", [Val.n 0, Val.n 0]),
              ("self.lib.verifiers.push", [Val.n 0])] ++ installEffects func fake := by
  rw [T_if_will_execute]
  simp

/-- C10: `will_return_boolean` on a target whose recorded text does not return `bool` (the unchecked entry
    point's empty text included) is refused before anything is done -/
theorem T_c10_nonbool_refused (mode : Mode) (lib : Lib) (func : Nat) (expected : List Char) (v : Bool) (os : Os)
    (hs : strLen expected < 9223372036854775808) (h : returnsBoolText expected = false) :
    run (GenIf.WhenCalledBuilder_will_return_boolean mode lib func expected v) os =
      (Res.panic "Signature mismatch: will_return_boolean ", os) := by
  rw [T_if_will_return_boolean mode lib func expected v os hs, h]
  rfl

end Inj.Tie

#print axioms Inj.Tie.T_if_will_execute_raw
#print axioms Inj.Tie.T_if_will_execute_raw_unchecked
#print axioms Inj.Tie.T_if_will_return_async
#print axioms Inj.Tie.T_if_will_return_async_unchecked
#print axioms Inj.Tie.T_if_will_execute
#print axioms Inj.Tie.T_if_will_return_boolean
#print axioms Inj.Tie.T_if_lock
#print axioms Inj.Tie.T_if_new
#print axioms Inj.Tie.T_if_prevent
#print axioms Inj.Tie.T_if_drop_loop
#print axioms Inj.Tie.T_if_drop
#print axioms Inj.Tie.T_if_verifier_drop
#print axioms Inj.Tie.T_if_funcptr_new
#print axioms Inj.Tie.T_if_when_called
#print axioms Inj.Tie.T_if_unchecked_bool_refused
#print axioms Inj.Tie.T_if_execute_guard
#print axioms Inj.Tie.T_layout_agrees
#print axioms Inj.Tie.T_c09_refusal_precedes_everything
#print axioms Inj.Tie.T_c09_identical_accepted
#print axioms Inj.Tie.T_c07_reset_precedes_install
#print axioms Inj.Tie.T_c10_nonbool_refused
