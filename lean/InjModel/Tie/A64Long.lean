/-
  Tie/A64Long.lean — bridge for the macOS AArch64 entry patch: the translated
  `maybe_emit_long_jump` (GenA64M, linux-independent arithmetic on i128 / i64 / u32) produces exactly
  the words of the hand-written `A64.entryMacos`, for every pair of user-space addresses.
-/
import InjModel.Generated.Fns
import InjModel.Lemmas.Rt
import InjModel.Model.A64
open Inj Inj.Rt

namespace Inj.Tie

theorem or_add (i a b : Nat) (h : b < 2 ^ i) : 2 ^ i * a ||| b = 2 ^ i * a + b :=
  (Nat.two_pow_add_eq_or_of_lt h a).symm

theorem band_mask (x k : Nat) : band x (2 ^ k - 1) = x % 2 ^ k := by
  unfold band; exact Nat.and_two_pow_sub_one_eq_mod x k

theorem ushl32_ok (mode : Mode) (x k : Nat) (hk : k < 32) (h : x * 2 ^ k < 4294967296) :
    ushl 32 mode x k = Res.ok (x * 2 ^ k) := by
  unfold ushl; rw [if_pos hk]; congr 1; exact Nat.mod_eq_of_lt h

theorem bor3 (x a b c : Nat) (h1 : bor x a = x + a) (h2 : bor (x + a) b = x + a + b) (h3 : bor (x + a + b) c = x + a + b + c) :
    bor (bor (bor x a) b) c = x + a + b + c := by rw [h1, h2, h3]

theorem bor_add' (n i a b : Nat) (hn : n = 2 ^ i * a) (h : b < 2 ^ i) : bor n b = n + b := by
  subst hn; exact or_add i a b h

theorem adrp1 (immlo : Nat) (hl : immlo < 4) : bor 2415919104 (immlo * 536870912) = 2415919104 + immlo * 536870912 := by
  have : immlo = 0 ∨ immlo = 1 ∨ immlo = 2 ∨ immlo = 3 := by omega
  rcases this with h | h | h | h <;> subst h <;> rfl
theorem adrp2 (immlo immhi : Nat) (hl : immlo < 4) (hh : immhi < 524288) :
    bor (2415919104 + immlo * 536870912) (immhi * 32) = 2415919104 + immlo * 536870912 + immhi * 32 := by
  have p28 : (2:Nat) ^ 28 = 268435456 := by decide
  apply bor_add' _ 28 (9 + 2 * immlo)
  · rw [p28]; omega
  · rw [p28]; omega
theorem adrp3 (immlo immhi : Nat) (hl : immlo < 4) (hh : immhi < 524288) :
    bor (2415919104 + immlo * 536870912 + immhi * 32) 16 = 2415919104 + immlo * 536870912 + immhi * 32 + 16 := by
  have p5 : (2:Nat) ^ 5 = 32 := by decide
  apply bor_add' _ 5 (8388608 * (9 + 2 * immlo) + immhi)
  · rw [p5]; omega
  · rw [p5]; omega

/-- ADRP word: base | immlo<<29 | immhi<<5 | Rd -/
theorem adrp_word (immlo immhi : Nat) (hl : immlo < 4) (hh : immhi < 524288) :
    bor (bor (bor 2415919104 (immlo * 536870912)) (immhi * 32)) 16 = 2415919104 + immlo * 536870912 + immhi * 32 + 16 :=
  bor3 _ _ _ _ (adrp1 immlo hl) (adrp2 immlo immhi hl hh) (adrp3 immlo immhi hl hh)

/-- ADD (immediate) word: base | imm12<<10 | Rn<<5 | Rd with Rn = Rd = 16 -/
theorem add_word (low12 : Nat) (h : low12 < 4096) :
    bor (bor (bor 2432696320 (low12 * 1024)) 512) 16 = 2432696320 + low12 * 1024 + 512 + 16 := by
  have p22 : (2:Nat) ^ 22 = 4194304 := by decide
  have p10 : (2:Nat) ^ 10 = 1024 := by decide
  have p9 : (2:Nat) ^ 9 = 512 := by decide
  apply bor3
  · apply bor_add' _ 22 580
    · rw [p22]
    · rw [p22]; omega
  · apply bor_add' _ 10 (4096 * 580 + low12)
    · rw [p10]; omega
    · rw [p10]; omega
  · apply bor_add' _ 9 (2 * (4096 * 580 + low12) + 1)
    · rw [p9]; omega
    · rw [p9]; omega

theorem low12_lt (t : Nat) : t % 4096 * 1024 < 4294967296 := by omega

theorem br_word16 : bor 3592355840 512 = 3592355840 + 512 := by rfl

theorem b_word (imm26 : Nat) (h : imm26 < 67108864) : bor 335544320 imm26 = 335544320 + imm26 := by
  have p26 : (2:Nat)^26 = 67108864 := by decide
  apply bor_add' _ 26 5
  · rw [p26]
  · rw [p26]; exact h

theorem wrapS128_id (x : Int) (h1 : -9223372036854775808 ≤ x) (h2 : x < 9223372036854775808) : wrapS 128 x = x := by
  unfold wrapS
  have e1 : (((2:Nat)^128 : Nat) : Int) = 340282366920938463463374607431768211456 := by decide
  have e2 : (((2:Nat)^(128-1) : Nat) : Int) = 170141183460469231731687303715884105728 := by decide
  simp only [e1, e2]
  split <;> omega

open Inj.Generated.Consts in
/-- macOS `maybe_emit_long_jump(pc, target)` as translated, for user-space addresses: within ±128 MiB
    the single word is the `B` of `A64.entryMacos`; otherwise the three words are its ADRP / ADD / BR. -/
theorem T_a64_long_jump (mode : Mode) (pc target : Nat)
    (hp : pc < 9223372036854775808) (ht : target < 9223372036854775808) :
    GenA64M.maybe_emit_long_jump mode pc target =
      Res.ok (if -134217728 ≤ (target : Int) - pc ∧ (target : Int) - pc < 134217728
              then (A64.entryMacos pc target).take 1 else A64.entryMacos pc target) := by
  have hd : wrapSubS 128 (Int.ofNat target) (Int.ofNat pc) = (target : Int) - pc := by
    unfold wrapSubS; rw [wrapS128_id _ (by simp; omega) (by simp; omega)]; rfl
  have hsh : sshl 128 mode 1 27 = Res.ok 134217728 := by
    unfold sshl; rw [if_pos (by omega)]
    have : (1 : Int) * (((2:Nat)^27 : Nat) : Int) = 134217728 := by decide
    rw [this, wrapS128_id _ (by omega) (by omega)]
  have hneg : sneg 128 mode 134217728 = Res.ok (-134217728) := by
    unfold sneg chkS inS
    have e2 : (((2:Nat)^(128-1) : Nat) : Int) = 170141183460469231731687303715884105728 := by decide
    rw [e2, if_pos (by simp only [decide_eq_true_eq]; omega)]
  rw [GenA64M.maybe_emit_long_jump]
  dsimp only
  rw [hd, hsh, Res.bind_ok, hneg, Res.bind_ok, Res.bind_ok]
  by_cases c : -134217728 ≤ (target : Int) - pc ∧ (target : Int) - pc < 134217728
  · rw [if_pos c]
    have cb : (decide (-134217728 ≤ (target : Int) - pc) && decide ((target : Int) - pc < 134217728)) = true := by
      simp [c.1, c.2]
    rw [if_pos cb]
    have hshr : sshr 128 mode ((target : Int) - pc) 2 = Res.ok (((target : Int) - pc) / 4) := by
      unfold sshr; rw [if_pos (by omega)]; rfl
    have h5 : ushl 32 mode 5 26 = Res.ok 335544320 := by
      rw [ushl32_ok mode 5 26 (by omega) (by decide)]
    rw [hshr, Res.bind_ok, h5, Res.bind_ok]
    have hm : (67108863 : Nat) = 2 ^ 26 - 1 := by decide
    rw [hm, band_mask]
    have hcs : castSU 32 (((target : Int) - pc) / 4) = ofInt32 (((target : Int) - pc) / 4) := by
      unfold castSU ofInt32
      have : (((2:Nat)^32 : Nat) : Int) = 4294967296 := by decide
      rw [this]
    rw [hcs]
    have hlt : ofInt32 (((target : Int) - pc) / 4) % 2 ^ 26 < 67108864 := by
      have : (2:Nat)^26 = 67108864 := by decide
      rw [this]; omega
    rw [b_word _ hlt]
    unfold A64.entryMacos
    simp only [c, and_self, if_true, List.take]
    have : (2:Nat)^26 = 67108864 := by decide
    simp [this]
  · rw [if_neg c]
    have cb : (decide (-134217728 ≤ (target : Int) - pc) && decide ((target : Int) - pc < 134217728)) = false := by
      simp only [Bool.and_eq_false_iff, decide_eq_false_iff_not]; omega
    rw [cb]
    simp only [Bool.false_eq_true, if_false]
    have eu : unot 64 4095 = 18446744073709551615 - 4095 := by simp [unot]
    have hpt : band target (unot 64 4095) = target / 4096 * 4096 := by
      rw [eu]; unfold band; exact and_pagemask target (by omega)
    have hpp : band pc (unot 64 4095) = pc / 4096 * 4096 := by
      rw [eu]; unfold band; exact and_pagemask pc (by omega)
    rw [hpt, hpp, castUS64 _ (by omega), castUS64 _ (by omega)]
    have hws : wrapSubS 64 (toI64 (target / 4096 * 4096)) (toI64 (pc / 4096 * 4096)) =
        wrapI64 (toI64 (target / 4096 * 4096) - toI64 (pc / 4096 * 4096)) := by
      unfold wrapSubS; rw [wrapS64]
    rw [hws]
    generalize hpd : wrapI64 (toI64 (target / 4096 * 4096) - toI64 (pc / 4096 * 4096)) = D
    have hshr : sshr 64 mode D 12 = Res.ok (D / 4096) := by
      unfold sshr; rw [if_pos (by omega)]; rfl
    rw [hshr, Res.bind_ok]
    have hcs : castSU 64 (D / 4096) = ofInt64 (D / 4096) := by
      unfold castSU ofInt64
      have : (((2:Nat)^64 : Nat) : Int) = 18446744073709551616 := by decide
      rw [this]
    rw [hcs]
    have m21 : (2097151 : Nat) = 2 ^ 21 - 1 := by decide
    have m2 : (3 : Nat) = 2 ^ 2 - 1 := by decide
    have m19 : (524287 : Nat) = 2 ^ 19 - 1 := by decide
    have m12 : (4095 : Nat) = 2 ^ 12 - 1 := by decide
    rw [m21, band_mask, m2, band_mask, m12, band_mask]
    generalize himm : ofInt64 (D / 4096) % 2 ^ 21 = imm21
    have hi21 : imm21 < 2097152 := by
      rw [← himm]; have : (2:Nat)^21 = 2097152 := by decide
      rw [this]; omega
    have hushr : ushr 64 mode imm21 2 = Res.ok (imm21 / 4) := by
      unfold ushr; rw [if_pos (by omega)]
    rw [hushr, Res.bind_ok, m19, band_mask]
    have elo : castUU 32 (imm21 % 2 ^ 2) = imm21 % 4 := by
      unfold castUU; have : (2:Nat)^2 = 4 := by decide
      rw [this]; omega
    have ehi : castUU 32 (imm21 / 4 % 2 ^ 19) = imm21 / 4 % 524288 := by
      unfold castUU; have : (2:Nat)^19 = 524288 := by decide
      rw [this]; omega
    have e12 : castUU 32 (target % 2 ^ 12) = target % 4096 := by
      unfold castUU; have : (2:Nat)^12 = 4096 := by decide
      rw [this]; omega
    rw [elo, ehi, e12]
    have p29 : (2:Nat)^29 = 536870912 := by decide
    have p5 : (2:Nat)^5 = 32 := by decide
    have p10 : (2:Nat)^10 = 1024 := by decide
    have b9 : imm21 % 4 * 2 ^ 29 < 4294967296 := by rw [p29]; omega
    have b10 : imm21 / 4 % 524288 * 2 ^ 5 < 4294967296 := by rw [p5]; omega
    have b12 : target % 4096 * 2 ^ 10 < 4294967296 := by rw [p10]; exact low12_lt target
    have h16 : ushl 32 mode 16 5 = Res.ok 512 := by
      rw [ushl32_ok mode 16 5 (by omega) (by decide)]
    rw [ushl32_ok mode _ 29 (by omega) b9, Res.bind_ok]
    rw [ushl32_ok mode _ 5 (by omega) b10, Res.bind_ok]
    rw [ushl32_ok mode _ 10 (by omega) b12, Res.bind_ok]
    rw [h16, Res.bind_ok, Res.bind_ok]
    rw [p29, p5, p10]
    rw [adrp_word _ _ (by omega) (by omega), add_word _ (by omega)]
    rw [br_word16]
    unfold A64.entryMacos
    simp only [c, if_false]
    rw [hpd]
    simp only [a64AdrpBase, a64AddBase, a64BrBase, a64LongReg]
    rw [← himm]
    have q21 : (2:Nat)^21 = 2097152 := by decide
    simp [q21]

theorem entryMacos_shape (pc target : Nat) :
    ∃ w0 w1 w2, A64.entryMacos pc target = [w0, w1, w2] ∧
      ((-134217728 ≤ (target : Int) - pc ∧ (target : Int) - pc < 134217728) → w1 = 3573751839 ∧ w2 = 3573751839) := by
  unfold A64.entryMacos
  by_cases c : -134217728 ≤ (target : Int) - pc ∧ (target : Int) - pc < 134217728
  · dsimp only; rw [if_pos c]; exact ⟨_, _, _, rfl, fun _ => ⟨rfl, rfl⟩⟩
  · dsimp only; rw [if_neg c]; exact ⟨_, _, _, rfl, fun h => absurd h c⟩

theorem leBytes4_len (x : Nat) : (leBytes 4 x).length = 4 := rfl

theorem copy12 (a b c : List Nat) (ha : a.length = 4) (hb : b.length = 4) (hc : c.length = 4) :
    (copyInto (List.replicate 12 (0:Nat)) 0 4 a >>= fun u1 =>
      copyInto u1 4 8 b >>= fun u2 => copyInto u2 8 12 c >>= fun u3 => (pure u3 : Res (List Nat)))
      = Res.ok (a ++ b ++ c) := by
  match a, ha with
  | [a0,a1,a2,a3], _ =>
  match b, hb with
  | [b0,b1,b2,b3], _ =>
  match c, hc with
  | [c0,c1,c2,c3], _ => rfl

/-- the 12 patch bytes: the words of `A64.entryMacos`, little-endian -/
def macosPatch (pc target : Nat) : List Nat := (A64.entryMacos pc target).flatMap (leBytes 4)

/-- macOS `apply_branch_patch` as translated: one `patch_function` of the 12 bytes of
    `A64.entryMacos src jit` (the B padded with NOPs, or ADRP / ADD / BR), then the guard. -/
theorem T_a64m_apply_branch_patch (mode : Mode) (src jit size : Nat) (orig : List Nat) (os : Os)
    (hp : src < 9223372036854775808) (ht : jit < 9223372036854775808) :
    run (GenA64M.apply_branch_patch mode src jit size orig) os =
      (Res.ok (), { os with log := os.log ++
        [("patch_function", [Val.n (Int.ofNat src), Val.bs (macosPatch src jit)]),
         ("PatchGuard::new", [Val.n (Int.ofNat src), Val.bs orig, Val.n (Int.ofNat 12),
            Val.n (Int.ofNat jit), Val.n (Int.ofNat size)])] }) := by
  obtain ⟨w0, w1, w2, hw, hn⟩ := entryMacos_shape src jit
  rw [GenA64M.apply_branch_patch]
  dsimp only
  rw [run_bind_lift_ok _ _ _ _ (T_a64_long_jump mode src jit hp ht)]
  unfold macosPatch
  rw [hw]
  have h3 : ∀ a : Nat, copyInto (List.replicate 12 (0 : Nat)) 0 4 (leBytes 4 a) = Res.ok (leBytes 4 a ++ List.replicate 8 0) := by
    intro a; rfl
  have h4 : ∀ a b : Nat, copyInto (leBytes 4 a ++ List.replicate 8 0) 4 8 (leBytes 4 b) =
      Res.ok (leBytes 4 a ++ leBytes 4 b ++ List.replicate 4 0) := by
    intro a b; rfl
  have h5 : ∀ a b c : Nat, copyInto (leBytes 4 a ++ leBytes 4 b ++ List.replicate 4 0) 8 12 (leBytes 4 c) =
      Res.ok (List.flatMap (leBytes 4) [a, b, c]) := by
    intro a b c; rfl
  have tailrun : ∀ bytes : List Nat,
      run (do
        extU "patch_function" [Val.n (Int.ofNat src), Val.bs bytes]
        extU "PatchGuard::new"
            [Val.n (Int.ofNat src), Val.bs orig, Val.n (Int.ofNat 12), Val.n (Int.ofNat jit), Val.n (Int.ofNat size)]
        (pure () : M Unit)) os =
      (Res.ok (), { os with log := os.log ++
        [("patch_function", [Val.n (Int.ofNat src), Val.bs bytes]),
         ("PatchGuard::new", [Val.n (Int.ofNat src), Val.bs orig, Val.n (Int.ofNat 12),
            Val.n (Int.ofNat jit), Val.n (Int.ofNat size)])] }) := by
    intro bytes
    rw [run_bind_ok _ _ _ _ _ (run_extU _ _ _), run_bind_ok _ _ _ _ _ (run_extU _ _ _), run_pure]
    simp
  by_cases c : -134217728 ≤ (jit : Int) - src ∧ (jit : Int) - src < 134217728
  · obtain ⟨e1, e2⟩ := hn c
    subst e1; subst e2
    rw [if_pos c]
    have hbr : run (do
              let t_2 ← liftM (idx (List.take 1 [w0, 3573751839, 3573751839]) 0)
              let upd_3 ← liftM (copyInto (List.replicate 12 0) 0 4 (leBytes 4 t_2))
              let upd_4 ← liftM (copyInto upd_3 4 8 (leBytes 4 3573751839))
              liftM (copyInto upd_4 8 12 (leBytes 4 3573751839)) >>= fun upd_5 =>
              (pure upd_5 : M (List Nat))) os = (Res.ok (List.flatMap (leBytes 4) [w0, 3573751839, 3573751839]), os) := by
      have hi : idx (List.take 1 [w0, 3573751839, 3573751839]) 0 = Res.ok w0 := rfl
      rw [run_bind_lift_ok _ _ _ _ hi, run_bind_lift_ok _ _ _ _ (h3 _), run_bind_lift_ok _ _ _ _ (h4 _ _),
        run_bind_lift_ok _ _ _ _ (h5 _ _ _), run_pure]
    have hc : ((List.take 1 [w0, 3573751839, 3573751839]).length == 1) = true := rfl
    rw [if_pos hc, run_bind_ok _ _ _ _ _ hbr]
    exact tailrun _
  · rw [if_neg c]
    have hbr : run (do
              let t_6 ← liftM (idx [w0, w1, w2] 0)
              let upd_7 ← liftM (copyInto (List.replicate 12 0) 0 4 (leBytes 4 t_6))
              let t_8 ← liftM (idx [w0, w1, w2] 1)
              let upd_9 ← liftM (copyInto upd_7 4 8 (leBytes 4 t_8))
              let t_10 ← liftM (idx [w0, w1, w2] 2)
              liftM (copyInto upd_9 8 12 (leBytes 4 t_10)) >>= fun upd_11 =>
              (pure upd_11 : M (List Nat))) os = (Res.ok (List.flatMap (leBytes 4) [w0, w1, w2]), os) := by
      have i0 : idx [w0, w1, w2] 0 = Res.ok w0 := rfl
      have i1 : idx [w0, w1, w2] 1 = Res.ok w1 := rfl
      have i2 : idx [w0, w1, w2] 2 = Res.ok w2 := rfl
      rw [run_bind_lift_ok _ _ _ _ i0, run_bind_lift_ok _ _ _ _ (h3 _), run_bind_lift_ok _ _ _ _ i1,
        run_bind_lift_ok _ _ _ _ (h4 _ _), run_bind_lift_ok _ _ _ _ i2, run_bind_lift_ok _ _ _ _ (h5 _ _ _), run_pure]
    have hc : ¬ (([w0, w1, w2] : List Nat).length == 1) = true := by simp
    rw [if_neg hc, run_bind_ok _ _ _ _ _ hbr]
    exact tailrun _
end Inj.Tie

#print axioms Inj.Tie.T_a64_long_jump
#print axioms Inj.Tie.T_a64m_apply_branch_patch

