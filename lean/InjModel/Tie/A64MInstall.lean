/-
  Tie/A64MInstall.lean — the whole macOS / AArch64 installation `replace_function_with_other_function` as
  translated (configuration GenA64M), first hint honoured: what it asks of the platform, in order.
-/
import InjModel.Tie.A64MAlloc
import InjModel.Tie.A64MEmit
import InjModel.Tie.A64Long
open Inj Inj.Rt Inj.Alloc

namespace Inj.Tie

theorem T_a64m_read_bytes (mode : Mode) (ptr len : Nat) (bs : List Nat) (rest : List Val) (log : List (String × List Val)) :
    run (GenA64M.read_bytes mode ptr len) { answers := Val.bs bs :: rest, log := log } =
      (Res.ok bs, { answers := rest, log := log ++ [("read_bytes", [Val.n ptr, Val.n len])] }) := by
  rw [GenA64M.read_bytes, run_bind_ok _ _ _ _ _ (run_extB_cons _ _ _ _ _), run_pure]
  rfl

/-- macOS installation, first hint honoured with `jit` (within 2 GiB): the 12 entry bytes are read, the hinted
    20-byte `MAP_JIT` mapping is made, the trampoline `A64.tramp fake` is copied to it with the JIT write
    protection toggled around the copy and **invalidated in the instruction cache**, then the entry is
    rewritten through `patch_function` with the words of `A64.entryMacos func jit` and the guard is built. -/
theorem T_a64m_install_exec (mode : Mode) (func fake jit : Nat) (saved : List Nat)
    (log : List (String × List Val)) (tail : List Val)
    (hf : func + 2147483648 + 8192 < 9223372036854775808) (hj : jit < 9223372036854775808)
    (hnear : Alloc.absDiff jit func < 2147483648) :
    run (GenA64M.replace_function_with_other_function mode 2 func fake)
        { answers := Val.bs saved :: Val.n (4096 : Nat) :: Val.n jit :: tail, log := log } =
      (Res.ok (), { answers := tail, log := log ++
        [("read_bytes", [Val.n func, Val.n 12]),
         ("sysconf", [Val.n 30]),
         ("mmap", [Val.n ((func - 2147483648 : Nat) : Int), Val.n 20, Val.n allocProt, Val.n allocFlagsM, Val.n (-1), Val.n 0])] ++
        macInjectLog (A64.wordsToBytes (A64.tramp fake)) jit ++
        [("patch_function", [Val.n (Int.ofNat func), Val.bs (macosPatch func jit)]),
         ("PatchGuard::new", [Val.n (Int.ofNat func), Val.bs saved, Val.n (Int.ofNat 12), Val.n (Int.ofNat jit), Val.n (Int.ofNat 20)])] }) := by
  have hs : search func 2147483648 4096 20 [some jit] =
      (AResult.ok jit, [AEvent.mmap (func - 2147483648) 20 (some jit)]) := by
    have c : func - 2147483648 ≤ func + 2147483648 := by omega
    simp [search, loop, c, hnear]
  have ha := T_a64m_alloc mode func 20 4096 (by omega) [some jit] (by intro x hx; simp at hx; omega)
    (log ++ [("read_bytes", [Val.n func, Val.n ((12 : Nat) : Int)])]) tail (by rw [hs]; simp)
  rw [hs] at ha
  simp only [List.map_cons, List.map_nil, encAns, List.cons_append, List.nil_append, List.length_cons,
    List.length_nil, Nat.zero_add, Nat.reduceAdd, mmapCount, List.drop_succ_cons, List.drop_zero, encEvM] at ha
  have ha2 : run (GenA64M.allocate_jit_memory mode 2 func 20)
      { answers := Val.n ((4096 : Nat) : Int) :: Val.n (jit : Int) :: tail, log := log ++ [("read_bytes", [Val.n func, Val.n ((12 : Nat) : Int)])] } =
      (Res.ok jit, { answers := tail, log := log ++ [("read_bytes", [Val.n func, Val.n ((12 : Nat) : Int)])] ++ [("sysconf", [Val.n 30])] ++ [("mmap", [Val.n ((func - 2147483648 : Nat) : Int), Val.n ((20 : Nat) : Int), Val.n allocProt, Val.n allocFlagsM, Val.n (-1), Val.n 0])] }) := by
    rw [GenA64M.allocate_jit_memory]; exact ha
  rw [GenA64M.replace_function_with_other_function]
  rw [run_bind_ok _ _ _ _ _ (T_a64m_read_bytes mode func 12 saved _ log)]
  dsimp only
  rw [run_bind_ok _ _ _ _ _ ha2]
  rw [run_bind_ok _ _ _ _ _ (T_a64m_tramp mode jit fake _ (by omega))]
  rw [run_bind_ok _ _ _ _ _ (T_a64m_apply_branch_patch mode func jit 20 saved _ (by omega) hj), run_pure]
  simp

/-- C17 on macOS, read off the translated installation: the bytes copied to the trampoline are followed, before
    anything else is written, by an instruction-cache invalidation of exactly the trampoline's range -/
theorem T_c17_macos_trampoline (fake jit : Nat) :
    ∃ pre post, macInjectLog (A64.wordsToBytes (A64.tramp fake)) jit =
      pre ++ [("copy_nonoverlapping", [Val.bs (A64.wordsToBytes (A64.tramp fake)), Val.n (Int.ofNat jit), Val.n (Int.ofNat (A64.wordsToBytes (A64.tramp fake)).length)]),
              ("pthread_jit_write_protect_np", [Val.n 1]),
              ("sys_icache_invalidate", [Val.n (Int.ofNat jit), Val.n (Int.ofNat (A64.wordsToBytes (A64.tramp fake)).length)])] ++ post :=
  ⟨[("pthread_jit_write_protect_np", [Val.n 0])], [("asm", [])], rfl⟩

end Inj.Tie

#print axioms Inj.Tie.T_a64m_read_bytes
#print axioms Inj.Tie.T_a64m_install_exec
#print axioms Inj.Tie.T_c17_macos_trampoline
