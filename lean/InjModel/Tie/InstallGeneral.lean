/-
  Tie/InstallGeneral.lean — the x86-64 installation for every behaviour of the kernel during the
  search (not only a first hint that is honoured), and the failure side of C11 on the translated code.
-/
import InjModel.Tie.Corollaries
open Inj Inj.Rt Inj.Alloc Inj.Machine

namespace Inj.Tie

/-- The x86-64 installation for **any** behaviour of the kernel during the search: if
    `Alloc.search` on the script of answers accepts `jit` (consuming the whole script), the translated
    `replace_function_with_other_function` performs exactly the search's OS calls, then fills and
    flushes the trampoline, then `patch_and_guard`. -/
theorem T_x86_install_general (mode : Mode) (func fake jit : Nat) (answers : List (Option Nat)) (evs : List AEvent)
    (code br saved : List Nat) (log : List (String × List Val)) (tail : List Val)
    (hf : func + 134217728 + 4096 < 18446744073709551616) (hk : fake < 18446744073709551616)
    (hA : ∀ x, some x ∈ answers → x < 18446744073709551615)
    (hs : search func 134217728 4096 12 answers = (AResult.ok jit, evs))
    (hall : mmapCount evs = answers.length)
    (hcode : X86.genBranch mode jit fake = Res.ok code)
    (hbr : X86.genBranch mode func jit = Res.ok br) :
    run (GenX86.replace_function_with_other_function mode (answers.length + 1) func fake)
        { answers := Val.n (4096 : Nat) :: (answers.map encAns ++ (Val.bs saved :: Val.n 4096 :: Val.n 0 :: tail)), log := log } =
      (Res.ok (), { answers := tail, log := log ++ [("sysconf", [Val.n 30])] ++ evs.map encEv ++
        [("copy_nonoverlapping", [Val.bs code, Val.n jit, Val.n code.length]),
         ("__clear_cache", [Val.n jit, Val.n ((jit + code.length : Nat) : Int)]),
         ("read_bytes", [Val.n func, Val.n br.length]),
         ("sysconf", [Val.n 30]),
         ("mprotect", [Val.n ((Machine.protectSpan func br.length).1 : Nat), Val.n ((Machine.protectSpan func br.length).2 : Nat), Val.n 7]),
         ("copy_nonoverlapping", [Val.bs br, Val.n func, Val.n br.length]),
         ("__clear_cache", [Val.n func, Val.n ((func + br.length : Nat) : Int)]),
         ("PatchGuard::new", [Val.n func, Val.bs saved, Val.n br.length, Val.n jit, Val.n 12])] }) := by
  have hclen := X86.genBranch_len mode jit fake code hcode
  have hsound := (loop_sound func 134217728 4096 12 answers (func - 134217728) [] (by simp)).1 jit (by simpa [search] using congrArg Prod.fst hs)
  have hnear : Alloc.absDiff jit func < 134217728 := hsound.1
  have hjb : jit < func + 134217728 := by
    unfold Alloc.absDiff at hnear; split at hnear <;> omega
  have ha := T_alloc mode func 12 4096 (by omega) answers hA log
    (Val.bs saved :: Val.n 4096 :: Val.n 0 :: tail) (by rw [hs]; simp)
  rw [hs] at ha
  simp only [hall, List.drop_length, List.map_nil, List.nil_append] at ha
  have ha2 : run (GenX86.allocate_jit_memory mode (answers.length + 1) func 12)
      { answers := Val.n ((4096 : Nat) : Int) :: (answers.map encAns ++ (Val.bs saved :: Val.n 4096 :: Val.n 0 :: tail)), log := log } =
      (Res.ok jit, { answers := Val.bs saved :: Val.n 4096 :: Val.n 0 :: tail, log := log ++ [("sysconf", [Val.n 30])] ++ evs.map encEv }) := by
    rw [GenX86.allocate_jit_memory]; exact ha
  have hg : GenX86.generate_branch_to_target_function mode jit fake = Res.ok code := by
    rw [T_x86_genBranch mode jit fake (by omega) hk, hcode]
  rw [GenX86.replace_function_with_other_function]
  rw [run_bind_ok _ _ _ _ _ ha2]
  rw [run_bind_lift_ok _ _ _ _ hg]
  rw [run_bind_ok _ _ _ _ _ (T_x86_inject mode code jit _ (by omega))]
  rw [run_bind_ok _ _ _ _ _ (T_x86_patch_and_guard mode func jit 12 br saved _ tail (by omega) (by omega) hbr (by omega)), run_pure]
  simp

/-- **C11, failure side, on the translated code**: when the search is exhausted the translated
    installation panics having made only the search's OS calls — no byte was written anywhere, no
    protection changed, and every mapping obtained was given back (`C11_sound`). -/
theorem T_x86_install_refused (mode : Mode) (func fake : Nat) (answers : List (Option Nat)) (evs : List AEvent)
    (log : List (String × List Val)) (tail : List Val)
    (hf : func + 134217728 + 4096 < 18446744073709551616)
    (hA : ∀ x, some x ∈ answers → x < 18446744073709551615)
    (hs : search func 134217728 4096 12 answers = (AResult.panic, evs)) :
    (run (GenX86.replace_function_with_other_function mode (answers.length + 1) func fake)
        { answers := Val.n (4096 : Nat) :: (answers.map encAns ++ tail), log := log }).1 =
      Res.panic "Failed to allocate JIT memory within ±m" ∧
    writesOf (delta (run (GenX86.replace_function_with_other_function mode (answers.length + 1) func fake)
        { answers := Val.n (4096 : Nat) :: (answers.map encAns ++ tail), log := log }) log) = [] ∧
    callsOf "mprotect" (delta (run (GenX86.replace_function_with_other_function mode (answers.length + 1) func fake)
        { answers := Val.n (4096 : Nat) :: (answers.map encAns ++ tail), log := log }) log) = [] ∧
    leaked evs [] = [] := by
  have ha := T_alloc mode func 12 4096 (by omega) answers hA log tail (by rw [hs]; simp)
  rw [hs] at ha
  have ha2 : run (GenX86.allocate_jit_memory mode (answers.length + 1) func 12)
      { answers := Val.n ((4096 : Nat) : Int) :: (answers.map encAns ++ tail), log := log } =
      (Res.panic "Failed to allocate JIT memory within ±m", { answers := (answers.drop (mmapCount evs)).map encAns ++ tail, log := log ++ [("sysconf", [Val.n 30])] ++ evs.map encEv }) := by
    rw [GenX86.allocate_jit_memory]; exact ha
  have hleak := (loop_sound func 134217728 4096 12 answers (func - 134217728) [] (by simp)).2 (by simpa [search] using congrArg Prod.fst hs)
  have hevs : (loop func 134217728 4096 12 answers (func - 134217728)).2 = evs := by simpa [search] using congrArg Prod.snd hs
  rw [hevs] at hleak
  rw [GenX86.replace_function_with_other_function]
  rw [run_bind_panic _ _ _ _ _ ha2]
  refine ⟨rfl, ?_, ?_, hleak⟩
  · simp only [delta, List.append_assoc, List.drop_left]
    have : ∀ es : List AEvent, writesOf (("sysconf", [Val.n 30]) :: es.map encEv) = [] := by
      intro es
      induction es with
      | nil => simp [writesOf]
      | cons e es ih =>
        cases e <;> simp_all [writesOf, encEv]
    simpa using this evs
  · simp only [delta, List.append_assoc, List.drop_left]
    have : ∀ es : List AEvent, callsOf "mprotect" (("sysconf", [Val.n 30]) :: es.map encEv) = [] := by
      intro es
      induction es with
      | nil => simp [callsOf]
      | cons e es ih =>
        cases e <;> simp_all [callsOf, encEv]
    simpa using this evs
end Inj.Tie
#print axioms Inj.Tie.T_x86_install_general
#print axioms Inj.Tie.T_x86_install_refused
