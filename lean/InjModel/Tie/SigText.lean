/-
  Tie/SigText.lean — bridge for the forced-boolean gate: the translated `signature_returns_bool`
  (GenIf; chars, UTF-8 byte offsets, `find`, `char_indices`, slicing, `trim`) computes, for every
  signature text, exactly `Sig.returnsBoolText`, and never panics.
-/
import InjModel.Generated.Fns
import InjModel.Lemmas.Rt
import InjModel.Model.SigText
import InjModel.Lemmas.SigText
open Inj Inj.Rt Inj.Sig

namespace Inj.Tie

theorem utf8Len_pos (c : Char) : 1 ≤ utf8Len c := by unfold utf8Len; split <;> (try split) <;> (try split) <;> omega
theorem utf8Len_lp : utf8Len '(' = 1 := by decide
theorem utf8Len_rp : utf8Len ')' = 1 := by decide

theorem strLen_append (a b : List Char) : strLen (a ++ b) = strLen a + strLen b := by
  induction a with
  | nil => simp [strLen]
  | cons c cs ih => simp [strLen, ih]; omega

theorem length_le_strLen (a : List Char) : a.length ≤ strLen a := by
  induction a with
  | nil => simp [strLen]
  | cons c cs ih => have := utf8Len_pos c; simp [strLen]; omega

theorem strFrom_zero (s : List Char) : strFrom s 0 = Res.ok s := by cases s <;> rfl

theorem strFrom_cons (c : Char) (cs : List Char) (n : Nat) (h : utf8Len c ≤ n) :
    strFrom (c :: cs) n = strFrom cs (n - utf8Len c) := by
  have := utf8Len_pos c
  cases n with
  | zero => omega
  | succ k => simp [strFrom, h]

/-- slicing at the end of a prefix gives the rest -/
theorem strFrom_append (pre r : List Char) : strFrom (pre ++ r) (strLen pre) = Res.ok r := by
  induction pre with
  | nil => simp [strLen, strFrom_zero]
  | cons c cs ih =>
    simp only [List.cons_append, strLen]
    rw [strFrom_cons c _ _ (by omega)]
    have : utf8Len c + strLen cs - utf8Len c = strLen cs := by omega
    rw [this, ih]

/-- `find('(')`: no occurrence, or the split of the text at the first one -/
theorem find_spec (s : List Char) (off : Nat) :
    (strFindFrom off s '(' = none ∧ afterParamsC s = none) ∨
    (∃ pre post, s = pre ++ '(' :: post ∧ strFindFrom off s '(' = some (off + strLen pre) ∧
      afterParamsC s = afterCloseC 1 post) := by
  induction s generalizing off with
  | nil => left; simp [strFindFrom, afterParamsC]
  | cons c cs ih =>
    by_cases h : c = '('
    · right; subst h
      exact ⟨[], cs, rfl, by simp [strFindFrom, strLen], by simp [afterParamsC]⟩
    · rcases ih (off + utf8Len c) with ⟨h1, h2⟩ | ⟨pre, post, e, h1, h2⟩
      · left; simp [strFindFrom, afterParamsC, h, h1, h2]
      · right
        refine ⟨c :: pre, post, by simp [e], ?_, by simp [afterParamsC, h, h2]⟩
        simp [strFindFrom, h, h1, strLen]; omega

/-- the scan of the translated loop is `afterCloseC` -/
theorem loop_spec (mode : Mode) (s : List Char) (open_ : Nat) (hs : strLen s < 9223372036854775808) :
    ∀ (xs pre : List Char) (d off : Nat), s = pre ++ xs → open_ + off = strLen pre → 1 ≤ d → d ≤ pre.length →
      ∃ d', GenIf.signature_returns_bool_for1 mode s open_ (charIndicesFrom off xs) d =
        Res.ok ((afterCloseC d xs).map (fun rest => strTrim rest == arrowBool), d') := by
  intro xs
  induction xs with
  | nil => intro pre d off _ _ _ _; exact ⟨d, by simp [charIndicesFrom, GenIf.signature_returns_bool_for1, afterCloseC]⟩
  | cons c cs ih =>
    intro pre d off e ho hd hdl
    have hlen : strLen s = strLen pre + (utf8Len c + strLen cs) := by rw [e, strLen_append]; simp [strLen]
    have hpl := length_le_strLen pre
    have e' : s = (pre ++ [c]) ++ cs := by simp [e]
    have ho' : open_ + (off + utf8Len c) = strLen (pre ++ [c]) := by rw [strLen_append]; simp [strLen]; omega
    have hl' : (pre ++ [c]).length = pre.length + 1 := by simp
    simp only [charIndicesFrom]
    rw [GenIf.signature_returns_bool_for1]
    by_cases h1 : c = '('
    · subst h1
      obtain ⟨d', hd'⟩ := ih (pre ++ ['(']) (d + 1) (off + utf8Len '(') e' ho' (by omega) (by omega)
      refine ⟨d', ?_⟩
      simp only [beq_self_eq_true, if_true]
      rw [uadd64_ok mode d 1 (by omega), Res.bind_ok]
      simp only [afterCloseC, if_true]
      exact hd'
    · by_cases h2 : c = ')'
      · subst h2
        have hb : ((')' : Char) == '(') = false := by decide
        simp only [hb, Bool.false_eq_true, if_false, beq_self_eq_true, if_true]
        rw [usub64_ok mode d 1 hd (by omega), Res.bind_ok]
        by_cases h3 : d = 1
        · subst h3
          refine ⟨0, ?_⟩
          simp only [Nat.sub_self, beq_self_eq_true, if_true]
          rw [uadd64_ok mode open_ off (by omega), Res.bind_ok, uadd64_ok mode _ 1 (by omega), Res.bind_ok]
          have : open_ + off + 1 = strLen (pre ++ [')']) := by rw [strLen_append]; simp [strLen, utf8Len_rp]; omega
          rw [this, e', strFrom_append, Res.bind_ok]
          simp [afterCloseC, arrowBool]
        · obtain ⟨d', hd'⟩ := ih (pre ++ [')']) (d - 1) (off + utf8Len ')') e' ho' (by omega) (by omega)
          refine ⟨d', ?_⟩
          have hb3 : (d - 1 == 0) = false := by simp; omega
          simp only [hb3, Bool.false_eq_true, if_false]
          have hd0 : d ≠ 0 := by omega
          have : afterCloseC d (')' :: cs) = afterCloseC (d - 1) cs := by
            simp [afterCloseC, h3, hd0]
          rw [this]; exact hd'
      · obtain ⟨d', hd'⟩ := ih (pre ++ [c]) d (off + utf8Len c) e' ho' hd (by omega)
        refine ⟨d', ?_⟩
        have hb1 : (c == '(') = false := by simp [h1]
        have hb2 : (c == ')') = false := by simp [h2]
        simp only [hb1, hb2, Bool.false_eq_true, if_false]
        have : afterCloseC d (c :: cs) = afterCloseC d cs := by simp [afterCloseC, h1, h2]
        rw [this]; exact hd'

/-- the translated `signature_returns_bool` is `Sig.returnsBoolText`, for every text (a `&str` is
    at most `isize::MAX` bytes long), in both build profiles, and it never panics -/
theorem T_sig_returns_bool (mode : Mode) (s : List Char) (hs : strLen s < 9223372036854775808) :
    GenIf.signature_returns_bool mode s = Res.ok (returnsBoolText s) := by
  unfold GenIf.signature_returns_bool returnsBoolText strFind
  rcases find_spec s 0 with ⟨h1, h2⟩ | ⟨pre, post, e, h1, h2⟩
  · rw [h1, h2]; rfl
  · rw [h1, h2]
    simp only [Nat.zero_add]
    have : strFrom s (strLen pre) = Res.ok ('(' :: post) := by rw [e, strFrom_append]
    rw [this, Res.bind_ok]
    simp only [charIndices, charIndicesFrom, Nat.zero_add]
    rw [GenIf.signature_returns_bool_for1]
    simp only [beq_self_eq_true, if_true]
    rw [uadd64_ok mode 0 1 (by omega), Res.bind_ok]
    have e' : s = (pre ++ ['(']) ++ post := by simp [e]
    obtain ⟨d', hd'⟩ := loop_spec mode s (strLen pre) hs post (pre ++ ['(']) 1 (utf8Len '(') e'
      (by rw [strLen_append]; simp [strLen]) (by omega) (by simp)
    simp only [Nat.zero_add] at hd' ⊢
    rw [hd', Res.bind_ok]
    cases afterCloseC 1 post <;> rfl

/-- **C10's gate clause on the code as translated**: for every function-pointer type, spelled with
    any names that meet `NamesOK`, in both build profiles, the translated `signature_returns_bool`
    returns (never panics) `true` exactly when the return type is `bool`. -/
theorem T_c10_gate_translated (mode : Mode) (nm : Names) (ok : NamesOK nm) (f : FnTy)
    (hs : strLen (spellC nm (renderFn f)) < 9223372036854775808) :
    ∃ b, GenIf.signature_returns_bool mode (spellC nm (renderFn f)) = Res.ok b ∧
      (b = true ↔ f.ret = Ty.prim boolId) :=
  ⟨_, T_sig_returns_bool mode _ hs, returnsBoolText_renderFn nm ok f⟩

/-- sanity (tests, not the theorem): the spec on three literal texts -/
example : returnsBoolText ['f', 'n', '(', 'i', '3', '2', ')', ' ', '-', '>', ' ', 'b', 'o', 'o', 'l'] = true := by decide
example : returnsBoolText ['f', 'n', '(', ')', ' ', '-', '>', ' ', 'f', 'n', '(', ')', ' ', '-', '>', ' ', 'b', 'o', 'o', 'l'] = false := by decide
example : returnsBoolText ['f', 'n', '(', 'f', 'n', '(', ')', ' ', '-', '>', ' ', 'b', 'o', 'o', 'l', ')'] = false := by decide

end Inj.Tie

#print axioms Inj.Tie.T_sig_returns_bool
#print axioms Inj.Tie.T_c10_gate_translated
