/-
  Tie/Corollaries.lean — C03 / C12 / C17 read off the translated code: from the exact OS-call
  sequences proved in Tie/Install, Tie/A64Install and Tie/A32, what the translated installation and
  restoration write, map, unmap and flush.
-/
import InjModel.Tie.Install
import InjModel.Tie.A64Install
import InjModel.Tie.A32
open Inj Inj.Rt Inj.Alloc Inj.Machine

namespace Inj.Tie

/-- (destination, length) of every raw copy in a log -/
def writesOf : List (String × List Val) → List (Int × Int)
  | [] => []
  | ("copy_nonoverlapping", [Val.bs _, Val.n d, Val.n n]) :: es => (d, n) :: writesOf es
  | _ :: es => writesOf es

/-- every raw copy is immediately followed by a cache flush of exactly the range it wrote (the
    arm64 barrier `asm` may follow the flush) -/
def flushedAfterWrite : List (String × List Val) → Bool
  | [] => true
  | ("copy_nonoverlapping", [Val.bs _, Val.n d, Val.n n]) :: ("__clear_cache", [Val.n lo, Val.n hi]) :: es =>
      (lo == d && hi == d + n) && flushedAfterWrite es
  | ("copy_nonoverlapping", _) :: _ => false
  | _ :: es => flushedAfterWrite es

def callsOf (name : String) : List (String × List Val) → List (List Val)
  | [] => []
  | (n, args) :: es => if n == name then args :: callsOf name es else callsOf name es

/-- the log delta of a run -/
def delta {α : Type} (r : Res α × Os) (log : List (String × List Val)) : List (String × List Val) := r.2.log.drop log.length

/-- **C03 on the translated x86-64 installation**: the only bytes it writes are the trampoline code
    at `jit` (5 or 12 bytes) and the entry branch at `func` (5 or 12 bytes) — nothing else. -/
theorem T_c03_x86_install (mode : Mode) (func fake jit : Nat) (code br saved : List Nat)
    (log : List (String × List Val)) (tail : List Val)
    (hf : func + 134217728 + 4096 < 18446744073709551616) (hk : fake < 18446744073709551616)
    (hj : jit < 18446744073709551615) (hnear : Alloc.absDiff jit func < 134217728)
    (hcode : X86.genBranch mode jit fake = Res.ok code) (hbr : X86.genBranch mode func jit = Res.ok br) :
    writesOf (delta (run (GenX86.replace_function_with_other_function mode 2 func fake)
        { answers := Val.n (4096 : Nat) :: Val.n jit :: Val.bs saved :: Val.n 4096 :: Val.n 0 :: tail, log := log }) log) =
      [((jit : Int), (code.length : Int)), ((func : Int), (br.length : Int))] ∧
    (code.length = 5 ∨ code.length = 12) ∧ (br.length = 5 ∨ br.length = 12) := by
  rw [T_x86_install_exec mode func fake jit 4096 code br saved log tail hf hk hj rfl hnear hcode hbr]
  refine ⟨?_, X86.genBranch_len mode jit fake code hcode, X86.genBranch_len mode func jit br hbr⟩
  simp [delta, writesOf]

/-- **C17 on the translated x86-64 installation**: each of its writes is followed at once by a flush
    of exactly the written range. -/
theorem T_c17_x86_install (mode : Mode) (func fake jit : Nat) (code br saved : List Nat)
    (log : List (String × List Val)) (tail : List Val)
    (hf : func + 134217728 + 4096 < 18446744073709551616) (hk : fake < 18446744073709551616)
    (hj : jit < 18446744073709551615) (hnear : Alloc.absDiff jit func < 134217728)
    (hcode : X86.genBranch mode jit fake = Res.ok code) (hbr : X86.genBranch mode func jit = Res.ok br) :
    flushedAfterWrite (delta (run (GenX86.replace_function_with_other_function mode 2 func fake)
        { answers := Val.n (4096 : Nat) :: Val.n jit :: Val.bs saved :: Val.n 4096 :: Val.n 0 :: tail, log := log }) log) = true := by
  rw [T_x86_install_exec mode func fake jit 4096 code br saved log tail hf hk hj rfl hnear hcode hbr]
  simp [delta, flushedAfterWrite]

/-- **C12 on the translated code**: the installation maps exactly one region (answered with `jit`) and
    unmaps nothing; the restoration of that guard unmaps exactly `(jit, jit_size)`, once. -/
theorem T_c12_x86 (mode : Mode) (func fake jit : Nat) (code br saved : List Nat)
    (log log2 : List (String × List Val)) (tail tail2 : List Val)
    (hf : func + 134217728 + 4096 < 18446744073709551616) (hk : fake < 18446744073709551616)
    (hj : jit < 18446744073709551615) (hj0 : jit ≠ 0) (hnear : Alloc.absDiff jit func < 134217728)
    (hcode : X86.genBranch mode jit fake = Res.ok code) (hbr : X86.genBranch mode func jit = Res.ok br)
    (hs : br.length ≤ saved.length) :
    (callsOf "mmap" (delta (run (GenX86.replace_function_with_other_function mode 2 func fake)
        { answers := Val.n (4096 : Nat) :: Val.n jit :: Val.bs saved :: Val.n 4096 :: Val.n 0 :: tail, log := log }) log)).length = 1 ∧
    callsOf "munmap" (delta (run (GenX86.replace_function_with_other_function mode 2 func fake)
        { answers := Val.n (4096 : Nat) :: Val.n jit :: Val.bs saved :: Val.n 4096 :: Val.n 0 :: tail, log := log }) log) = [] ∧
    callsOf "munmap" (delta (run (GenX86.drop mode func saved br.length jit 12)
        { answers := Val.n 4096 :: Val.n 0 :: tail2, log := log2 }) log2) = [[Val.n jit, Val.n 12]] := by
  have hlen := X86.genBranch_len mode func jit br hbr
  rw [T_x86_install_exec mode func fake jit 4096 code br saved log tail hf hk hj rfl hnear hcode hbr]
  rw [T_x86_drop mode func saved br.length jit 12 log2 tail2 (by omega) (by omega) hs]
  simp [delta, callsOf, hj0]

/-- **C03 / C17 on the translated restoration** (`PatchGuard::drop`): it writes exactly the saved bytes
    back at `func` (nothing else), and flushes that range right after the write. -/
theorem T_c03_c17_x86_drop (mode : Mode) (func : Nat) (saved : List Nat) (psz jit jsz : Nat)
    (log : List (String × List Val)) (tail : List Val)
    (h : func + psz + 4096 < 18446744073709551616) (hl : 1 ≤ psz) (hs : psz ≤ saved.length) :
    writesOf (delta (run (GenX86.drop mode func saved psz jit jsz) { answers := Val.n 4096 :: Val.n 0 :: tail, log := log }) log) =
      [((func : Int), (psz : Int))] ∧
    flushedAfterWrite (delta (run (GenX86.drop mode func saved psz jit jsz) { answers := Val.n 4096 :: Val.n 0 :: tail, log := log }) log) = true := by
  rw [T_x86_drop mode func saved psz jit jsz log tail h hl hs]
  by_cases c : jit = 0 <;> simp [delta, writesOf, flushedAfterWrite, c]

/-- **C03 / C17 on the translated AArch64 installation**: the writes are the 20 trampoline bytes at `jit`
    and the 12 entry bytes at `func`; each is followed at once by a flush of exactly its range. -/
theorem T_c03_c17_a64_install (mode : Mode) (func fake jit : Nat) (ws saved : List Nat)
    (log : List (String × List Val)) (tail : List Val)
    (hf : func + 134217728 + 8192 < 9223372036854775808) (hj : jit < 9223372036854775808)
    (hnear : Alloc.absDiff jit func < 134217728) (hws : A64.entryLinux func jit = Res.ok ws) :
    writesOf (delta (run (GenA64L.replace_function_with_other_function mode 2 func fake)
        { answers := Val.bs saved :: Val.n (4096 : Nat) :: Val.n jit :: Val.n 4096 :: Val.n 0 :: tail, log := log }) log) =
      [((jit : Int), 20), ((func : Int), 12)] ∧
    flushedAfterWrite (delta (run (GenA64L.replace_function_with_other_function mode 2 func fake)
        { answers := Val.bs saved :: Val.n (4096 : Nat) :: Val.n jit :: Val.n 4096 :: Val.n 0 :: tail, log := log }) log) = true := by
  rw [T_a64_install_exec mode func fake jit ws saved log tail hf hj hnear hws]
  simp [delta, writesOf, flushedAfterWrite]

/-- **C03 / C16 on the translated 32-bit ARM patch** (ARM-state source): one write, of exactly 12 bytes,
    at `src`, flushed at once. -/
theorem T_c03_a32_arm (mode : Mode) (src target : Nat) (saved : List Nat)
    (log : List (String × List Val)) (tail : List Val)
    (hs : src + 12 + 4096 < 4294967296) (ht : target < 4294967296) (he : src % 2 = 0) :
    writesOf (delta (run (GenA32.replace_function_with_other_function mode src target)
        { answers := Val.bs saved :: Val.n 4096 :: Val.n 0 :: tail, log := log }) log) = [((src : Int), 12)] ∧
    flushedAfterWrite (delta (run (GenA32.replace_function_with_other_function mode src target)
        { answers := Val.bs saved :: Val.n 4096 :: Val.n 0 :: tail, log := log }) log) = true := by
  rw [T_a32_patch_arm mode src target saved log tail hs ht he]
  simp [delta, writesOf, flushedAfterWrite]

/-- the same for a Thumb-state source at either alignment: one 12-byte write at `src - 1` -/
theorem T_c03_a32_thumb (mode : Mode) (src target : Nat) (saved : List Nat)
    (log : List (String × List Val)) (tail : List Val)
    (hs : src + 12 + 4096 < 4294967296) (ht : target < 4294967296) (ho : src % 2 = 1) :
    writesOf (delta (run (GenA32.replace_function_with_other_function mode src target)
        { answers := Val.bs saved :: Val.n 4096 :: Val.n 0 :: tail, log := log }) log) = [(((src - 1 : Nat) : Int), 12)] ∧
    flushedAfterWrite (delta (run (GenA32.replace_function_with_other_function mode src target)
        { answers := Val.bs saved :: Val.n 4096 :: Val.n 0 :: tail, log := log }) log) = true := by
  rw [T_a32_patch_thumb mode src target saved log tail hs ht ho]
  simp [delta, writesOf, flushedAfterWrite]
end Inj.Tie
#print axioms Inj.Tie.T_c03_c17_x86_drop
#print axioms Inj.Tie.T_c03_c17_a64_install
#print axioms Inj.Tie.T_c03_a32_arm
#print axioms Inj.Tie.T_c03_a32_thumb
#print axioms Inj.Tie.T_c03_x86_install
#print axioms Inj.Tie.T_c17_x86_install
#print axioms Inj.Tie.T_c12_x86
