/-
  Tie/Install.lean — bridge: the x86-64 installation path (`patch_and_guard`,
  `replace_function_with_other_function`) as translated from the source on this run performs exactly
  the OS-visible sequence that `Machine.installX86` models.
-/
import InjModel.Tie.X86
import InjModel.Tie.Alloc
open Inj Inj.Rt Inj.Tie Inj.Alloc

namespace Inj.Tie

/-- `patch_and_guard(src, jit, jit_size)` as translated: encode the entry branch func → jit, read the
    bytes it will overwrite, `patch_function`, and build the guard from exactly (func, saved bytes,
    branch length, jit, jit_size) — the steps of `Machine.installX86` after the trampoline is filled. -/
theorem T_x86_patch_and_guard (mode : Mode) (func jit jsz : Nat) (br saved : List Nat)
    (log : List (String × List Val)) (tail : List Val)
    (hf : func < 18446744073709551616) (hj : jit < 18446744073709551616)
    (hbr : X86.genBranch mode func jit = Res.ok br) (h : func + 12 + 4096 < 18446744073709551616) :
    run (GenX86.patch_and_guard mode func jit jsz)
        { answers := Val.bs saved :: Val.n 4096 :: Val.n 0 :: tail, log := log } =
      (Res.ok (), { answers := tail, log := log ++
        [("read_bytes", [Val.n func, Val.n br.length]),
         ("sysconf", [Val.n 30]),
         ("mprotect", [Val.n ((Machine.protectSpan func br.length).1 : Nat), Val.n ((Machine.protectSpan func br.length).2 : Nat), Val.n 7]),
         ("copy_nonoverlapping", [Val.bs br, Val.n func, Val.n br.length]),
         ("__clear_cache", [Val.n func, Val.n ((func + br.length : Nat) : Int)]),
         ("PatchGuard::new", [Val.n func, Val.bs saved, Val.n br.length, Val.n jit, Val.n jsz])] }) := by
  have hlen := X86.genBranch_len mode func jit br hbr
  have hg : GenX86.generate_branch_to_target_function mode func jit = Res.ok br := by
    rw [T_x86_genBranch mode func jit hf hj, hbr]
  rw [GenX86.patch_and_guard]
  rw [run_bind_lift_ok _ _ _ _ hg]
  rw [run_bind_ok _ _ _ _ _ (run_extB_cons _ _ _ _ _)]
  rw [run_bind_ok _ _ _ _ _ (T_x86_patch_function mode func br _ tail (by omega) (by omega))]
  rw [run_bind_ok _ _ _ _ _ (run_extU _ _ _), run_pure]
  simp

/-- The whole x86-64 installation `replace_function_with_other_function(func, fake)` as translated,
    when the kernel honours the first hint with `jit` (strictly within ±128 MiB): the OS-visible
    sequence is exactly the one `Machine.installX86` models — page size, the hinted `mmap`, the
    trampoline code `genBranch jit fake` copied to `jit` and flushed, then `patch_and_guard`. -/
theorem T_x86_install_exec (mode : Mode) (func fake jit page : Nat) (code br saved : List Nat)
    (log : List (String × List Val)) (tail : List Val)
    (hf : func + 134217728 + 4096 < 18446744073709551616) (hk : fake < 18446744073709551616)
    (hj : jit < 18446744073709551615) (hp : page = 4096)
    (hnear : Alloc.absDiff jit func < 134217728)
    (hcode : X86.genBranch mode jit fake = Res.ok code)
    (hbr : X86.genBranch mode func jit = Res.ok br) :
    run (GenX86.replace_function_with_other_function mode 2 func fake)
        { answers := Val.n page :: Val.n jit :: Val.bs saved :: Val.n 4096 :: Val.n 0 :: tail, log := log } =
      (Res.ok (), { answers := tail, log := log ++
        [("sysconf", [Val.n 30]),
         ("mmap", [Val.n ((func - 134217728 : Nat) : Int), Val.n 12, Val.n allocProt, Val.n allocFlags, Val.n (-1), Val.n 0]),
         ("copy_nonoverlapping", [Val.bs code, Val.n jit, Val.n code.length]),
         ("__clear_cache", [Val.n jit, Val.n ((jit + code.length : Nat) : Int)]),
         ("read_bytes", [Val.n func, Val.n br.length]),
         ("sysconf", [Val.n 30]),
         ("mprotect", [Val.n ((Machine.protectSpan func br.length).1 : Nat), Val.n ((Machine.protectSpan func br.length).2 : Nat), Val.n 7]),
         ("copy_nonoverlapping", [Val.bs br, Val.n func, Val.n br.length]),
         ("__clear_cache", [Val.n func, Val.n ((func + br.length : Nat) : Int)]),
         ("PatchGuard::new", [Val.n func, Val.bs saved, Val.n br.length, Val.n jit, Val.n 12])] }) := by
  subst hp
  have hclen := X86.genBranch_len mode jit fake code hcode
  have hjb : jit < func + 134217728 := by
    unfold Alloc.absDiff at hnear; split at hnear <;> omega
  have hs : search func 134217728 4096 12 [some jit] =
      (AResult.ok jit, [AEvent.mmap (func - 134217728) 12 (some jit)]) := by
    have c : func - 134217728 ≤ func + 134217728 := by omega
    simp [search, loop, c, hnear]
  have ha := T_alloc mode func 12 4096 (by omega) [some jit] (by intro x hx; simp at hx; omega) log
    (Val.bs saved :: Val.n 4096 :: Val.n 0 :: tail) (by rw [hs]; simp)
  rw [hs] at ha
  simp only [List.map_cons, List.map_nil, encAns, List.cons_append, List.nil_append, List.length_cons,
    List.length_nil, Nat.zero_add, Nat.reduceAdd, mmapCount, List.drop_succ_cons, List.drop_zero, encEv] at ha
  have ha2 : run (GenX86.allocate_jit_memory mode 2 func 12)
      { answers := Val.n ((4096 : Nat) : Int) :: Val.n (jit : Int) :: Val.bs saved :: Val.n 4096 :: Val.n 0 :: tail, log := log } =
      (Res.ok jit, { answers := Val.bs saved :: Val.n 4096 :: Val.n 0 :: tail, log := log ++ [("sysconf", [Val.n 30])] ++ [("mmap", [Val.n ((func - 134217728 : Nat) : Int), Val.n ((12 : Nat) : Int), Val.n allocProt, Val.n allocFlags, Val.n (-1), Val.n 0])] }) := by
    rw [GenX86.allocate_jit_memory]; exact ha
  have hg : GenX86.generate_branch_to_target_function mode jit fake = Res.ok code := by
    rw [T_x86_genBranch mode jit fake (by omega) hk, hcode]
  rw [GenX86.replace_function_with_other_function]
  rw [run_bind_ok _ _ _ _ _ ha2]
  rw [run_bind_lift_ok _ _ _ _ hg]
  rw [run_bind_ok _ _ _ _ _ (T_x86_inject mode code jit _ (by omega))]
  rw [run_bind_ok _ _ _ _ _ (T_x86_patch_and_guard mode func jit 12 br saved _ tail (by omega) (by omega) hbr (by omega)), run_pure]
  simp
end Inj.Tie
#print axioms Inj.Tie.T_x86_patch_and_guard
#print axioms Inj.Tie.T_x86_install_exec
