/-
  Tie/Install.lean — bridge: the x86-64 installation path (`patch_and_guard`,
  `replace_function_with_other_function`) as translated from the source on this run performs exactly
  the OS-visible sequence that `Machine.installX86` models.
-/
import InjModel.Tie.X86
import InjModel.Tie.Alloc
import InjModel.Lemmas.Machine
open Inj Inj.Rt Inj.Tie Inj.Alloc Inj.Machine

namespace Inj.Tie

/-- `read_bytes(ptr, len)` as translated: one read of memory (the oracle supplies the bytes) -/
theorem T_x86_read_bytes (mode : Mode) (ptr len : Nat) (bs : List Nat) (rest : List Val) (log : List (String × List Val)) :
    run (GenX86.read_bytes mode ptr len) { answers := Val.bs bs :: rest, log := log } =
      (Res.ok bs, { answers := rest, log := log ++ [("read_bytes", [Val.n ptr, Val.n len])] }) := by
  rw [GenX86.read_bytes, run_bind_ok _ _ _ _ _ (run_extB_cons _ _ _ _ _), run_pure]
  rfl

/-- `patch_and_guard(src, jit, jit_size)` as translated: encode the entry branch func → jit, read the
    bytes it will overwrite, `patch_function`, and build the guard from exactly (func, saved bytes,
    branch length, jit, jit_size) — the steps of `Machine.installX86` after the trampoline is filled. -/
theorem T_x86_patch_and_guard (mode : Mode) (func jit jsz : Nat) (br saved : List Nat)
    (log : List (String × List Val)) (tail : List Val)
    (hf : func < 18446744073709551616) (hj : jit < 18446744073709551616)
    (hbr : X86.genBranch mode func jit = Res.ok br) (h : func + 12 + 4096 < 18446744073709551616) :
    run (GenX86.patch_and_guard mode func jit jsz)
        { answers := Val.bs saved :: Val.n 4096 :: Val.n 0 :: tail, log := log } =
      (Res.ok (), { answers := tail, log := log ++
        [("read_bytes", [Val.n func, Val.n br.length]),
         ("sysconf", [Val.n 30]),
         ("mprotect", [Val.n ((Machine.protectSpan func br.length).1 : Nat), Val.n ((Machine.protectSpan func br.length).2 : Nat), Val.n 7]),
         ("copy_nonoverlapping", [Val.bs br, Val.n func, Val.n br.length]),
         ("__clear_cache", [Val.n func, Val.n ((func + br.length : Nat) : Int)]),
         ("PatchGuard::new", [Val.n func, Val.bs saved, Val.n br.length, Val.n jit, Val.n jsz])] }) := by
  have hlen := X86.genBranch_len mode func jit br hbr
  have hg : GenX86.generate_branch_to_target_function mode func jit = Res.ok br := by
    rw [T_x86_genBranch mode func jit hf hj, hbr]
  rw [GenX86.patch_and_guard]
  rw [run_bind_lift_ok _ _ _ _ hg]
  rw [run_bind_ok _ _ _ _ _ (T_x86_read_bytes mode func br.length saved _ log)]
  rw [run_bind_ok _ _ _ _ _ (T_x86_patch_function mode func br _ tail (by omega) (by omega))]
  rw [run_bind_ok _ _ _ _ _ (run_extU _ _ _), run_pure]
  simp

/-- The whole x86-64 installation `replace_function_with_other_function(func, fake)` as translated,
    when the kernel honours the first hint with `jit` (strictly within ±128 MiB): the OS-visible
    sequence is exactly the one `Machine.installX86` models — page size, the hinted `mmap`, the
    trampoline code `genBranch jit fake` copied to `jit` and flushed, then `patch_and_guard`. -/
theorem T_x86_install_exec (mode : Mode) (func fake jit page : Nat) (code br saved : List Nat)
    (log : List (String × List Val)) (tail : List Val)
    (hf : func + 134217728 + 4096 < 18446744073709551616) (hk : fake < 18446744073709551616)
    (hj : jit < 18446744073709551615) (hp : page = 4096)
    (hnear : Alloc.absDiff jit func < 134217728)
    (hcode : X86.genBranch mode jit fake = Res.ok code)
    (hbr : X86.genBranch mode func jit = Res.ok br) :
    run (GenX86.replace_function_with_other_function mode 2 func fake)
        { answers := Val.n page :: Val.n jit :: Val.bs saved :: Val.n 4096 :: Val.n 0 :: tail, log := log } =
      (Res.ok (), { answers := tail, log := log ++
        [("sysconf", [Val.n 30]),
         ("mmap", [Val.n ((func - 134217728 : Nat) : Int), Val.n 12, Val.n allocProt, Val.n allocFlags, Val.n (-1), Val.n 0]),
         ("copy_nonoverlapping", [Val.bs code, Val.n jit, Val.n code.length]),
         ("__clear_cache", [Val.n jit, Val.n ((jit + code.length : Nat) : Int)]),
         ("read_bytes", [Val.n func, Val.n br.length]),
         ("sysconf", [Val.n 30]),
         ("mprotect", [Val.n ((Machine.protectSpan func br.length).1 : Nat), Val.n ((Machine.protectSpan func br.length).2 : Nat), Val.n 7]),
         ("copy_nonoverlapping", [Val.bs br, Val.n func, Val.n br.length]),
         ("__clear_cache", [Val.n func, Val.n ((func + br.length : Nat) : Int)]),
         ("PatchGuard::new", [Val.n func, Val.bs saved, Val.n br.length, Val.n jit, Val.n 12])] }) := by
  subst hp
  have hclen := X86.genBranch_len mode jit fake code hcode
  have hjb : jit < func + 134217728 := by
    unfold Alloc.absDiff at hnear; split at hnear <;> omega
  have hs : search func 134217728 4096 12 [some jit] =
      (AResult.ok jit, [AEvent.mmap (func - 134217728) 12 (some jit)]) := by
    have c : func - 134217728 ≤ func + 134217728 := by omega
    simp [search, loop, c, hnear]
  have ha := T_alloc mode func 12 4096 (by omega) [some jit] (by intro x hx; simp at hx; omega) log
    (Val.bs saved :: Val.n 4096 :: Val.n 0 :: tail) (by rw [hs]; simp)
  rw [hs] at ha
  simp only [List.map_cons, List.map_nil, encAns, List.cons_append, List.nil_append, List.length_cons,
    List.length_nil, Nat.zero_add, Nat.reduceAdd, mmapCount, List.drop_succ_cons, List.drop_zero, encEv] at ha
  have ha2 : run (GenX86.allocate_jit_memory mode 2 func 12)
      { answers := Val.n ((4096 : Nat) : Int) :: Val.n (jit : Int) :: Val.bs saved :: Val.n 4096 :: Val.n 0 :: tail, log := log } =
      (Res.ok jit, { answers := Val.bs saved :: Val.n 4096 :: Val.n 0 :: tail, log := log ++ [("sysconf", [Val.n 30])] ++ [("mmap", [Val.n ((func - 134217728 : Nat) : Int), Val.n ((12 : Nat) : Int), Val.n allocProt, Val.n allocFlags, Val.n (-1), Val.n 0])] }) := by
    rw [GenX86.allocate_jit_memory]; exact ha
  have hg : GenX86.generate_branch_to_target_function mode jit fake = Res.ok code := by
    rw [T_x86_genBranch mode jit fake (by omega) hk, hcode]
  rw [GenX86.replace_function_with_other_function]
  rw [run_bind_ok _ _ _ _ _ ha2]
  rw [run_bind_lift_ok _ _ _ _ hg]
  rw [run_bind_ok _ _ _ _ _ (T_x86_inject mode code jit _ (by omega))]
  rw [run_bind_ok _ _ _ _ _ (T_x86_patch_and_guard mode func jit 12 br saved _ tail (by omega) (by omega) hbr (by omega)), run_pure]
  simp
/-- reading of one logged OS call of the translated code as a `Machine.Event` (`jit` = what the kernel
    answered to the hinted mmap); calls the machine model does not log (`sysconf`, `read_bytes`, the
    guard constructor) give `none` -/
def toEvent (jit : Nat) : String × List Val → Option Event
  | ("mmap", [_, Val.n len, _, _, _, _]) => some (Event.mmap jit len.toNat)
  | ("munmap", [Val.n a, Val.n l]) => some (Event.munmap a.toNat l.toNat)
  | ("mprotect", [Val.n a, Val.n l, _]) => some (Event.mprotect a.toNat l.toNat)
  | ("copy_nonoverlapping", [Val.bs b, Val.n d, _]) => some (Event.write d.toNat b)
  | ("__clear_cache", [Val.n lo, Val.n hi]) => some (Event.flush lo.toNat hi.toNat)
  | _ => none

/-- **Refinement of the machine model by the translated code** (x86-64, executable payload, first
    hint honoured): whenever `Machine.installX86` succeeds, the translated
    `replace_function_with_other_function`, run on the same kernel answers, succeeds too and the OS
    calls it logs — read as machine events — are exactly the events the model appends, in order. -/
theorem T_x86_install_refines (mode : Mode) (s s' : MState) (func fake jit : Nat) (saved : List Nat)
    (log : List (String × List Val)) (tail : List Val)
    (hf : func + 134217728 + 4096 < 18446744073709551616) (hk : fake < 18446744073709551616)
    (hj : jit < 18446744073709551615) (hnear : Alloc.absDiff jit func < 134217728)
    (hi : installX86 mode s func (Payload.exec fake) jit = some s') :
    (run (GenX86.replace_function_with_other_function mode 2 func fake)
        { answers := Val.n (4096 : Nat) :: Val.n jit :: Val.bs saved :: Val.n 4096 :: Val.n 0 :: tail, log := log }).1 = Res.ok () ∧
    s'.log = Event.ret ::
      ((((run (GenX86.replace_function_with_other_function mode 2 func fake)
        { answers := Val.n (4096 : Nat) :: Val.n jit :: Val.bs saved :: Val.n 4096 :: Val.n 0 :: tail, log := log }).2.log.drop log.length).filterMap (toEvent jit)).reverse ++ s.log) := by
  obtain ⟨code, br, hc, hb, hlog⟩ := installX86_log mode s s' func (Payload.exec fake) jit hi
  have hcode : X86.genBranch mode jit fake = Res.ok code := by
    unfold payloadCode at hc
    cases hg : X86.genBranch mode jit fake with
    | ok c => simp [hg] at hc; rw [hc]
    | panic w => simp [hg] at hc
  rw [T_x86_install_exec mode func fake jit 4096 code br saved log tail hf hk hj rfl hnear hcode hb]
  refine ⟨rfl, ?_⟩
  rw [hlog]
  simp [toEvent, Payload.jitSize, X86.jitSizeExec, Generated.Consts.x86JitSizeExec]
  constructor <;> omega
theorem T_x86_clear_cache (mode : Mode) (a b : Nat) (os : Os) :
    run (GenX86.clear_cache mode a b) os =
      (Res.ok (), { os with log := os.log ++ [("__clear_cache", [Val.n a, Val.n b])] }) := by
  rw [GenX86.clear_cache, run_bind_ok _ _ _ _ _ (run_extU _ _ _), run_pure]
  rfl

theorem run_extU_then_unit (name : String) (args : List Val) (os : Os) :
    run (extU name args >>= fun _ => (pure () : M Unit)) os =
      (Res.ok (), { os with log := os.log ++ [(name, args)] }) := by
  rw [run_bind_ok _ _ _ _ _ (run_extU _ _ _), run_pure]

/-- `PatchGuard::drop` as translated: `patch_function(func, saved[..patch_size])`, then `munmap` of the
    trampoline when there is one, then one more flush of the entry range — the steps of
    `Machine.restoreGuard`, in its order. -/
theorem T_x86_drop (mode : Mode) (func : Nat) (saved : List Nat) (psz jit jsz : Nat)
    (log : List (String × List Val)) (tail : List Val)
    (h : func + psz + 4096 < 18446744073709551616) (hl : 1 ≤ psz) (hs : psz ≤ saved.length) :
    run (GenX86.drop mode func saved psz jit jsz) { answers := Val.n 4096 :: Val.n 0 :: tail, log := log } =
      (Res.ok (), { answers := tail, log := log ++
        [("sysconf", [Val.n 30]),
         ("mprotect", [Val.n ((Machine.protectSpan func psz).1 : Nat), Val.n ((Machine.protectSpan func psz).2 : Nat), Val.n 7]),
         ("copy_nonoverlapping", [Val.bs (saved.take psz), Val.n func, Val.n psz]),
         ("__clear_cache", [Val.n func, Val.n ((func + psz : Nat) : Int)])] ++
        (if jit ≠ 0 then [("munmap", [Val.n jit, Val.n jsz])] else []) ++
        [("__clear_cache", [Val.n func, Val.n ((func + psz : Nat) : Int)])] }) := by
  have hsl : Rt.slice saved 0 psz = Res.ok (saved.take psz) := by
    unfold Rt.slice; simp [hs]
  have hlen : (saved.take psz).length = psz := by simp [hs]
  have hpf := T_x86_patch_function mode func (saved.take psz) log tail (by omega) (by omega)
  rw [hlen] at hpf
  have hu : uadd 64 mode func psz = Res.ok (func + psz) := uadd64_ok _ _ _ (by omega)
  rw [GenX86.drop, run_bind_lift_ok _ _ _ _ hsl, run_bind_ok _ _ _ _ _ hpf]
  by_cases c : jit = 0
  · subst c
    simp only [beq_self_eq_true, Bool.not_true, Bool.false_eq_true, if_false, ne_eq, not_true_eq_false]
    rw [run_bind_lift_ok _ _ _ _ hu, run_bind_ok _ _ _ _ _ (T_x86_clear_cache mode func (func + psz) _), run_pure]
    simp
  · have cb : (!(jit == 0)) = true := by simp [c]
    simp only [cb, if_true, ne_eq, c, not_false_eq_true]
    rw [run_bind_ok _ _ _ _ _ (run_extU_then_unit _ _ _)]
    rw [run_bind_lift_ok _ _ _ _ hu, run_bind_ok _ _ _ _ _ (T_x86_clear_cache mode func (func + psz) _), run_pure]
    simp

/-- **Refinement for the restore path**: the OS calls the translated `PatchGuard::drop` logs for a
    guard `g`, read as machine events, are exactly what `Machine.restoreGuard` appends, in order. -/
theorem T_x86_drop_refines (mode : Mode) (s : MState) (g : Guard)
    (log : List (String × List Val)) (tail : List Val)
    (h : g.addr + g.patchLen + 4096 < 18446744073709551616) (hl : 1 ≤ g.patchLen) (hs : g.patchLen ≤ g.saved.length) :
    (run (GenX86.drop mode g.addr g.saved g.patchLen g.jit g.jitLen)
        { answers := Val.n 4096 :: Val.n 0 :: tail, log := log }).1 = Res.ok () ∧
    (restoreGuard s g).log =
      (((run (GenX86.drop mode g.addr g.saved g.patchLen g.jit g.jitLen)
        { answers := Val.n 4096 :: Val.n 0 :: tail, log := log }).2.log.drop log.length).filterMap (toEvent 0)).reverse ++ s.log := by
  rw [T_x86_drop mode g.addr g.saved g.patchLen g.jit g.jitLen log tail h hl hs]
  refine ⟨rfl, ?_⟩
  rw [restoreGuard_log]
  have hlen : (g.saved.take g.patchLen).length = g.patchLen := by simp [hs]
  by_cases c : g.jit = 0
  · simp [c, toEvent, hlen]; omega
  · simp [c, toEvent, hlen]; omega
/-- The boolean installation `replace_function_return_boolean(func, v)` as translated, first hint
    honoured with `jit`: page size, the hinted 8-byte `mmap`, the stub `X86.boolStub v` copied to `jit`
    and flushed, then `patch_and_guard` with jit size 8. -/
theorem T_x86_install_bool (mode : Mode) (func jit : Nat) (v : Bool) (br saved : List Nat)
    (log : List (String × List Val)) (tail : List Val)
    (hf : func + 134217728 + 4096 < 18446744073709551616)
    (hj : jit < 18446744073709551615)
    (hnear : Alloc.absDiff jit func < 134217728)
    (hbr : X86.genBranch mode func jit = Res.ok br) :
    run (GenX86.replace_function_return_boolean mode 2 func v)
        { answers := Val.n (4096 : Nat) :: Val.n jit :: Val.bs saved :: Val.n 4096 :: Val.n 0 :: tail, log := log } =
      (Res.ok (), { answers := tail, log := log ++
        [("sysconf", [Val.n 30]),
         ("mmap", [Val.n ((func - 134217728 : Nat) : Int), Val.n 8, Val.n allocProt, Val.n allocFlags, Val.n (-1), Val.n 0]),
         ("copy_nonoverlapping", [Val.bs (X86.boolStub v), Val.n jit, Val.n 8]),
         ("__clear_cache", [Val.n jit, Val.n ((jit + 8 : Nat) : Int)]),
         ("read_bytes", [Val.n func, Val.n br.length]),
         ("sysconf", [Val.n 30]),
         ("mprotect", [Val.n ((Machine.protectSpan func br.length).1 : Nat), Val.n ((Machine.protectSpan func br.length).2 : Nat), Val.n 7]),
         ("copy_nonoverlapping", [Val.bs br, Val.n func, Val.n br.length]),
         ("__clear_cache", [Val.n func, Val.n ((func + br.length : Nat) : Int)]),
         ("PatchGuard::new", [Val.n func, Val.bs saved, Val.n br.length, Val.n jit, Val.n 8])] }) := by
  have hjb : jit < func + 134217728 := by
    unfold Alloc.absDiff at hnear; split at hnear <;> omega
  have hs : search func 134217728 4096 8 [some jit] =
      (AResult.ok jit, [AEvent.mmap (func - 134217728) 8 (some jit)]) := by
    have c : func - 134217728 ≤ func + 134217728 := by omega
    simp [search, loop, c, hnear]
  have ha := T_alloc mode func 8 4096 (by omega) [some jit] (by intro x hx; simp at hx; omega) log
    (Val.bs saved :: Val.n 4096 :: Val.n 0 :: tail) (by rw [hs]; simp)
  rw [hs] at ha
  simp only [List.map_cons, List.map_nil, encAns, List.cons_append, List.nil_append, List.length_cons,
    List.length_nil, Nat.zero_add, Nat.reduceAdd, mmapCount, List.drop_succ_cons, List.drop_zero, encEv] at ha
  have ha2 : run (GenX86.allocate_jit_memory mode 2 func 8)
      { answers := Val.n ((4096 : Nat) : Int) :: Val.n (jit : Int) :: Val.bs saved :: Val.n 4096 :: Val.n 0 :: tail, log := log } =
      (Res.ok jit, { answers := Val.bs saved :: Val.n 4096 :: Val.n 0 :: tail, log := log ++ [("sysconf", [Val.n 30])] ++ [("mmap", [Val.n ((func - 134217728 : Nat) : Int), Val.n ((8 : Nat) : Int), Val.n allocProt, Val.n allocFlags, Val.n (-1), Val.n 0])] }) := by
    rw [GenX86.allocate_jit_memory]; exact ha
  rw [GenX86.replace_function_return_boolean]
  rw [run_bind_ok _ _ _ _ _ ha2]
  rw [run_bind_ok _ _ _ _ _ (T_x86_boolStub mode jit v _ (by omega))]
  rw [run_bind_ok _ _ _ _ _ (T_x86_patch_and_guard mode func jit 8 br saved _ tail (by omega) (by omega) hbr (by omega)), run_pure]
  simp

/-- refinement of `Machine.installX86` with the boolean payload by the translated code -/
theorem T_x86_install_bool_refines (mode : Mode) (s s' : MState) (func jit : Nat) (v : Bool) (saved : List Nat)
    (log : List (String × List Val)) (tail : List Val)
    (hf : func + 134217728 + 4096 < 18446744073709551616)
    (hj : jit < 18446744073709551615) (hnear : Alloc.absDiff jit func < 134217728)
    (hi : installX86 mode s func (Payload.bool v) jit = some s') :
    (run (GenX86.replace_function_return_boolean mode 2 func v)
        { answers := Val.n (4096 : Nat) :: Val.n jit :: Val.bs saved :: Val.n 4096 :: Val.n 0 :: tail, log := log }).1 = Res.ok () ∧
    s'.log = Event.ret ::
      ((((run (GenX86.replace_function_return_boolean mode 2 func v)
        { answers := Val.n (4096 : Nat) :: Val.n jit :: Val.bs saved :: Val.n 4096 :: Val.n 0 :: tail, log := log }).2.log.drop log.length).filterMap (toEvent jit)).reverse ++ s.log) := by
  obtain ⟨code, br, hc, hb, hlog⟩ := installX86_log mode s s' func (Payload.bool v) jit hi
  have hcode : code = X86.boolStub v := by
    unfold payloadCode at hc; simp at hc; exact hc.symm
  subst hcode
  rw [T_x86_install_bool mode func jit v br saved log tail hf hj hnear hb]
  refine ⟨rfl, ?_⟩
  rw [hlog]
  have hl := boolStub_len v
  simp [toEvent, Payload.jitSize, X86.jitSizeBool, Generated.Consts.x86JitSizeBool, hl]
  constructor <;> omega
end Inj.Tie
#print axioms Inj.Tie.T_x86_patch_and_guard
#print axioms Inj.Tie.T_x86_install_exec
#print axioms Inj.Tie.T_x86_install_refines
#print axioms Inj.Tie.T_x86_drop
#print axioms Inj.Tie.T_x86_drop_refines
#print axioms Inj.Tie.T_x86_clear_cache
#print axioms Inj.Tie.T_x86_read_bytes
#print axioms Inj.Tie.T_x86_install_bool
#print axioms Inj.Tie.T_x86_install_bool_refines
