/-
  Tie/A32.lean — bridges for the 32-bit ARM configuration (pointer width 32): the shared OS-facing
  functions and `PatchArm::replace_function_with_other_function` as translated from the source on this run
  = `A32.patch` (address written, bytes, guard), for ARM-state and Thumb-state sources at both alignments.
-/
import InjModel.Generated.Fns
import InjModel.Lemmas.Rt
import InjModel.Model.A32
import InjModel.Model.Machine
open Inj Inj.Rt

namespace Inj.Tie

theorem uadd32_ok (mode : Mode) (a b : Nat) (h : a + b < 4294967296) : uadd 32 mode a b = Res.ok (a + b) := by
  unfold uadd chkU
  have e : (((2:Nat)^32 : Nat) : Int) = 4294967296 := by decide
  rw [e, if_pos (by omega)]
  congr 1
theorem usub32_ok (mode : Mode) (a b : Nat) (h : b ≤ a) (ha : a < 4294967296) : usub 32 mode a b = Res.ok (a - b) := by
  unfold usub chkU
  have e : (((2:Nat)^32 : Nat) : Int) = 4294967296 := by decide
  rw [e, if_pos (by omega)]
  congr 1; omega

theorem and_pagemask32 (a : Nat) (h : a < 4294967296) :
    a &&& (4294967295 - 4095) = a / 4096 * 4096 := by
  apply Nat.eq_of_testBit_eq
  intro i
  have hm : (4294967295 - 4095 : Nat) = (2 ^ 20 - 1) * 2 ^ 12 := by decide
  rw [Nat.testBit_and, hm, Nat.testBit_mul_two_pow, Nat.testBit_two_pow_sub_one]
  have h4 : (4096 : Nat) = 2 ^ 12 := by decide
  rw [h4, Nat.testBit_mul_two_pow, Nat.testBit_div_two_pow]
  by_cases c : 12 ≤ i
  · simp only [c, decide_true, Bool.true_and]
    have : i - 12 + 12 = i := by omega
    rw [this]
    by_cases d : i - 12 < 20
    · simp [d]
    · have : a < 2 ^ i := by
        have : 2 ^ 32 ≤ 2 ^ i := Nat.pow_le_pow_right (by decide) (by omega)
        omega
      simp [Nat.testBit_lt_two_pow this]
  · simp [c]

theorem T_a32_inject (mode : Mode) (bs : List Nat) (dest : Nat) (os : Os) (h : dest + bs.length < 4294967296) :
    run (GenA32.inject_asm_code mode bs dest) os =
      (Res.ok (), { os with log := os.log ++ [("copy_nonoverlapping", [Val.bs bs, Val.n dest, Val.n bs.length]),
                                               ("__clear_cache", [Val.n dest, Val.n ((dest + bs.length : Nat) : Int)])] }) := by
  have hc : ∀ (a b : Nat) (os : Os), run (GenA32.clear_cache mode a b) os =
      (Res.ok (), { os with log := os.log ++ [("__clear_cache", [Val.n a, Val.n b])] }) := by
    intro a b os
    rw [GenA32.clear_cache, run_bind_ok _ _ _ _ _ (run_extU _ _ _), run_pure]; rfl
  rw [GenA32.inject_asm_code, run_bind_ok _ _ _ _ _ (run_extU _ _ _),
    run_bind_lift_ok _ _ _ _ (uadd32_ok mode dest bs.length h),
    run_bind_ok _ _ _ _ _ (hc dest (dest + bs.length) _), run_pure]
  simp

theorem T_a32_region (mode : Mode) (addr len : Nat) (h : addr + len + 4096 < 4294967296) (hl : 1 ≤ len) :
    GenA32.protected_region_size mode addr len 4096 = Res.ok (Machine.protectSpan addr len).2 := by
  have e1 : usub 32 mode 4096 1 = Res.ok 4095 := usub32_ok _ _ _ (by omega) (by omega)
  have e2 : uadd 32 mode addr (max len 1) = Res.ok (addr + len) := by
    rw [Nat.max_eq_left hl]; exact uadd32_ok _ _ _ (by omega)
  have e3 : uadd 32 mode (addr + len) 4096 = Res.ok (addr + len + 4096) := uadd32_ok _ _ _ (by omega)
  have e4 : usub 32 mode (addr + len + 4096) 1 = Res.ok (addr + len + 4095) := by
    rw [usub32_ok _ _ _ (by omega) (by omega)]; congr 1
  have eu : unot 32 4095 = 4294967295 - 4095 := by simp [unot]
  have ple : addr / 4096 * 4096 ≤ (addr + len + 4095) / 4096 * 4096 := by omega
  have e5 : usub 32 mode ((addr + len + 4095) / 4096 * 4096) (addr / 4096 * 4096) =
      Res.ok ((addr + len + 4095) / 4096 * 4096 - addr / 4096 * 4096) := usub32_ok _ _ _ ple (by omega)
  rw [GenA32.protected_region_size, e1, Res.bind_ok]
  show (do let t_2 ← uadd 32 mode addr (max len 1); let t_3 ← uadd 32 mode t_2 4096; let t_4 ← usub 32 mode t_3 1
           let t_5 ← usub 32 mode 4096 1
           let t_6 ← usub 32 mode (band t_4 (unot 32 t_5)) (band addr (unot 32 4095)); pure t_6 : Res Nat) = _
  rw [e2, Res.bind_ok, e3, Res.bind_ok, e4, Res.bind_ok, e1, Res.bind_ok, eu]
  unfold band
  rw [and_pagemask32 addr (by omega), and_pagemask32 (addr + len + 4095) (by omega), e5]
  simp [Machine.protectSpan, pageUp, pageStart, pageSize]

theorem T_a32_mprotect (mode : Mode) (func len : Nat) (log : List (String × List Val)) (tail : List Val)
    (h : func + len + 4096 < 4294967296) (hl : 1 ≤ len) :
    run (GenA32.make_memory_writable_and_executable_linux mode func len)
        { answers := Val.n 4096 :: Val.n 0 :: tail, log := log } =
      (Res.ok (), { answers := tail, log := log ++
        [("sysconf", [Val.n 30]),
         ("mprotect", [Val.n ((Machine.protectSpan func len).1 : Nat), Val.n ((Machine.protectSpan func len).2 : Nat), Val.n 7])] }) := by
  have hp : castSU 32 (4096 : Int) = 4096 := by decide
  have e1 : usub 32 mode 4096 1 = Res.ok 4095 := usub32_ok _ _ _ (by omega) (by omega)
  have eu : unot 32 4095 = 4294967295 - 4095 := by simp [unot]
  rw [GenA32.make_memory_writable_and_executable_linux]
  rw [run_bind_ok _ _ _ _ _ (run_extI_cons _ _ _ _ _)]
  rw [hp, run_bind_lift_ok _ _ _ _ e1]
  rw [run_bind_lift_ok _ _ _ _ (T_a32_region mode func len h hl)]
  rw [run_bind_ok _ _ _ _ _ (run_extI_cons _ _ _ _ _)]
  simp only [bne_self_eq_false, Bool.false_eq_true, if_false, run_pure, eu, band, and_pagemask32 func (by omega)]
  simp [Machine.protectSpan, pageStart, pageSize, sbor, castSU, wrapS]

theorem T_a32_patch_function (mode : Mode) (func : Nat) (patch : List Nat) (log : List (String × List Val)) (tail : List Val)
    (h : func + patch.length + 4096 < 4294967296) (hl : 1 ≤ patch.length) :
    run (GenA32.patch_function mode func patch) { answers := Val.n 4096 :: Val.n 0 :: tail, log := log } =
      (Res.ok (), { answers := tail, log := log ++
        [("sysconf", [Val.n 30]),
         ("mprotect", [Val.n ((Machine.protectSpan func patch.length).1 : Nat), Val.n ((Machine.protectSpan func patch.length).2 : Nat), Val.n 7]),
         ("copy_nonoverlapping", [Val.bs patch, Val.n func, Val.n patch.length]),
         ("__clear_cache", [Val.n func, Val.n ((func + patch.length : Nat) : Int)])] }) := by
  rw [GenA32.patch_function, GenA32.make_memory_writable_and_executable]
  have h1 := T_a32_mprotect mode func patch.length log tail h hl
  have h2 : run (GenA32.make_memory_writable_and_executable_linux mode func patch.length >>= fun _ => (pure () : M Unit))
      { answers := Val.n 4096 :: Val.n 0 :: tail, log := log } = _ := run_bind_ok _ _ _ _ _ h1
  rw [run_pure] at h2
  rw [run_bind_ok _ _ _ _ _ h2]
  rw [run_bind_ok _ _ _ _ _ (T_a32_inject mode patch func _ (by omega)), run_pure]
  simp


open Inj.Generated.Consts

theorem T_a32_read_bytes (mode : Mode) (ptr len : Nat) (bs : List Nat) (rest : List Val) (log : List (String × List Val)) :
    run (GenA32.read_bytes mode ptr len) { answers := Val.bs bs :: rest, log := log } =
      (Res.ok bs, { answers := rest, log := log ++ [("read_bytes", [Val.n ptr, Val.n len])] }) := by
  rw [GenA32.read_bytes, run_bind_ok _ _ _ _ _ (run_extB_cons _ _ _ _ _), run_pure]
  rfl

theorem a32_fill (w0 w1 w2 : Nat) :
    copyInto (List.replicate 12 (0 : Nat)) 0 4 (leBytes 4 w0) = Res.ok (le32 w0 ++ List.replicate 8 0) ∧
    copyInto (le32 w0 ++ List.replicate 8 0) 4 8 (leBytes 4 w1) = Res.ok (le32 w0 ++ le32 w1 ++ List.replicate 4 0) ∧
    copyInto (le32 w0 ++ le32 w1 ++ List.replicate 4 0) 8 12 (leBytes 4 w2) = Res.ok (le32 w0 ++ le32 w1 ++ le32 w2) := by
  refine ⟨?_, ?_, ?_⟩ <;> simp [copyInto, leBytes4, le32, List.replicate]

/-- ARM-state source (even address): the translated function reads 12 bytes at `src`, patches `src`
    with exactly `(A32.patch src target).bytes` and builds the guard (src, saved, 12, null, 0). -/
theorem T_a32_patch_arm (mode : Mode) (src target : Nat) (saved : List Nat)
    (log : List (String × List Val)) (tail : List Val)
    (hs : src + 12 + 4096 < 4294967296) (ht : target < 4294967296) (he : src % 2 = 0) :
    run (GenA32.replace_function_with_other_function mode src target)
        { answers := Val.bs saved :: Val.n 4096 :: Val.n 0 :: tail, log := log } =
      (Res.ok (), { answers := tail, log := log ++
        [("read_bytes", [Val.n src, Val.n 12]),
         ("sysconf", [Val.n 30]),
         ("mprotect", [Val.n ((Machine.protectSpan src 12).1 : Nat), Val.n ((Machine.protectSpan src 12).2 : Nat), Val.n 7]),
         ("copy_nonoverlapping", [Val.bs (A32.patch src target).bytes, Val.n src, Val.n 12]),
         ("__clear_cache", [Val.n src, Val.n ((src + 12 : Nat) : Int)]),
         ("PatchGuard::new", [Val.n src, Val.bs saved, Val.n 12, Val.n 0, Val.n 0])] }) := by
  have hb : (band src 1 != 0) = false := by
    unfold band; rw [Nat.and_one_is_mod, he]; rfl
  rw [GenA32.replace_function_with_other_function]
  simp only [hb, Bool.false_eq_true, if_false]
  obtain ⟨f1, f2, f3⟩ := a32_fill 3844050944 3778019097 target
  have i0 : idx [(3844050944 : Nat), 3778019097, target] 0 = Res.ok 3844050944 := rfl
  have i1 : idx [(3844050944 : Nat), 3778019097, target] 1 = Res.ok 3778019097 := rfl
  have i2 : idx [(3844050944 : Nat), 3778019097, target] 2 = Res.ok target := rfl
  have hlen : (le32 3844050944 ++ le32 3778019097 ++ le32 target).length = 12 := by simp [le32]
  rw [run_bind_ok _ _ _ _ _ (run_pure _ _)]
  rw [run_bind_ok _ _ _ _ _ (T_a32_read_bytes mode src 12 saved _ log)]
  rw [run_bind_lift_ok _ _ _ _ i0, run_bind_lift_ok _ _ _ _ f1, run_bind_lift_ok _ _ _ _ i1,
    run_bind_lift_ok _ _ _ _ f2, run_bind_lift_ok _ _ _ _ i2, run_bind_lift_ok _ _ _ _ f3]
  rw [run_bind_ok _ _ _ _ _ (run_pure _ _)]
  simp only [Bool.false_eq_true, if_false]
  rw [run_bind_ok _ _ _ _ _ (run_pure _ _)]
  rw [run_bind_ok _ _ _ _ _ (T_a32_patch_function mode src _ _ tail (by rw [hlen]; omega) (by rw [hlen]; omega))]
  rw [run_bind_ok _ _ _ _ _ (run_extU _ _ _), run_pure, hlen]
  have hm : (A32.patch src target).bytes = le32 3844050944 ++ le32 3778019097 ++ le32 target := by
    have h2 : (src % 2 == 1) = false := by simp [he]
    simp [A32.patch, h2, armArmWords, A32.wordOf, Nat.mod_eq_of_lt ht]
  rw [hm]
  simp

/-- Thumb-state source (odd address), both alignments of the stripped entry: 12 bytes read and
    written at `src - 1`, the bytes are exactly `(A32.patch src target).bytes` (rotated by one halfword
    behind a NOP when the entry is 2 mod 4), guard (src - 1, saved, 12, null, 0). -/
theorem T_a32_patch_thumb (mode : Mode) (src target : Nat) (saved : List Nat)
    (log : List (String × List Val)) (tail : List Val)
    (hs : src + 12 + 4096 < 4294967296) (ht : target < 4294967296) (ho : src % 2 = 1) :
    run (GenA32.replace_function_with_other_function mode src target)
        { answers := Val.bs saved :: Val.n 4096 :: Val.n 0 :: tail, log := log } =
      (Res.ok (), { answers := tail, log := log ++
        [("read_bytes", [Val.n ((src - 1 : Nat) : Int), Val.n 12]),
         ("sysconf", [Val.n 30]),
         ("mprotect", [Val.n ((Machine.protectSpan (src - 1) 12).1 : Nat), Val.n ((Machine.protectSpan (src - 1) 12).2 : Nat), Val.n 7]),
         ("copy_nonoverlapping", [Val.bs (A32.patch src target).bytes, Val.n ((src - 1 : Nat) : Int), Val.n 12]),
         ("__clear_cache", [Val.n ((src - 1 : Nat) : Int), Val.n ((src - 1 + 12 : Nat) : Int)]),
         ("PatchGuard::new", [Val.n ((src - 1 : Nat) : Int), Val.bs saved, Val.n 12, Val.n 0, Val.n 0])] }) := by
  have hb : (band src 1 != 0) = true := by
    unfold band; rw [Nat.and_one_is_mod, ho]; rfl
  have hsub : usub 32 mode src 1 = Res.ok (src - 1) := usub32_ok _ _ _ (by omega) (by omega)
  obtain ⟨f1, f2, f3⟩ := a32_fill 1194872576 target 0
  have i0 : idx [(1194872576 : Nat), target, 0] 0 = Res.ok 1194872576 := rfl
  have i1 : idx [(1194872576 : Nat), target, 0] 1 = Res.ok target := rfl
  have i2 : idx [(1194872576 : Nat), target, 0] 2 = Res.ok 0 := rfl
  have h2 : (src % 2 == 1) = true := by simp [ho]
  rw [GenA32.replace_function_with_other_function]
  simp only [hb, if_true]
  rw [run_bind_lift_ok _ _ _ _ hsub]
  rw [run_bind_ok _ _ _ _ _ (T_a32_read_bytes mode (src - 1) 12 saved _ log)]
  rw [run_bind_lift_ok _ _ _ _ i0, run_bind_lift_ok _ _ _ _ f1, run_bind_lift_ok _ _ _ _ i1,
    run_bind_lift_ok _ _ _ _ f2, run_bind_lift_ok _ _ _ _ i2, run_bind_lift_ok _ _ _ _ f3]
  by_cases ca : (src - 1) % 4 = 0
  · have hr : urem (src - 1) 4 = Res.ok 0 := by unfold urem; simp [ca]
    have hmap : ∀ os : Os, run ((MonadLiftT.monadLift (urem (src - 1) 4) : M Nat) >>= fun t_10 => pure (t_10 != 0)) os = (Res.ok ((0 : Nat) != 0), os) := by
      intro os; rw [run_bind_lift_ok _ _ _ _ hr, run_pure]
    rw [run_bind_ok _ _ _ _ _ (hmap _)]
    simp only [bne_self_eq_false, Bool.false_eq_true, if_false]
    rw [run_bind_ok _ _ _ _ _ (run_pure _ _)]
    have hlen : (le32 1194872576 ++ le32 target ++ le32 0).length = 12 := by simp [le32]
    rw [run_bind_ok _ _ _ _ _ (T_a32_patch_function mode (src - 1) _ _ tail (by rw [hlen]; omega) (by rw [hlen]; omega))]
    rw [run_bind_ok _ _ _ _ _ (run_extU _ _ _), run_pure, hlen]
    have hm : (A32.patch src target).bytes = le32 1194872576 ++ le32 target ++ le32 0 := by
      simp [A32.patch, h2, armThumbWords, A32.wordOf, Nat.mod_eq_of_lt ht, armAlignMod, ca]
    rw [hm]
    simp
  · have hr : urem (src - 1) 4 = Res.ok ((src - 1) % 4) := by unfold urem; simp
    have hne : ((src - 1) % 4 != 0) = true := by simp [ca]
    have hmap : ∀ os : Os, run ((MonadLiftT.monadLift (urem (src - 1) 4) : M Nat) >>= fun t_10 => pure (t_10 != 0)) os = (Res.ok (((src - 1) % 4) != 0), os) := by
      intro os; rw [run_bind_lift_ok _ _ _ _ hr, run_pure]
    rw [run_bind_ok _ _ _ _ _ (hmap _)]
    simp only [hne, if_true]
    have hrot : rotateRight (le32 1194872576 ++ le32 target ++ le32 0) 2 =
        Res.ok (A32.rotateRight (le32 1194872576 ++ le32 target ++ le32 0) 2) := by
      simp [rotateRight, A32.rotateRight, le32]
    have hs0 : setIdx (A32.rotateRight (le32 1194872576 ++ le32 target ++ le32 0) 2) 0 192 =
        Res.ok ((A32.rotateRight (le32 1194872576 ++ le32 target ++ le32 0) 2).set 0 192) := by
      simp [setIdx, A32.rotateRight, le32]
    have hs1 : setIdx ((A32.rotateRight (le32 1194872576 ++ le32 target ++ le32 0) 2).set 0 192) 1 70 =
        Res.ok (((A32.rotateRight (le32 1194872576 ++ le32 target ++ le32 0) 2).set 0 192).set 1 70) := by
      simp [setIdx, A32.rotateRight, le32]
    have hblock : ∀ os : Os, run (
          (MonadLiftT.monadLift (rotateRight (le32 1194872576 ++ le32 target ++ le32 0) 2) : M (List Nat)) >>= fun upd_12 =>
          (MonadLiftT.monadLift (setIdx upd_12 0 192) : M (List Nat)) >>= fun upd_13 =>
          (MonadLiftT.monadLift (setIdx upd_13 1 70) : M (List Nat)) >>= fun upd_14 =>
          (pure upd_14 : M (List Nat))) os =
        (Res.ok (((A32.rotateRight (le32 1194872576 ++ le32 target ++ le32 0) 2).set 0 192).set 1 70), os) := by
      intro os
      rw [run_bind_lift_ok _ _ _ _ hrot, run_bind_lift_ok _ _ _ _ hs0, run_bind_lift_ok _ _ _ _ hs1, run_pure]
    rw [run_bind_ok _ _ _ _ _ (hblock _)]
    have hlen : (((A32.rotateRight (le32 1194872576 ++ le32 target ++ le32 0) 2).set 0 192).set 1 70).length = 12 := by
      simp [A32.rotateRight, le32]
    rw [run_bind_ok _ _ _ _ _ (T_a32_patch_function mode (src - 1) _ _ tail (by rw [hlen]; omega) (by rw [hlen]; omega))]
    rw [run_bind_ok _ _ _ _ _ (run_extU _ _ _), run_pure, hlen]
    have hm : (A32.patch src target).bytes = ((A32.rotateRight (le32 1194872576 ++ le32 target ++ le32 0) 2).set 0 192).set 1 70 := by
      simp [A32.patch, h2, armThumbWords, A32.wordOf, Nat.mod_eq_of_lt ht, armAlignMod, ca, armRotate, armNop0, armNop1]
    rw [hm]
    simp
end Inj.Tie

#print axioms Inj.Tie.T_a32_inject
#print axioms Inj.Tie.T_a32_region
#print axioms Inj.Tie.T_a32_mprotect
#print axioms Inj.Tie.T_a32_patch_function
#print axioms Inj.Tie.T_a32_read_bytes
#print axioms Inj.Tie.T_a32_patch_arm
#print axioms Inj.Tie.T_a32_patch_thumb
