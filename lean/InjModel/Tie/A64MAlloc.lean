/-
  Tie/A64MAlloc.lean — the macOS / AArch64 allocator (the same source function translated in the macOS
  configuration: `MAP_JIT`, search range 2 GiB) = `Alloc.search` with range 2^31, for every target, page size
  and script of kernel answers; hence C11's clauses for macOS on the translated code.
-/
import InjModel.Tie.Alloc
open Inj Inj.Rt Inj.Alloc

namespace Inj.Tie

def allocFlagsM : Int := Rt.sbor 32 (Rt.sbor 32 (32 : Int) (2 : Int)) (2048 : Int)

def encEvM : AEvent → String × List Val
  | AEvent.mmap hint len _ => ("mmap", [Val.n hint, Val.n len, Val.n allocProt, Val.n allocFlagsM, Val.n (-1), Val.n 0])
  | AEvent.munmap a len => ("munmap", [Val.n a, Val.n len])

theorem T_a64m_alloc_loop (mode : Mode) (src size page : Nat) (h : src + 2147483648 + page < 18446744073709551616) :
    ∀ (answers : List (Option Nat)), (∀ x, some x ∈ answers → x < 18446744073709551615) →
    ∀ (start : Nat) (log : List (String × List Val)) (tail : List Val),
      (loop src 2147483648 page size answers start).1 ≠ AResult.stuck →
      ∃ st', run (GenA64M.allocate_jit_memory_unix_loop1 mode size allocFlagsM 2147483648 src page (answers.length + 1) start)
          { answers := answers.map encAns ++ tail, log := log } =
        (Res.ok (resOf (loop src 2147483648 page size answers start).1, st'),
         { answers := (answers.drop (mmapCount (loop src 2147483648 page size answers start).2)).map encAns ++ tail,
           log := log ++ (loop src 2147483648 page size answers start).2.map encEvM }) := by
  intro answers
  induction answers with
  | nil =>
    intro _ start log tail hns
    have hu : uadd 64 mode src 2147483648 = Res.ok (src + 2147483648) := uadd64_ok _ _ _ (by omega)
    rw [GenA64M.allocate_jit_memory_unix_loop1]
    rw [run_bind_lift_ok _ _ _ _ hu]
    simp only [loop] at hns ⊢
    by_cases c : start ≤ src + 2147483648
    · simp [c] at hns
    · simp only [c, if_false, decide_false]
      exact ⟨start, by simp [run_pure, resOf, mmapCount]⟩
  | cons ans rest ih =>
    intro hfresh start log tail hns
    have hu : uadd 64 mode src 2147483648 = Res.ok (src + 2147483648) := uadd64_ok _ _ _ (by omega)
    have hrest : ∀ x, some x ∈ rest → x < 18446744073709551615 := fun x hx => hfresh x (by simp [hx])
    rw [show (ans :: rest).length + 1 = (rest.length + 1) + 1 from rfl]
    rw [GenA64M.allocate_jit_memory_unix_loop1]
    rw [run_bind_lift_ok _ _ _ _ hu]
    by_cases c : start ≤ src + 2147483648
    · have hup : uadd 64 mode start page = Res.ok (start + page) := uadd64_ok _ _ _ (by omega)
      simp only [c, decide_true, if_true, List.map_cons, List.cons_append]
      cases ans with
      | none =>
        simp only [loop, c, if_true] at hns ⊢
        simp only [encAns]
        rw [run_bind_ok _ _ _ _ _ (run_extN_cons _ _ _ _ _)]
        have e1 : ((18446744073709551615 : Int).toNat != 18446744073709551615) = false := by decide
        simp only [e1, Bool.false_eq_true, if_false]
        rw [run_bind_lift_ok _ _ _ _ hup]
        obtain ⟨st', hst⟩ := ih hrest (start + page) (log ++ [("mmap", [Val.n (Int.ofNat start), Val.n (Int.ofNat size), Val.n (sbor 32 (sbor 32 1 2) 4), Val.n allocFlagsM, Val.n (-1), Val.n 0])]) tail hns
        refine ⟨st', ?_⟩
        rw [hst]
        simp [mmapCount, encEvM, allocProt, List.append_assoc]
      | some a =>
        have ha : a < 18446744073709551615 := hfresh a (by simp)
        simp only [encAns]
        rw [run_bind_ok _ _ _ _ _ (run_extN_cons _ _ _ _ _)]
        have e1 : ((Int.ofNat a).toNat != 18446744073709551615) = true := by
          simp only [Int.toNat_natCast, Int.ofNat_eq_natCast, bne_iff_ne, ne_eq]; omega
        simp only [Int.ofNat_eq_natCast] at e1 ⊢
        simp only [e1, if_true]
        have ead : Rt.absDiff (Int.toNat (a : Int)) src = Alloc.absDiff a src := by
          simp [Rt.absDiff, Alloc.absDiff]
        rw [ead]
        by_cases d : Alloc.absDiff a src < 2147483648
        · simp only [loop, c, d, if_true, decide_true]
          refine ⟨start, ?_⟩
          simp [run_pure, resOf, mmapCount, encEvM, allocProt]
        · simp only [loop, c, d, if_true, if_false, decide_false, Bool.false_eq_true] at hns ⊢
          rw [run_bind_ok _ _ _ _ _ (run_extU _ _ _)]
          rw [run_bind_lift_ok _ _ _ _ hup]
          obtain ⟨st', hst⟩ := ih hrest (start + page) ((log ++ [("mmap", [Val.n (Int.ofNat start), Val.n (Int.ofNat size), Val.n (sbor 32 (sbor 32 1 2) 4), Val.n allocFlagsM, Val.n (-1), Val.n 0])]) ++ [("munmap", [Val.n (Int.ofNat (Int.toNat (a : Int))), Val.n (Int.ofNat size)])]) tail hns
          refine ⟨st', ?_⟩
          simp only [Int.ofNat_eq_natCast] at hst ⊢
          rw [hst]
          simp [mmapCount, encEvM, allocProt, List.append_assoc]
    · simp only [c, decide_false, Bool.false_eq_true, if_false]
      refine ⟨start, ?_⟩
      cases ans <;> simp [loop, c, run_pure, resOf, mmapCount]

/-- `allocate_jit_memory_unix` as translated, run on the kernel's answers (page size from `sysconf`,
    then one answer per hinted `mmap`): it returns what `Alloc.search` returns — the accepted address,
    or the exhaustion panic — after exactly the OS calls `Alloc.search` lists, in that order. -/
theorem T_a64m_alloc (mode : Mode) (src size page : Nat) (h : src + 2147483648 + page < 18446744073709551616)
    (answers : List (Option Nat)) (hA : ∀ x, some x ∈ answers → x < 18446744073709551615)
    (log : List (String × List Val)) (tail : List Val)
    (hns : (search src 2147483648 page size answers).1 ≠ AResult.stuck) :
    run (GenA64M.allocate_jit_memory_unix mode (answers.length + 1) src size)
        { answers := Val.n page :: (answers.map encAns ++ tail), log := log } =
      ((match (search src 2147483648 page size answers).1 with
        | AResult.ok a => Res.ok a
        | _ => Res.panic "Failed to allocate JIT memory within ±m"),
       { answers := (answers.drop (mmapCount (search src 2147483648 page size answers).2)).map encAns ++ tail,
         log := log ++ [("sysconf", [Val.n 30])] ++ (search src 2147483648 page size answers).2.map encEvM }) := by
  have hp : castSU 64 (page : Int) = page := by
    unfold castSU
    have : ((page : Int) % ((2 ^ 64 : Nat) : Int)) = page := by
      have e : (((2:Nat)^64 : Nat) : Int) = 18446744073709551616 := by decide
      rw [e]; omega
    rw [this]; simp
  obtain ⟨st', hst⟩ := T_a64m_alloc_loop mode src size page h answers hA (src - 2147483648)
    (log ++ [("sysconf", [Val.n 30])]) tail hns
  rw [GenA64M.allocate_jit_memory_unix]
  rw [run_bind_ok _ _ _ _ _ (run_extI_cons _ _ _ _ _)]
  simp only [hp, satSub]
  simp only [allocFlagsM] at hst
  rw [run_bind_ok _ _ _ _ _ hst]
  unfold search at hns ⊢
  cases hr : (loop src 2147483648 page size answers (src - 2147483648)).1 with
  | ok a => simp [resOf, run_pure]
  | panic => simp [resOf, run_panicNow]
  | stuck => exact absurd hr hns




/-- C11 read off the translated code: whatever the kernel answers, an address the translated
    allocator returns is strictly within ±2 GiB (the macOS search range) of the target. -/
theorem T_a64m_alloc_sound (mode : Mode) (src size page : Nat) (h : src + 2147483648 + page < 18446744073709551616)
    (answers : List (Option Nat)) (hA : ∀ x, some x ∈ answers → x < 18446744073709551615)
    (log : List (String × List Val)) (tail : List Val)
    (hns : (search src 2147483648 page size answers).1 ≠ AResult.stuck) (a : Nat)
    (hr : (run (GenA64M.allocate_jit_memory_unix mode (answers.length + 1) src size)
        { answers := Val.n page :: (answers.map encAns ++ tail), log := log }).1 = Res.ok a) :
    Alloc.absDiff a src < 2147483648 := by
  rw [T_a64m_alloc mode src size page h answers hA log tail hns] at hr
  have hs := (loop_sound src 2147483648 page size answers (src - 2147483648) [] (by simp)).1
  cases hsr : (search src 2147483648 page size answers).1 with
  | ok b =>
    rw [hsr] at hr
    simp only [Res.ok.injEq] at hr
    subst hr
    exact (hs b (by simpa [search] using hsr)).1
  | panic => rw [hsr] at hr; simp at hr
  | stuck => exact absurd hsr hns


end Inj.Tie
#print axioms Inj.Tie.T_a64m_alloc_loop
#print axioms Inj.Tie.T_a64m_alloc
#print axioms Inj.Tie.T_a64m_alloc_sound
